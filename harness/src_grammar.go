package main

// The source grammar `Src` (DESIGN.md 2.5): what "supported schema" means for the properties
// about generated code. A Defs term is rendered to JSON Schema / OpenAPI / CUE by
// src_render_*.go, documents are drawn from it by src_docs.go. The S-expression printed here is
// parsed by the Lean side; its syntax is frozen in docs/LAB.md.

import (
	"fmt"
	"math"
	"strconv"
	"strings"
)

type SrcKind int

const (
	SAny SrcKind = iota
	SBool
	SString
	SConst
	SInt
	SNum
	SEnumS
	SEnumI
	SArray
	SDict
	SRef
	SStruct
	SOneOfScalars
	SOneOfStructs
	SNullable // (nullable SRC): element position only (array item, dict value); Elem is the inner type
)

var srcKindNames = map[SrcKind]string{SAny: "any", SBool: "bool", SString: "string", SConst: "const", SInt: "int",
	SNum: "num", SEnumS: "enumS", SEnumI: "enumI", SArray: "array", SDict: "dict", SRef: "ref", SStruct: "struct",
	SOneOfScalars: "oneOfScalars", SOneOfStructs: "oneOfStructs", SNullable: "nullable"}

func (k SrcKind) String() string { return srcKindNames[k] }

type Src struct {
	Kind SrcKind

	// string
	MinLen, MaxLen *int64
	DateTime       bool

	// const: string | integer | bool
	Const JV

	// int: Width 8|16|32|64, Signed, Lo/Hi inclusive bounds (absent = nil)
	// num: Width 32|64, FLo/FHi inclusive bounds (multiples of 0.25 in generated terms)
	Width    int
	Signed   bool
	Lo, Hi   *int64
	FLo, FHi *float64

	EnumS []string
	EnumI []int64

	Elem *Src   // array, dict
	Ref  string // ref

	Fields []Field // struct

	Alts []*Src // oneOfScalars

	Disc     string   // oneOfStructs
	Branches []Branch // oneOfStructs
}

type Field struct {
	Name     string
	Ty       *Src
	Required bool
	Nullable bool
	Default  *JV
}

type Branch struct {
	Tag  string
	Name string
}

type Def struct {
	Name string
	Ty   *Src
}

type Defs struct {
	Root  string
	Items []Def
}

func (d *Defs) lookup(name string) *Src {
	for i := range d.Items {
		if d.Items[i].Name == name {
			return d.Items[i].Ty
		}
	}
	return nil
}

func (d *Defs) clone() *Defs {
	out := &Defs{Root: d.Root}
	for _, it := range d.Items {
		out.Items = append(out.Items, Def{it.Name, it.Ty.clone()})
	}
	return out
}

func (s *Src) clone() *Src {
	if s == nil {
		return nil
	}
	c := *s
	cpI := func(p *int64) *int64 {
		if p == nil {
			return nil
		}
		v := *p
		return &v
	}
	cpF := func(p *float64) *float64 {
		if p == nil {
			return nil
		}
		v := *p
		return &v
	}
	c.MinLen, c.MaxLen, c.Lo, c.Hi = cpI(s.MinLen), cpI(s.MaxLen), cpI(s.Lo), cpI(s.Hi)
	c.FLo, c.FHi = cpF(s.FLo), cpF(s.FHi)
	c.Const = s.Const.clone()
	c.EnumS = append([]string(nil), s.EnumS...)
	c.EnumI = append([]int64(nil), s.EnumI...)
	c.Elem = s.Elem.clone()
	c.Fields = nil
	for _, f := range s.Fields {
		nf := f
		nf.Ty = f.Ty.clone()
		if f.Default != nil {
			d := f.Default.clone()
			nf.Default = &d
		}
		c.Fields = append(c.Fields, nf)
	}
	c.Alts = nil
	for _, a := range s.Alts {
		c.Alts = append(c.Alts, a.clone())
	}
	c.Branches = append([]Branch(nil), s.Branches...)
	return &c
}

// ---- constructors (handy for hand-written cases) ----

func i64p(v int64) *int64       { return &v }
func f64p(v float64) *float64   { return &v }
func srcAny() *Src              { return &Src{Kind: SAny} }
func srcBool() *Src             { return &Src{Kind: SBool} }
func srcString() *Src           { return &Src{Kind: SString} }
func srcDateTime() *Src         { return &Src{Kind: SString, DateTime: true} }
func srcConst(v JV) *Src        { return &Src{Kind: SConst, Const: v} }
func srcArray(e *Src) *Src      { return &Src{Kind: SArray, Elem: e} }
func srcDict(e *Src) *Src       { return &Src{Kind: SDict, Elem: e} }
func srcNullable(e *Src) *Src   { return &Src{Kind: SNullable, Elem: e} }
func srcRef(n string) *Src      { return &Src{Kind: SRef, Ref: n} }
func srcEnumS(v ...string) *Src { return &Src{Kind: SEnumS, EnumS: v} }
func srcEnumI(v ...int64) *Src  { return &Src{Kind: SEnumI, EnumI: v} }
func srcStruct(f ...Field) *Src { return &Src{Kind: SStruct, Fields: f} }
func srcInt(width int, signed bool, lo, hi *int64) *Src {
	return &Src{Kind: SInt, Width: width, Signed: signed, Lo: lo, Hi: hi}
}
func srcNum(width int, lo, hi *float64) *Src { return &Src{Kind: SNum, Width: width, FLo: lo, FHi: hi} }
func srcStringLen(min, max *int64) *Src      { return &Src{Kind: SString, MinLen: min, MaxLen: max} }
func srcOneOfScalars(alts ...*Src) *Src      { return &Src{Kind: SOneOfScalars, Alts: alts} }
func srcOneOfStructs(disc string, br ...Branch) *Src {
	return &Src{Kind: SOneOfStructs, Disc: disc, Branches: br}
}
func fld(name string, ty *Src, required, nullable bool, def *JV) Field {
	return Field{Name: name, Ty: ty, Required: required, Nullable: nullable, Default: def}
}
func jvp(v JV) *JV { return &v }

// ---- integer ranges ----

// intRange returns the representable range of an integer type as decimal strings would be too
// clumsy: (min, max) as int64 with max capped at MaxInt64 for uint64 (ok=false signals the cap).
func intTypeRange(width int, signed bool) (lo int64, hi int64, capped bool) {
	if signed {
		switch width {
		case 8:
			return math.MinInt8, math.MaxInt8, false
		case 16:
			return math.MinInt16, math.MaxInt16, false
		case 32:
			return math.MinInt32, math.MaxInt32, false
		}
		return math.MinInt64, math.MaxInt64, false
	}
	switch width {
	case 8:
		return 0, math.MaxUint8, false
	case 16:
		return 0, math.MaxUint16, false
	case 32:
		return 0, math.MaxUint32, false
	}
	return 0, math.MaxInt64, true
}

// effRange: the range of values valid for an int term (type range ∩ [Lo, Hi]); values above
// MaxInt64 (uint64 only) are not drawn by the document generator.
func (s *Src) effRange() (int64, int64) {
	lo, hi, _ := intTypeRange(s.Width, s.Signed)
	if s.Lo != nil && *s.Lo > lo {
		lo = *s.Lo
	}
	if s.Hi != nil && *s.Hi < hi {
		hi = *s.Hi
	}
	return lo, hi
}

// ---- S-expression printer (syntax frozen, see docs/LAB.md) ----

func optI(p *int64) string {
	if p == nil {
		return "-"
	}
	return strconv.FormatInt(*p, 10)
}

func fmtF(f float64) string { return strconv.FormatFloat(f, 'f', -1, 64) }

func optF(p *float64) string {
	if p == nil {
		return "-"
	}
	return fmtF(*p)
}

func (s *Src) sexp() string {
	switch s.Kind {
	case SAny:
		return "(any)"
	case SBool:
		return "(bool)"
	case SString:
		return "(string " + optI(s.MinLen) + " " + optI(s.MaxLen) + " " + virBool(s.DateTime) + ")"
	case SConst:
		return "(const " + s.Const.sexp() + ")"
	case SInt:
		return "(int " + strconv.Itoa(s.Width) + " " + virBool(s.Signed) + " " + optI(s.Lo) + " " + optI(s.Hi) + ")"
	case SNum:
		return "(num " + strconv.Itoa(s.Width) + " " + optF(s.FLo) + " " + optF(s.FHi) + ")"
	case SEnumS:
		parts := []string{"enumS"}
		for _, v := range s.EnumS {
			parts = append(parts, virQuote(v))
		}
		return "(" + strings.Join(parts, " ") + ")"
	case SEnumI:
		parts := []string{"enumI"}
		for _, v := range s.EnumI {
			parts = append(parts, strconv.FormatInt(v, 10))
		}
		return "(" + strings.Join(parts, " ") + ")"
	case SArray:
		return "(array " + s.Elem.sexp() + ")"
	case SDict:
		return "(dict " + s.Elem.sexp() + ")"
	case SNullable:
		return "(nullable " + s.Elem.sexp() + ")"
	case SRef:
		return "(ref " + virQuote(s.Ref) + ")"
	case SStruct:
		parts := []string{"struct"}
		for _, f := range s.Fields {
			d := "-"
			if f.Default != nil {
				d = f.Default.sexp()
			}
			parts = append(parts, "(field "+virQuote(f.Name)+" "+f.Ty.sexp()+" "+virBool(f.Required)+" "+virBool(f.Nullable)+" "+d+")")
		}
		return "(" + strings.Join(parts, " ") + ")"
	case SOneOfScalars:
		parts := []string{"oneOfScalars"}
		for _, a := range s.Alts {
			parts = append(parts, a.sexp())
		}
		return "(" + strings.Join(parts, " ") + ")"
	case SOneOfStructs:
		parts := []string{"oneOfStructs", virQuote(s.Disc)}
		for _, b := range s.Branches {
			parts = append(parts, "("+virQuote(b.Tag)+" "+virQuote(b.Name)+")")
		}
		return "(" + strings.Join(parts, " ") + ")"
	}
	return "(bad)"
}

func (d *Defs) sexp() string {
	parts := []string{"defs", virQuote(d.Root)}
	for _, it := range d.Items {
		parts = append(parts, "("+virQuote(it.Name)+" "+it.Ty.sexp()+")")
	}
	return "(" + strings.Join(parts, " ") + ")"
}

// ---- S-expression parser (inverse of the printer; used for replays and self-tests) ----

func parseDefsSexp(text string) (*Defs, error) {
	n, err := parseSexp(text)
	if err != nil {
		return nil, err
	}
	if n.head() != "defs" || len(n.list) < 2 || !n.list[1].str {
		return nil, fmt.Errorf("expected (defs \"Root\" ...)")
	}
	d := &Defs{Root: n.list[1].atom}
	for _, e := range n.list[2:] {
		if !e.isLst || len(e.list) != 2 || !e.list[0].str {
			return nil, fmt.Errorf("bad definition entry")
		}
		ty, err := srcFromNode(e.list[1])
		if err != nil {
			return nil, fmt.Errorf("%s: %w", e.list[0].atom, err)
		}
		d.Items = append(d.Items, Def{e.list[0].atom, ty})
	}
	return d, nil
}

func nodeOptI(n *sexpNode) (*int64, error) {
	if n.isLst || n.str {
		return nil, fmt.Errorf("expected integer or -")
	}
	if n.atom == "-" {
		return nil, nil
	}
	v, err := strconv.ParseInt(n.atom, 10, 64)
	if err != nil {
		return nil, err
	}
	return &v, nil
}

func nodeOptF(n *sexpNode) (*float64, error) {
	if n.isLst || n.str {
		return nil, fmt.Errorf("expected decimal or -")
	}
	if n.atom == "-" {
		return nil, nil
	}
	v, err := strconv.ParseFloat(n.atom, 64)
	if err != nil {
		return nil, err
	}
	return &v, nil
}

func nodeBool(n *sexpNode) (bool, error) {
	if n.isLst || n.str || (n.atom != "true" && n.atom != "false") {
		return false, fmt.Errorf("expected true|false")
	}
	return n.atom == "true", nil
}

func srcFromNode(n *sexpNode) (*Src, error) {
	if !n.isLst {
		return nil, fmt.Errorf("expected a list, got atom %q", n.atom)
	}
	args := n.list[1:]
	need := func(k int) error {
		if len(args) != k {
			return fmt.Errorf("(%s ...) expects %d arguments, got %d", n.head(), k, len(args))
		}
		return nil
	}
	var err error
	switch n.head() {
	case "any":
		return srcAny(), need(0)
	case "bool":
		return srcBool(), need(0)
	case "string":
		if err := need(3); err != nil {
			return nil, err
		}
		s := &Src{Kind: SString}
		if s.MinLen, err = nodeOptI(args[0]); err != nil {
			return nil, err
		}
		if s.MaxLen, err = nodeOptI(args[1]); err != nil {
			return nil, err
		}
		s.DateTime, err = nodeBool(args[2])
		return s, err
	case "const":
		if err := need(1); err != nil {
			return nil, err
		}
		v, err := jvFromSexpNode(args[0])
		return srcConst(v), err
	case "int":
		if err := need(4); err != nil {
			return nil, err
		}
		s := &Src{Kind: SInt}
		if s.Width, err = strconv.Atoi(args[0].atom); err != nil {
			return nil, err
		}
		if s.Signed, err = nodeBool(args[1]); err != nil {
			return nil, err
		}
		if s.Lo, err = nodeOptI(args[2]); err != nil {
			return nil, err
		}
		s.Hi, err = nodeOptI(args[3])
		return s, err
	case "num":
		if err := need(3); err != nil {
			return nil, err
		}
		s := &Src{Kind: SNum}
		if s.Width, err = strconv.Atoi(args[0].atom); err != nil {
			return nil, err
		}
		if s.FLo, err = nodeOptF(args[1]); err != nil {
			return nil, err
		}
		s.FHi, err = nodeOptF(args[2])
		return s, err
	case "enumS":
		s := &Src{Kind: SEnumS}
		for _, a := range args {
			if !a.str {
				return nil, fmt.Errorf("enumS member must be a string")
			}
			s.EnumS = append(s.EnumS, a.atom)
		}
		return s, nil
	case "enumI":
		s := &Src{Kind: SEnumI}
		for _, a := range args {
			v, err := strconv.ParseInt(a.atom, 10, 64)
			if err != nil {
				return nil, err
			}
			s.EnumI = append(s.EnumI, v)
		}
		return s, nil
	case "array", "dict", "nullable":
		if err := need(1); err != nil {
			return nil, err
		}
		e, err := srcFromNode(args[0])
		if err != nil {
			return nil, err
		}
		switch n.head() {
		case "array":
			return srcArray(e), nil
		case "nullable":
			return srcNullable(e), nil
		}
		return srcDict(e), nil
	case "ref":
		if err := need(1); err != nil {
			return nil, err
		}
		return srcRef(args[0].atom), nil
	case "struct":
		s := &Src{Kind: SStruct}
		for _, a := range args {
			if a.head() != "field" || len(a.list) != 6 || !a.list[1].str {
				return nil, fmt.Errorf("bad (field ...)")
			}
			f := Field{Name: a.list[1].atom}
			if f.Ty, err = srcFromNode(a.list[2]); err != nil {
				return nil, err
			}
			if f.Required, err = nodeBool(a.list[3]); err != nil {
				return nil, err
			}
			if f.Nullable, err = nodeBool(a.list[4]); err != nil {
				return nil, err
			}
			if !(!a.list[5].isLst && !a.list[5].str && a.list[5].atom == "-") {
				v, err := jvFromSexpNode(a.list[5])
				if err != nil {
					return nil, err
				}
				f.Default = &v
			}
			s.Fields = append(s.Fields, f)
		}
		return s, nil
	case "oneOfScalars":
		s := &Src{Kind: SOneOfScalars}
		for _, a := range args {
			e, err := srcFromNode(a)
			if err != nil {
				return nil, err
			}
			s.Alts = append(s.Alts, e)
		}
		return s, nil
	case "oneOfStructs":
		if len(args) < 1 || !args[0].str {
			return nil, fmt.Errorf("bad oneOfStructs")
		}
		s := &Src{Kind: SOneOfStructs, Disc: args[0].atom}
		for _, a := range args[1:] {
			if !a.isLst || len(a.list) != 2 {
				return nil, fmt.Errorf("bad oneOfStructs branch")
			}
			s.Branches = append(s.Branches, Branch{a.list[0].atom, a.list[1].atom})
		}
		return s, nil
	}
	return nil, fmt.Errorf("unknown Src head %q", n.head())
}

// ---- construct tags: histogram keys, generator switches, renderer notes ----

// walkTags calls f with the construct tags used by a Defs (one call per occurrence).
func (d *Defs) walkTags(f func(tag string)) {
	for idx, it := range d.Items {
		if it.Ty.Kind != SStruct {
			f("def." + it.Ty.Kind.String())
		}
		d.walkTy(it.Ty, idx, f)
	}
}

func (d *Defs) defIndex(name string) int {
	for i := range d.Items {
		if d.Items[i].Name == name {
			return i
		}
	}
	return -1
}

func (d *Defs) walkTy(s *Src, defIdx int, f func(string)) {
	switch s.Kind {
	case SAny, SBool, SEnumS, SEnumI:
		f(s.Kind.String())
	case SString:
		f("string")
		if s.MinLen != nil {
			f("string.minLen")
		}
		if s.MaxLen != nil {
			f("string.maxLen")
		}
		if s.DateTime {
			f("string.dateTime")
		}
	case SConst:
		switch s.Const.K {
		case 's':
			f("const.string")
		case 'n':
			f("const.int")
		default:
			f("const.bool")
		}
	case SInt:
		f("int")
		sg := "i"
		if !s.Signed {
			sg = "u"
			f("int.unsigned")
		}
		f("int." + sg + strconv.Itoa(s.Width))
		if s.Lo != nil || s.Hi != nil {
			f("int.bounds")
		}
	case SNum:
		f("num")
		f("num.f" + strconv.Itoa(s.Width))
		if s.FLo != nil || s.FHi != nil {
			f("num.bounds")
		}
	case SArray:
		f("array")
		f("array.of." + s.Elem.Kind.String())
		d.walkTy(s.Elem, defIdx, f)
	case SDict:
		f("dict")
		f("dict.of." + s.Elem.Kind.String())
		d.walkTy(s.Elem, defIdx, f)
	case SNullable:
		f("elem.nullable")
		f("elem.nullable." + s.Elem.Kind.String())
		d.walkTy(s.Elem, defIdx, f)
	case SRef:
		f("ref")
		if t := d.lookup(s.Ref); t != nil {
			f("ref.to." + t.Kind.String())
			if j := d.defIndex(s.Ref); j >= 0 && j <= defIdx {
				f("ref.recursive")
			}
		} else {
			f("ref.dangling")
		}
	case SStruct:
		f("struct")
		if len(s.Fields) == 0 {
			f("struct.empty")
		}
		for _, fl := range s.Fields {
			if fl.Ty.Kind == SStruct {
				f("struct.nested")
			}
			switch {
			case !fl.Required && fl.Nullable:
				f("field.optional+nullable")
			case !fl.Required:
				f("field.optional")
			case fl.Nullable:
				f("field.required+nullable")
			default:
				f("field.required")
			}
			if fl.Nullable {
				f("nullable." + fl.Ty.Kind.String())
			}
			if fl.Default != nil {
				f("default." + d.defaultTag(fl.Ty, *fl.Default))
				if fl.Required {
					f("default.onRequired")
				}
			}
			d.walkTy(fl.Ty, defIdx, f)
		}
	case SOneOfScalars:
		f("oneOfScalars")
		if d.srcEnumLikeUnion(s) {
			f("union.consts")
		}
		for _, a := range s.Alts {
			d.walkTy(a, defIdx, f)
		}
	case SOneOfStructs:
		f("oneOfStructs")
	}
}

// defaultTag classifies a default by the type of the field it sits on.
func (d *Defs) defaultTag(ty *Src, v JV) string {
	t := ty
	via := ""
	if t.Kind == SRef {
		if r := d.lookup(t.Ref); r != nil {
			t = r
			via = "ref."
		}
	}
	switch t.Kind {
	case SBool:
		return via + "bool"
	case SInt:
		return via + "int"
	case SNum:
		return via + "num"
	case SString:
		return via + "string"
	case SEnumS, SEnumI:
		return via + "enum"
	case SArray:
		return via + "list"
	case SStruct:
		return via + "struct"
	case SOneOfScalars:
		return via + "union"
	case SDict:
		return via + "dict"
	}
	return via + t.Kind.String()
}

func (d *Defs) tagSet() map[string]int {
	h := map[string]int{}
	d.walkTags(func(t string) { h[t]++ })
	return h
}

// ---- well-formedness (what the generator guarantees; checked on hand-written input) ----

func (d *Defs) wf() error {
	if d.lookup(d.Root) == nil {
		return fmt.Errorf("root %q is not defined", d.Root)
	}
	seen := map[string]bool{}
	for _, it := range d.Items {
		if seen[it.Name] {
			return fmt.Errorf("duplicate definition %q", it.Name)
		}
		seen[it.Name] = true
	}
	var chk func(s *Src, inStructField bool) error
	chk = func(s *Src, top bool) error {
		switch s.Kind {
		case SRef:
			if d.lookup(s.Ref) == nil {
				return fmt.Errorf("dangling ref %q", s.Ref)
			}
		case SArray, SDict:
			if s.Elem.Kind == SNullable {
				switch s.Elem.Elem.Kind {
				case SNullable, SAny, SArray, SDict, SOneOfScalars, SOneOfStructs:
					return fmt.Errorf("nullable element of kind %s is not in the grammar", s.Elem.Elem.Kind)
				}
				return chk(s.Elem.Elem, false)
			}
			return chk(s.Elem, false)
		case SNullable:
			return fmt.Errorf("(nullable …) is only allowed as array item or dict value (use the field's nullable flag)")
		case SStruct:
			names := map[string]bool{}
			for _, f := range s.Fields {
				if names[f.Name] {
					return fmt.Errorf("duplicate field %q", f.Name)
				}
				names[f.Name] = true
				if err := chk(f.Ty, false); err != nil {
					return fmt.Errorf("%s: %w", f.Name, err)
				}
			}
		case SOneOfScalars:
			if len(s.Alts) == 0 {
				return fmt.Errorf("oneOfScalars without alternatives")
			}
			for _, a := range s.Alts {
				if err := chk(a, false); err != nil {
					return err
				}
			}
		case SOneOfStructs:
			if len(s.Branches) == 0 {
				return fmt.Errorf("oneOfStructs without branches")
			}
			for _, b := range s.Branches {
				t := d.lookup(b.Name)
				if t == nil || t.Kind != SStruct {
					return fmt.Errorf("oneOfStructs branch %q is not a struct definition", b.Name)
				}
				ok := false
				for _, f := range t.Fields {
					if f.Name == s.Disc && f.Ty.Kind == SConst && f.Ty.Const.K == 's' && f.Ty.Const.S == b.Tag && f.Required {
						ok = true
					}
				}
				if !ok {
					return fmt.Errorf("branch %q lacks required field %q = const %q", b.Name, s.Disc, b.Tag)
				}
			}
		case SEnumS:
			if len(s.EnumS) == 0 {
				return fmt.Errorf("empty enumS")
			}
		case SEnumI:
			if len(s.EnumI) == 0 {
				return fmt.Errorf("empty enumI")
			}
		}
		return nil
	}
	for _, it := range d.Items {
		if err := chk(it.Ty, true); err != nil {
			return fmt.Errorf("%s: %w", it.Name, err)
		}
	}
	// alias cycles: a definition whose type is a bare ref chain back to itself
	for _, it := range d.Items {
		cur, n := it.Ty, 0
		for cur != nil && cur.Kind == SRef {
			cur = d.lookup(cur.Ref)
			if n++; n > len(d.Items) {
				return fmt.Errorf("alias cycle through %q", it.Name)
			}
		}
	}
	return nil
}

// unwrap looks through an element-level (nullable …) wrapper.
func (s *Src) unwrap() (*Src, bool) {
	if s != nil && s.Kind == SNullable {
		return s.Elem, true
	}
	return s, false
}

// resolve follows bare references (it does NOT look through (nullable …), see unwrap).
func (d *Defs) resolve(s *Src) *Src {
	for n := 0; s != nil && s.Kind == SRef && n <= len(d.Items); n++ {
		s = d.lookup(s.Ref)
	}
	return s
}
