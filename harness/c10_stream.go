package main

// C10 streams: default constructors of freshly generated Go and Python code (real pipeline, real
// compiler / interpreter), next to the Lean models `godefaults` / `pydefaults` and the property's
// own oracle, which is computed from the SOURCE term: every member declared with a default (or as
// a constant) must hold exactly that value in the JSON of `New<X>()` and of `X()`.
//
// rows:  defschemas <case>.go|.py <post-chain IR of the language as VIR>   \t ok \t ok
//        godefaults <case>.go <pkg> *        \t ok | cerr          \t oracle (the package must compile)
//        pydefaults <case>.py <pkg> *        \t ok | synerr        \t oracle (the module must import)
//        godefaults <case>.go <pkg> <object> \t ok <json> | …      \t oracle verdict for one member
//        pydefaults <case>.py <pkg> <object> \t ok <json> | …      \t oracle verdict for one member
//        -                                   \t info               \t ok
// One row per failing member (the request is repeated), so that every failure is classified on
// its own:  FAIL lang=go|py class=dropped|altered|retyped|compile|import|error format=… kind=<value type>
//           path=<Object.member> expected=<json> got=<json|absent> peer=<the other language's value>

import (
	"bufio"
	"fmt"
	"os"
	"regexp"
	"sort"
	"strings"
)

// c10Expect is one declared default / constant of the source term.
type c10Expect struct {
	Object string // source definition (= IR object) whose constructor is looked at
	Path   string // member path inside the constructor's JSON: a.b
	Kind   string // bool int num string enum list struct union const … (+ "ref." prefix, "+nullable")
	Want   JV
	Flags  string
	Ty     *Src // declared type of the member (nil for configured defaults on unknown members)
}

func c10Kind(d *Defs, f Field) string {
	if f.Default == nil {
		return "const"
	}
	k := d.defaultTag(f.Ty, *f.Default)
	if _, _, ok := c10ConstDisj(f.Ty); ok {
		// a constant and its own open type (`"utc" | string | *"browser"`): the Go chain collapses it
		// into one scalar instead of generating a union struct
		k = "samekind-union"
	}
	if f.Nullable {
		k += "+nullable"
	}
	if rt := d.resolve(f.Ty); rt != nil && rt.Kind == SArray && rt.Elem != nil {
		switch rt.Elem.Kind {
		case SString:
			k += ".ofStrings"
		case SInt, SNum:
			k += ".ofNumbers"
		case SBool:
			k += ".ofBools"
		default:
			k += ".ofOther"
		}
		if len(f.Default.A) == 0 {
			k += ".empty"
		}
	}
	if f.Default.K == 'a' && len(f.Default.A) == 0 && !strings.HasSuffix(k, ".empty") {
		k += ".empty"
	}
	if f.Default.K == 'n' {
		if c := canonNumber(f.Default.S); len(strings.TrimLeft(c, "-")) > 15 && !strings.Contains(c, ".") {
			k += ".huge"
		}
	}
	if f.Default.K == 'o' {
		for _, m := range f.Default.O {
			if m.V.K == 'o' {
				k += ".nested"
				break
			}
		}
	}
	if f.Ty.Kind != SRef && (f.Ty.Kind == SEnumS || f.Ty.Kind == SEnumI || f.Ty.Kind == SStruct) {
		k += ".inline"
	}
	return k
}

// c10Expectations lists what the property demands of the constructors of a source term.
// c10ConstDisj: the member type reads "this constant, or any value of its type" — what the
// disjunction_with_constant_to_default pass turns into a scalar whose default is the constant.
func c10ConstDisj(t *Src) (JV, string, bool) {
	if t == nil || t.Kind != SOneOfScalars || len(t.Alts) != 2 {
		return JV{}, "", false
	}
	for i, a := range t.Alts {
		b := t.Alts[1-i]
		if a.Kind != SConst {
			continue
		}
		pos := "first"
		if i == 1 {
			pos = "last"
		}
		switch {
		case a.Const.K == 's' && b.Kind == SString && !b.DateTime:
			return a.Const, pos + ".string", true
		case a.Const.K == 'n' && b.Kind == SInt && b.Width == 64 && b.Signed:
			return a.Const, pos + ".int", true
		case (a.Const.K == 't' || a.Const.K == 'f') && b.Kind == SBool:
			return a.Const, pos + ".bool", true
		}
	}
	return JV{}, "", false
}

func c10JSONKind(v JV) string {
	switch v.K {
	case 't', 'f':
		return "bool"
	case 'n':
		if strings.ContainsAny(v.S, ".eE") {
			return "num"
		}
		return "int"
	case 's':
		return "string"
	case 'a':
		return "list"
	case 'o':
		return "struct"
	}
	return "null"
}

// c10Expectations lists what the property demands of the constructors of a source term generated
// with the term's configured transformations, in one input format.
func c10Expectations(d *Defs, t c10Term, format string) []c10Expect {
	var out []c10Expect
	var walk func(obj, prefix string, s *Src, depth int)
	walk = func(obj, prefix string, s *Src, depth int) {
		if s == nil || s.Kind != SStruct || depth > 4 {
			return
		}
		for _, f := range s.Fields {
			p := prefix + f.Name
			flags := "optional"
			if f.Required {
				flags = "required"
			}
			if cfg, ok := t.Config[obj+"."+p]; ok {
				v := mustJV(cfg)
				out = append(out, c10Expect{obj, p, "config." + c10JSONKind(v), v, flags, f.Ty})
				continue
			}
			if cv, ck, ok := c10ConstDisj(f.Ty); ok && t.CDD && !f.Nullable {
				// OpenAPI 3.0 spells a constant string as a pattern; other constants are enums there
				if format != "openapi" || (cv.K == 's' && regexSafeConst(cv.S)) {
					out = append(out, c10Expect{obj, p, "constdisj." + ck, cv, flags, f.Ty})
				}
				continue
			}
			switch {
			case f.Ty.Kind == SConst:
				out = append(out, c10Expect{obj, p, "const", f.Ty.Const, flags, f.Ty})
			case f.Default != nil:
				out = append(out, c10Expect{obj, p, c10Kind(d, f), *f.Default, flags, f.Ty})
			case f.Ty.Kind == SStruct && f.Required && !f.Nullable:
				// inline struct without default: its members show through the parent's constructor
				walk(obj, p+".", f.Ty, depth+1)
			}
		}
	}
	for _, it := range d.Items {
		if it.Ty.Kind == SStruct {
			walk(it.Name, "", it.Ty, 0)
		}
	}
	return out
}

// c10PassesYAML: the transformation file of a term ("" when it configures none)
func c10PassesYAML(t c10Term) string {
	if !t.CDD && len(t.Config) == 0 {
		return ""
	}
	var b strings.Builder
	b.WriteString("passes:\n")
	if t.CDD {
		b.WriteString("  - disjunction_with_constant_to_default: {}\n")
	}
	if len(t.Config) > 0 {
		b.WriteString("  - fields_set_default:\n      defaults:\n")
		keys := make([]string, 0, len(t.Config))
		for k := range t.Config {
			keys = append(keys, k)
		}
		sort.Strings(keys)
		for _, k := range keys {
			fmt.Fprintf(&b, "        \"%%PKG%%.%s\": %s\n", k, t.Config[k])
		}
	}
	return b.String()
}

// c10Augment adds, to a generated term, the constructs that only exist together with configured
// transformations: members of the form `constant | type` (both orders; strings, integers, booleans;
// required and optional) with the disjunction pass, and configured defaults (fields_set_default)
// on plain scalar members of the root.
func c10Augment(d *Defs, idx int, seed uint64, zeroUnionDefaults bool) c10Term {
	t := c10Term{}
	r := newRng(seed*1000003 + uint64(idx)*97 + 11)
	root := d.lookup(d.Root)
	if root == nil || root.Kind != SStruct {
		return t
	}
	taken := map[string]bool{}
	for _, f := range root.Fields {
		taken[strings.ToLower(strings.ReplaceAll(f.Name, "_", ""))] = true
	}
	if idx%3 == 2 {
		// configured defaults on up to two plain members that declare none
		dg := newDocGen(d, r, DocOpts{NoForced: true, Plain: true})
		for _, f := range root.Fields {
			if len(t.Config) >= 2 || f.Default != nil || f.Nullable || !r.chance(60) {
				continue
			}
			switch f.Ty.Kind {
			case SBool, SInt, SNum, SString:
				if f.Ty.Kind == SString && f.Ty.DateTime || oneValued(f.Ty) {
					continue
				}
				if t.Config == nil {
					t.Config = map[string]string{}
				}
				t.Config[d.Root+"."+f.Name] = dg.val(f.Ty, 0).json()
			}
		}
	}
	if idx%2 == 0 {
		t.CDD = true
		consts := []JV{jStr("auto"), jStr(""), jInt(30), jInt(0), jInt(-7), jBool(true), jBool(false)}
		n := 2 + r.intn(2)
		for k := 0; k < n; k++ {
			cv := consts[r.intn(len(consts))]
			var open *Src
			switch cv.K {
			case 's':
				open = srcString()
			case 'n':
				open = srcInt(64, true, nil, nil)
			default:
				open = srcBool()
			}
			alts := []*Src{srcConst(cv), open}
			if r.chance(50) {
				alts = []*Src{open, srcConst(cv)}
			}
			name := fmt.Sprintf("zzMode%d", k)
			if taken[strings.ToLower(name)] {
				continue
			}
			root.Fields = append(root.Fields, Field{Name: name, Ty: srcOneOfScalars(alts...), Required: r.chance(60)})
		}
	}
	// string constants with punctuation / non-ASCII letters (OpenAPI, and JSON Schema in the
	// `pattern` spelling, declare them as `^literal$`)
	literals := []string{"°C", "job=api", "a,b@c", "50%", "données", "hello world!", "x:y-z_w", "#tag", "mV~", "q&a"}
	for k := 0; k < 1+r.intn(2); k++ {
		name := fmt.Sprintf("zzUnit%d", k)
		if !taken[strings.ToLower(name)] {
			root.Fields = append(root.Fields, Field{Name: name, Ty: srcConst(jStr(literals[r.intn(len(literals))])), Required: r.chance(70)})
		}
	}
	t.Pattern = idx%2 == 1
	if idx%2 == 1 {
		// a constant, its own open type, and a default of its own (CUE: `"utc" | string | *"browser"`)
		for k := 0; k < 1+r.intn(2); k++ {
			name := fmt.Sprintf("zzZone%d", k)
			if taken[strings.ToLower(name)] {
				continue
			}
			var alts []*Src
			var dv JV
			if r.chance(50) {
				alts, dv = []*Src{srcConst(jStr("utc")), srcString()}, jStr([]string{"browser", "", "Europe/Paris"}[r.intn(3)])
			} else {
				alts, dv = []*Src{srcConst(jInt(0)), srcInt(64, true, nil, nil)}, jInt([]int64{3, -1, 60}[r.intn(3)])
			}
			if r.chance(50) {
				alts[0], alts[1] = alts[1], alts[0]
			}
			req := r.chance(50)
			if !zeroUnionDefaults && (dv.S == "" || dv.S == "0") {
				req = true // an optional one with a zero-valued default is omitted by Go (recorded finding)
			}
			root.Fields = append(root.Fields, Field{Name: name, Ty: srcOneOfScalars(alts...), Required: req, Default: &dv})
		}
	}
	if idx%4 == 3 && d.lookup("ZzSort") == nil && d.lookup("ZzLegend") == nil {
		// one enum and one struct definition, each referred to several times with a different
		// default at every reference; in CUE they live in an imported library that cog inlines
		t.CueLib = true
		members := []string{"asc", "desc", "none"}
		d.Items = append(d.Items,
			Def{"ZzSort", srcEnumS(members...)},
			Def{"ZzLegend", srcStruct(
				fld("placement", srcString(), false, false, jvp(jStr("bottom"))),
				fld("showLegend", srcBool(), false, false, jvp(jBool(true))),
				fld("width", srcInt(64, true, nil, nil), false, false, jvp(jInt(120))),
				// member names that must be quoted in CUE, and a union-typed member
				fld("content-type", srcString(), false, false, jvp(jStr("text/plain"))),
				fld("x-retry-count", srcInt(64, true, nil, nil), false, false, nil),
				fld("value", srcOneOfScalars(srcString(), srcInt(64, true, nil, nil)), false, false, nil))})
		places := []string{"right", "top", "left", ""}
		for k := 0; k < 2+r.intn(2); k++ {
			mv := jStr(members[(k+r.intn(2))%3])
			root.Fields = append(root.Fields, Field{Name: fmt.Sprintf("zzSort%d", k), Ty: srcRef("ZzSort"), Required: r.chance(50), Default: &mv})
			ov := jObj(kv("placement", jStr(places[r.intn(len(places))])))
			if r.chance(50) {
				ov.O = append(ov.O, JKV{"showLegend", jBool(false)})
			}
			if r.chance(30) {
				ov.O = append(ov.O, JKV{"width", jInt(int64(r.intn(500)))})
			}
			if r.chance(50) {
				ov.O = append(ov.O, JKV{"content-type", jStr([]string{"application/json", "", "a b"}[r.intn(3)])})
			}
			if r.chance(40) {
				ov.O = append(ov.O, JKV{"x-retry-count", jInt(int64(r.intn(7)))})
			}
			if r.chance(60) {
				vals := []JV{jStr("auto"), jStr("9007199254740993"), jInt(42), jInt(0), jInt(9007199254740993), jInt(-9007199254740993), jNumText("1234567890123456789")}
				ov.O = append(ov.O, JKV{"value", vals[r.intn(len(vals))]})
			}
			root.Fields = append(root.Fields, Field{Name: fmt.Sprintf("zzLegend%d", k), Ty: srcRef("ZzLegend"), Required: r.chance(50), Default: &ov})
		}
	}
	return t
}

func c10At(v JV, path string) (JV, bool) {
	cur := v
	for _, k := range strings.Split(path, ".") {
		if cur.K != 'o' {
			return JV{}, false
		}
		next, ok := cur.get(k)
		if !ok {
			return JV{}, false
		}
		cur = next
	}
	return cur, true
}

// c10Holds: the constructor value holds the declared default: objects by containment of the
// declared members (a struct default is a partial override), everything else by canonical equality.
func c10Holds(want, got JV) bool {
	if want.K == 'o' {
		if got.K != 'o' {
			return false
		}
		for _, m := range want.O {
			g, ok := got.get(m.K)
			if !ok || !c10Holds(m.V, g) {
				return false
			}
		}
		return true
	}
	if want.K == 'a' {
		if got.K != 'a' || len(want.A) != len(got.A) {
			return false
		}
		for i := range want.A {
			if !c10Holds(want.A[i], got.A[i]) {
				return false
			}
		}
		return true
	}
	return canonJSON([]byte(want.json())) == canonJSON([]byte(got.json()))
}

func c10SameType(a, b JV) bool {
	ka, kb := a.K, b.K
	if ka == 't' || ka == 'f' {
		ka = 'b'
	}
	if kb == 't' || kb == 'f' {
		kb = 'b'
	}
	if ka != kb {
		return false
	}
	if ka == 'a' {
		for i := range a.A {
			if i < len(b.A) && !c10SameType(a.A[i], b.A[i]) {
				return false
			}
		}
	}
	return true
}

var c10Ident = regexp.MustCompile(`^[A-Za-z_][A-Za-z0-9_]*$`)

// c10Via names, for a struct default that is not held, the MECHANISM class of every overridden
// member that went wrong, from the source term only: how the member is named and typed in the
// struct the default belongs to (" via=a,b" or "" for defaults that are not structs).
func c10Via(d *Defs, e c10Expect, reply string) string {
	if e.Want.K != 'o' || e.Ty == nil {
		return ""
	}
	st := d.resolve(e.Ty)
	if st == nil || st.Kind != SStruct {
		return " via=not-a-struct"
	}
	var got JV
	if strings.HasPrefix(reply, "ok ") {
		if v, err := parseJV([]byte(reply[3:])); err == nil {
			got, _ = c10At(v, e.Path)
		}
	}
	tags := map[string]int{}
	for _, m := range e.Want.O {
		if g, ok := got.get(m.K); got.K == 'o' && ok && c10Holds(m.V, g) {
			continue
		}
		var mt *Src
		for _, f := range st.Fields {
			if f.Name == m.K {
				mt = f.Ty
			}
		}
		tag := "plain-member"
		switch rt := d.resolve(mt); {
		case mt == nil:
			tag = "unknown-member"
		case !c10Ident.MatchString(m.K):
			tag = "quoted-key"
		case rt != nil && (rt.Kind == SEnumS || rt.Kind == SEnumI) && mt.Kind == SRef:
			tag = "enum-ref-member"
		case rt != nil && (rt.Kind == SEnumS || rt.Kind == SEnumI):
			tag = "enum-inline-member"
		case rt != nil && rt.Kind == SConst:
			tag = "const-member"
		case rt != nil && (rt.Kind == SOneOfScalars || rt.Kind == SOneOfStructs):
			tag = "union-member"
		case rt != nil && rt.Kind == SStruct:
			tag = "struct-member"
		case rt != nil && (rt.Kind == SArray || rt.Kind == SDict):
			tag = "collection-member"
		}
		tags[tag]++
	}
	if len(tags) == 0 {
		return " via=whole-value"
	}
	return " via=" + strings.Join(labSortedKeys(tags), ",")
}

func c10Short(s string) string {
	if len(s) > 120 {
		return s[:120] + "…"
	}
	return s
}

// c10Judge: verdict for one expectation against one language's reply.
func c10Judge(e c10Expect, reply string) (class string, got string) {
	if !strings.HasPrefix(reply, "ok ") {
		return "error", c10Short(labOneLine(reply))
	}
	v, err := parseJV([]byte(reply[3:]))
	if err != nil {
		return "error", "invalid-json"
	}
	g, ok := c10At(v, e.Path)
	if !ok || g.isNull() {
		if ok {
			return "dropped", "null"
		}
		return "dropped", "absent"
	}
	if c10Holds(e.Want, g) {
		return "", g.json()
	}
	if !c10SameType(e.Want, g) {
		return "retyped", c10Short(g.json())
	}
	return "altered", c10Short(g.json())
}

var c10DefaultDiag = regexp.MustCompile(`struct literal|untyped (float|int|string|bool) constant|undefined: unknown|array or slice literal|in argument to \(func|map\[string\]interface`)

var c10LineNo = regexp.MustCompile(`line (\d+)`)

// c10PyLine: the source line a Python import error points at
func c10PyLine(c *LabCase) string {
	m := c10LineNo.FindStringSubmatch(c.PyImportErr)
	if m == nil {
		return "-"
	}
	n := 0
	fmt.Sscanf(m[1], "%d", &n)
	lines := strings.Split(string(c.Files["python/models/"+c.ID+".py"]), "\n")
	if n < 1 || n > len(lines) {
		return "-"
	}
	return strings.TrimSpace(lines[n-1])
}

type c10Term struct {
	ID      string // pinned id ("" for generated terms)
	Src     string
	Degrade int
	Formats []string
	// configured schema transformations (cog `passes:` file) the case is generated with
	Pattern bool // JSON Schema: string constants spelled as `pattern: ^literal$`
	CueLib  bool // CUE: definitions moved to an imported library, inlined (InlineExternalReference)
	CDD    bool              // disjunction_with_constant_to_default: `"auto" | string` declares the default "auto"
	Config map[string]string // fields_set_default: "Object.field" → JSON text of the default
	Text    map[string]string // hand-written schema text per format (constructs the renderers do not print)
}

// c10Pinned: hand-written terms that pin each confirmed deviation (and each construct that must keep
// working) — see /verif/.work/proposed_findings_C10.json; every one is replayed on every run.
var c10Pinned = []c10Term{
	{ID: "scalars", Degrade: 1, Src: `(defs "Root" ("Root" (struct (field "b" (bool) false false true) (field "bf" (bool) true false false) (field "i" (int 64 true - -) false false (n "-3")) (field "z" (int 64 true - -) false false (n "0")) (field "ir" (int 32 true - -) true false (n "7")) (field "f" (num 64 - -) false false (n "2.5")) (field "fi" (num 64 - -) true false (n "3")) (field "fl" (num 64 - -) false false (n "1000000")) (field "s" (string - - false) false false (s "hey")) (field "zs" (string - - false) false false (s "")) (field "sq" (string - - false) true false (s "a\"b\\c")) (field "c" (const (s "fixed")) true false -) (field "ci" (const (n "-47")) false false -))))`},
	{ID: "const-int", Degrade: 1, Src: `(defs "Root" ("Root" (struct (field "cr" (const (n "75")) true false -) (field "co" (const (n "-47")) false false -) (field "cs" (const (s "fixed")) true false -))))`},
	{ID: "const-punctuation", Degrade: 1, Pattern: true, Src: `(defs "Root" ("Root" (struct (field "u" (const (s "°C")) true false -) (field "j" (const (s "job=api")) true false -) (field "p" (const (s "a,b@c#d%e!")) false false -) (field "w" (const (s "données")) true false -) (field "sp" (const (s "hello world")) true false -) (field "m" (const (s "math")) true false -))))`},
	{ID: "struct-ref-quoted-member-names", Degrade: 1, Src: `(defs "Root" ("Root" (struct (field "h" (ref "Headers") false false (o ("content-type" (s "application/json")) ("x-retry-count" (n "3")))) (field "h2" (ref "Headers") true false (o ("x-retry-count" (n "0")) ("plain" true))))) ("Headers" (struct (field "content-type" (string - - false) false false (s "text/plain")) (field "x-retry-count" (int 64 true - -) false false -) (field "plain" (bool) false false -))))`},
	{ID: "struct-ref-union-member-bigint", Degrade: 1, Src: `(defs "Root" ("Root" (struct (field "big" (ref "S") false false (o ("value" (n "9007199254740993")))) (field "neg" (ref "S") true false (o ("value" (n "-9223372036854775807")))) (field "small" (ref "S") false false (o ("value" (n "42")))) (field "txt" (ref "S") false false (o ("value" (s "9007199254740993")))))) ("S" (struct (field "value" (oneOfScalars (string - - false) (int 64 true - -)) true false -) (field "p" (bool) false false -))))`},
	{ID: "samekind-union-zero-default", Degrade: 1, Formats: []string{"cue"}, Src: `(defs "Root" ("Root" (struct (field "tz" (oneOfScalars (const (s "utc")) (string - - false)) false false (s "")) (field "n" (oneOfScalars (const (n "7")) (int 64 true - -)) false false (n "0")))))`},
	{ID: "samekind-union-default", Degrade: 1, Formats: []string{"cue"}, Src: `(defs "Root" ("Root" (struct (field "tz" (oneOfScalars (const (s "utc")) (string - - false)) false false (s "browser")) (field "n" (oneOfScalars (const (n "0")) (int 64 true - -)) true false (n "3")) (field "tl" (oneOfScalars (string - - false) (const (s "utc"))) true false (s "x")))))`},
	{ID: "imported-types-reused", Degrade: 1, Formats: []string{"cue"}, CueLib: true, Src: `(defs "Root" ("Root" (struct (field "sort" (ref "SortOrder") true false (s "asc")) (field "legend" (ref "LegendOptions") true false (o ("placement" (s "right")))) (field "tooltipSort" (ref "SortOrder") true false (s "desc")) (field "tooltipLegend" (ref "LegendOptions") false false (o ("placement" (s "top")) ("showLegend" false))) (field "thirdSort" (ref "SortOrder") false false (s "none")))) ("SortOrder" (enumS "asc" "desc" "none")) ("LegendOptions" (struct (field "placement" (string - - false) false false (s "bottom")) (field "showLegend" (bool) false false true) (field "width" (int 64 true - -) false false (n "120")))))`},
	{ID: "negative-single-enum", Degrade: 1, Formats: []string{"cue"}, Src: `(defs "Root" ("Root" (struct (field "e" (ref "E") false false (n "-1")) (field "two" (ref "E2") false false (n "-2")))) ("E" (enumI -1)) ("E2" (enumI -1 -2)))`},
	{ID: "constant-disjunction", Degrade: 1, CDD: true, Src: `(defs "Root" ("Root" (struct (field "mf" (oneOfScalars (const (s "auto")) (string - - false)) true false -) (field "ml" (oneOfScalars (string - - false) (const (s "auto"))) true false -) (field "nf" (oneOfScalars (const (n "30")) (int 64 true - -)) false false -) (field "nl" (oneOfScalars (int 64 true - -) (const (n "30"))) true false -) (field "bf" (oneOfScalars (const true) (bool)) false false -) (field "zf" (oneOfScalars (const (n "0")) (int 64 true - -)) false false -))))`},
	{ID: "configured-defaults", Degrade: 1, Config: map[string]string{"Root.i": "42", "Root.s": `"cfg"`, "Root.b": "true", "Root.f": "1.5", "Root.z": "0", "Root.o": "7"},
		Src: `(defs "Root" ("Root" (struct (field "i" (int 64 true - -) false false -) (field "s" (string - - false) true false -) (field "b" (bool) false false -) (field "f" (num 64 - -) false false -) (field "z" (int 64 true - -) false false -) (field "o" (int 64 true - -) false false (n "3")))))`},
	{ID: "zero-valued-defaults", Degrade: 1, Src: `(defs "Root" ("Root" (struct (field "zb" (bool) false false false) (field "zi" (int 64 true - -) false false (n "0")) (field "zf" (num 64 - -) false false (n "0")) (field "zs" (string - - false) false false (s "")) (field "rb" (bool) true false false) (field "ri" (int 32 true - -) true false (n "0")) (field "rs" (string - - false) true false (s "")) (field "ze" (ref "EI") false false (n "0")) (field "zl" (array (string - - false)) true false (a (s ""))))) ("EI" (enumI 0 1)))`},
	{ID: "nullable-scalar", Degrade: 1, Src: `(defs "Root" ("Root" (struct (field "st" (string - - false) false true (s "hey")) (field "n" (int 64 true - -) false true (n "4")))))`},
	{ID: "list-of-strings", Degrade: 1, Src: `(defs "Root" ("Root" (struct (field "l" (array (string - - false)) false false (a (s "a") (s "b"))) (field "lr" (array (string - - false)) true false (a (s "x"))))))`},
	{ID: "list-of-ints", Degrade: 1, Src: `(defs "Root" ("Root" (struct (field "li" (array (int 64 true - -)) false false (a (n "1") (n "2"))))))`},
	{ID: "list-of-bools", Degrade: 1, Src: `(defs "Root" ("Root" (struct (field "lb" (array (bool)) true false (a true false)))))`},
	{ID: "list-empty", Degrade: 1, Src: `(defs "Root" ("Root" (struct (field "le" (array (string - - false)) false false (a)))))`},
	{ID: "enum-ref", Degrade: 1, Src: `(defs "Root" ("Root" (struct (field "e" (ref "E") false false (s "b")) (field "ei" (ref "EI") true false (n "2")) (field "en" (ref "E") false true (s "b")))) ("E" (enumS "a" "b")) ("EI" (enumI 1 2)))`},
	{ID: "enum-inline", Degrade: 1, Src: `(defs "Root" ("Root" (struct (field "ie" (enumS "x" "y") false false (s "y")) (field "ii" (enumI 1 2 3) true false (n "2")))))`},
	{ID: "struct-ref-partial", Degrade: 1, Src: `(defs "Root" ("Root" (struct (field "s" (ref "S") false false (o ("p" (s "x")))) (field "sr" (ref "S") true false (o ("q" (n "5")) ("r" true))))) ("S" (struct (field "p" (string - - false) false false (s "dflt")) (field "q" (int 64 true - -) false false -) (field "r" (bool) true false -))))`},
	{ID: "struct-ref-nested-override", Degrade: 1, Src: `(defs "Root" ("Root" (struct (field "n" (ref "T") false false (o ("inner" (o ("p" (s "deep")))) ("k" (n "3")))))) ("T" (struct (field "inner" (ref "S") true false -) (field "k" (int 64 true - -) false false -))) ("S" (struct (field "p" (string - - false) false false (s "dflt")) (field "q" (int 64 true - -) false false -))))`},
	{ID: "struct-ref-enum-member", Degrade: 1, Src: `(defs "Root" ("Root" (struct (field "se" (ref "S") false false (o ("e" (s "y")))))) ("S" (struct (field "e" (enumS "x" "y") false false -) (field "p" (bool) false false -))))`},
	{ID: "struct-ref-named-enum-member", Degrade: 1, Src: `(defs "Root" ("Root" (struct (field "se" (ref "S") false false (o ("e" (s "b")))))) ("S" (struct (field "e" (ref "E") true false -) (field "p" (bool) false false -))) ("E" (enumS "a" "b")))`},
	{ID: "struct-ref-union-member", Degrade: 1, Src: `(defs "Root" ("Root" (struct (field "su" (ref "S") false false (o ("u" (s "x")))))) ("S" (struct (field "u" (oneOfScalars (string - - false) (int 64 true - -)) true false -) (field "p" (bool) false false -))))`},
	{ID: "struct-inline", Degrade: 1, Src: `(defs "Root" ("Root" (struct (field "a" (struct (field "p" (string - - false) false false -) (field "q" (int 64 true - -) false false -)) false false (o ("p" (s "x")))))))`},
	{ID: "struct-ref-const-member", Degrade: 1, Formats: []string{"cue"}, Src: `(defs "Root" ("Root" (struct (field "opts" (ref "Options") false false (o ("mode" (n "9")) ("name" (n "-13")))))) ("Options" (struct (field "mode" (const (n "9")) false false -) (field "name" (int 32 true - -) false false -))))`},
	{ID: "list-of-enums", Degrade: 1, Src: `(defs "Root" ("Root" (struct (field "le" (array (ref "E")) false false (a (s "b") (s "a"))))) ("E" (enumS "a" "b")))`},
	{ID: "struct-inline-required", Degrade: 1, Formats: []string{"cue"}, Src: `(defs "Root" ("Root" (struct (field "y1" (struct (field "tags" (int 64 true - -) false false -) (field "b" (int 64 true - -) true false -)) true false (o ("tags" (n "8")))) (field "when" (const false) false false -))))`},
	{ID: "struct-nullable-ref", Degrade: 1, Src: `(defs "Root" ("Root" (struct (field "a" (ref "S") false true (o ("p" (s "x")))))) ("S" (struct (field "p" (string - - false) false false -))))`},
	{ID: "union", Degrade: 1, Src: `(defs "Root" ("Root" (struct (field "u" (oneOfScalars (string - - false) (int 64 true - -) (array (bool))) false false (s "4")) (field "v" (oneOfScalars (string - - false) (int 64 true - -)) true false (n "7")))))`},
	{ID: "int-beyond-2^53", Degrade: 1, Src: `(defs "Root" ("Root" (struct (field "big" (int 64 true - -) false false (n "9007199254740993")))))`},
	{ID: "int-min64", Degrade: 1, Src: `(defs "Root" ("Root" (struct (field "min" (int 64 true - -) false false (n "-9223372036854775808")))))`},
	{ID: "int-1e21-in-float-field", Degrade: 1, Src: `(defs "Root" ("Root" (struct (field "h" (num 64 - -) false false (n "1000000000000000000000")))))`},
}

// c10Needs: pinned terms / generated constructs whose failure on the unchanged tree is a defect of
// cog that must first be recorded in /verif/known_findings.json (the check passes the recorded C10
// ids as known=…; `--replay pinned:<id>` always runs the term)
const c10ZeroUnionFinding = "C10/go/samekind-union-zero-default-omitted"

var c10Needs = map[string]string{
	"negative-single-enum":        "C10/cue/single-negative-enum-member-loses-sign",
	"samekind-union-zero-default": c10ZeroUnionFinding,
}

func c10Known(args map[string]string, id string) bool {
	if args["known"] == "*" {
		return true
	}
	for _, k := range strings.Split(args["known"], ",") {
		if k == id {
			return true
		}
	}
	return false
}

func c10ParseTerms(args map[string]string) ([]c10Term, error) {
	var terms []c10Term
	if args["pinned"] == "1" {
		for _, t := range c10Pinned {
			if only, ok := args["id"]; ok && only != t.ID {
				continue
			}
			if need, gated := c10Needs[t.ID]; gated && args["id"] != t.ID && !c10Known(args, need) {
				continue
			}
			terms = append(terms, t)
		}
		return terms, nil
	}
	if path, ok := args["file"]; ok {
		for i, line := range readLines(path) {
			terms = append(terms, c10Term{ID: fmt.Sprintf("file%d", i), Src: line, Degrade: argInt(args, "degrade", 2)})
		}
		return terms, nil
	}
	n := argInt(args, "n", 24)
	seed := uint64(argInt(args, "seed", 1))
	from := argInt(args, "from", 0)
	o := argGenOpts(args)
	for i := from; i < from+n; i++ {
		d := genDefs(seed, i, o)
		t := c10Term{}
		if args["augment"] != "0" {
			t = c10Augment(d, i, seed, c10Known(args, c10ZeroUnionFinding))
		}
		t.Src, t.Degrade = d.sexp(), argInt(args, "degrade", 2)
		terms = append(terms, t)
	}
	return terms, nil
}

func c10Stream(args map[string]string, out *bufio.Writer) error {
	terms, err := c10ParseTerms(args)
	if err != nil {
		return err
	}
	opts := defaultLabOpts()
	opts.NoSchemaOut = true
	opts.Keep = args["keep"] == "1"
	lab, err := NewLab(labWorkDir("c10-"+args["seed"]+"-"+args["tier"]+args["pinned"]), opts)
	if err != nil {
		return err
	}
	defer lab.Close()
	type entry struct {
		term c10Term
		c    *LabCase
	}
	var entries []entry
	hist := map[string]int{}
	for _, t := range terms {
		d, err := parseDefsSexp(t.Src)
		if err != nil {
			return fmt.Errorf("term %s: %w", t.ID, err)
		}
		formats := t.Formats
		if len(formats) == 0 {
			formats = labFormats
		}
		for _, f := range formats {
			if only, ok := args["format"]; ok && only != f {
				continue
			}
			lab.Opts.Degrade = t.Degrade
			entries = append(entries, entry{t, c10AddCase(lab, d, f, c10CaseOpts{PassesYAML: c10PassesYAML(t), ConstAsPattern: t.Pattern, CueLibInline: t.CueLib})})
		}
	}
	if err := lab.Build(); err != nil {
		return err
	}
	// second stage: the instance-independence ops ("new2": construct, mutate everything reachable,
	// construct again) need to know which packages compile
	extCases := []*LabCase{}
	for _, e := range entries {
		if e.c.Defs != nil && e.c.generated() {
			extCases = append(extCases, e.c)
		}
	}
	if goExt := c10GoExt(extCases); goExt != "" {
		lab.AddGoExt("c10ext", map[string]string{"ops.go": goExt})
	}
	lab.AddPyExt("c10", c10PyExt(extCases))
	if err := lab.Build(); err != nil {
		return err
	}
	if e := lab.GoExtErr("c10ext"); e != "" {
		fmt.Fprintf(out, "-\tharness c10ext does not compile: %s\tFAIL lang=go class=harness got=%s\n", c10Short(labOneLine(e)), c10Short(labOneLine(e)))
	}
	// requests
	var goReqs, pyReqs []LabReq
	type objreq struct{ gi, pi int }
	idx := map[string]objreq{}
	for _, e := range entries {
		c := e.c
		if c.Defs == nil || !c.generated() {
			continue
		}
		names := map[string]bool{}
		for _, o := range c.GoObjects {
			if o.HasNew {
				names[o.Name] = true
			}
		}
		for _, o := range c.PyObjects {
			if o.HasNew {
				names[o.Name] = true
			}
		}
		sorted := make([]string, 0, len(names))
		for n := range names {
			sorted = append(sorted, n)
		}
		sort.Strings(sorted)
		for _, n := range sorted {
			idx[c.ID+"/"+n] = objreq{len(goReqs), len(pyReqs)}
			goReqs = append(goReqs, LabReq{c.ID, n, "new", nil}, LabReq{c.ID, n, "new2", nil})
			pyReqs = append(pyReqs, LabReq{c.ID, n, "new", nil}, LabReq{c.ID, n, "new2", nil})
		}
	}
	goRep := lab.GoCall(goReqs)
	pyRep := lab.PyCall(pyReqs)

	stats := map[string]int{}
	for _, e := range entries {
		c := e.c
		tag := e.term.ID
		if tag == "" {
			tag = "gen"
		}
		switch {
		case c.Defs == nil || len(c.Unsupported) > 0:
			fmt.Fprintf(out, "-\tskip %s %s unsupported-by-format %s\tok\n", c.ID, tag, labOneLine(strings.Join(c.Unsupported, ",")))
			stats["skip.unsupported"]++
			continue
		case c.GenErr != "":
			// a legitimate schema cog refuses to generate for: an observation of its own
			// (except CUE's own "structural cycle" verdict on some recursive terms, see LAB.md)
			exp := c10Expectations(c.Defs, e.term, c.Format)
			verdict := "ok"
			if len(exp) > 0 && !strings.Contains(c.GenErr, "structural cycle") {
				verdict = fmt.Sprintf("FAIL lang=both class=generr format=%s pinned=%s kind=%s path=%s.%s expected=%s got=%s", c.Format, tag, exp[0].Kind, exp[0].Object, exp[0].Path, exp[0].Want.json(), c10Short(labOneLine(c.GenErr)))
			}
			fmt.Fprintf(out, "-\tgenerr %s %s %s src=%s\t%s\n", c.ID, tag, c10Short(labOneLine(c.GenErr)), c.Defs.sexp(), verdict)
			stats["generr"]++
			continue
		}
		exp := c10Expectations(c.Defs, e.term, c.Format)
		for _, x := range exp {
			hist[c.Format+"/"+x.Kind]++
		}
		fmt.Fprintf(out, "-\tcase %s %s format=%s degraded=%v notes=%v expectations=%d src=%s\tok\n", c.ID, tag, c.Format, c.Degraded, c.Notes, len(exp), c.Defs.sexp())
		fmt.Fprintf(out, "defschemas %s.go %s\tok\tok\n", c.ID, virSchemas(c.IRGo))
		fmt.Fprintf(out, "defschemas %s.py %s\tok\tok\n", c.ID, virSchemas(c.IRPy))
		kindSet := map[string]int{}
		for _, x := range exp {
			kindSet[x.Kind]++
		}
		kinds := strings.Join(labSortedKeys(kindSet), ",")
		// package level: does it compile / import?
		goImpl, goVerdict := "ok", "ok"
		if !c.GoOK {
			goImpl = "cerr"
			if !c10DefaultDiag.MatchString(labFirstLine(c.GoCompileErr)) {
				goImpl = "cerr-other"
			}
			goVerdict = fmt.Sprintf("FAIL lang=go class=compile format=%s pinned=%s kinds=%s got=%s", c.Format, tag, kinds, c10Short(labOneLine(c.GoCompileErr)))
			stats["go.notcompiled"]++
		}
		fmt.Fprintf(out, "godefaults %s.go %s *\t%s\t%s\n", c.ID, c.ID, goImpl, goVerdict)
		pyImpl, pyVerdict := "ok", "ok"
		if !c.PyOK {
			pyImpl = "synerr"
			if !strings.Contains(c.PyImportErr, "SyntaxError") {
				pyImpl = "importerr-other"
			}
			pyVerdict = fmt.Sprintf("FAIL lang=py class=import format=%s pinned=%s kinds=%s got=%s line=%s", c.Format, tag, kinds, c10Short(labOneLine(c.PyImportErr)), c10Short(c10PyLine(c)))
			stats["py.notimported"]++
		}
		fmt.Fprintf(out, "pydefaults %s.py %s *\t%s\t%s\n", c.ID, c.ID, pyImpl, pyVerdict)

		byObj := map[string][]c10Expect{}
		for _, x := range exp {
			byObj[x.Object] = append(byObj[x.Object], x)
		}
		names := []string{}
		for k := range idx {
			if strings.HasPrefix(k, c.ID+"/") {
				names = append(names, strings.TrimPrefix(k, c.ID+"/"))
			}
		}
		sort.Strings(names)
		for _, n := range names {
			r := idx[c.ID+"/"+n]
			g, p := goRep[r.gi], pyRep[r.pi]
			hasGo := c.goObject(n) != nil && c.goObject(n).HasNew
			hasPy := false
			for _, o := range c.PyObjects {
				if o.Name == n && o.HasNew {
					hasPy = true
				}
			}
			goReq := fmt.Sprintf("godefaults %s.go %s %s", c.ID, c.ID, n)
			pyReq := fmt.Sprintf("pydefaults %s.py %s %s", c.ID, c.ID, n)
			var goFails, pyFails []string
			okind := map[string]int{}
			for _, x := range byObj[n] {
				okind[x.Kind]++
			}
			okinds := strings.Join(labSortedKeys(okind), ",")
			if len(byObj[n]) > 0 && c.GoOK && hasGo && !strings.HasPrefix(g, "ok ") {
				goFails = append(goFails, fmt.Sprintf("FAIL lang=go class=error format=%s pinned=%s kinds=%s path=%s got=%s", c.Format, tag, okinds, n, c10Short(labOneLine(g))))
			}
			if len(byObj[n]) > 0 && c.PyOK && hasPy && !strings.HasPrefix(p, "ok ") {
				pyFails = append(pyFails, fmt.Sprintf("FAIL lang=py class=error format=%s pinned=%s kinds=%s path=%s got=%s", c.Format, tag, okinds, n, c10Short(labOneLine(p))))
			}
			for _, x := range byObj[n] {
				gc, gg := c10Judge(x, g)
				pc, pg := c10Judge(x, p)
				common := func(reply string) string {
					return fmt.Sprintf("format=%s pinned=%s kind=%s%s flags=%s path=%s.%s expected=%s", c.Format, tag, x.Kind, c10Via(c.Defs, x, reply), x.Flags, x.Object, x.Path, x.Want.json())
				}
				if gc != "" && gc != "error" && c.GoOK && hasGo {
					goFails = append(goFails, fmt.Sprintf("FAIL lang=go class=%s %s got=%s peer=%s", gc, common(g), gg, pg))
				}
				if pc != "" && pc != "error" && c.PyOK && hasPy {
					pyFails = append(pyFails, fmt.Sprintf("FAIL lang=py class=%s %s got=%s peer=%s", pc, common(p), pg, gg))
				}
				if gc == "" && pc == "" && c.GoOK && c.PyOK {
					stats["agree"]++
				}
				stats["expectations"]++
			}
			if c.GoOK && hasGo {
				if len(goFails) == 0 {
					fmt.Fprintf(out, "%s\t%s\tok\n", goReq, g)
				}
				for _, f := range goFails {
					fmt.Fprintf(out, "%s\t%s\t%s\n", goReq, g, f)
					stats["go.fail"]++
				}
			}
			if c.PyOK && hasPy {
				if len(pyFails) == 0 {
					fmt.Fprintf(out, "%s\t%s\tok\n", pyReq, p)
				}
				for _, f := range pyFails {
					fmt.Fprintf(out, "%s\t%s\t%s\n", pyReq, p, f)
					stats["py.fail"]++
				}
			}
			// instance independence: a second default-constructed value, built after everything
			// reachable from the first one was mutated, encodes like the first
			g2, p2 := goRep[r.gi+1], pyRep[r.pi+1]
			second := func(lang, req, first, again string) {
				if !strings.HasPrefix(first, "ok ") {
					return
				}
				stats[lang+".second"]++
				verdict := "ok"
				if !strings.HasPrefix(again, "ok ") || canonJSON([]byte(again[3:])) != canonJSON([]byte(first[3:])) {
					verdict = fmt.Sprintf("FAIL lang=%s class=shared-between-instances format=%s pinned=%s kinds=%s path=%s first=%s second=%s", lang, c.Format, tag, okinds, n, c10Short(first), c10Short(labOneLine(again)))
					stats[lang+".fail"]++
				}
				fmt.Fprintf(out, "%s\t%s\t%s\n", req, again, verdict)
			}
			if c.GoOK && hasGo {
				second("go", goReq, g, g2)
			}
			if c.PyOK && hasPy {
				second("py", pyReq, p, p2)
			}
		}
		// a declared member whose object has no constructor at all
		for o := range byObj {
			if _, ok := idx[c.ID+"/"+o]; !ok {
				fmt.Fprintf(out, "-\tno-constructor %s %s\tFAIL lang=both class=no-constructor format=%s pinned=%s path=%s\n", c.ID, o, c.Format, tag, o)
			}
		}
	}
	hs := []string{}
	for _, k := range labSortedKeys(hist) {
		hs = append(hs, fmt.Sprintf("%s=%d", k, hist[k]))
	}
	ss := []string{}
	for _, k := range labSortedKeys(stats) {
		ss = append(ss, fmt.Sprintf("%s=%d", k, stats[k]))
	}
	fmt.Fprintf(out, "-\tstats %s timings=%s\tok\n", strings.Join(ss, " "), fmtTimings(lab.Timings))
	fmt.Fprintf(out, "-\tdistribution %s\tok\n", strings.Join(hs, " "))
	for _, w := range lab.Warnings {
		fmt.Fprintf(out, "-\twarning %s\tok\n", labOneLine(w))
	}
	_ = os.Stderr
	return nil
}

// c10PyExt: Python op "new2" for every struct object: X(), mutate every list / dict / object
// reachable from it, X() again → ok <json of the second instance>
func c10PyExt(cases []*LabCase) string {
	var b strings.Builder
	b.WriteString(`
def _c10_mutate(v, depth=0):
    if depth > 6:
        return
    if isinstance(v, list):
        for x in list(v):
            _c10_mutate(x, depth + 1)
        v.append("zzMutated")
    elif isinstance(v, dict):
        for x in list(v.values()):
            _c10_mutate(x, depth + 1)
        v["zzMutated"] = 1
    elif hasattr(v, "__dict__") and not isinstance(v, type):
        for x in list(vars(v).values()):
            _c10_mutate(x, depth + 1)


def _c10_new2(case_id, obj):
    def fn(payloads):
        cls = lookup(case_id, obj)
        first = cls()
        _c10_mutate(first)
        return "ok " + dumps(cls())
    return fn


`)
	for _, c := range cases {
		for _, o := range c.PyObjects {
			if o.HasNew {
				fmt.Fprintf(&b, "register(%q, %q, \"new2\", _c10_new2(%q, %q))\n", c.ID, o.Name, c.ID, o.Name)
			}
		}
	}
	return b.String()
}

// c10GoExt: Go op "new2" for every object with a constructor (packages that compile only)
func c10GoExt(cases []*LabCase) string {
	var imports, regs strings.Builder
	n := 0
	for _, c := range cases {
		if !c.GoOK {
			continue
		}
		used := false
		for _, o := range c.GoObjects {
			if !o.HasNew {
				continue
			}
			used = true
			n++
			fmt.Fprintf(&regs, "\tlabrt.Register(%q, %q, \"new2\", func(p []string) string { a := %s.New%s(); mutate(reflect.ValueOf(a), 0); return labrt.OkJSON(%s.New%s()) })\n",
				c.ID, o.Name, c.ID, o.GoName, c.ID, o.GoName)
		}
		if used {
			fmt.Fprintf(&imports, "\t%q\n", labGoModule+"/"+c.ID)
		}
	}
	if n == 0 {
		return ""
	}
	return "package c10ext\n\nimport (\n\t\"reflect\"\n\n\t\"" + labGoModule + "/labrt\"\n" + imports.String() + ")\n\n" + `
// mutate changes, in place, everything reachable from v: pointed-to scalars, slice elements, map entries
func mutate(v reflect.Value, depth int) {
	if depth > 8 || !v.IsValid() {
		return
	}
	switch v.Kind() {
	case reflect.Ptr, reflect.Interface:
		if !v.IsNil() {
			mutate(v.Elem(), depth+1)
		}
	case reflect.Struct:
		for i := 0; i < v.NumField(); i++ {
			if v.Type().Field(i).PkgPath == "" {
				mutate(v.Field(i), depth+1)
			}
		}
	case reflect.Slice:
		for i := 0; i < v.Len(); i++ {
			mutate(v.Index(i), depth+1)
		}
	case reflect.Map:
		if !v.IsNil() && v.Type().Key().Kind() == reflect.String {
			v.SetMapIndex(reflect.ValueOf("zzMutated").Convert(v.Type().Key()), reflect.Zero(v.Type().Elem()))
		}
	case reflect.Bool:
		if v.CanSet() {
			v.SetBool(!v.Bool())
		}
	case reflect.Int, reflect.Int8, reflect.Int16, reflect.Int32, reflect.Int64:
		if v.CanSet() {
			v.SetInt(v.Int() ^ 1)
		}
	case reflect.Uint, reflect.Uint8, reflect.Uint16, reflect.Uint32, reflect.Uint64:
		if v.CanSet() {
			v.SetUint(v.Uint() ^ 1)
		}
	case reflect.Float32, reflect.Float64:
		if v.CanSet() {
			v.SetFloat(v.Float() + 1)
		}
	case reflect.String:
		if v.CanSet() {
			v.SetString(v.String() + "z")
		}
	}
}

func init() {
` + regs.String() + "}\n"
}

func init() {
	register("c10-rows", c10Stream)
}
