package main

// C18: reflective observation of a value and its copy.  `unsafe` is used for two things only:
// reading the address of a slice's backing array / a map / a pointer target, and reaching the
// unexported fields of orderedmap.Map (read, and write when mutating the copy).

import (
	"fmt"
	"reflect"
	"sort"
	"strings"
	"unsafe"
)

// access lifts the read-only flag of a value obtained through an unexported field.
func c18Access(v reflect.Value) reflect.Value {
	if v.CanSet() || !v.CanAddr() {
		return v
	}
	return reflect.NewAt(v.Type(), unsafe.Pointer(v.UnsafeAddr())).Elem()
}

func c18MapKeys(m reflect.Value) []reflect.Value {
	ks := m.MapKeys()
	sort.Slice(ks, func(i, j int) bool { return fmt.Sprint(c18Scalar(ks[i])) < fmt.Sprint(c18Scalar(ks[j])) })
	return ks
}

func c18Scalar(v reflect.Value) any {
	switch v.Kind() {
	case reflect.String:
		return v.String()
	case reflect.Bool:
		return v.Bool()
	case reflect.Int, reflect.Int8, reflect.Int16, reflect.Int32, reflect.Int64:
		return v.Int()
	case reflect.Uint, reflect.Uint8, reflect.Uint16, reflect.Uint32, reflect.Uint64, reflect.Uintptr:
		return v.Uint()
	case reflect.Float32, reflect.Float64:
		return v.Float()
	}
	return nil
}

func c18IsScalarKind(k reflect.Kind) bool {
	switch k {
	case reflect.String, reflect.Bool, reflect.Int, reflect.Int8, reflect.Int16, reflect.Int32, reflect.Int64,
		reflect.Uint, reflect.Uint8, reflect.Uint16, reflect.Uint32, reflect.Uint64, reflect.Uintptr, reflect.Float32, reflect.Float64:
		return true
	}
	return false
}

// ---------------------------------------------------------------- structural equality

// c18Eq appends to diffs the paths at which a and b differ.  strict=false identifies nil and
// empty slices/maps (the equality of the property); strict=true does not (snapshot comparison).
func c18Eq(a, b reflect.Value, path string, strict bool, diffs *[]string) {
	if len(*diffs) > 64 {
		return
	}
	if a.Type() != b.Type() {
		*diffs = append(*diffs, path+" (type "+a.Type().String()+" vs "+b.Type().String()+")")
		return
	}
	switch a.Kind() {
	case reflect.Slice:
		if strict && a.IsNil() != b.IsNil() {
			*diffs = append(*diffs, path+" (nil vs empty)")
			return
		}
		if a.Len() != b.Len() {
			*diffs = append(*diffs, fmt.Sprintf("%s (len %d vs %d)", path, a.Len(), b.Len()))
			return
		}
		for i := 0; i < a.Len(); i++ {
			c18Eq(a.Index(i), b.Index(i), fmt.Sprintf("%s[%d]", path, i), strict, diffs)
		}
	case reflect.Map:
		if strict && a.IsNil() != b.IsNil() {
			*diffs = append(*diffs, path+" (nil vs empty)")
			return
		}
		if a.Len() != b.Len() {
			*diffs = append(*diffs, fmt.Sprintf("%s (map size %d vs %d)", path, a.Len(), b.Len()))
			return
		}
		for _, k := range c18MapKeys(a) {
			bv := b.MapIndex(k)
			if !bv.IsValid() {
				*diffs = append(*diffs, fmt.Sprintf("%s{%v} (key missing)", path, c18Scalar(k)))
				continue
			}
			c18Eq(a.MapIndex(k), bv, fmt.Sprintf("%s{%v}", path, c18Scalar(k)), strict, diffs)
		}
	case reflect.Ptr:
		if a.IsNil() != b.IsNil() {
			*diffs = append(*diffs, path+" (nil vs non-nil pointer)")
			return
		}
		if !a.IsNil() {
			c18Eq(a.Elem(), b.Elem(), path, strict, diffs)
		}
	case reflect.Interface:
		if a.IsNil() != b.IsNil() {
			*diffs = append(*diffs, path+" (nil vs non-nil interface)")
			return
		}
		if !a.IsNil() {
			c18Eq(a.Elem(), b.Elem(), path, strict, diffs)
		}
	case reflect.Struct:
		for i := 0; i < a.NumField(); i++ {
			p := a.Type().Field(i).Name
			if path != "" {
				p = path + "." + p
			}
			c18Eq(a.Field(i), b.Field(i), p, strict, diffs)
		}
	default:
		if !c18IsScalarKind(a.Kind()) {
			*diffs = append(*diffs, path+" (unsupported kind "+a.Kind().String()+")")
			return
		}
		if c18Scalar(a) != c18Scalar(b) {
			*diffs = append(*diffs, fmt.Sprintf("%s (%v vs %v)", path, c18Scalar(a), c18Scalar(b)))
		}
	}
}

// c18Empty: the value is its type's zero value, modulo nil/empty.
func c18Empty(v reflect.Value) bool {
	var d []string
	c18Eq(v, reflect.Zero(v.Type()), "", false, &d)
	return len(d) == 0
}

// ---------------------------------------------------------------- identities (backing stores)

type c18Region struct {
	lo, hi uintptr // [lo, hi) for arrays and pointer targets; lo == hi == map pointer for maps
	isMap  bool
	path   string
}

func c18Regions(v reflect.Value, path string, out *[]c18Region) {
	switch v.Kind() {
	case reflect.Slice:
		if v.Cap() > 0 && v.Type().Elem().Size() > 0 {
			lo := uintptr(v.UnsafePointer())
			*out = append(*out, c18Region{lo: lo, hi: lo + uintptr(v.Cap())*v.Type().Elem().Size(), path: path})
		}
		for i := 0; i < v.Len(); i++ {
			c18Regions(v.Index(i), fmt.Sprintf("%s[%d]", path, i), out)
		}
	case reflect.Map:
		if !v.IsNil() {
			p := uintptr(v.UnsafePointer())
			*out = append(*out, c18Region{lo: p, hi: p, isMap: true, path: path})
			for _, k := range c18MapKeys(v) {
				c18Regions(v.MapIndex(k), fmt.Sprintf("%s{%v}", path, c18Scalar(k)), out)
			}
		}
	case reflect.Ptr:
		if !v.IsNil() {
			lo := uintptr(v.UnsafePointer())
			if sz := v.Type().Elem().Size(); sz > 0 {
				*out = append(*out, c18Region{lo: lo, hi: lo + sz, path: path})
			}
			c18Regions(v.Elem(), path, out)
		}
	case reflect.Interface:
		if !v.IsNil() {
			c18Regions(v.Elem(), path, out)
		}
	case reflect.Struct:
		for i := 0; i < v.NumField(); i++ {
			p := v.Type().Field(i).Name
			if path != "" {
				p = path + "." + p
			}
			c18Regions(v.Field(i), p, out)
		}
	}
}

// c18Overlaps: regions of `b` that overlap a region of `a` (paths on the b side).
func c18Overlaps(a, b []c18Region) []string {
	maps := map[uintptr]bool{}
	var arr []c18Region
	for _, r := range a {
		if r.isMap {
			maps[r.lo] = true
		} else {
			arr = append(arr, r)
		}
	}
	sort.Slice(arr, func(i, j int) bool { return arr[i].lo < arr[j].lo })
	// prefix maximum of hi so that one binary search suffices
	maxHi := make([]uintptr, len(arr))
	for i, r := range arr {
		maxHi[i] = r.hi
		if i > 0 && maxHi[i-1] > r.hi {
			maxHi[i] = maxHi[i-1]
		}
	}
	var out []string
	for _, r := range b {
		if r.isMap {
			if maps[r.lo] {
				out = append(out, r.path)
			}
			continue
		}
		// last region with lo < r.hi
		i := sort.Search(len(arr), func(i int) bool { return arr[i].lo >= r.hi }) - 1
		if i >= 0 && maxHi[i] > r.lo {
			out = append(out, r.path)
		}
	}
	return out
}

// c18ShallowSame: b is a plain assignment of a (every top-level identity is identical).
func c18ShallowSame(a, b reflect.Value) bool {
	if a.Type() != b.Type() {
		return false
	}
	switch a.Kind() {
	case reflect.Slice:
		return a.Len() == b.Len() && a.Cap() == b.Cap() && a.UnsafePointer() == b.UnsafePointer()
	case reflect.Map, reflect.Ptr:
		return a.UnsafePointer() == b.UnsafePointer()
	case reflect.Interface:
		if a.IsNil() || b.IsNil() {
			return a.IsNil() == b.IsNil()
		}
		return c18ShallowSame(a.Elem(), b.Elem())
	case reflect.Struct:
		for i := 0; i < a.NumField(); i++ {
			if !c18ShallowSame(a.Field(i), b.Field(i)) {
				return false
			}
		}
		return true
	}
	return c18Scalar(a) == c18Scalar(b)
}

// ---------------------------------------------------------------- independent clone (snapshot)

func c18Clone(src reflect.Value) reflect.Value {
	dst := reflect.New(src.Type()).Elem()
	c18CloneInto(dst, src)
	return dst
}

func c18CloneInto(dst, src reflect.Value) {
	dst = c18Access(dst)
	switch src.Kind() {
	case reflect.String:
		dst.SetString(src.String())
	case reflect.Bool:
		dst.SetBool(src.Bool())
	case reflect.Int, reflect.Int8, reflect.Int16, reflect.Int32, reflect.Int64:
		dst.SetInt(src.Int())
	case reflect.Uint, reflect.Uint8, reflect.Uint16, reflect.Uint32, reflect.Uint64, reflect.Uintptr:
		dst.SetUint(src.Uint())
	case reflect.Float32, reflect.Float64:
		dst.SetFloat(src.Float())
	case reflect.Slice:
		if src.IsNil() {
			return
		}
		s := reflect.MakeSlice(src.Type(), src.Len(), src.Cap())
		for i := 0; i < src.Len(); i++ {
			c18CloneInto(s.Index(i), src.Index(i))
		}
		dst.Set(s)
	case reflect.Map:
		if src.IsNil() {
			return
		}
		m := reflect.MakeMapWithSize(src.Type(), src.Len())
		for _, k := range src.MapKeys() {
			m.SetMapIndex(c18Clone(k), c18Clone(src.MapIndex(k)))
		}
		dst.Set(m)
	case reflect.Ptr:
		if src.IsNil() {
			return
		}
		p := reflect.New(src.Type().Elem())
		c18CloneInto(p.Elem(), src.Elem())
		dst.Set(p)
	case reflect.Interface:
		if src.IsNil() {
			return
		}
		dst.Set(c18Clone(src.Elem()))
	case reflect.Struct:
		for i := 0; i < src.NumField(); i++ {
			c18CloneInto(dst.Field(i), src.Field(i))
		}
	default:
		panic("c18 clone: unsupported kind " + src.Kind().String())
	}
}

// ---------------------------------------------------------------- mutate every location

// c18Perturb writes to every location reachable from v: every scalar is changed, every map gets
// one more key.  A non-settable value (the content of an interface) is only mutated through
// its references, which is exactly what a holder of a copy of that interface can do.
func c18Perturb(v reflect.Value, n *int) {
	v = c18Access(v)
	set := v.CanSet()
	switch v.Kind() {
	case reflect.String:
		if set {
			v.SetString(v.String() + "~")
			*n++
		}
	case reflect.Bool:
		if set {
			v.SetBool(!v.Bool())
			*n++
		}
	case reflect.Int, reflect.Int8, reflect.Int16, reflect.Int32, reflect.Int64:
		if set {
			v.SetInt(v.Int() + 1)
			*n++
		}
	case reflect.Uint, reflect.Uint8, reflect.Uint16, reflect.Uint32, reflect.Uint64:
		if set {
			v.SetUint(v.Uint() + 1)
			*n++
		}
	case reflect.Float32, reflect.Float64:
		if set {
			v.SetFloat(v.Float() + 1)
			*n++
		}
	case reflect.Slice:
		for i := 0; i < v.Len(); i++ {
			c18Perturb(v.Index(i), n)
		}
	case reflect.Map:
		if v.IsNil() {
			return
		}
		for _, k := range v.MapKeys() {
			nv := reflect.New(v.Type().Elem()).Elem()
			nv.Set(c18Plain(v.MapIndex(k)))
			c18Perturb(nv, n)
			v.SetMapIndex(c18Plain(k), nv)
		}
		if v.Type().Key().Kind() == reflect.String {
			k := reflect.New(v.Type().Key()).Elem()
			k.SetString("~mut")
			v.SetMapIndex(k, reflect.Zero(v.Type().Elem()))
			*n++
		}
	case reflect.Ptr:
		if !v.IsNil() {
			c18Perturb(v.Elem(), n)
		}
	case reflect.Interface:
		if v.IsNil() {
			return
		}
		e := v.Elem()
		if c18IsScalarKind(e.Kind()) {
			if set {
				nv := reflect.New(e.Type()).Elem()
				nv.Set(e)
				c18Perturb(nv, n)
				v.Set(nv)
			}
			return
		}
		c18Perturb(e, n) // through the references held by the dynamic value
	case reflect.Struct:
		for i := 0; i < v.NumField(); i++ {
			c18Perturb(v.Field(i), n)
		}
	}
}

// c18Plain: values handed to Set/SetMapIndex must not carry the read-only flag; every container is
// passed through c18Access before its elements are read, so this holds by construction.
func c18Plain(v reflect.Value) reflect.Value {
	if !v.CanInterface() {
		panic("c18 perturb: read-only value of type " + v.Type().String())
	}
	return v
}

// ---------------------------------------------------------------- table-guided walk

type c18Mode struct {
	K    string   `json:"k"`
	Elem *c18Mode `json:"elem,omitempty"`
	T    string   `json:"t,omitempty"`
}

func (m c18Mode) String() string {
	switch m.K {
	case "freshSlice", "freshMap":
		return m.K + "(" + m.Elem.String() + ")"
	case "recur", "viaPtrRec":
		return m.K + " " + m.T
	}
	return m.K
}

func (m c18Mode) bad() bool {
	return m.K == "shared" || m.K == "omitted" || (m.Elem != nil && m.Elem.bad())
}

type c18FieldMode struct {
	Field string  `json:"field"`
	Mode  c18Mode `json:"mode"`
}

// c18Ty: the aliasing-relevant shape of a Go type, as xcopy emits it.
type c18Ty struct {
	K    string `json:"k"`
	Elem *c18Ty `json:"elem,omitempty"`
	Name string `json:"name,omitempty"`
}

func (t c18Ty) eq(u c18Ty) bool {
	if t.K != u.K || t.Name != u.Name || (t.Elem == nil) != (u.Elem == nil) {
		return false
	}
	return t.Elem == nil || t.Elem.eq(*u.Elem)
}

func c18TyOf(t reflect.Type) c18Ty {
	switch t.Kind() {
	case reflect.Interface:
		return c18Ty{K: "iface"}
	case reflect.Slice:
		e := c18TyOf(t.Elem())
		return c18Ty{K: "slice", Elem: &e}
	case reflect.Map:
		e := c18TyOf(t.Elem())
		return c18Ty{K: "map", Elem: &e}
	case reflect.Ptr:
		e := c18TyOf(t.Elem())
		return c18Ty{K: "ptr", Elem: &e}
	case reflect.Struct:
		return c18Ty{K: "named", Name: t.Name()}
	}
	return c18Ty{K: "imm"}
}

type c18Table struct {
	Dyn []struct {
		GoType string  `json:"gotype"`
		Ty     c18Ty   `json:"ty"`
		Mode   c18Mode `json:"mode"`
	} `json:"dyn"`
	Copy  map[string][]c18FieldMode `json:"copy"`
	Roots []struct {
		Name string  `json:"name"`
		Mode c18Mode `json:"mode"`
	} `json:"roots"`
}

type c18Expect struct{ path, label, what string }

type c18Guided struct {
	table    *c18Table
	aliases  []c18Expect // shared positions holding an identity
	diffs    []c18Expect // omitted positions holding a non-empty value
	contra   []string    // observed behaviour contradicts the extracted mode
	visits   map[string]int
	nonEmpty map[string]int
}

func (g *c18Guided) walk(o, c reflect.Value, m c18Mode, path, label string) {
	if len(g.contra) > 32 {
		return
	}
	contra := func(format string, a ...any) {
		g.contra = append(g.contra, fmt.Sprintf("table says %s for %s but at %s: ", m, label, path)+fmt.Sprintf(format, a...))
	}
	if o.Type() != c.Type() {
		contra("types differ (%s vs %s)", o.Type(), c.Type())
		return
	}
	switch m.K {
	case "byValue":
		var d []string
		c18Eq(o, c, path, true, &d)
		if len(d) > 0 {
			contra("copy differs: %s", d[0])
		}
		var rs []c18Region
		c18Regions(o, path, &rs)
		if len(rs) > 0 {
			contra("a by-value field holds a backing store (%s)", rs[0].path)
		}
	case "shared":
		if !c18ShallowSame(o, c) {
			contra("the copy is not a plain assignment of the original")
			return
		}
		var rs []c18Region
		c18Regions(o, path, &rs)
		if len(rs) > 0 {
			g.aliases = append(g.aliases, c18Expect{path, label, "shared"})
		}
	case "omitted":
		if !c.IsZero() {
			contra("the copy's field is set")
			return
		}
		if !c18Empty(o) {
			g.diffs = append(g.diffs, c18Expect{path, label, "omitted"})
		}
	case "freshSlice":
		if o.Kind() != reflect.Slice {
			contra("not a slice")
			return
		}
		if o.Len() != c.Len() {
			contra("length %d vs %d", o.Len(), c.Len())
			return
		}
		if o.Cap() > 0 && c.Cap() > 0 && o.Type().Elem().Size() > 0 {
			lo, lc := uintptr(o.UnsafePointer()), uintptr(c.UnsafePointer())
			sz := o.Type().Elem().Size()
			if lo < lc+uintptr(c.Cap())*sz && lc < lo+uintptr(o.Cap())*sz {
				contra("the slice shares its backing array with the original")
				return
			}
		}
		for i := 0; i < o.Len(); i++ {
			g.walk(o.Index(i), c.Index(i), *m.Elem, fmt.Sprintf("%s[%d]", path, i), label)
		}
	case "freshMap":
		if o.Kind() != reflect.Map {
			contra("not a map")
			return
		}
		if o.Len() != c.Len() {
			contra("map size %d vs %d", o.Len(), c.Len())
			return
		}
		if !o.IsNil() && !c.IsNil() && o.UnsafePointer() == c.UnsafePointer() {
			contra("the map is the original's map")
			return
		}
		for _, k := range c18MapKeys(o) {
			cv := c.MapIndex(k)
			if !cv.IsValid() {
				contra("key %v missing in the copy", c18Scalar(k))
				continue
			}
			g.walk(o.MapIndex(k), cv, *m.Elem, fmt.Sprintf("%s{%v}", path, c18Scalar(k)), label)
		}
	case "viaPtrRec":
		if o.Kind() != reflect.Ptr {
			contra("not a pointer")
			return
		}
		if o.IsNil() != c.IsNil() {
			contra("nil vs non-nil pointer")
			return
		}
		if o.IsNil() {
			return
		}
		if o.UnsafePointer() == c.UnsafePointer() {
			contra("the pointer is the original's pointer")
			return
		}
		g.walk(o.Elem(), c.Elem(), c18Mode{K: "recur", T: m.T}, path, label)
	case "dyn":
		// an `any` copied through the dynamic-value helper: per dynamic type
		if o.Kind() != reflect.Interface {
			contra("not an interface")
			return
		}
		if o.IsNil() != c.IsNil() {
			contra("nil vs non-nil interface")
			return
		}
		if o.IsNil() {
			return
		}
		if o.Elem().Type() != c.Elem().Type() {
			contra("dynamic types differ (%s vs %s)", o.Elem().Type(), c.Elem().Type())
			return
		}
		dt := c18TyOf(o.Elem().Type())
		for _, dc := range g.table.Dyn {
			if dc.Ty.eq(dt) {
				g.walk(o.Elem(), c.Elem(), dc.Mode, path, label)
				return
			}
		}
		// no case: the helper hands the value back as-is
		if !c18ShallowSame(o, c) {
			contra("dynamic type %s has no case in the helper but the copy is not a plain assignment", o.Elem().Type())
			return
		}
		var rs []c18Region
		c18Regions(o, path, &rs)
		if len(rs) > 0 {
			g.aliases = append(g.aliases, c18Expect{path, label, "shared"})
		}
	case "recur":
		if o.Kind() != reflect.Struct {
			contra("not a struct")
			return
		}
		fms, ok := g.table.Copy[m.T]
		if !ok {
			contra("struct %s is not in the table", m.T)
			return
		}
		if len(fms) != o.NumField() {
			contra("struct %s has %d fields, the table %d", m.T, o.NumField(), len(fms))
			return
		}
		for i, fm := range fms {
			if o.Type().Field(i).Name != fm.Field {
				contra("field %d of %s is %s, the table says %s", i, m.T, o.Type().Field(i).Name, fm.Field)
				return
			}
			p := fm.Field
			if path != "" {
				p = path + "." + p
			}
			l := m.T + "." + fm.Field
			g.visits[l]++
			if !c18Empty(o.Field(i)) {
				g.nonEmpty[l]++
			}
			g.walk(o.Field(i), c.Field(i), fm.Mode, p, l)
		}
	default:
		contra("unknown mode")
	}
}

func c18Explained(path string, exp []c18Expect) (c18Expect, bool) {
	for _, e := range exp {
		if path == e.path || strings.HasPrefix(path, e.path+".") || strings.HasPrefix(path, e.path+"[") || strings.HasPrefix(path, e.path+"{") || strings.HasPrefix(path, e.path+" ") {
			return e, true
		}
	}
	return c18Expect{}, false
}
