package main

// C02 — NAMES in non-canonical casings, and constants in every position, for `c02-mini` and the pipeline streams.
//
// The Go jenny prints a definition / member / field name in two kinds of places: where it DECLARES it (through
// formatObjectName / UpperCamelCase / CleanupNames) and where it REFERS to it (constructors' default literals,
// builders' formatValue, references to constants, union branches), and the two only agree as long as some pass
// or formatter canonicalises on both sides. Names that already ARE UpperCamelCase (everything the random
// generator draws by default: name.defCase is avoided since KB14) never show a disagreement. Here every kind
// of definition is named in each non-canonical style and combined with a default that has to NAME the
// definition or one of its members.
//
// Shapes are enumerated (no randomness): every quick run executes all of them, in every input format that can
// express them, under the two fixed configurations of c02-mini (types only / everything on).

import (
	"sort"
	"strings"
	"unicode"
)

type c02NameStyle struct {
	Name  string
	Make  func(words []string) string
	CueOK bool // `#<name>` is a CUE identifier
}

func c02Title(w string) string {
	if w == "" {
		return w
	}
	return strings.ToUpper(w[:1]) + w[1:]
}

var c02NameStyles = []c02NameStyle{
	{"lower", func(w []string) string { return strings.Join(w, "") }, true},
	{"snake", func(w []string) string { return strings.Join(w, "_") }, true},
	{"kebab", func(w []string) string { return strings.Join(w, "-") }, false},
	{"allcaps", func(w []string) string { return strings.ToUpper(strings.Join(w, "_")) }, true},
	{"lowerCamel", func(w []string) string {
		out := w[0]
		for _, x := range w[1:] {
			out += c02Title(x)
		}
		return out
	}, true},
	// a digit leads the second word: the prefix keeps the identifier valid, the part after the prefix starts with a digit
	{"digit", func(w []string) string { return w[0] + "_2" + strings.Join(w[1:], "_") }, true},
}

// c02WalkAll visits every type node of a term, including the element of a nullable element.
func c02WalkAll(d *Defs, f func(s *Src)) {
	var rec func(s *Src)
	rec = func(s *Src) {
		if s == nil {
			return
		}
		f(s)
		switch s.Kind {
		case SArray, SDict, SNullable:
			rec(s.Elem)
		case SStruct:
			for i := range s.Fields {
				rec(s.Fields[i].Ty)
			}
		case SOneOfScalars:
			for _, a := range s.Alts {
				rec(a)
			}
		}
	}
	for _, it := range d.Items {
		rec(it.Ty)
	}
}

// c02Words splits a name at case changes, digits-to-letters boundaries and separators: HTTPInfo → http info.
func c02Words(name string) []string {
	out := []string{}
	cur := []rune{}
	flush := func() {
		if len(cur) > 0 {
			out = append(out, strings.ToLower(string(cur)))
			cur = cur[:0]
		}
	}
	rs := []rune(name)
	for i, r := range rs {
		switch {
		case r == '_' || r == '-' || r == '.' || r == ' ':
			flush()
			continue
		case unicode.IsUpper(r) && i > 0 && (unicode.IsLower(rs[i-1]) || (i+1 < len(rs) && unicode.IsLower(rs[i+1]) && unicode.IsUpper(rs[i-1]))):
			flush()
		}
		cur = append(cur, r)
	}
	flush()
	return out
}

// c02Restyle renames every definition but the root (and, with fields=true, every struct member that is not a
// union discriminator) into the style; references, union branches and struct defaults follow. nil when two
// names would become equal or the style cannot be expressed (CUE identifiers).
func c02Restyle(d0 *Defs, st c02NameStyle, fields bool) *Defs {
	d := d0.clone()
	ren := map[string]string{}
	used := map[string]bool{d.Root: true}
	for i := range d.Items {
		n := d.Items[i].Name
		if n == d.Root {
			continue
		}
		w := c02Words(n)
		if len(w) < 2 {
			w = append(w, "def")
		}
		nn := st.Make(w)
		if used[nn] {
			return nil
		}
		used[nn] = true
		ren[n] = nn
		d.Items[i].Name = nn
	}
	discs := map[string]bool{}
	c02WalkAll(d, func(s *Src) {
		switch s.Kind {
		case SRef:
			if nn, ok := ren[s.Ref]; ok {
				s.Ref = nn
			}
		case SOneOfStructs:
			discs[s.Disc] = true
			for i := range s.Branches {
				if nn, ok := ren[s.Branches[i].Name]; ok {
					s.Branches[i].Name = nn
				}
			}
		}
	})
	if fields {
		bad := false
		var renameDefault func(s *Src, v *JV, m map[string]string)
		renameDefault = func(s *Src, v *JV, m map[string]string) {
			if v == nil || v.K != 'o' {
				return
			}
			for i := range v.O {
				if nn, ok := m[v.O[i].K]; ok {
					v.O[i].K = nn
				}
			}
		}
		fieldMaps := map[*Src]map[string]string{}
		c02WalkAll(d, func(s *Src) {
			if s.Kind != SStruct {
				return
			}
			m, seen := map[string]string{}, map[string]bool{}
			for i := range s.Fields {
				n := s.Fields[i].Name
				if discs[n] {
					seen[n] = true
					continue
				}
				w := c02Words(n)
				if len(w) < 2 {
					w = append(w, "val")
				}
				nn := st.Make(w)
				if seen[nn] {
					bad = true
				}
				seen[nn] = true
				m[n] = nn
				s.Fields[i].Name = nn
			}
			fieldMaps[s] = m
		})
		if bad {
			return nil
		}
		// struct defaults name the members of the struct they are for
		c02WalkAll(d, func(s *Src) {
			if s.Kind != SStruct {
				return
			}
			for i := range s.Fields {
				if t := d.c02Resolve(s.Fields[i].Ty); t != nil && t.Kind == SStruct {
					renameDefault(t, s.Fields[i].Default, fieldMaps[t])
				}
			}
		})
	}
	if d.wf() != nil {
		return nil
	}
	return d
}

// c02MaybeRestyle: the pipeline streams restyle one term out of three (definitions; every other one of those
// also the members), rotating through the styles. The renamed term is the case's term (replay / shrinking see it).
func c02MaybeRestyle(d *Defs, i int, format string) *Defs {
	if i%3 != 1 {
		return d
	}
	st := c02NameStyles[(i/3)%len(c02NameStyles)]
	if !st.CueOK && format == "cue" {
		st = c02NameStyles[1]
	}
	if r := c02Restyle(d, st, (i/3)%2 == 1); r != nil {
		return r
	}
	return d
}

func c02CueNamesOK(d *Defs) bool {
	for _, it := range d.Items {
		if !cueIdent(it.Name) {
			return false
		}
	}
	return true
}

// c02NameShapes: definition kind × name style, each with a default (or a reference) that names the definition
// or its members; member names in every style; definitions whose names differ only in case / only in separators.
func c02NameShapes() []c02MiniShape {
	out := []c02MiniShape{}
	// needsCue: the shape has a default on a reference, which only CUE can express. The pinned format (the one
	// every quick run executes) is CUE for those; the others rotate through the formats by position.
	needsCue := false
	mk := func(tag string, items ...Def) {
		d := &Defs{Root: "Root", Items: items}
		if d.wf() != nil {
			panic("c02NameShapes: ill-formed shape " + tag + ": " + d.wf().Error())
		}
		s := c02MiniShape{Tag: "names:" + tag, Defs: d, Formats: []string{"jsonschema", "openapi"}, Pinned: true}
		s.PinFormats = []string{s.Formats[len(out)%2]}
		if c02CueNamesOK(d) {
			s.Formats = append(s.Formats, "cue")
			if needsCue || len(out)%3 == 2 {
				s.PinFormats = []string{"cue"}
			}
		}
		out = append(out, s)
	}
	root := func(fs ...Field) Def { return Def{"Root", srcStruct(fs...)} }
	p := func(v JV) *JV { return &v }
	one, five := int64(1), int64(5)
	for _, st := range c02NameStyles {
		n := st.Make([]string{"refresh", "mode"})
		m := st.Make([]string{"other", "kind"})
		sn := st.Name
		// string enum, referred to with a default that names a member (members with a leading digit too)
		needsCue = true
		mk("enumS."+sn, root(fld("a", srcRef(n), false, false, p(jStr("on-load")))), Def{n, srcEnumS("on-load", "manual")})
		if sn == "snake" {
			// a member whose name starts with a digit after the prefix
			mk("enumS.digitMember."+sn, root(fld("a", srcRef(n), false, false, p(jStr("5m")))), Def{n, srcEnumS("on-load", "5m")})
		}
		mk("enumI."+sn, root(fld("a", srcRef(n), false, false, p(jInt(2)))), Def{n, srcEnumI(1, 2)})
		// struct, referred to with a struct default
		mk("struct."+sn, root(fld("a", srcRef(n), false, false, p(jObj(kv("n", jInt(5)))))),
			Def{n, srcStruct(fld("n", srcInt(64, true, nil, nil), true, false, nil), fld("s", srcString(), false, false, nil))})
		// struct whose member is the enum, named in a struct default
		mk("struct.enumMember."+sn, root(fld("a", srcRef(n), false, false, p(jObj(kv("k", jStr("manual")))))),
			Def{n, srcStruct(fld("k", srcRef(m), true, false, nil))}, Def{m, srcEnumS("on-load", "manual")})
		mk("scalar."+sn, root(fld("a", srcRef(n), false, false, p(jInt(3)))), Def{n, srcInt(64, true, &one, &five)})
		mk("array."+sn, root(fld("a", srcRef(n), false, false, p(jArr(jStr("x"))))), Def{n, srcArray(srcString())})
		needsCue = false
		// constants as definitions, referred to
		mk("constS."+sn, root(fld("a", srcRef(n), true, false, nil)), Def{n, srcConst(jStr("v1"))})
		mk("constN."+sn, root(fld("a", srcRef(n), true, false, nil)), Def{n, srcConst(jInt(3))})
		mk("dict."+sn, root(fld("a", srcRef(n), true, false, nil)), Def{n, srcDict(srcRef(m))}, Def{m, srcStruct(fld("p", srcBool(), true, false, nil))})
		// union of structs whose branches have styled names
		mk("union."+sn, root(fld("a", srcOneOfStructs("kind", Branch{"aa", n}, Branch{"bb", m}), true, false, nil)),
			Def{n, srcStruct(fld("kind", srcConst(jStr("aa")), true, false, nil), fld("x", srcBool(), true, false, nil))},
			Def{m, srcStruct(fld("kind", srcConst(jStr("bb")), true, false, nil), fld("y", srcBool(), false, false, nil))})
		// members in the style: plain with default, inline enum with default (the anonymous enum is named after the member),
		// inline struct, constant
		mk("field.bool."+sn, root(fld(n, srcBool(), false, false, p(jBool(true)))))
		mk("field.enumS."+sn, root(fld(n, srcEnumS("on-load", "manual"), false, false, p(jStr("manual")))))
		mk("field.struct."+sn, root(fld(n, srcStruct(fld(m, srcInt(64, true, nil, nil), true, false, nil)), true, false, nil)))
		mk("field.constN."+sn, root(fld(n, srcConst(jInt(2)), true, false, nil)))
	}
	// names that differ only in case, or only in separators
	for _, pair := range [][2]string{{"Mode", "mode"}, {"refresh_mode", "refreshMode"}, {"REFRESHMODE", "refreshmode"}} {
		a, b := pair[0], pair[1]
		needsCue = false
		mk("pair.struct."+a+"+"+b, root(fld("a", srcRef(a), true, false, nil), fld("b", srcRef(b), true, false, nil)),
			Def{a, srcStruct(fld("p", srcBool(), true, false, nil))}, Def{b, srcStruct(fld("q", srcBool(), true, false, nil))})
		needsCue = true
		mk("pair.enumS."+a+"+"+b, root(fld("a", srcRef(a), false, false, p(jStr("x"))), fld("b", srcRef(b), false, false, p(jStr("y")))),
			Def{a, srcEnumS("x", "z")}, Def{b, srcEnumS("y", "w")})
	}
	return out
}

// c02ConstShapes: a constant of every JSON type on a struct member (required / optional), as a definition, in
// a list, and as a union branch; each under every spelling of the source formats (c02_spell.go).
func c02ConstShapes() []c02MiniShape {
	out := []c02MiniShape{}
	consts := []struct {
		tag string
		v   JV
	}{{"int", jInt(2)}, {"float", jFloat(0.5)}, {"string", jStr("v1")}, {"bool", jBool(true)}}
	for _, c := range consts {
		for _, spell := range c02SpellStyles {
			// a one-member enum is the equivalent of a constant for strings and integers only (cog reads an enum of
			// booleans or of non-integral numbers as an integer enum: out of scope here, reported separately)
			if (spell == "enum1" || spell == "typedEnum1") && c.tag != "int" && c.tag != "string" {
				continue
			}
			mk := func(tag string, items ...Def) {
				d := &Defs{Root: "Root", Items: items}
				if d.wf() != nil {
					panic("c02ConstShapes: ill-formed shape " + tag)
				}
				fs := []string{"jsonschema", "openapi"}
				if spell == "untyped" {
					fs = labFormats // CUE has one spelling
				}
				if spell == "typed" {
					fs = []string{"jsonschema"} // OpenAPI: same text as untyped
				}
				if spell == "typedEnum1" {
					fs = []string{"jsonschema"} // OpenAPI: same text as enum1
				}
				if c.tag == "float" || c.tag == "bool" {
					// the OpenAPI renderer has no spelling for these constants
					keep := []string{}
					for _, f := range fs {
						if f != "openapi" {
							keep = append(keep, f)
						}
					}
					fs = keep
				}
				out = append(out, c02MiniShape{Tag: "const:" + tag + "." + c.tag + "." + spell, Defs: d, Formats: fs, PinFormats: fs, Spell: spell, Pinned: true})
			}
			mk("member.required", Def{"Root", srcStruct(fld("a", srcConst(c.v), true, false, nil), fld("b", srcBool(), true, false, nil))})
			mk("member.optional", Def{"Root", srcStruct(fld("a", srcConst(c.v), false, false, nil), fld("b", srcBool(), true, false, nil))})
			mk("def.referred", Def{"Root", srcStruct(fld("a", srcRef("SchemaVersion"), true, false, nil))}, Def{"SchemaVersion", srcConst(c.v)})
		}
	}
	return out
}

// c02NameTriggers: what the known mechanisms about names need (added to c02Triggers).
func c02NameTriggers(d *Defs, set map[string]bool) {
	canon := map[string][]string{}
	for _, it := range d.Items {
		k := strings.ToLower(strings.Join(c02Words(it.Name), ""))
		canon[k] = append(canon[k], it.Name)
		if strings.ContainsAny(it.Name, "-. ") {
			set["name.def.dash"] = true
		}
		if it.Name != "" && it.Name == strings.ToUpper(it.Name) && strings.ToLower(it.Name) != it.Name {
			set["name.def.allcaps"] = true
		}
		if it.Ty.Kind == SConst {
			set["def.const"] = true
		}
	}
	keys := []string{}
	for k := range canon {
		keys = append(keys, k)
	}
	sort.Strings(keys)
	for _, k := range keys {
		if len(canon[k]) > 1 {
			set["name.def.collide"] = true
		}
	}
	c02WalkAll(d, func(s *Src) {
		switch s.Kind {
		case SRef:
			if t := d.lookup(s.Ref); t != nil && t.Kind == SConst {
				set["ref.to.const"] = true
			}
		case SEnumS:
			for _, v := range s.EnumS {
				if v != "" && unicode.IsDigit([]rune(v)[0]) {
					set["enumS.leadingDigit"] = true
				}
			}
		case SStruct:
			for _, f := range s.Fields {
				if strings.ContainsAny(f.Name, "-. ") {
					set["name.field.dash"] = true
				}
				if f.Name != "" && unicode.IsDigit([]rune(f.Name)[0]) {
					set["name.field.leadingDigit"] = true
				}
				if f.Ty.Kind == SConst {
					set["const."+c02JSONTypeOf(f.Ty.Const)] = true
				}
			}
		}
	})
	if sp := c02SpellOf(d); sp != "" {
		set["spell:"+sp] = true
	}
}
