package main

// The lab: N source schemas → real cog pipeline (in-process) → one throw-away Go module and one
// Python package tree → compiled/imported once → exercised through line protocols.
// The API is documented in /verif/docs/LAB.md; other builders code against it.

import (
	"fmt"
	"os"
	"path/filepath"
	"sort"
	"strings"
	"time"

	"github.com/grafana/cog/internal/ast"
	"github.com/grafana/cog/internal/jennies/golang"
	"github.com/grafana/cog/internal/jennies/python"
	"github.com/grafana/cog/internal/tools"
)

const labGoModule = "example.com/lab/go"
const labPyRoot = "labpy"

type GoFlags struct {
	JSONMarshaller     bool
	StrictUnmarshaller bool
	Equal              bool
	Validate           bool
	AnyAsInterface     bool
	SkipRuntime        bool
}

func defaultGoFlags() GoFlags {
	return GoFlags{JSONMarshaller: true, StrictUnmarshaller: true, Equal: true, Validate: true}
}

type LabOpts struct {
	GoFlags     GoFlags       // default Go output flags of a case (AddCaseWith overrides them per case)
	NoGo        bool          // do not generate Go
	NoPython    bool          // do not generate Python
	NoSchemaOut bool          // do not run the JSON Schema / OpenAPI output jennies
	Builders    bool          // output.builders
	Converters  bool          // output.converters (implies Builders); the lab adds cog.Dump, see LAB.md
	Degrade     int           // 0: render as is; 1: rewrite inexpressible constructs; 2 (default): also constructs the front-end drops or mis-generates
	Timeout     time.Duration // watchdog for one driver process (default 120 s)
	Cores       int           // go build -p (default 16)
	Keep        bool          // Close() keeps the directory (debugging)
}

func defaultLabOpts() LabOpts {
	return LabOpts{GoFlags: defaultGoFlags(), Degrade: 2, Timeout: 120 * time.Second, Cores: 16}
}

type LabObject struct {
	Name   string // object name in the IR
	Kind   string // IR kind of the object's type after the language's pass chain
	GoName string // Go type name (Go objects) / Python class name (Python objects)
	// methods the Go jenny emits for this object under the case's flags (decided from the IR kind)
	HasNew, HasStrict, HasEquals, HasValidate bool
}

type LabCase struct {
	Idx    int
	ID     string // c<idx><fmt>: also the Go package and the Python module name
	Format string // jsonschema | openapi | cue

	Orig        *Defs    // the term handed to AddCase
	Defs        *Defs    // the term that was rendered (Orig after degradation); nil when not renderable
	Degraded    []string // rewrites applied by degradeDefs
	Unsupported []string // constructs the format cannot express (then nothing was generated)
	Notes       []string // rendered, but known to be dropped/altered by cog's front-end
	Style       []string // spelling variants the renderer used (JSON Schema type arrays)

	SchemaText    string // what cog read
	RefSchemaText string // what the reference validator reads (differs only for OpenAPI mappings)
	SchemaPath    string

	GoFlags       GoFlags
	Builders      bool
	Converters    bool
	LibPkg        string // two-package CUE case (AddCaseCueLib): cog / Go / Python package of the library, "" otherwise
	LibSchemaText string
	LibSchemaPath string
	Veneers       string // builder veneers (YAML, %PKG% already replaced) applied to this case; "" = none
	VeneersDir    string

	GenErr string            // pipeline error or "PANIC: …"; "" when generation succeeded
	Files  map[string][]byte // pipeline output, keys as cog names them: go/<pkg>/…, python/…, jsonschema/…, openapi/…

	IRGo, IRPy             ast.Schemas  // post-chain IR per language (print with virSchemas)
	BuildersGo, BuildersPy ast.Builders // builder IR (veneers + nil checks applied) when Builders is on
	IRGoErr, IRPyErr       string

	GoObjects, PyObjects []LabObject

	GoOK         bool   // package compiled and is linked into the driver
	GoCompileErr string // compiler diagnostics of the package (or of its glue)
	PyOK         bool
	PyImportErr  string
}

func (c *LabCase) generated() bool {
	return c.SchemaText != "" && len(c.Unsupported) == 0 && c.GenErr == ""
}

func (c *LabCase) EmittedJSONSchema() []byte { return c.Files["jsonschema/"+c.ID+".jsonschema.json"] }
func (c *LabCase) EmittedOpenAPI() []byte    { return c.Files["openapi/"+c.ID+".openapi.json"] }

// RefValidator compiles the source schema for the reference validator of the case's format.
func (c *LabCase) RefValidator(root string) (*refValidator, error) {
	if root == "" {
		root = c.Defs.Root
	}
	text := c.RefSchemaText
	if text == "" {
		text = c.SchemaText
	}
	return newRefValidator(c.Format, text, root)
}

func (c *LabCase) goObject(name string) *LabObject {
	for i := range c.GoObjects {
		if c.GoObjects[i].Name == name {
			return &c.GoObjects[i]
		}
	}
	return nil
}

type LabReq struct {
	Case     string
	Object   string
	Op       string
	Payloads []string
}

func (r LabReq) line() string {
	parts := append([]string{r.Case, r.Object, r.Op}, r.Payloads...)
	for i, p := range parts {
		if strings.ContainsAny(p, "\t\n\r") {
			parts[i] = strings.NewReplacer("\t", " ", "\n", " ", "\r", " ").Replace(p)
		}
	}
	return strings.Join(parts, "\t")
}

type labExt struct {
	name  string
	files map[string]string
}

type Lab struct {
	Dir      string
	Opts     LabOpts
	Cases    []*LabCase
	Warnings []string

	goExts   []labExt
	pyExts   []labExt
	excluded map[string]string // Go package path (relative to the module) → reason
	built    bool
	BuildLog []string // one line per go build round
	Timings  map[string]time.Duration
}

func NewLab(dir string, opts LabOpts) (*Lab, error) {
	if opts.Timeout == 0 {
		opts.Timeout = 120 * time.Second
	}
	if opts.Cores == 0 {
		opts.Cores = 16
	}
	if opts.Converters {
		opts.Builders = true
	}
	if err := os.MkdirAll(dir, 0o755); err != nil {
		return nil, err
	}
	abs, err := filepath.Abs(dir)
	if err != nil {
		return nil, err
	}
	return &Lab{Dir: abs, Opts: opts, excluded: map[string]string{}, Timings: map[string]time.Duration{}}, nil
}

func (l *Lab) Close() {
	if !l.Opts.Keep {
		_ = os.RemoveAll(l.Dir)
	}
}

func (l *Lab) timed(name string, t0 time.Time) { l.Timings[name] += time.Since(t0) }

func (l *Lab) Case(id string) *LabCase {
	for _, c := range l.Cases {
		if c.ID == id {
			return c
		}
	}
	return nil
}

// AddCase renders defs in the given format, runs the real pipeline and records the outcome.
// It never fails: every problem is recorded on the returned case.
func (l *Lab) AddCase(defs *Defs, format string) *LabCase {
	return l.AddCaseWith(defs, format, l.Opts.GoFlags, l.Opts.Builders, l.Opts.Converters)
}

func (l *Lab) AddCaseWith(defs *Defs, format string, flags GoFlags, builders, converters bool) *LabCase {
	return l.AddCaseVeneers(defs, format, flags, builders, converters, "")
}

// AddCaseVeneers is AddCaseWith plus builder veneers: veneersYAML (one veneer file; every %PKG% is
// replaced by the case ID, which is the cog package name) is written to
// <lab>/veneers/<caseID>/v.yaml and that directory is handed to the pipeline as
// transformations.builders for the generation run AND for the chain IR, so BuildersGo/BuildersPy
// show the post-veneer builders. A veneer file that cog rejects shows up in GenErr / IRGoErr.
func (l *Lab) AddCaseVeneers(defs *Defs, format string, flags GoFlags, builders, converters bool, veneersYAML string) *LabCase {
	t0 := time.Now()
	defer l.timed("generate", t0)
	idx := len(l.Cases)
	c := &LabCase{Idx: idx, ID: fmt.Sprintf("c%d%s", idx, labFormatSuffix[format]), Format: format, Orig: defs,
		GoFlags: flags, Builders: builders || converters, Converters: converters}
	l.Cases = append(l.Cases, c)
	if labFormatSuffix[format] == "" {
		c.Unsupported = []string{"format:" + format}
		return c
	}
	d, notes := degradeDefs(defs, format, l.Opts.Degrade)
	c.Degraded = notes
	ro := renderDefs(d, format, c.ID)
	c.Unsupported, c.Notes, c.Style = ro.Unsupported, ro.Notes, ro.Style
	if ro.Text == "" {
		return c
	}
	c.Defs = d
	c.SchemaText, c.RefSchemaText = ro.Text, ro.RefText
	if veneersYAML != "" {
		c.Veneers = strings.ReplaceAll(veneersYAML, "%PKG%", c.ID)
		c.VeneersDir = filepath.Join(l.Dir, "veneers", c.ID)
		if err := l.writeFile(filepath.Join("veneers", c.ID, "v.yaml"), []byte(c.Veneers)); err != nil {
			c.GenErr = "lab: " + err.Error()
			return c
		}
	}
	l.generate(c)
	return c
}

// AddCaseText adds a case from hand-written schema text (any construct, also outside the
// grammar). The text must declare cog package / CUE package "%PKG%" where the format needs one
// (CUE: `package %PKG%`); every occurrence of %PKG% is replaced by the case ID. defs may be nil;
// when given it is only used by callers for document generation (it is NOT rendered).
func (l *Lab) AddCaseText(format, text string, defs *Defs) *LabCase {
	t0 := time.Now()
	defer l.timed("generate", t0)
	idx := len(l.Cases)
	c := &LabCase{Idx: idx, ID: fmt.Sprintf("c%d%s", idx, labFormatSuffix[format]), Format: format, Orig: defs, Defs: defs,
		GoFlags: l.Opts.GoFlags, Builders: l.Opts.Builders || l.Opts.Converters, Converters: l.Opts.Converters}
	l.Cases = append(l.Cases, c)
	if labFormatSuffix[format] == "" {
		c.Unsupported = []string{"format:" + format}
		return c
	}
	c.SchemaText = strings.ReplaceAll(text, "%PKG%", c.ID)
	l.generate(c)
	return c
}

// AddCaseCueLib adds a case made of TWO cog packages (CUE only): a library package and a main
// package that may `import "example.com/%LIB%"`. The case ID (c<idx>cue) names the main package,
// the library is <caseID>lib; %PKG% / %LIB% in both texts (and %PKG% in veneersYAML) are replaced
// by those names. The pipeline gets two inputs — {cue: lib}, {cue: main, cue_imports:
// [<libdir>:example.com/<lib>]} — for the generation run and for the chain IR; the generated Go
// and Python of both packages go into the lab (go/<caseID>/, go/<caseID>lib/, models/<caseID>.py,
// models/<caseID>lib.py). IRGo / BuildersGo cover both packages; GoObjects / PyObjects and the
// standard ops are those of the main package. GoOK is false if either package fails to compile.
func (l *Lab) AddCaseCueLib(libText, mainText string, flags GoFlags, builders, converters bool, veneersYAML string) *LabCase {
	t0 := time.Now()
	defer l.timed("generate", t0)
	idx := len(l.Cases)
	c := &LabCase{Idx: idx, ID: fmt.Sprintf("c%dcue", idx), Format: "cue", GoFlags: flags, Builders: builders || converters, Converters: converters}
	c.LibPkg = c.ID + "lib"
	l.Cases = append(l.Cases, c)
	rep := strings.NewReplacer("%PKG%", c.ID, "%LIB%", c.LibPkg)
	c.SchemaText, c.LibSchemaText = rep.Replace(mainText), rep.Replace(libText)
	if veneersYAML != "" {
		c.Veneers = rep.Replace(veneersYAML)
		c.VeneersDir = filepath.Join(l.Dir, "veneers", c.ID)
		if err := l.writeFile(filepath.Join("veneers", c.ID, "v.yaml"), []byte(c.Veneers)); err != nil {
			c.GenErr = "lab: " + err.Error()
			return c
		}
	}
	l.generate(c)
	return c
}

func (l *Lab) generate(c *LabCase) {
	flags := c.GoFlags
	path, err := writeSchemaFile(filepath.Join(l.Dir, "schemas"), c.Format, c.ID, c.SchemaText)
	if err != nil {
		c.GenErr = "lab: " + err.Error()
		return
	}
	c.SchemaPath = path
	if c.LibPkg != "" {
		lp, err := writeSchemaFile(filepath.Join(l.Dir, "schemas"), "cue", c.LibPkg, c.LibSchemaText)
		if err != nil {
			c.GenErr = "lab: " + err.Error()
			return
		}
		c.LibSchemaPath = lp
	}
	lr := l.labRun(c)
	files, err := lr.run()
	if err != nil {
		c.GenErr = err.Error()
	} else {
		c.Files = files
	}
	// post-chain IR, independently of whether the jennies succeeded
	if !l.Opts.NoGo {
		ir, b, err := lr.chainIR("go")
		c.IRGo, c.BuildersGo = ir, b
		if err != nil {
			c.IRGoErr = err.Error()
		}
		c.GoObjects = goObjectsOf(ir, c.ID, flags, c.Builders)
	}
	if !l.Opts.NoPython {
		ir, b, err := lr.chainIR("python")
		c.IRPy, c.BuildersPy = ir, b
		if err != nil {
			c.IRPyErr = err.Error()
		}
		c.PyObjects = pyObjectsOf(ir, c.ID)
	}
}

func (l *Lab) labRun(c *LabCase) labRun {
	lr := labRun{Format: c.Format, Path: c.SchemaPath, Package: c.ID, Builders: c.Builders, Convert: c.Converters, VeneersDir: c.VeneersDir,
		LibPath: c.LibSchemaPath, LibPackage: c.LibPkg}
	if !l.Opts.NoGo {
		lr.GoCfg = &golang.Config{GenerateJSONMarshaller: c.GoFlags.JSONMarshaller, GenerateStrictUnmarshaller: c.GoFlags.StrictUnmarshaller,
			GenerateEqual: c.GoFlags.Equal, GenerateValidate: c.GoFlags.Validate, AnyAsInterface: c.GoFlags.AnyAsInterface,
			SkipRuntime: c.GoFlags.SkipRuntime, PackageRoot: labGoModule}
	}
	if !l.Opts.NoPython {
		lr.PyCfg = &python.Config{GenerateJSONMarshaller: true}
	}
	if !l.Opts.NoSchemaOut {
		lr.JSONSch, lr.OpenAPI = true, true
	}
	return lr
}

func kindOf(t ast.Type) string {
	if t.Kind == ast.KindStruct && t.IsStructGeneratedFromDisjunction() {
		return "struct(union)"
	}
	if t.IsConcreteScalar() {
		return "constant" // emitted as a Go `const`, not as a type: no ops
	}
	return string(t.Kind)
}

func goObjectsOf(ss ast.Schemas, pkg string, flags GoFlags, builders bool) []LabObject {
	out := []LabObject{}
	for _, s := range ss {
		if s.Package != pkg || s.Objects == nil {
			continue
		}
		s.Objects.Iterate(func(_ string, o ast.Object) {
			ob := LabObject{Name: o.Name, Kind: kindOf(o.Type), GoName: tools.UpperCamelCase(o.Name)}
			if o.Type.IsStruct() {
				ob.HasNew = true
				ob.HasStrict = flags.JSONMarshaller && flags.StrictUnmarshaller && !flags.SkipRuntime
				ob.HasEquals = flags.Equal
				ob.HasValidate = !flags.SkipRuntime && (flags.Validate || builders)
			}
			if o.Type.IsRef() {
				if ro, ok := ss.LocateObject(o.Type.Ref.ReferredPkg, o.Type.Ref.ReferredType); ok && ro.Type.IsStruct() {
					ob.HasNew = true
				}
			}
			out = append(out, ob)
		})
	}
	return out
}

func pyObjectsOf(ss ast.Schemas, pkg string) []LabObject {
	out := []LabObject{}
	for _, s := range ss {
		if s.Package != pkg || s.Objects == nil {
			continue
		}
		s.Objects.Iterate(func(_ string, o ast.Object) {
			out = append(out, LabObject{Name: o.Name, Kind: kindOf(o.Type), GoName: tools.UpperCamelCase(o.Name), HasNew: o.Type.IsStruct()})
		})
	}
	return out
}

// AddGoExt adds a package ext/<name> to the Go module (files: file name → source, package
// clause `package <name>`). Its init() functions register additional ops with
// labrt.Register(caseID, object, op, func(payloads []string) string). If the package (or a case
// package it imports) does not compile it is left out and reported in Lab.GoExtErr(name).
func (l *Lab) AddGoExt(name string, files map[string]string) {
	l.goExts = append(l.goExts, labExt{name, files})
}

// AddPyExt adds a module labpy_ext_<name>.py executed by the Python driver after the generated
// modules are imported; it may call register(case_id, object, op, fn) where fn(payloads) -> str.
func (l *Lab) AddPyExt(name string, source string) {
	l.pyExts = append(l.pyExts, labExt{name, map[string]string{"ext.py": source}})
}

func (l *Lab) GoExtErr(name string) string { return l.excluded["ext/"+name] }

func (l *Lab) writeFile(rel string, data []byte) error {
	p := filepath.Join(l.Dir, rel)
	if err := os.MkdirAll(filepath.Dir(p), 0o755); err != nil {
		return err
	}
	return os.WriteFile(p, data, 0o644)
}

// Build writes everything, compiles the Go driver (excluding packages that do not compile) and
// checks which Python modules import.
func (l *Lab) Build() error {
	t0 := time.Now()
	// generated files
	shared := map[string]string{}
	for _, c := range l.Cases {
		if !c.generated() {
			continue
		}
		names := make([]string, 0, len(c.Files))
		for n := range c.Files {
			names = append(names, n)
		}
		sort.Strings(names)
		for _, n := range names {
			data := c.Files[n]
			var rel string
			switch {
			case strings.HasPrefix(n, "go/"):
				rel = "go/" + strings.TrimPrefix(n, "go/")
			case strings.HasPrefix(n, "python/"):
				rel = "py/" + labPyRoot + "/" + strings.TrimPrefix(n, "python/")
			default:
				rel = "out/" + n
			}
			if prev, ok := shared[rel]; ok {
				if prev != string(data) {
					l.Warnings = append(l.Warnings, fmt.Sprintf("file %s differs between cases (kept the first; %s)", rel, c.ID))
				}
				continue
			}
			shared[rel] = string(data)
			if err := l.writeFile(rel, data); err != nil {
				return err
			}
		}
	}
	l.timed("write", t0)
	if !l.Opts.NoGo {
		if err := l.buildGo(); err != nil {
			return err
		}
	}
	if !l.Opts.NoPython {
		if err := l.buildPy(); err != nil {
			return err
		}
	}
	l.built = true
	return nil
}

func labOneLine(s string) string {
	return strings.Join(strings.Fields(s), " ")
}
