package main

// Renderer: Defs → OpenAPI 3.0 document (`components.schemas`), in the dialect cog's OpenAPI
// front-end (internal/openapi/generator.go) reads.

import "strings"

type oaRenderer struct {
	d       *Defs
	out     *renderOut
	mapping string
}

// oaMappingStyle selects how the discriminator mapping of a oneOfStructs is spelled:
// "names" (mapping values are schema names; the reference validator gets the equivalent "refs"
// text because kin-openapi only resolves references), "refs" (values are #/components/schemas/X —
// the common spelling, for which cog's Go jenny fails the run: the generated code does not parse),
// "none" (propertyName only; cog infers the mapping from the branches' constant fields).
var oaMappingStyle = "names"

func renderOpenAPI(d *Defs) renderOut {
	out := renderOpenAPIStyle(d, oaMappingStyle)
	if oaMappingStyle == "names" && out.Text != "" && strings.Contains(out.Text, `"discriminator"`) {
		// kin-openapi only resolves reference-valued mappings; validate against the equivalent spelling
		out.RefText = renderOpenAPIStyle(d, "refs").Text
	}
	return out
}

func renderOpenAPIStyle(d *Defs, mappingStyle string) renderOut {
	out := renderOut{}
	r := &oaRenderer{d: d, out: &out, mapping: mappingStyle}
	schemas := jObj()
	for _, it := range d.Items {
		schemas.O = append(schemas.O, JKV{it.Name, r.ty(it.Ty)})
	}
	doc := jObj(
		kv("openapi", jStr("3.0.0")),
		kv("info", jObj(kv("title", jStr(d.Root)), kv("version", jStr("0.0")))),
		kv("paths", jObj()),
		kv("components", jObj(kv("schemas", schemas))),
	)
	out.Text = doc.pretty() + "\n"
	out.finish()
	return out
}

func regexSafeConst(s string) bool {
	return s != "" && !strings.ContainsAny(s, ".+*?()|[]{}^$\\/")
}

func (r *oaRenderer) ref(name string) string { return "#/components/schemas/" + name }

func (r *oaRenderer) ty(s *Src) JV {
	switch s.Kind {
	case SAny:
		return jObj()
	case SBool:
		return jObj(kv("type", jStr("boolean")))
	case SString:
		o := jObj(kv("type", jStr("string")))
		if s.DateTime {
			o.set("format", jStr("date-time"))
		}
		if s.MinLen != nil {
			o.set("minLength", jInt(*s.MinLen))
		}
		if s.MaxLen != nil {
			o.set("maxLength", jInt(*s.MaxLen))
		}
		return o
	case SConst:
		// OpenAPI 3.0 has no `const`. Strings use the constant-regex spelling cog recognises;
		// integers become a one-member enum; booleans cannot be expressed (cog rejects boolean enums).
		switch s.Const.K {
		case 's':
			if regexSafeConst(s.Const.S) {
				return jObj(kv("type", jStr("string")), kv("pattern", jStr("^"+s.Const.S+"$")))
			}
			r.out.note("const.string:as-one-member-enum")
			return jObj(kv("type", jStr("string")), kv("enum", jArr(s.Const.clone())))
		case 'n':
			r.out.note("const.int:as-one-member-enum")
			return jObj(kv("type", jStr("integer")), kv("enum", jArr(s.Const.clone())))
		default:
			r.out.unsupported("const.bool")
			return jObj(kv("type", jStr("boolean")), kv("enum", jArr(s.Const.clone())))
		}
	case SInt:
		o := jObj(kv("type", jStr("integer")))
		switch {
		case !s.Signed:
			r.out.unsupported("int.unsigned")
		case s.Width == 32:
			o.set("format", jStr("int32"))
		case s.Width == 64:
			o.set("format", jStr("int64"))
		default:
			r.out.unsupported("int.narrow")
		}
		if s.Lo != nil {
			o.set("minimum", jInt(*s.Lo))
		}
		if s.Hi != nil {
			o.set("maximum", jInt(*s.Hi))
		}
		return o
	case SNum:
		o := jObj(kv("type", jStr("number")))
		if s.Width == 32 {
			o.set("format", jStr("float"))
		} else {
			o.set("format", jStr("double"))
		}
		if s.FLo != nil {
			o.set("minimum", jFloat(*s.FLo))
		}
		if s.FHi != nil {
			o.set("maximum", jFloat(*s.FHi))
		}
		return o
	case SEnumS:
		vals := jArr()
		for _, v := range s.EnumS {
			vals.A = append(vals.A, jStr(v))
		}
		return jObj(kv("type", jStr("string")), kv("enum", vals))
	case SEnumI:
		vals := jArr()
		for _, v := range s.EnumI {
			vals.A = append(vals.A, jInt(v))
		}
		return jObj(kv("type", jStr("integer")), kv("enum", vals))
	case SNullable:
		t := r.ty(s.Elem)
		switch s.Elem.Kind {
		case SRef:
			r.out.unsupported("nullable.ref") // `nullable` beside `$ref` is ignored
		case SString, SInt, SNum:
		case SConst:
			if s.Elem.Const.K != 's' || !regexSafeConst(s.Elem.Const.S) {
				r.out.note("elem.nullable." + s.Elem.Kind.String() + ":dropped-by-front-end")
			}
		default:
			r.out.note("elem.nullable." + s.Elem.Kind.String() + ":dropped-by-front-end")
		}
		t.set("nullable", jBool(true))
		return t
	case SArray:
		return jObj(kv("type", jStr("array")), kv("items", r.ty(s.Elem)))
	case SDict:
		return jObj(kv("type", jStr("object")), kv("additionalProperties", r.ty(s.Elem)))
	case SRef:
		return jObj(kv("$ref", jStr(r.ref(s.Ref))))
	case SStruct:
		o := jObj(kv("type", jStr("object")), kv("additionalProperties", jBool(false)))
		if len(s.Fields) == 0 {
			r.out.note("struct.empty:parsed-as-any")
			return o
		}
		req := jArr()
		props := jObj()
		for _, f := range s.Fields {
			if f.Required {
				req.A = append(req.A, jStr(f.Name))
			}
			props.O = append(props.O, JKV{f.Name, r.field(f)})
		}
		if len(req.A) > 0 {
			o.set("required", req)
		}
		o.set("properties", props)
		return o
	case SOneOfScalars:
		alts := jArr()
		for _, a := range s.Alts {
			alts.A = append(alts.A, r.ty(a))
		}
		key := "oneOf"
		if altsOverlap(s.Alts) {
			key = "anyOf"
		}
		return jObj(kv(key, alts))
	case SOneOfStructs:
		alts := jArr()
		mapping := jObj()
		for _, b := range s.Branches {
			alts.A = append(alts.A, jObj(kv("$ref", jStr(r.ref(b.Name)))))
			if r.mapping == "refs" {
				mapping.O = append(mapping.O, JKV{b.Tag, jStr(r.ref(b.Name))})
			} else {
				mapping.O = append(mapping.O, JKV{b.Tag, jStr(b.Name)})
			}
		}
		disc := jObj(kv("propertyName", jStr(s.Disc)))
		if r.mapping != "none" {
			disc.set("mapping", mapping)
		}
		return jObj(kv("oneOf", alts), kv("discriminator", disc))
	}
	return jObj()
}

func (r *oaRenderer) field(f Field) JV {
	t := r.ty(f.Ty)
	if f.Default != nil {
		switch f.Ty.Kind {
		case SRef:
			r.out.unsupported("default.onRef") // siblings of $ref are ignored
		case SStruct:
			r.out.note("default.struct:dropped-by-front-end")
		case SOneOfScalars:
			r.out.note("default.union:dropped-by-front-end")
		}
		t.set("default", f.Default.clone())
	}
	if f.Nullable {
		switch f.Ty.Kind {
		case SRef:
			// `nullable` beside `$ref` is ignored; the allOf idiom is read by cog as an intersection
			r.out.unsupported("nullable.ref")
		case SString, SInt, SNum:
		case SConst:
			if f.Ty.Const.K != 's' || !regexSafeConst(f.Ty.Const.S) {
				r.out.note("nullable." + f.Ty.Kind.String() + ":dropped-by-front-end")
			}
		default:
			r.out.note("nullable." + f.Ty.Kind.String() + ":dropped-by-front-end")
		}
		t.set("nullable", jBool(true))
	}
	return t
}
