package main

// C02 stream `c02-langs`: every output language at once. For each Src term × format the real
// pipeline runs with Go, Python, Java, TypeScript, PHP, JSON Schema and OpenAPI configured, under a
// configuration drawn from the same combination table as `c02-lab` (types / builders / converters /
// api_reference, json marshaller, skip_runtime, enums_as_union_types). Then
//   * EVERY emitted file of EVERY language is scanned for cog's placeholder texts;
//   * generated Java is compiled with javac against the stub sources of c02_javastubs.go;
//   * generated Python is byte-compiled (compileall) and every module is imported, also under the
//     flag combinations the shared lab does not use (marshaller off, skip_runtime).
// TypeScript and PHP have no compiler in this sandbox: placeholder scan only (said so in the evidence).
//
// rows:  -  \t  scan|java|py <case> …  \t  ok | FAIL <kind> <case text>

import (
	"bufio"
	"bytes"
	"context"
	"encoding/json"
	"fmt"
	"os"
	"os/exec"
	"path/filepath"
	"regexp"
	"sort"
	"strings"
	"time"
)

type c02LangCase struct {
	ID     string
	Format string
	Defs   *Defs
	Combo  c02Combo
	GenErr string
	Files  map[string][]byte
	Group  string
}

func c02GroupKey(c c02Combo) string {
	b := func(x bool) string {
		if x {
			return "1"
		}
		return "0"
	}
	return "b" + b(c.Builders) + "m" + b(c.LangMarshal) + "s" + b(c.LangSkipRT)
}

var c02JavacLine = regexp.MustCompile(`^(\S+\.java):(\d+): error: (.*)$`)

// c02JavaClass normalises a javac diagnostic: the message without names and numbers, plus — for
// "cannot find symbol" — the kind of the missing symbol (class *Serializer, variable unknown, …).
func c02JavaClass(d string) string {
	where := ":in-type"
	if i := strings.Index(d, ".java:"); i >= 0 {
		switch {
		case strings.HasSuffix(d[:i], "Builder"):
			where = ":in-builder"
		case strings.HasSuffix(d[:i], "Converter"):
			where = ":in-converter"
		case strings.HasSuffix(d[:i], "Serializer") || strings.HasSuffix(d[:i], "Deserializer"):
			where = ":in-serializer"
		}
	}
	return c02JavaClass0(d) + where
}

func c02JavaClass0(d string) string {
	msg, symbol := d, ""
	if i := strings.Index(d, " | symbol: "); i >= 0 {
		msg, symbol = d[:i], strings.TrimSpace(d[i+len(" | symbol: "):])
	}
	if i := strings.Index(msg, ".java:"); i >= 0 {
		if j := strings.Index(msg[i:], ": "); j >= 0 {
			msg = msg[i+j+2:]
		}
	}
	switch {
	case strings.Contains(msg, "enum constant expected"):
		if strings.Contains(msg, "member name starts with a digit") {
			return "java:enum-constant-expected:digit-name"
		}
		return "java:enum-constant-expected"
	case strings.Contains(msg, "integer number too large"):
		return "java:integer-number-too-large"
	case strings.Contains(msg, "cannot find symbol"):
		fields := strings.Fields(symbol)
		kind, name := "?", "?"
		if len(fields) >= 2 {
			kind, name = fields[0], fields[1]
		}
		switch {
		case strings.HasSuffix(name, "Deserializer"):
			name = "*Deserializer"
		case strings.HasSuffix(name, "Serializer"):
			name = "*Serializer"
		case strings.HasSuffix(name, "Builder"):
			name = "*Builder"
		case strings.HasSuffix(name, "Converter"):
			name = "*Converter"
		case name == "unknown":
		default:
			if i := strings.IndexByte(name, '('); i >= 0 {
				name = name[:i] + "()"
			} else if kind == "class" || kind == "variable" {
				name = "*"
			}
		}
		return "java:cannot-find-symbol:" + kind + ":" + name
	case strings.Contains(msg, "incompatible types"):
		m := strings.TrimSpace(strings.TrimPrefix(msg, "incompatible types:"))
		m = strings.NewReplacer(" cannot be converted to ", "->", " ", "-").Replace(m)
		if len(m) > 40 {
			m = m[:40]
		}
		return "java:incompatible-types:" + m
	case strings.Contains(msg, "has protected access in"):
		return "java:protected-access"
	case strings.Contains(msg, "is already defined"):
		return "java:already-defined"
	case strings.Contains(msg, "is public, should be declared in a file named"):
		return "java:public-type-file-name-mismatch"
	case strings.Contains(msg, "illegal start of"):
		return "java:illegal-start"
	case strings.Contains(msg, "expected"):
		return "java:syntax"
	case strings.Contains(msg, "package ") && strings.Contains(msg, "does not exist"):
		pkg := strings.Fields(strings.TrimPrefix(msg, "package "))[0]
		if strings.HasPrefix(pkg, "com.fasterxml") {
			return "java:stub-surface:" + pkg
		}
		if strings.HasSuffix(pkg, ".cog") || strings.Contains(pkg, ".cog.") {
			return "java:package-does-not-exist:runtime"
		}
		return "java:package-does-not-exist"
	}
	out := []rune{}
	for _, r := range msg {
		if r >= '0' && r <= '9' {
			continue
		}
		out = append(out, r)
	}
	s := strings.Join(strings.Fields(string(out)), "-")
	if len(s) > 50 {
		s = s[:50]
	}
	return "java:" + s
}

func c02RunCmd(dir string, timeout time.Duration, name string, args ...string) (string, error) {
	return c02RunCmdEnv(dir, timeout, nil, name, args...)
}

// c02RunSplit runs a command and returns stdout and stderr separately.
func c02RunSplit(timeout time.Duration, name string, args ...string) (string, string, error) {
	ctx, cancel := context.WithTimeout(context.Background(), timeout)
	defer cancel()
	cmd := exec.CommandContext(ctx, name, args...)
	var so, se bytes.Buffer
	cmd.Stdout, cmd.Stderr = &so, &se
	err := cmd.Run()
	return so.String(), se.String(), err
}

func c02RunCmdEnv(dir string, timeout time.Duration, env []string, name string, args ...string) (string, error) {
	ctx, cancel := context.WithTimeout(context.Background(), timeout)
	defer cancel()
	cmd := exec.CommandContext(ctx, name, args...)
	cmd.Dir = dir
	if env != nil {
		cmd.Env = env
	}
	var buf bytes.Buffer
	cmd.Stdout, cmd.Stderr = &buf, &buf
	err := cmd.Run()
	return buf.String(), err
}

// c02CompileJava compiles the stubs once and then every group's tree; returns case ID → first diagnostics.
func c02CompileJava(work string, groups map[string][]*c02LangCase) (map[string][]string, string, error) {
	if _, err := exec.LookPath("javac"); err != nil {
		return nil, "javac not available", nil
	}
	stubDir := filepath.Join(work, "java", "stubs")
	var list []string
	for rel, src := range c02JavaStubs {
		p := filepath.Join(stubDir, "src", rel)
		if err := os.MkdirAll(filepath.Dir(p), 0o755); err != nil {
			return nil, "", err
		}
		if err := os.WriteFile(p, []byte(src), 0o644); err != nil {
			return nil, "", err
		}
		list = append(list, p)
	}
	sort.Strings(list)
	if err := os.WriteFile(filepath.Join(stubDir, "files.txt"), []byte(strings.Join(list, "\n")), 0o644); err != nil {
		return nil, "", err
	}
	if out, err := c02RunCmd(stubDir, 5*time.Minute, "javac", "-proc:none", "-nowarn", "-d", filepath.Join(stubDir, "classes"), "@files.txt"); err != nil {
		return nil, "", fmt.Errorf("the Jackson stubs do not compile: %s", out)
	}
	diags := map[string][]string{}
	keys := make([]string, 0, len(groups))
	for k := range groups {
		keys = append(keys, k)
	}
	sort.Strings(keys)
	for _, k := range keys {
		root := filepath.Join(work, "java", k)
		owner := map[string]string{} // package directory → case
		filesOf := map[string][]string{}
		seen := map[string]bool{}
		for _, c := range groups[k] {
			for _, name := range c02SortedNames(c.Files) {
				if !strings.HasPrefix(name, "java/") || !strings.HasSuffix(name, ".java") {
					continue
				}
				rel := strings.TrimPrefix(name, "java/src/main/java/")
				if seen[rel] {
					continue
				}
				seen[rel] = true
				p := filepath.Join(root, rel)
				if err := os.MkdirAll(filepath.Dir(p), 0o755); err != nil {
					return nil, "", err
				}
				if err := os.WriteFile(p, c.Files[name], 0o644); err != nil {
					return nil, "", err
				}
				dir := filepath.Dir(rel)
				if _, ok := owner[dir]; !ok {
					owner[dir] = c.ID
					// the shared runtime package belongs to no case: it is never taken out of the build
					if strings.HasSuffix(dir, "/cog") || strings.Contains(dir, "/cog/") {
						owner[dir] = "*runtime:" + k
					}
				}
				filesOf[owner[dir]] = append(filesOf[owner[dir]], p)
			}
		}
		if len(filesOf) == 0 {
			continue
		}
		// javac stops after the parsing phase when any file has a syntax error: cases with
		// diagnostics are taken out and the rest is compiled again, so that one broken case does
		// not hide the type errors of the others
		excluded := map[string]bool{}
		for round := 0; round < 4; round++ {
			var files []string
			for id, fs := range filesOf {
				if !excluded[id] {
					files = append(files, fs...)
				}
			}
			sort.Strings(files)
			if len(files) == 0 {
				break
			}
			if err := os.WriteFile(filepath.Join(root, "files.txt"), []byte(strings.Join(files, "\n")), 0o644); err != nil {
				return nil, "", err
			}
			out, _ := c02RunCmd(root, 10*time.Minute, "javac", "-Xmaxerrs", "100000", "-proc:none", "-nowarn", "-cp", filepath.Join(stubDir, "classes"), "-d", filepath.Join(root, "classes"), "@files.txt")
			progress := false
			lines := strings.Split(out, "\n")
			enumBroken := map[string]bool{} // files with the integer-enum syntax error: later syntax errors there are follow-ups
			for li, line := range lines {
				m := c02JavacLine.FindStringSubmatch(line)
				if m == nil {
					continue
				}
				rel, _ := filepath.Rel(root, m[1])
				id := owner[filepath.Dir(rel)]
				if id == "" {
					id = "*runtime:" + k
				}
				if enumBroken[m[1]] {
					continue
				}
				if strings.Contains(m[3], "enum constant expected") {
					enumBroken[m[1]] = true
				}
				d := filepath.Base(m[1]) + ":" + m[2] + ": " + m[3]
				if strings.Contains(m[3], "enum constant expected") && li+1 < len(lines) {
					if t := strings.TrimSpace(lines[li+1]); t != "" && t[0] >= '0' && t[0] <= '9' {
						d += " (member name starts with a digit)"
					}
				}
				for la := li + 1; la < len(lines) && la <= li+4; la++ {
					if t := strings.TrimSpace(lines[la]); strings.HasPrefix(t, "symbol:") {
						d += " | symbol: " + strings.TrimSpace(strings.TrimPrefix(t, "symbol:"))
						break
					}
				}
				diags[id] = append(diags[id], d)
				if !excluded[id] && !strings.HasPrefix(id, "*") {
					excluded[id] = true
					progress = true
				}
			}
			if !progress {
				break
			}
		}
	}
	return diags, "", nil
}

const c02PyDriver = `
import importlib, json, os, py_compile, sys
root, spec = sys.argv[1], json.load(open(sys.argv[2]))
sys.path.insert(0, root)
res = {}
owner = {}
for case, mods in spec.items():
    for m in mods:
        owner[m.replace(".", "/") + ".py"] = case
# byte-compile EVERY emitted module (python -m py_compile), attributed to the case that owns the file
for dirpath, _, files in os.walk(os.path.join(root, "labpy")):
    for f in sorted(files):
        if not f.endswith(".py"):
            continue
        path = os.path.join(dirpath, f)
        rel = os.path.relpath(path, root)
        try:
            py_compile.compile(path, cfile=os.path.join(root, "tmp.pyc"), doraise=True)
        except py_compile.PyCompileError as e:
            who = owner.get(rel, "*runtime:" + rel)
            res.setdefault(who, "py_compile %s: %s" % (rel, " ".join(str(e.msg).split())[:400]))
for case, mods in spec.items():
    for m in mods:
        try:
            importlib.import_module(m)
        except BaseException as e:
            res.setdefault(case, "%s: %s: %s" % (m, type(e).__name__, e))
print(json.dumps(res))
`

// c02CheckPython byte-compiles and imports the Python output of every group; returns case ID → error.
func c02CheckPython(work string, groups map[string][]*c02LangCase) (map[string]string, error) {
	res := map[string]string{}
	keys := make([]string, 0, len(groups))
	for k := range groups {
		keys = append(keys, k)
	}
	sort.Strings(keys)
	for _, k := range keys {
		root := filepath.Join(work, "py", k)
		spec := map[string][]string{}
		seen := map[string]bool{}
		for _, c := range groups[k] {
			mods := []string{}
			for _, name := range c02SortedNames(c.Files) {
				if !strings.HasPrefix(name, "python/") || !strings.HasSuffix(name, ".py") {
					continue
				}
				rel := strings.TrimPrefix(name, "python/")
				if !seen[rel] {
					seen[rel] = true
					p := filepath.Join(root, "labpy", rel)
					if err := os.MkdirAll(filepath.Dir(p), 0o755); err != nil {
						return nil, err
					}
					if err := os.WriteFile(p, c.Files[name], 0o644); err != nil {
						return nil, err
					}
				}
				if strings.HasPrefix(rel, "models/") || strings.HasPrefix(rel, "builders/") {
					if base := strings.TrimSuffix(filepath.Base(rel), ".py"); base != "__init__" {
						mods = append(mods, "labpy."+strings.ReplaceAll(strings.TrimSuffix(rel, ".py"), "/", "."))
					}
				}
			}
			if len(mods) > 0 {
				spec[c.ID] = mods
			}
		}
		if len(spec) == 0 {
			continue
		}
		raw, _ := json.Marshal(spec)
		if err := os.WriteFile(filepath.Join(root, "spec.json"), raw, 0o644); err != nil {
			return nil, err
		}
		if err := os.WriteFile(filepath.Join(root, "driver.py"), []byte(c02PyDriver), 0o644); err != nil {
			return nil, err
		}
		out, err := c02RunCmd(root, 10*time.Minute, labPython(), "driver.py", root, filepath.Join(root, "spec.json"))
		if err != nil {
			return nil, fmt.Errorf("python driver failed for group %s: %s", k, out)
		}
		lines := strings.Split(strings.TrimSpace(out), "\n")
		errs := map[string]string{}
		if err := json.Unmarshal([]byte(lines[len(lines)-1]), &errs); err != nil {
			return nil, fmt.Errorf("python driver output for group %s: %s", k, out)
		}
		for id, e := range errs {
			if strings.HasPrefix(id, "*") {
				id = id + ":" + k
			}
			res[id] = e
		}
	}
	return res, nil
}

func c02LangCases(args map[string]string, work string) ([]*c02LangCase, map[string]int, error) {
	n := argInt(args, "n", 12)
	seed := uint64(argInt(args, "seed", 1))
	from := argInt(args, "from", 0)
	combos := c02Combos(args["tier"])
	gen := argGenOpts(args)
	hist := map[string]int{}
	terms := []*Defs{}
	if path, ok := args["file"]; ok {
		for _, line := range readLines(path) {
			d, err := parseDefsSexp(line)
			if err != nil {
				return nil, nil, err
			}
			terms = append(terms, d)
		}
	} else {
		for i := from; i < from+n; i++ {
			terms = append(terms, c02MaybeRestyle(genDefs(seed, i, gen), i+int(seed), ""))
		}
		c02Spell = "mixed"
	}
	if sp, ok := args["spell"]; ok {
		c02Spell = sp
	}
	cases := []*c02LangCase{}
	j := int(seed)*11 + 3
	for i, d0 := range terms {
		d0.walkTags(func(t string) { hist[t]++ })
		for _, f := range labFormats {
			if only, ok := args["format"]; ok && only != f {
				continue
			}
			combo := c02Mode(j, combos[j%len(combos)])
			j++
			id := fmt.Sprintf("l%d%s", i, labFormatSuffix[f])
			c := &c02LangCase{ID: id, Format: f, Combo: combo, Group: c02GroupKey(combo)}
			cases = append(cases, c)
			d, _ := degradeDefs(d0, f, argInt(args, "degrade", 2))
			ro := renderDefs(d, f, id)
			if ro.Text == "" {
				c.GenErr = "unsupported-by-format: " + strings.Join(ro.Unsupported, ",")
				continue
			}
			c.Defs = d
			path, err := writeSchemaFile(filepath.Join(work, "schemas"), f, id, ro.Text)
			if err != nil {
				return nil, nil, err
			}
			o := c02Opts{Types: true, Builders: combo.Builders, Converters: combo.Converters, APIRef: combo.APIRef, Go: combo.Go,
				EnumsAsUnion: combo.EnumsAsUnion, LangMarshal: combo.LangMarshal, LangSkipRuntime: combo.LangSkipRT}
			p, err := c02Pipeline(f, path, id, nil, o, work)
			if err != nil {
				return nil, nil, err
			}
			files, err := c02Run(p)
			if err != nil {
				c.GenErr = err.Error()
				continue
			}
			c.Files = files
		}
	}
	return cases, hist, nil
}

// c02ReportLangs scans, compiles and prints the rows of a set of all-language cases.
func c02ReportLangs(out *bufio.Writer, work string, cases []*c02LangCase, describe func(c *c02LangCase, lang, class string) string) (map[string]int, error) {
	counts := map[string]int{}
	groups := map[string][]*c02LangCase{}
	for _, c := range cases {
		if c.GenErr == "" {
			groups[c.Group] = append(groups[c.Group], c)
		}
	}
	jdiags, jnote, err := c02CompileJava(work, groups)
	if err != nil {
		return nil, err
	}
	pyerrs, err := c02CheckPython(work, groups)
	if err != nil {
		return nil, err
	}
	for _, c := range cases {
		if c.GenErr != "" {
			counts["run-error-or-unsupported"]++
			fmt.Fprintf(out, "-\tskip %s %s\tok\n", c.ID, labOneLine(labFirstLine(c.GenErr)))
			continue
		}
		counts["run-ok"]++
		byLang := map[string]int{}
		for n := range c.Files {
			byLang[c02LangOf(n)]++
		}
		for l, k := range byLang {
			counts["files-"+l] += k
		}
		hits, nf := c02ScanFiles(c.Files)
		if len(hits) == 0 {
			fmt.Fprintf(out, "-\tscan %s files=%d\tok\n", c.ID, nf)
		} else {
			counts["placeholder"]++
			seenLang := map[string]bool{}
			for _, h := range hits {
				parts := strings.SplitN(h, " in ", 2)
				lang := c02LangOf(parts[1])
				if seenLang[lang+parts[0]] {
					continue
				}
				seenLang[lang+parts[0]] = true
				fmt.Fprintf(out, "-\tscan %s files=%d %s\tFAIL placeholder %s hits=%s\n", c.ID, nf, h, describe(c, lang, "placeholder:"+parts[0]), labOneLine(h))
			}
		}
		if jnote != "" {
			fmt.Fprintf(out, "-\tjava %s skipped %s\tok\n", c.ID, jnote)
		} else if byLang["java"] > 0 {
			if ds := jdiags[c.ID]; len(ds) > 0 {
				counts["java-fail"]++
				seenClass := map[string]bool{}
				for _, d := range ds {
					cls := c02JavaClass(d)
					if seenClass[cls] || len(seenClass) >= 5 {
						continue
					}
					seenClass[cls] = true
					fmt.Fprintf(out, "-\tjava %s compile-error %s\tFAIL java-compile %s diag=%s\n", c.ID, labOneLine(d), describe(c, "java", cls), labOneLine(d))
				}
			} else {
				counts["java-ok"]++
				fmt.Fprintf(out, "-\tjava %s ok files=%d\tok\n", c.ID, byLang["java"])
			}
		}
		if byLang["python"] > 0 {
			if e, bad := pyerrs[c.ID]; bad {
				counts["py-fail"]++
				fmt.Fprintf(out, "-\tpy %s import-error %s\tFAIL py-import %s diag=%s\n", c.ID, labOneLine(e), describe(c, "python", c02PyClass(e)), labOneLine(e))
			} else {
				counts["py-ok"]++
				fmt.Fprintf(out, "-\tpy %s ok\tok\n", c.ID)
			}
		}
	}
	for id, ds := range jdiags {
		if strings.HasPrefix(id, "*") {
			fmt.Fprintf(out, "-\tjava %s runtime-compile-error %s\tFAIL java-compile lang=java class=%s trig=runtime %s\n", id, labOneLine(ds[0]), c02JavaClass(ds[0]), id)
		}
	}
	for id, e := range pyerrs {
		if strings.HasPrefix(id, "*") {
			fmt.Fprintf(out, "-\tpy %s runtime-module %s\tFAIL py-compile lang=python class=%s trig=runtime %s\n", id, labOneLine(e), c02PyClass(e), id)
		}
	}
	return counts, nil
}

func init() {
	register("c02-langs", func(args map[string]string, out *bufio.Writer) error {
		work := labWorkDir("c02langs-" + args["seed"] + "-" + args["tier"])
		if args["keep"] != "1" {
			defer os.RemoveAll(work)
		}
		cases, hist, err := c02LangCases(args, work)
		if err != nil {
			return err
		}
		counts, err := c02ReportLangs(out, work, cases, func(c *c02LangCase, lang, class string) string {
			return c02CaseText(lang, class, c02Triggers(c.Defs, c.Combo), c.Combo.String(), c.Format, c.Defs)
		})
		if err != nil {
			return err
		}
		fmt.Fprintf(out, "-\tstats cases=%d %v constructs=%v\tok\n", len(cases), counts, hist)
		return nil
	})
}
