package main

// C04 crash stream, parent side: generates the cases, feeds them to a pool of worker processes
// (c04_worker.go), enforces the per-case watchdog, turns worker deaths (stack overflow, panic on
// another goroutine, out of memory) into results, and prints one row per case:
//     -  \t  <result json>  \t  ok | FAIL <class>  \t  <case json, only for failures>
// Streams:
//     c04-run     the generated streams (corpus, seeds, mutations, IR, YAML documents)
//     c04-exec    the cases of a file (replays, pinned inputs)
//     c04-shrink  minimise one failing case, keeping its (frame, message class)

import (
	"bufio"
	"bytes"
	"encoding/json"
	"fmt"
	"io"
	"os"
	"os/exec"
	"path/filepath"
	"regexp"
	"runtime"
	"strings"
	"sync"
	"syscall"
	"time"
)

type c04Proc struct {
	cmd    *exec.Cmd
	stdin  io.WriteCloser
	lines  chan string
	stderr *bytes.Buffer
	errMu  sync.Mutex
	done   chan struct{}
}

func c04Spawn(work string) (*c04Proc, error) {
	cmd := exec.Command(os.Args[0], "c04-worker", "work="+work)
	cmd.Env = append(os.Environ(), "GOMEMLIMIT=3GiB", "GOTRACEBACK=single")
	stdin, err := cmd.StdinPipe()
	if err != nil {
		return nil, err
	}
	stdout, err := cmd.StdoutPipe()
	if err != nil {
		return nil, err
	}
	p := &c04Proc{cmd: cmd, stdin: stdin, lines: make(chan string, 64), stderr: &bytes.Buffer{}, done: make(chan struct{})}
	errPipe, err := cmd.StderrPipe()
	if err != nil {
		return nil, err
	}
	if err := cmd.Start(); err != nil {
		return nil, err
	}
	go func() {
		rd := bufio.NewReaderSize(stdout, 1<<20)
		for {
			line, err := rd.ReadString('\n')
			if line != "" {
				p.lines <- strings.TrimRight(line, "\n")
			}
			if err != nil {
				close(p.lines)
				return
			}
		}
	}()
	go func() {
		buf := make([]byte, 64<<10)
		for {
			n, err := errPipe.Read(buf)
			if n > 0 {
				p.errMu.Lock()
				if p.stderr.Len() < 4<<20 {
					p.stderr.Write(buf[:n])
				}
				p.errMu.Unlock()
			}
			if err != nil {
				close(p.done)
				return
			}
		}
	}()
	return p, nil
}

func (p *c04Proc) kill() {
	_ = p.stdin.Close()
	if p.cmd.Process != nil {
		_ = p.cmd.Process.Kill()
	}
	go func() {
		for range p.lines {
		}
	}()
	_ = p.cmd.Wait()
}

var c04ReFatal = regexp.MustCompile(`(?m)^(fatal error|panic|runtime): (.*)$`)

// c04CrashResult reads what a dead worker left on stderr
func c04CrashResult(id, lastOp string, stderr string) c04Result {
	res := c04Result{ID: id, Outcome: "crash", Stage: lastOp}
	msg := "worker died without a report"
	if m := regexp.MustCompile(`(?m)^fatal error: (.*)$`).FindStringSubmatch(stderr); m != nil {
		msg = "fatal error: " + m[1]
	} else if m := regexp.MustCompile(`(?m)^panic: (.*)$`).FindStringSubmatch(stderr); m != nil {
		msg = "panic: " + m[1]
	} else if strings.Contains(stderr, "signal: killed") || stderr == "" {
		msg = "worker killed (memory limit?)"
	}
	res.Raw = c04Clip(msg)
	res.Msg = c04MsgClass(msg)
	// the first goroutine trace
	if i := strings.Index(stderr, "goroutine "); i >= 0 {
		res.Frame = c04TopCogFrame(stderr[i:])
		st := stderr[i:]
		if len(st) > 4000 {
			st = st[:4000]
		}
		res.Stack = st
	} else {
		res.Frame = "?"
	}
	return res
}

// c04HangFrame: where the main goroutine of a stalled worker is.  A runaway loop has no stable top
// frame, so the class is the recursive function when the stack repeats one, otherwise the OUTERMOST
// frame below the pipeline entry (which jenny / front-end / pass the run is stuck in).
func c04HangFrame(stderr string) (string, string) {
	i := strings.Index(stderr, "\ngoroutine 1 ")
	if i < 0 {
		return "?", ""
	}
	block := stderr[i:]
	if j := strings.Index(block, "\n\ngoroutine "); j > 0 {
		block = block[:j]
	}
	lines := strings.Split(block, "\n")
	if root := c04RecursionRoot(lines); root != "?" && !strings.HasPrefix(root, "recursion:lib:") {
		return root, c04Clip2(block, 3000)
	}
	outer := ""
	for _, l := range lines {
		if strings.HasPrefix(l, c04CogModule) && !strings.Contains(l, "/cmd/verifharness") {
			fn := c04FrameName(l)
			if strings.HasPrefix(fn, "internal/codegen.") || strings.HasPrefix(fn, "internal/jennies/common.") {
				continue
			}
			outer = fn // keep the last one seen = outermost
		}
	}
	if outer == "" {
		return "?", c04Clip2(block, 3000)
	}
	return "hang:" + outer, c04Clip2(block, 3000)
}

// run one case on the worker; ok=false means the worker is gone and must be replaced
func (p *c04Proc) run(c *c04Case, timeout time.Duration) (c04Result, bool) {
	blob, _ := json.Marshal(c)
	blob = append(blob, '\n')
	if _, err := p.stdin.Write(blob); err != nil {
		p.kill()
		return c04Result{ID: c.ID, Outcome: "crash", Raw: "worker not accepting input", Frame: "?", Msg: "worker not accepting input"}, false
	}
	lastOp := ""
	timer := time.NewTimer(timeout)
	defer timer.Stop()
	for {
		select {
		case line, open := <-p.lines:
			if !open {
				// died: wait for stderr to drain
				select {
				case <-p.done:
				case <-time.After(5 * time.Second):
				}
				_ = p.cmd.Wait()
				p.errMu.Lock()
				se := p.stderr.String()
				p.errMu.Unlock()
				return c04CrashResult(c.ID, lastOp, se), false
			}
			if strings.HasPrefix(line, "P\t") {
				lastOp = line[2:]
				continue
			}
			if !strings.HasPrefix(line, "{") {
				continue // stray output of the code under test
			}
			var res c04Result
			if err := json.Unmarshal([]byte(line), &res); err != nil || res.ID != c.ID {
				continue
			}
			return res, true
		case <-timer.C:
			// ask the Go runtime of the worker for a goroutine dump before killing it
			frame, stack := "?", ""
			if p.cmd.Process != nil {
				// SIGUSR1: the worker stops the world and prints every goroutine (a SIGQUIT dump says
				// "stack unavailable" for a goroutine that is running on another thread); SIGQUIT is
				// the fallback for a worker that no longer schedules its signal goroutine
				for _, sig := range []syscall.Signal{syscall.SIGUSR1, syscall.SIGQUIT} {
					_ = p.cmd.Process.Signal(sig)
					select {
					case <-p.done:
					case <-time.After(8 * time.Second):
					}
					p.errMu.Lock()
					se := p.stderr.String()
					p.errMu.Unlock()
					frame, stack = c04HangFrame(se)
					if frame != "?" {
						break
					}
				}
			}
			p.kill()
			return c04Result{ID: c.ID, Outcome: "timeout", Stage: lastOp, Frame: frame, Msg: "no result within the watchdog time", Raw: fmt.Sprintf("watchdog %s", timeout), Stack: stack}, false
		}
	}
}

// ---------- pool ----------

type c04Pool struct {
	work    string
	workers int
	timeout time.Duration
}

func (pool *c04Pool) runAll(cases <-chan *c04Case, emit func(c *c04Case, res c04Result)) {
	var wg sync.WaitGroup
	var mu sync.Mutex
	for w := 0; w < pool.workers; w++ {
		wg.Add(1)
		go func() {
			defer wg.Done()
			var p *c04Proc
			defer func() {
				if p != nil {
					p.kill()
				}
			}()
			for c := range cases {
				if p == nil {
					var err error
					p, err = c04Spawn(pool.work)
					if err != nil {
						mu.Lock()
						emit(c, c04Result{ID: c.ID, Outcome: "crash", Raw: "cannot spawn worker: " + err.Error(), Frame: "?", Msg: "cannot spawn worker"})
						mu.Unlock()
						continue
					}
				}
				res, alive := p.run(c, pool.timeout)
				if !alive {
					p = nil
					// a worker that vanished without a crash report (killed from outside, machine
					// under memory pressure) says nothing about cog: run the case once more in a
					// fresh worker before believing it
					if res.Outcome == "crash" && (strings.HasPrefix(res.Raw, "worker ") || res.Frame == "?" && !strings.Contains(res.Raw, "fatal error")) {
						if p2, err := c04Spawn(pool.work); err == nil {
							res2, alive2 := p2.run(c, pool.timeout*2)
							if alive2 {
								p = p2
							} else {
								p2 = nil
							}
							res = res2
						}
					}
					c04AttachIR(c, &res)
				}
				mu.Lock()
				emit(c, res)
				mu.Unlock()
			}
		}()
	}
	wg.Wait()
}

// a dead worker cannot report the IR it was working on: regenerate it here (same generator)
func c04AttachIR(c *c04Case, res *c04Result) {
	if c.Kind == "run" || res.Extra != "" {
		return
	}
	defer func() { _ = recover() }()
	res.Extra = virSchemas(c04GenIR(c))
}

func c04Verdict(res c04Result) string {
	switch res.Outcome {
	case "ok", "err":
		return "ok"
	}
	return fmt.Sprintf("FAIL %s frame=%s msg=%s", res.Outcome, res.Frame, res.Msg)
}

func c04Emit(out *bufio.Writer) func(c *c04Case, res c04Result) {
	return func(c *c04Case, res c04Result) {
		v := c04Verdict(res)
		res.Stack = c04Clip2(res.Stack, 2500)
		rb, _ := json.Marshal(res)
		cb := []byte("-")
		if v != "ok" {
			cb, _ = json.Marshal(c)
		} else if c.Kind != "run" {
			// IR-level cases: the note is needed to classify (asbad=…); cheap
			cb, _ = json.Marshal(c04Case{ID: c.ID, Kind: c.Kind, Note: c.Note})
		}
		fmt.Fprintf(out, "-\t%s\t%s\t%s\n", rb, v, cb)
	}
}

func c04Clip2(s string, n int) string {
	if len(s) > n {
		return s[:n]
	}
	return s
}

func c04PoolFromArgs(args map[string]string) (*c04Pool, error) {
	work := args["work"]
	if work == "" {
		return nil, fmt.Errorf("work=<scratch dir> is required")
	}
	work = filepath.Join(work, fmt.Sprintf("run%d", os.Getpid()))
	if err := os.MkdirAll(work, 0o755); err != nil {
		return nil, err
	}
	workers := argInt(args, "workers", 0)
	if workers <= 0 {
		workers = runtime.NumCPU()
		if workers > 16 {
			workers = 16
		}
	}
	return &c04Pool{work: work, workers: workers, timeout: time.Duration(argInt(args, "timeout", 40)) * time.Second}, nil
}

func init() {
	register("c04-run", func(args map[string]string, out *bufio.Writer) error {
		pool, err := c04PoolFromArgs(args)
		if err != nil {
			return err
		}
		defer os.RemoveAll(pool.work)
		seed := uint64(argInt(args, "seed", 1))
		r := newRng(seed)
		want := func(s string) bool {
			sel := args["streams"]
			return sel == "" || strings.Contains(","+sel+",", ","+s+",")
		}
		seeds := c04Seeds()
		if len(seeds) < 30 {
			return fmt.Errorf("only %d seed schemas found under testdata/ (cwd must be the cog repository)", len(seeds))
		}
		tables, source, err := c04CfgLoad(args["facts"])
		if err != nil {
			return fmt.Errorf("config key tables: %w", err)
		}
		fmt.Fprintf(os.Stderr, "c04-run: %d seeds, config tables from %s (%s), %d workers\n", len(seeds), source, strings.Join(c04CfgSortedNames(tables), ","), pool.workers)
		faultArg := argInt(args, "fault", -1)
		depth := argInt(args, "depth", 3)
		cases := make(chan *c04Case, 256)
		go func() {
			defer close(cases)
			if want("corpus") {
				for _, c := range c04CorpusCases() {
					cases <- c
				}
				for _, c := range c04ConfigCorpus() {
					cases <- c
				}
			}
			if want("seed") {
				for _, c := range c04SeedCases(r, seeds, argInt(args, "perseed", 1)) {
					cases <- c
				}
			}
			// interleave the generated streams so that slow and fast cases mix
			nmut, nir, npy, nvy, ncfg := argInt(args, "nmut", 1500), argInt(args, "nir", 600), argInt(args, "npy", 500), argInt(args, "nvy", 300), argInt(args, "ncfg", 600)
			if !want("mut") {
				nmut = 0
			}
			if !want("ir") {
				nir = 0
			}
			if !want("pyaml") {
				npy = 0
			}
			if !want("vyaml") {
				nvy = 0
			}
			if !want("config") {
				ncfg = 0
			}
			ncue := argInt(args, "ncue", 300)
			if !want("cuegen") {
				ncue = 0
			}
			rm, ri, rp, rv, rc := newRng(seed*7+1), newRng(seed*7+2), newRng(seed*7+3), newRng(seed*7+4), newRng(seed*7+5)
			_ = ri
			for i := 0; i < nmut || i < nir || i < npy || i < nvy || i < ncfg || i < ncue; i++ {
				// fault rate per node: none / rare / frequent, cycling
				fault := []int{0, 1, 1, 2, 4, 8}[i%6]
				if faultArg >= 0 {
					fault = faultArg
				}
				if i < ncue {
					cases <- c04CueGenCase(seed, i)
				}
				if i < nmut {
					cases <- c04MutCase(rm, seeds, i)
				}
				if i < nir {
					cases <- c04IRCase(seed, i, i%2 == 1, depth)
				}
				if i < npy {
					c := c04PassesYAMLCase(rp, tables, seed, i, fault)
					c.Depth = depth
					cases <- c
				}
				if i < nvy {
					c := c04VeneersYAMLCase(rv, tables, seed, i, fault)
					c.Depth = depth
					cases <- c
				}
				if i < ncfg {
					cases <- c04ConfigCase(rc, tables, seeds, i, fault)
				}
			}
		}()
		pool.runAll(cases, c04Emit(out))
		return nil
	})

	register("c04-exec", func(args map[string]string, out *bufio.Writer) error {
		pool, err := c04PoolFromArgs(args)
		if err != nil {
			return err
		}
		defer os.RemoveAll(pool.work)
		lines := readLines(args["in"])
		cases := make(chan *c04Case, len(lines)+1)
		for _, l := range lines {
			var c c04Case
			if err := json.Unmarshal([]byte(l), &c); err != nil {
				return fmt.Errorf("bad case line: %w", err)
			}
			cc := c
			cases <- &cc
		}
		close(cases)
		pool.runAll(cases, c04Emit(out))
		return nil
	})

	register("c04-shrink", func(args map[string]string, out *bufio.Writer) error {
		pool, err := c04PoolFromArgs(args)
		if err != nil {
			return err
		}
		defer os.RemoveAll(pool.work)
		lines := readLines(args["in"])
		if len(lines) == 0 {
			return fmt.Errorf("no case")
		}
		var c c04Case
		if err := json.Unmarshal([]byte(lines[0]), &c); err != nil {
			return err
		}
		small, res, evals := c04Shrink(pool, &c, argInt(args, "budget", 150))
		rb, _ := json.Marshal(res)
		cb, _ := json.Marshal(small)
		fmt.Fprintf(out, "-\t%s\t%s evals=%d\t%s\n", rb, c04Verdict(res), evals, cb)
		return nil
	})
}
