package main

// Renderer: Defs → JSON Schema draft-07 (`definitions` + `$ref` root), in the dialect cog's
// JSON Schema front-end (internal/jsonschema/generator.go) reads.

import (
	"fmt"
	"sort"
)

// renderOut is what every renderer returns.
//
//	Unsupported: constructs the format cannot express (the schema text is then empty);
//	Notes: constructs that were rendered with legitimate keywords of the format but that cog's
//	       front-end is known to drop or to read differently ("lossy"); callers may skip such
//	       cases or keep them to exhibit the loss.
type renderOut struct {
	Style       []string // spelling variants used (JSON Schema: "typeArray.nullable xN", "typeArray.union xN")
	Text        string
	RefText     string // schema text for the reference validator when it must differ from Text ("" = use Text)
	Unsupported []string
	Notes       []string
}

func (r renderOut) refText() string {
	if r.RefText != "" {
		return r.RefText
	}
	return r.Text
}

func (r *renderOut) unsupported(tag string) {
	for _, t := range r.Unsupported {
		if t == tag {
			return
		}
	}
	r.Unsupported = append(r.Unsupported, tag)
}

func (r *renderOut) note(tag string) {
	for _, t := range r.Notes {
		if t == tag {
			return
		}
	}
	r.Notes = append(r.Notes, tag)
}

func (r *renderOut) finish() {
	sort.Strings(r.Unsupported)
	sort.Strings(r.Notes)
	if len(r.Unsupported) > 0 {
		r.Text = ""
	}
}

type jsRenderer struct {
	d     *Defs
	out   *renderOut
	seed  uint32 // hash of the term: spelling choices are a deterministic function of (term, node number)
	node  uint32
	style map[string]int
}

// jsTypeArrayStyle switches the `"type": [...]` spelling: "mixed" (default: about 2 of 3 expressible
// nodes, chosen by hash), "always", "never".
var jsTypeArrayStyle = "mixed"

// jsNullBranchStyle switches the spelling of a nullable member written as a union with a null branch:
// "last" (default: `anyOf: [T, {type: null}]`) or "mixed" (chosen by hash per member: null branch first or
// last, `oneOf` instead of `anyOf` where T cannot accept null itself). A `default` stays inside the T branch.
var jsNullBranchStyle = "last"

func fnv32(s string) uint32 {
	h := uint32(2166136261)
	for i := 0; i < len(s); i++ {
		h ^= uint32(s[i])
		h *= 16777619
	}
	return h
}

// useTypeArray decides, per node, whether an expressible node is spelled with a type array.
func (r *jsRenderer) useTypeArray() bool {
	r.node++
	switch jsTypeArrayStyle {
	case "always":
		return true
	case "never":
		return false
	}
	h := (r.seed ^ (r.node * 2654435761)) * 2246822519
	return (h>>16)%3 != 0
}

// jsPlainType: the JSON Schema type name of a scalar the type-array form can carry without losing
// anything (cog's walkScalarDisjunction keeps neither constraints, formats nor defaults).
func jsPlainType(s *Src) (string, bool) {
	switch s.Kind {
	case SBool:
		return "boolean", true
	case SString:
		if !s.DateTime && s.MinLen == nil && s.MaxLen == nil {
			return "string", true
		}
	case SInt:
		if s.Width == 64 && s.Signed && s.Lo == nil && s.Hi == nil {
			return "integer", true
		}
	case SNum:
		if s.Width == 64 && s.FLo == nil && s.FHi == nil {
			return "number", true
		}
	}
	return "", false
}

// jsTypeArray returns the type names of a node expressible as `"type": [...]`: a plain scalar or a
// union of plain scalars.
func jsTypeArray(s *Src) ([]JV, bool) {
	if t, ok := jsPlainType(s); ok {
		return []JV{jStr(t)}, true
	}
	if s.Kind == SOneOfScalars && len(s.Alts) > 0 {
		out := []JV{}
		for _, a := range s.Alts {
			t, ok := jsPlainType(a)
			if !ok {
				return nil, false
			}
			out = append(out, jStr(t))
		}
		return out, true
	}
	return nil, false
}

func renderJSONSchema(d *Defs) renderOut {
	out := renderOut{}
	r := &jsRenderer{d: d, out: &out, seed: fnv32(d.sexp()), style: map[string]int{}}
	defs := jObj()
	for _, it := range d.Items {
		defs.O = append(defs.O, JKV{it.Name, r.ty(it.Ty)})
	}
	doc := jObj(
		kv("$schema", jStr("http://json-schema.org/draft-07/schema#")),
		kv("$ref", jStr("#/definitions/"+d.Root)),
		kv("definitions", defs),
	)
	out.Text = doc.pretty() + "\n"
	for _, k := range []string{"typeArray.nullable", "typeArray.union", "nullUnion.nullFirst", "nullUnion.oneOf"} {
		if n := r.style[k]; n > 0 {
			out.Style = append(out.Style, fmt.Sprintf("%s x%d", k, n))
		}
	}
	out.finish()
	return out
}

func (r *jsRenderer) ty(s *Src) JV {
	switch s.Kind {
	case SAny:
		return jObj()
	case SBool:
		return jObj(kv("type", jStr("boolean")))
	case SString:
		o := jObj(kv("type", jStr("string")))
		if s.DateTime {
			o.set("format", jStr("date-time"))
		}
		if s.MinLen != nil {
			o.set("minLength", jInt(*s.MinLen))
		}
		if s.MaxLen != nil {
			o.set("maxLength", jInt(*s.MaxLen))
		}
		return o
	case SConst:
		return jObj(kv("const", s.Const.clone()))
	case SInt:
		if s.Width != 64 {
			r.out.unsupported("int.narrow")
		}
		if !s.Signed {
			r.out.unsupported("int.unsigned")
		}
		o := jObj(kv("type", jStr("integer")))
		if s.Lo != nil {
			o.set("minimum", jInt(*s.Lo))
		}
		if s.Hi != nil {
			o.set("maximum", jInt(*s.Hi))
		}
		return o
	case SNum:
		if s.Width != 64 {
			r.out.unsupported("num.f32")
		}
		o := jObj(kv("type", jStr("number")))
		if s.FLo != nil {
			o.set("minimum", jFloat(*s.FLo))
		}
		if s.FHi != nil {
			o.set("maximum", jFloat(*s.FHi))
		}
		return o
	case SEnumS:
		vals := jArr()
		for _, v := range s.EnumS {
			vals.A = append(vals.A, jStr(v))
		}
		return jObj(kv("type", jStr("string")), kv("enum", vals))
	case SEnumI:
		vals := jArr()
		for _, v := range s.EnumI {
			vals.A = append(vals.A, jInt(v))
		}
		return jObj(kv("type", jStr("integer")), kv("enum", vals))
	case SNullable:
		if names, ok := jsTypeArray(s.Elem); ok && r.useTypeArray() {
			r.style["typeArray.nullable"]++
			return jObj(kv("type", jArr(append(names, jStr("null"))...)))
		}
		return jObj(kv("anyOf", jArr(r.ty(s.Elem), jObj(kv("type", jStr("null"))))))
	case SArray:
		return jObj(kv("type", jStr("array")), kv("items", r.ty(s.Elem)))
	case SDict:
		return jObj(kv("type", jStr("object")), kv("additionalProperties", r.ty(s.Elem)))
	case SRef:
		return jObj(kv("$ref", jStr("#/definitions/"+s.Ref)))
	case SStruct:
		o := jObj(kv("type", jStr("object")), kv("additionalProperties", jBool(false)))
		if len(s.Fields) == 0 {
			r.out.note("struct.empty:parsed-as-any")
			return o
		}
		req := jArr()
		props := jObj()
		for _, f := range s.Fields {
			if f.Required {
				req.A = append(req.A, jStr(f.Name))
			}
			props.O = append(props.O, JKV{f.Name, r.field(f)})
		}
		if len(req.A) > 0 {
			o.set("required", req)
		}
		o.set("properties", props)
		return o
	case SOneOfScalars:
		if names, ok := jsTypeArray(s); ok && r.useTypeArray() {
			r.style["typeArray.union"]++
			return jObj(kv("type", jArr(names...)))
		}
		alts := jArr()
		for _, a := range s.Alts {
			alts.A = append(alts.A, r.ty(a))
		}
		key := "oneOf"
		if altsOverlap(s.Alts) {
			key = "anyOf"
		}
		return jObj(kv(key, alts))
	case SOneOfStructs:
		alts := jArr()
		for _, b := range s.Branches {
			alts.A = append(alts.A, jObj(kv("$ref", jStr("#/definitions/"+b.Name))))
		}
		return jObj(kv("oneOf", alts))
	}
	return jObj()
}

func (r *jsRenderer) field(f Field) JV {
	// `"type": ["integer", "null"]`: the other legitimate spelling of a nullable plain scalar (or of a
	// nullable union of plain scalars); not used when a default would be lost with it
	if f.Nullable && f.Default == nil {
		if names, ok := jsTypeArray(f.Ty); ok && r.useTypeArray() {
			r.style["typeArray.nullable"]++
			return jObj(kv("type", jArr(append(names, jStr("null"))...)))
		}
	}
	t := r.ty(f.Ty)
	if f.Default != nil {
		switch f.Ty.Kind {
		case SRef:
			// siblings of $ref are ignored in draft-07: a default cannot be attached to a reference
			r.out.unsupported("default.onRef")
		case SEnumS, SEnumI:
			r.out.note("default.enum:dropped-by-front-end")
		case SStruct:
			r.out.note("default.struct:dropped-by-front-end")
		case SOneOfScalars:
			r.out.note("default.union:dropped-by-front-end")
		}
		t.set("default", f.Default.clone())
	}
	if f.Nullable {
		// anyOf rather than oneOf: `null` may also satisfy T itself (any, const null-able unions)
		key, null := "anyOf", jObj(kv("type", jStr("null")))
		if jsNullBranchStyle == "mixed" {
			h := (r.seed ^ (fnv32(f.Name) * 2654435761)) * 2246822519
			switch f.Ty.Kind {
			case SBool, SString, SInt, SNum, SEnumS, SEnumI, SArray, SDict, SStruct:
				if (h>>20)%2 == 1 {
					key = "oneOf"
					r.style["nullUnion.oneOf"]++
				}
			}
			if (h>>12)%2 == 1 {
				r.style["nullUnion.nullFirst"]++
				return jObj(kv(key, jArr(null, t)))
			}
		}
		return jObj(kv(key, jArr(t, null)))
	}
	return t
}

// jsonTypeOf: the JSON type category a scalar alternative accepts (for overlap detection)
func jsonCat(s *Src) string {
	switch s.Kind {
	case SString, SEnumS:
		return "string"
	case SBool:
		return "bool"
	case SInt, SNum, SEnumI:
		return "number"
	case SArray:
		return "array"
	case SDict, SStruct:
		return "object"
	case SConst:
		switch s.Const.K {
		case 's':
			return "string"
		case 'n':
			return "number"
		}
		return "bool"
	}
	return "any"
}

func altsOverlap(alts []*Src) bool {
	if srcConstUnion(alts) {
		return false // pairwise distinct constants: exactly one branch accepts a value
	}
	seen := map[string]bool{}
	for _, a := range alts {
		c := jsonCat(a)
		if seen[c] || c == "any" {
			return true
		}
		seen[c] = true
	}
	return false
}

// srcConstUnion: every alternative is a constant and the constants are pairwise distinct (`oneOf` of `const`s).
func srcConstUnion(alts []*Src) bool {
	seen := map[string]bool{}
	for _, a := range alts {
		if a.Kind != SConst {
			return false
		}
		k := a.Const.json()
		if seen[k] {
			return false
		}
		seen[k] = true
	}
	return len(alts) > 0
}
