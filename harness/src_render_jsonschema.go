package main

// Renderer: Defs → JSON Schema draft-07 (`definitions` + `$ref` root), in the dialect cog's
// JSON Schema front-end (internal/jsonschema/generator.go) reads.

import "sort"

// renderOut is what every renderer returns.
//
//	Unsupported: constructs the format cannot express (the schema text is then empty);
//	Notes: constructs that were rendered with legitimate keywords of the format but that cog's
//	       front-end is known to drop or to read differently ("lossy"); callers may skip such
//	       cases or keep them to exhibit the loss.
type renderOut struct {
	Text        string
	RefText     string // schema text for the reference validator when it must differ from Text ("" = use Text)
	Unsupported []string
	Notes       []string
}

func (r renderOut) refText() string {
	if r.RefText != "" {
		return r.RefText
	}
	return r.Text
}

func (r *renderOut) unsupported(tag string) {
	for _, t := range r.Unsupported {
		if t == tag {
			return
		}
	}
	r.Unsupported = append(r.Unsupported, tag)
}

func (r *renderOut) note(tag string) {
	for _, t := range r.Notes {
		if t == tag {
			return
		}
	}
	r.Notes = append(r.Notes, tag)
}

func (r *renderOut) finish() {
	sort.Strings(r.Unsupported)
	sort.Strings(r.Notes)
	if len(r.Unsupported) > 0 {
		r.Text = ""
	}
}

type jsRenderer struct {
	d   *Defs
	out *renderOut
}

func renderJSONSchema(d *Defs) renderOut {
	out := renderOut{}
	r := &jsRenderer{d: d, out: &out}
	defs := jObj()
	for _, it := range d.Items {
		defs.O = append(defs.O, JKV{it.Name, r.ty(it.Ty)})
	}
	doc := jObj(
		kv("$schema", jStr("http://json-schema.org/draft-07/schema#")),
		kv("$ref", jStr("#/definitions/"+d.Root)),
		kv("definitions", defs),
	)
	out.Text = doc.pretty() + "\n"
	out.finish()
	return out
}

func (r *jsRenderer) ty(s *Src) JV {
	switch s.Kind {
	case SAny:
		return jObj()
	case SBool:
		return jObj(kv("type", jStr("boolean")))
	case SString:
		o := jObj(kv("type", jStr("string")))
		if s.DateTime {
			o.set("format", jStr("date-time"))
		}
		if s.MinLen != nil {
			o.set("minLength", jInt(*s.MinLen))
		}
		if s.MaxLen != nil {
			o.set("maxLength", jInt(*s.MaxLen))
		}
		return o
	case SConst:
		return jObj(kv("const", s.Const.clone()))
	case SInt:
		if s.Width != 64 {
			r.out.unsupported("int.narrow")
		}
		if !s.Signed {
			r.out.unsupported("int.unsigned")
		}
		o := jObj(kv("type", jStr("integer")))
		if s.Lo != nil {
			o.set("minimum", jInt(*s.Lo))
		}
		if s.Hi != nil {
			o.set("maximum", jInt(*s.Hi))
		}
		return o
	case SNum:
		if s.Width != 64 {
			r.out.unsupported("num.f32")
		}
		o := jObj(kv("type", jStr("number")))
		if s.FLo != nil {
			o.set("minimum", jFloat(*s.FLo))
		}
		if s.FHi != nil {
			o.set("maximum", jFloat(*s.FHi))
		}
		return o
	case SEnumS:
		vals := jArr()
		for _, v := range s.EnumS {
			vals.A = append(vals.A, jStr(v))
		}
		return jObj(kv("type", jStr("string")), kv("enum", vals))
	case SEnumI:
		vals := jArr()
		for _, v := range s.EnumI {
			vals.A = append(vals.A, jInt(v))
		}
		return jObj(kv("type", jStr("integer")), kv("enum", vals))
	case SArray:
		return jObj(kv("type", jStr("array")), kv("items", r.ty(s.Elem)))
	case SDict:
		return jObj(kv("type", jStr("object")), kv("additionalProperties", r.ty(s.Elem)))
	case SRef:
		return jObj(kv("$ref", jStr("#/definitions/"+s.Ref)))
	case SStruct:
		o := jObj(kv("type", jStr("object")), kv("additionalProperties", jBool(false)))
		if len(s.Fields) == 0 {
			r.out.note("struct.empty:parsed-as-any")
			return o
		}
		req := jArr()
		props := jObj()
		for _, f := range s.Fields {
			if f.Required {
				req.A = append(req.A, jStr(f.Name))
			}
			props.O = append(props.O, JKV{f.Name, r.field(f)})
		}
		if len(req.A) > 0 {
			o.set("required", req)
		}
		o.set("properties", props)
		return o
	case SOneOfScalars:
		alts := jArr()
		for _, a := range s.Alts {
			alts.A = append(alts.A, r.ty(a))
		}
		key := "oneOf"
		if altsOverlap(s.Alts) {
			key = "anyOf"
		}
		return jObj(kv(key, alts))
	case SOneOfStructs:
		alts := jArr()
		for _, b := range s.Branches {
			alts.A = append(alts.A, jObj(kv("$ref", jStr("#/definitions/"+b.Name))))
		}
		return jObj(kv("oneOf", alts))
	}
	return jObj()
}

func (r *jsRenderer) field(f Field) JV {
	t := r.ty(f.Ty)
	if f.Default != nil {
		switch f.Ty.Kind {
		case SRef:
			// siblings of $ref are ignored in draft-07: a default cannot be attached to a reference
			r.out.unsupported("default.onRef")
		case SEnumS, SEnumI:
			r.out.note("default.enum:dropped-by-front-end")
		case SStruct:
			r.out.note("default.struct:dropped-by-front-end")
		case SOneOfScalars:
			r.out.note("default.union:dropped-by-front-end")
		}
		t.set("default", f.Default.clone())
	}
	if f.Nullable {
		// anyOf rather than oneOf: `null` may also satisfy T itself (any, const null-able unions)
		return jObj(kv("anyOf", jArr(t, jObj(kv("type", jStr("null"))))))
	}
	return t
}

// jsonTypeOf: the JSON type category a scalar alternative accepts (for overlap detection)
func jsonCat(s *Src) string {
	switch s.Kind {
	case SString, SEnumS:
		return "string"
	case SBool:
		return "bool"
	case SInt, SNum, SEnumI:
		return "number"
	case SArray:
		return "array"
	case SDict, SStruct:
		return "object"
	case SConst:
		switch s.Const.K {
		case 's':
			return "string"
		case 'n':
			return "number"
		}
		return "bool"
	}
	return "any"
}

func altsOverlap(alts []*Src) bool {
	seen := map[string]bool{}
	for _, a := range alts {
		c := jsonCat(a)
		if seen[c] || c == "any" {
			return true
		}
		seen[c] = true
	}
	return false
}
