package main

// C02 — stub sources of the Jackson surface the generated Java refers to (annotations, ObjectMapper,
// ObjectWriter, JsonNode, (de)serializer base classes, …). Signatures only: the lab compiles generated
// Java against these with javac; nothing is executed. Collected from internal/jennies/java/templates
// and from the imports of generated files; a reference outside this surface shows up as a javac
// diagnostic `cannot find symbol … com.fasterxml…`, which the check reports as class java:stub-surface.

var c02JavaStubs = map[string]string{
	"com/fasterxml/jackson/annotation/JsonAnyGetter.java": `package com.fasterxml.jackson.annotation;
import java.lang.annotation.*;
@Target({ElementType.ANNOTATION_TYPE, ElementType.FIELD, ElementType.METHOD})
@Retention(RetentionPolicy.RUNTIME)
public @interface JsonAnyGetter { boolean enabled() default true; }
`,
	"com/fasterxml/jackson/annotation/JsonAnySetter.java": `package com.fasterxml.jackson.annotation;
import java.lang.annotation.*;
@Target({ElementType.ANNOTATION_TYPE, ElementType.FIELD, ElementType.METHOD, ElementType.PARAMETER})
@Retention(RetentionPolicy.RUNTIME)
public @interface JsonAnySetter { boolean enabled() default true; }
`,
	"com/fasterxml/jackson/annotation/JsonFormat.java": `package com.fasterxml.jackson.annotation;
import java.lang.annotation.*;
@Target({ElementType.ANNOTATION_TYPE, ElementType.FIELD, ElementType.METHOD, ElementType.PARAMETER, ElementType.TYPE})
@Retention(RetentionPolicy.RUNTIME)
public @interface JsonFormat {
    String pattern() default "";
    Shape shape() default Shape.ANY;
    public enum Shape { ANY, NATURAL, SCALAR, ARRAY, OBJECT, NUMBER, NUMBER_FLOAT, NUMBER_INT, STRING, BOOLEAN, BINARY }
}
`,
	"com/fasterxml/jackson/annotation/JsonIgnore.java": `package com.fasterxml.jackson.annotation;
import java.lang.annotation.*;
@Target({ElementType.ANNOTATION_TYPE, ElementType.FIELD, ElementType.METHOD, ElementType.CONSTRUCTOR})
@Retention(RetentionPolicy.RUNTIME)
public @interface JsonIgnore { boolean value() default true; }
`,
	"com/fasterxml/jackson/annotation/JsonInclude.java": `package com.fasterxml.jackson.annotation;
import java.lang.annotation.*;
@Target({ElementType.ANNOTATION_TYPE, ElementType.FIELD, ElementType.METHOD, ElementType.PARAMETER, ElementType.TYPE})
@Retention(RetentionPolicy.RUNTIME)
public @interface JsonInclude {
    Include value() default Include.ALWAYS;
    Include content() default Include.ALWAYS;
    public enum Include { ALWAYS, NON_NULL, NON_ABSENT, NON_EMPTY, NON_DEFAULT, CUSTOM, USE_DEFAULTS }
}
`,
	"com/fasterxml/jackson/annotation/JsonProperty.java": `package com.fasterxml.jackson.annotation;
import java.lang.annotation.*;
@Target({ElementType.ANNOTATION_TYPE, ElementType.FIELD, ElementType.METHOD, ElementType.PARAMETER})
@Retention(RetentionPolicy.RUNTIME)
public @interface JsonProperty { String value() default ""; boolean required() default false; }
`,
	"com/fasterxml/jackson/annotation/JsonSetter.java": `package com.fasterxml.jackson.annotation;
import java.lang.annotation.*;
@Target({ElementType.ANNOTATION_TYPE, ElementType.FIELD, ElementType.METHOD, ElementType.PARAMETER})
@Retention(RetentionPolicy.RUNTIME)
public @interface JsonSetter { String value() default ""; Nulls nulls() default Nulls.DEFAULT; Nulls contentNulls() default Nulls.DEFAULT; }
`,
	"com/fasterxml/jackson/annotation/JsonUnwrapped.java": `package com.fasterxml.jackson.annotation;
import java.lang.annotation.*;
@Target({ElementType.ANNOTATION_TYPE, ElementType.FIELD, ElementType.METHOD, ElementType.PARAMETER})
@Retention(RetentionPolicy.RUNTIME)
public @interface JsonUnwrapped { boolean enabled() default true; String prefix() default ""; String suffix() default ""; }
`,
	"com/fasterxml/jackson/annotation/JsonValue.java": `package com.fasterxml.jackson.annotation;
import java.lang.annotation.*;
@Target({ElementType.ANNOTATION_TYPE, ElementType.FIELD, ElementType.METHOD})
@Retention(RetentionPolicy.RUNTIME)
public @interface JsonValue { boolean value() default true; }
`,
	"com/fasterxml/jackson/annotation/Nulls.java": `package com.fasterxml.jackson.annotation;
public enum Nulls { SET, SKIP, FAIL, AS_EMPTY, DEFAULT }
`,
	"com/fasterxml/jackson/core/JsonGenerator.java": `package com.fasterxml.jackson.core;
public abstract class JsonGenerator implements java.io.Closeable, java.io.Flushable {
    public abstract void writeObject(Object pojo) throws java.io.IOException;
    public abstract void writeStartObject() throws java.io.IOException;
    public abstract void writeEndObject() throws java.io.IOException;
    public abstract void writeStartArray() throws java.io.IOException;
    public abstract void writeEndArray() throws java.io.IOException;
    public abstract void writeFieldName(String name) throws java.io.IOException;
    public abstract void writeString(String text) throws java.io.IOException;
    public abstract void writeNull() throws java.io.IOException;
    public abstract void writeNumber(long v) throws java.io.IOException;
    public abstract void writeNumber(double v) throws java.io.IOException;
    public abstract void writeBoolean(boolean state) throws java.io.IOException;
    public void writeObjectField(String fieldName, Object pojo) throws java.io.IOException { }
    public void writeStringField(String fieldName, String value) throws java.io.IOException { }
}
`,
	"com/fasterxml/jackson/core/JsonParser.java": `package com.fasterxml.jackson.core;
public abstract class JsonParser implements java.io.Closeable {
    public abstract ObjectCodec getCodec();
    public abstract String getText() throws java.io.IOException;
    public abstract String getValueAsString() throws java.io.IOException;
    public <T extends TreeNode> T readValueAsTree() throws java.io.IOException { return null; }
}
`,
	"com/fasterxml/jackson/core/JsonProcessingException.java": `package com.fasterxml.jackson.core;
public class JsonProcessingException extends java.io.IOException {
    public JsonProcessingException(String msg) { super(msg); }
}
`,
	"com/fasterxml/jackson/core/ObjectCodec.java": `package com.fasterxml.jackson.core;
public abstract class ObjectCodec {
    public abstract <T extends TreeNode> T readTree(JsonParser p) throws java.io.IOException;
}
`,
	"com/fasterxml/jackson/core/TreeNode.java": `package com.fasterxml.jackson.core;
public interface TreeNode { }
`,
	"com/fasterxml/jackson/core/type/TypeReference.java": `package com.fasterxml.jackson.core.type;
public abstract class TypeReference<T> implements Comparable<TypeReference<T>> {
    protected TypeReference() { }
    public java.lang.reflect.Type getType() { return null; }
    @Override public int compareTo(TypeReference<T> o) { return 0; }
}
`,
	"com/fasterxml/jackson/databind/DeserializationContext.java": `package com.fasterxml.jackson.databind;
public abstract class DeserializationContext { }
`,
	"com/fasterxml/jackson/databind/DeserializationFeature.java": `package com.fasterxml.jackson.databind;
public enum DeserializationFeature { FAIL_ON_UNKNOWN_PROPERTIES, ACCEPT_SINGLE_VALUE_AS_ARRAY, FAIL_ON_NULL_FOR_PRIMITIVES }
`,
	"com/fasterxml/jackson/databind/JsonDeserializer.java": `package com.fasterxml.jackson.databind;
public abstract class JsonDeserializer<T> {
    public abstract T deserialize(com.fasterxml.jackson.core.JsonParser p, DeserializationContext ctxt) throws java.io.IOException;
    public abstract static class None extends JsonDeserializer<Object> { }
}
`,
	"com/fasterxml/jackson/databind/JsonNode.java": `package com.fasterxml.jackson.databind;
public abstract class JsonNode implements com.fasterxml.jackson.core.TreeNode, Iterable<JsonNode> {
    public abstract JsonNode get(String fieldName);
    public abstract JsonNode get(int index);
    public boolean has(String fieldName) { return get(fieldName) != null; }
    public boolean hasNonNull(String fieldName) { return false; }
    public boolean isTextual() { return false; }
    public boolean isBoolean() { return false; }
    public boolean isArray() { return false; }
    public boolean isObject() { return false; }
    public boolean isDouble() { return false; }
    public boolean isFloat() { return false; }
    public boolean isInt() { return false; }
    public boolean isLong() { return false; }
    public boolean isNumber() { return false; }
    public boolean isIntegralNumber() { return false; }
    public boolean isFloatingPointNumber() { return false; }
    public boolean isBigInteger() { return false; }
    public boolean isBigDecimal() { return false; }
    public boolean isShort() { return false; }
    public boolean isNull() { return false; }
    public boolean isEmpty() { return false; }
    public boolean isBinary() { return false; }
    public boolean isPojo() { return false; }
    public boolean isValueNode() { return false; }
    public boolean isContainerNode() { return false; }
    public boolean isMissingNode() { return false; }
    public abstract String asText();
    public String asText(String defaultValue) { return defaultValue; }
    public int asInt() { return 0; }
    public long asLong() { return 0L; }
    public double asDouble() { return 0.0; }
    public boolean asBoolean() { return false; }
    public String textValue() { return null; }
    public int size() { return 0; }
    public java.util.Iterator<JsonNode> elements() { return null; }
    public java.util.Iterator<String> fieldNames() { return null; }
    public java.util.Iterator<java.util.Map.Entry<String, JsonNode>> fields() { return null; }
    @Override public java.util.Iterator<JsonNode> iterator() { return elements(); }
}
`,
	"com/fasterxml/jackson/databind/JsonSerializer.java": `package com.fasterxml.jackson.databind;
public abstract class JsonSerializer<T> {
    public abstract void serialize(T value, com.fasterxml.jackson.core.JsonGenerator gen, SerializerProvider serializers) throws java.io.IOException;
    public abstract static class None extends JsonSerializer<Object> { }
}
`,
	"com/fasterxml/jackson/databind/Module.java": `package com.fasterxml.jackson.databind;
public abstract class Module { }
`,
	"com/fasterxml/jackson/databind/ObjectMapper.java": `package com.fasterxml.jackson.databind;
import com.fasterxml.jackson.core.*;
import com.fasterxml.jackson.core.type.TypeReference;
public class ObjectMapper extends ObjectCodec {
    public ObjectMapper() { }
    public ObjectWriter writer() { return new ObjectWriter(); }
    public ObjectWriter writerWithDefaultPrettyPrinter() { return new ObjectWriter(); }
    public String writeValueAsString(Object value) throws JsonProcessingException { return ""; }
    @Override @SuppressWarnings("unchecked") public <T extends TreeNode> T readTree(JsonParser p) throws java.io.IOException { return null; }
    public JsonNode readTree(String content) throws JsonProcessingException { return null; }
    public <T> T convertValue(Object fromValue, Class<T> toValueType) throws IllegalArgumentException { return null; }
    public <T> T convertValue(Object fromValue, TypeReference<T> toValueTypeRef) throws IllegalArgumentException { return null; }
    public <T> T treeToValue(TreeNode n, Class<T> valueType) throws JsonProcessingException { return null; }
    public <T> T readValue(String content, Class<T> valueType) throws JsonProcessingException { return null; }
    public <T> T readValue(String content, TypeReference<T> valueTypeRef) throws JsonProcessingException { return null; }
    public ObjectMapper registerModule(com.fasterxml.jackson.databind.Module module) { return this; }
    public ObjectMapper configure(DeserializationFeature f, boolean state) { return this; }
    public <T extends JsonNode> T valueToTree(Object fromValue) throws IllegalArgumentException { return null; }
}
`,
	"com/fasterxml/jackson/databind/ObjectWriter.java": `package com.fasterxml.jackson.databind;
public class ObjectWriter {
    public ObjectWriter withDefaultPrettyPrinter() { return this; }
    public String writeValueAsString(Object value) throws com.fasterxml.jackson.core.JsonProcessingException { return ""; }
}
`,
	"com/fasterxml/jackson/databind/SerializerProvider.java": `package com.fasterxml.jackson.databind;
public abstract class SerializerProvider { }
`,
	"com/fasterxml/jackson/databind/annotation/JsonDeserialize.java": `package com.fasterxml.jackson.databind.annotation;
import java.lang.annotation.*;
import com.fasterxml.jackson.databind.JsonDeserializer;
@Target({ElementType.ANNOTATION_TYPE, ElementType.METHOD, ElementType.FIELD, ElementType.TYPE, ElementType.PARAMETER})
@Retention(RetentionPolicy.RUNTIME)
public @interface JsonDeserialize {
    @SuppressWarnings("rawtypes") Class<? extends JsonDeserializer> using() default JsonDeserializer.None.class;
    @SuppressWarnings("rawtypes") Class<? extends JsonDeserializer> contentUsing() default JsonDeserializer.None.class;
    Class<?> as() default Void.class;
}
`,
	"com/fasterxml/jackson/databind/annotation/JsonSerialize.java": `package com.fasterxml.jackson.databind.annotation;
import java.lang.annotation.*;
import com.fasterxml.jackson.databind.JsonSerializer;
@Target({ElementType.ANNOTATION_TYPE, ElementType.METHOD, ElementType.FIELD, ElementType.TYPE, ElementType.PARAMETER})
@Retention(RetentionPolicy.RUNTIME)
public @interface JsonSerialize {
    @SuppressWarnings("rawtypes") Class<? extends JsonSerializer> using() default JsonSerializer.None.class;
    @SuppressWarnings("rawtypes") Class<? extends JsonSerializer> contentUsing() default JsonSerializer.None.class;
    Class<?> as() default Void.class;
}
`,
	"com/fasterxml/jackson/databind/module/SimpleModule.java": `package com.fasterxml.jackson.databind.module;
import com.fasterxml.jackson.databind.*;
public class SimpleModule extends com.fasterxml.jackson.databind.Module {
    public SimpleModule() { }
    public <T> SimpleModule addDeserializer(Class<T> type, JsonDeserializer<? extends T> deser) { return this; }
    public <T> SimpleModule addSerializer(Class<? extends T> type, JsonSerializer<T> ser) { return this; }
}
`,
}
