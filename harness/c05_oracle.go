package main

// C05: implementation-side oracle.  An independent Go implementation of the predicate `Closed`
// of lean/Cog/Closed/Basic.lean (the Lean driver evaluates the same predicate on the same VIR and
// must agree, including on the FIRST dangling position), of `reach`, and of the builder-side
// check.  Written as callback walkers over ast.Type on purpose (the Lean side is a mutual
// structural recursion producing lists).

import (
	"fmt"
	"sort"
	"strings"

	"github.com/grafana/cog/internal/ast"
)

type c05Use struct {
	kind string // ref | cref | mapping | gmapping | entrypoint
	pkg  string
	name string
	via  string // finer description of the position (not compared with Lean): field / elem / mapindex / gen / branch…
}

func (u c05Use) String() string { return u.kind + " " + u.pkg + "." + u.name }

func c05SortedKeys(m map[string]string) []string {
	ks := make([]string, 0, len(m))
	for k := range m {
		ks = append(ks, k)
	}
	sort.Strings(ks)
	return ks
}

// c05GenPayload returns the disjunction a generated struct keeps in its hints (the one VIR shows)
func c05GenPayload(t ast.Type) (string, ast.DisjunctionType, bool) {
	for _, h := range []string{ast.HintDisjunctionOfScalars, ast.HintDiscriminatedDisjunctionOfRefs} {
		if d, ok := t.Hints[h].(ast.DisjunctionType); ok {
			return h, d, true
		}
	}
	return "", ast.DisjunctionType{}, false
}

// c05WalkUses calls emit for every use of the type, in the order of Lean's `Ty.uses`.
func c05WalkUses(home string, t ast.Type, via string, emit func(c05Use)) {
	switch t.Kind {
	case ast.KindRef:
		if t.Ref != nil {
			emit(c05Use{"ref", t.Ref.ReferredPkg, t.Ref.ReferredType, via})
		}
	case ast.KindConstantRef:
		if t.ConstantReference != nil {
			emit(c05Use{"cref", t.ConstantReference.ReferredPkg, t.ConstantReference.ReferredType, via})
		}
	case ast.KindArray:
		if t.Array != nil {
			c05WalkUses(home, t.Array.ValueType, via+"/elem", emit)
		}
	case ast.KindMap:
		if t.Map != nil {
			c05WalkUses(home, t.Map.IndexType, via+"/mapindex", emit)
			c05WalkUses(home, t.Map.ValueType, via+"/mapvalue", emit)
		}
	case ast.KindStruct:
		if t.Struct != nil {
			for _, f := range t.Struct.Fields {
				c05WalkUses(home, f.Type, via+"/field", emit)
			}
			if h, d, ok := c05GenPayload(t); ok {
				for _, b := range d.Branches {
					c05WalkUses(home, b, via+"/gen", emit)
				}
				kind := "gmapping"
				if h == ast.HintDiscriminatedDisjunctionOfRefs {
					kind = "mapping"
				}
				for _, k := range c05SortedKeys(d.DiscriminatorMapping) {
					emit(c05Use{kind, home, d.DiscriminatorMapping[k], via + "/genmapping"})
				}
			}
		}
	case ast.KindDisjunction:
		if t.Disjunction != nil {
			for _, b := range t.Disjunction.Branches {
				c05WalkUses(home, b, via+"/branch", emit)
			}
			for _, k := range c05SortedKeys(t.Disjunction.DiscriminatorMapping) {
				emit(c05Use{"mapping", home, t.Disjunction.DiscriminatorMapping[k], via + "/mapping"})
			}
		}
	case ast.KindIntersection:
		if t.Intersection != nil {
			for _, b := range t.Intersection.Branches {
				c05WalkUses(home, b, via+"/allof", emit)
			}
		}
	}
}

func c05Loaded(ss ast.Schemas, pkg string) bool {
	for _, s := range ss {
		if s != nil && s.Package == pkg {
			return true
		}
	}
	return false
}

func c05Has(ss ast.Schemas, pkg, name string) bool {
	for _, s := range ss {
		if s != nil && s.Package == pkg {
			return s.Objects != nil && s.Objects.Has(name)
		}
	}
	return false
}

func c05Resolves(ss ast.Schemas, u c05Use) bool {
	return !c05Loaded(ss, u.pkg) || c05Has(ss, u.pkg, u.name)
}

type c05Dangling struct {
	site string
	use  c05Use
	self string // non-empty: a self-reference inconsistency
}

func (d c05Dangling) String() string {
	if d.self != "" {
		return d.site + " self " + d.self
	}
	return d.site + " " + d.use.String()
}

// c05AllDangling lists every violation of Closed, in Lean's order (self checks first).
func c05AllDangling(ss ast.Schemas, max int) []c05Dangling {
	out := []c05Dangling{}
	for _, s := range ss {
		if s == nil || s.Objects == nil {
			continue
		}
		s.Objects.Iterate(func(k string, o ast.Object) {
			if k != o.Name || o.SelfRef.ReferredPkg != s.Package || o.SelfRef.ReferredType != o.Name {
				out = append(out, c05Dangling{site: s.Package + "." + k, self: o.SelfRef.ReferredPkg + "." + o.SelfRef.ReferredType})
			}
		})
	}
	if len(out) > 0 {
		return out
	}
	for _, s := range ss {
		if s == nil {
			continue
		}
		check := func(site string) func(c05Use) {
			return func(u c05Use) {
				if len(out) < max && !c05Resolves(ss, u) {
					out = append(out, c05Dangling{site: site, use: u})
				}
			}
		}
		if s.EntryPoint != "" {
			check(s.Package + "#entrypoint")(c05Use{"entrypoint", s.Package, s.EntryPoint, "entrypoint"})
		}
		c05WalkUses(s.Package, s.EntryPointType, "", check(s.Package+"#entrypointtype"))
		if s.Objects == nil {
			continue
		}
		s.Objects.Iterate(func(k string, o ast.Object) {
			c05WalkUses(s.Package, o.Type, "", check(s.Package+"."+k))
		})
	}
	return out
}

// c05ClosedReply is the reply of the `closed` verb
func c05ClosedReply(ss ast.Schemas) string {
	d := c05AllDangling(ss, 1)
	if len(d) == 0 {
		return "true"
	}
	return "false " + d[0].String()
}

func c05IsClosed(ss ast.Schemas) bool { return len(c05AllDangling(ss, 1)) == 0 }

// c05SelfConsistent: every object is stored under its name with its own address, and no package
// name or object name contains a '.' (FilterSchemas keys objects by "pkg.name" strings)
func c05SelfConsistent(ss ast.Schemas) bool {
	ok := true
	for _, s := range ss {
		if s == nil || s.Objects == nil {
			continue
		}
		s.Objects.Iterate(func(k string, o ast.Object) {
			if k != o.Name || o.SelfRef.ReferredPkg != s.Package || o.SelfRef.ReferredType != o.Name {
				ok = false
			}
		})
	}
	return ok
}

// ---- reach ----

type c05Addr struct{ pkg, name string }

func c05Locate(ss ast.Schemas, a c05Addr) (ast.Object, bool) {
	for _, s := range ss {
		if s != nil && s.Package == a.pkg {
			if s.Objects == nil || !s.Objects.Has(a.name) {
				return ast.Object{}, false
			}
			return s.Objects.Get(a.name), true
		}
	}
	return ast.Object{}, false
}

type c05Edge struct {
	to  c05Addr
	via string
}

// c05Reach: least set containing the roots that exist, closed under every use (worklist);
// also returns the edges followed from every reached object.
func c05Reach(ss ast.Schemas, roots []c05Addr) (map[c05Addr]bool, map[c05Addr][]c05Edge) {
	seen := map[c05Addr]bool{}
	edges := map[c05Addr][]c05Edge{}
	work := []c05Addr{}
	for _, r := range roots {
		if _, ok := c05Locate(ss, r); ok && !seen[r] {
			seen[r] = true
			work = append(work, r)
		}
	}
	for len(work) > 0 {
		a := work[0]
		work = work[1:]
		o, _ := c05Locate(ss, a)
		c05WalkUses(a.pkg, o.Type, "", func(u c05Use) {
			b := c05Addr{u.pkg, u.name}
			if _, ok := c05Locate(ss, b); !ok {
				return
			}
			edges[a] = append(edges[a], c05Edge{b, u.kind + "@" + u.via})
			if !seen[b] {
				seen[b] = true
				work = append(work, b)
			}
		})
	}
	return seen, edges
}

func c05AddrsText(set map[c05Addr]bool) string {
	as := make([]c05Addr, 0, len(set))
	for a := range set {
		as = append(as, a)
	}
	sort.Slice(as, func(i, j int) bool {
		if as[i].pkg != as[j].pkg {
			return as[i].pkg < as[j].pkg
		}
		return as[i].name < as[j].name
	})
	parts := []string{}
	for _, a := range as {
		parts = append(parts, "("+virQuote(a.pkg)+" "+virQuote(a.name)+")")
	}
	return strings.Join(parts, " ")
}

// ---- builders ----

// c05BuilderDangling: the builder's target object and every reference inside option /
// constructor argument types and assignment paths must resolve in the schemas.
func c05BuilderDangling(ss ast.Schemas, bs []ast.Builder) string {
	for _, b := range bs {
		if !c05Has(ss, b.For.SelfRef.ReferredPkg, b.For.SelfRef.ReferredType) {
			return fmt.Sprintf("builder %s.%s target %s", b.Package, b.Name, b.For.SelfRef.String())
		}
		bad := ""
		chk := func(where string) func(c05Use) {
			return func(u c05Use) {
				if bad == "" && !c05Resolves(ss, u) {
					bad = fmt.Sprintf("builder %s.%s %s %s", b.Package, b.Name, where, u.String())
				}
			}
		}
		args := func(where string, as []ast.Argument) {
			for _, a := range as {
				c05WalkUses(b.Package, a.Type, "", chk(where+" arg "+a.Name))
			}
		}
		assigns := func(where string, as []ast.Assignment) {
			for _, a := range as {
				for _, p := range a.Path {
					c05WalkUses(b.Package, p.Type, "", chk(where+" path "+p.Identifier))
					if p.TypeHint != nil {
						c05WalkUses(b.Package, *p.TypeHint, "", chk(where+" typehint "+p.Identifier))
					}
				}
				if a.Value.Argument != nil {
					c05WalkUses(b.Package, a.Value.Argument.Type, "", chk(where+" value "+a.Value.Argument.Name))
				}
				if a.Value.Envelope != nil {
					c05WalkUses(b.Package, a.Value.Envelope.Type, "", chk(where+" envelope"))
				}
			}
		}
		args("constructor", b.Constructor.Args)
		assigns("constructor", b.Constructor.Assignments)
		for _, o := range b.Options {
			args("option "+o.Name, o.Args)
			assigns("option "+o.Name, o.Assignments)
		}
		for _, f := range b.Properties {
			c05WalkUses(b.Package, f.Type, "", chk("property "+f.Name))
		}
		if bad != "" {
			return bad
		}
	}
	return ""
}

// c05BuilderDanglingSamePkg: is there a dangling use when bare names (mapping targets) are looked
// up in the package of the object that DECLARES the fields (the end of the builder target's alias
// chain) instead of the builder's own package?  false: the only problem is that a type carrying
// bare names was transplanted into another package.
func c05BuilderDanglingSamePkg(ss ast.Schemas, bs []ast.Builder) bool {
	fixed := []ast.Builder{}
	for _, b := range bs {
		t := b.For.Type
		home := b.For.SelfRef.ReferredPkg
		for guard := 0; guard < 64 && t.Kind == ast.KindRef && t.Ref != nil; guard++ {
			o, ok := c05Locate(ss, c05Addr{t.Ref.ReferredPkg, t.Ref.ReferredType})
			if !ok {
				break
			}
			home = t.Ref.ReferredPkg
			t = o.Type
		}
		nb := b
		nb.Package = home
		fixed = append(fixed, nb)
	}
	return c05BuilderDangling(ss, fixed) != ""
}
