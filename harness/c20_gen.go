package main

// C20 — configuration documents generated from the extracted key tables
// (/verif/.work/c20/facts.json, written by extract/xconfig on every run).

import (
	"encoding/json"
	"fmt"
	"os"
	"strings"

	"gopkg.in/yaml.v3"
)

// ---- facts (mirror of extract/xconfig's JSON) -------------------------------------------

type c20LTy struct {
	K    string  `json:"k"`
	Go   string  `json:"go"`
	Ref  int     `json:"ref"`
	Elem *c20LTy `json:"elem"`
}

type c20LDef struct {
	Name   string `json:"name"`
	Fields []struct {
		Key string `json:"key"`
		Ty  c20LTy `json:"ty"`
	} `json:"fields"`
	InlineMap *c20LTy `json:"inline_map"`
}

type c20PTy struct {
	K     string  `json:"k"`
	Ty    string  `json:"ty"`
	Ref   int     `json:"ref"`
	Items *c20PTy `json:"items"`
	Props []struct {
		Key string `json:"key"`
		Ty  c20PTy `json:"ty"`
	} `json:"props"`
	Addl *c20PTy `json:"addl"`
}

type c20File struct {
	Name   string    `json:"name"`
	Schema string    `json:"schema"`
	LEnv   []c20LDef `json:"lenv"`
	LRoot  int       `json:"lroot"`
	PNames []string  `json:"pnames"`
	PEnv   []c20PTy  `json:"penv"`
	PRoot  int       `json:"proot"`
	Unions []struct {
		Def        int      `json:"def"`
		Name       string   `json:"name"`
		Recognised []string `json:"recognised"`
		Declared   []string `json:"declared"`
	} `json:"unions"`
	RuleLists [][2]any `json:"rule_lists"`
}

// members returns the declared keys of a union (rule entry) struct
func (f *c20File) members(def int) []string {
	var out []string
	for _, fl := range f.LEnv[def].Fields {
		out = append(out, fl.Key)
	}
	return out
}

type c20Facts struct {
	Keys  []string  `json:"keys"`
	Files []c20File `json:"files"`
}

func c20LoadFacts(path string) (*c20Facts, error) {
	raw, err := os.ReadFile(path)
	if err != nil {
		return nil, err
	}
	var f c20Facts
	if err := json.Unmarshal(raw, &f); err != nil {
		return nil, err
	}
	return &f, nil
}

func (f *c20File) isUnion(def int) bool {
	for _, u := range f.Unions {
		if u.Def == def {
			return true
		}
	}
	return false
}

// ---- document trees ----------------------------------------------------------------------

const (
	c20KNull = iota
	c20KScalar
	c20KSeq
	c20KMap
)

type c20Node struct {
	kind  int
	sval  any
	keys  []string
	vals  []*c20Node
	items []*c20Node
	rec   bool     // mapping decoded into a Go struct (closed set of keys)
	def   int      // index of that struct (-1: built from the published tables)
	decl  []string // keys declared for this mapping (struct fields / published properties)
	flow  bool
}

func (n *c20Node) clone() *c20Node {
	c := *n
	c.keys = append([]string(nil), n.keys...)
	c.decl = n.decl
	c.vals = make([]*c20Node, len(n.vals))
	for i, v := range n.vals {
		c.vals[i] = v.clone()
	}
	c.items = make([]*c20Node, len(n.items))
	for i, v := range n.items {
		c.items[i] = v.clone()
	}
	return &c
}

// tokens renders the tree in the Lean evaluator's request syntax.
func (n *c20Node) tokens(sb *strings.Builder) {
	switch n.kind {
	case c20KNull:
		sb.WriteString("n")
	case c20KScalar:
		sb.WriteString("s")
	case c20KSeq:
		sb.WriteString("[")
		for _, it := range n.items {
			sb.WriteString(" ")
			it.tokens(sb)
		}
		sb.WriteString(" ]")
	case c20KMap:
		sb.WriteString("{")
		for i, k := range n.keys {
			sb.WriteString(" " + k + " ")
			n.vals[i].tokens(sb)
		}
		sb.WriteString(" }")
	}
}

func (n *c20Node) toYAML() *yaml.Node {
	switch n.kind {
	case c20KNull:
		return &yaml.Node{Kind: yaml.ScalarNode, Tag: "!!null", Value: "~"}
	case c20KScalar:
		var out yaml.Node
		if err := out.Encode(n.sval); err != nil {
			panic(err)
		}
		return &out
	case c20KSeq:
		out := &yaml.Node{Kind: yaml.SequenceNode, Tag: "!!seq"}
		if n.flow {
			out.Style = yaml.FlowStyle
		}
		for _, it := range n.items {
			out.Content = append(out.Content, it.toYAML())
		}
		return out
	}
	out := &yaml.Node{Kind: yaml.MappingNode, Tag: "!!map"}
	if n.flow {
		out.Style = yaml.FlowStyle
	}
	for i, k := range n.keys {
		out.Content = append(out.Content, &yaml.Node{Kind: yaml.ScalarNode, Tag: "!!str", Value: k}, n.vals[i].toYAML())
	}
	return out
}

func (n *c20Node) render() []byte {
	out, err := yaml.Marshal(n.toYAML())
	if err != nil {
		panic(err)
	}
	return out
}

// mapping nodes in pre-order, each with its path (for reports)
type c20MapRef struct {
	node *c20Node
	path string
}

func (n *c20Node) mappings(path string, out *[]c20MapRef) {
	switch n.kind {
	case c20KMap:
		*out = append(*out, c20MapRef{n, path})
		for i, k := range n.keys {
			n.vals[i].mappings(path+"/"+k, out)
		}
	case c20KSeq:
		for i, it := range n.items {
			it.mappings(fmt.Sprintf("%s/%d", path, i), out)
		}
	}
}

// ---- generator ---------------------------------------------------------------------------

type c20Gen struct {
	f        *c20File
	r        *rng
	maxDepth int
	nulls    bool           // explicit `key: ~` members allowed (they load; `type:` in the schema rejects them)
	kinds    map[string]int // distribution of generated constructs
}

// strings that satisfy cog's post-decode parsers ([pkg].[object], [pkg].[object].[field],
// object.option) so that most generated documents get past As…(): this only widens the part
// of the loader that is exercised, no verdict depends on it.
func c20String(key string) string {
	switch key {
	case "field", "fields", "defaults":
		return "p.O.f"
	case "language":
		return "go"
	}
	return "p.O"
}

var c20Forced = map[string]bool{"package": true, "by_name": true}

func (g *c20Gen) gen(t c20LTy, depth int, key string) *c20Node {
	g.kinds[t.K]++
	switch t.K {
	case "scalar":
		switch t.Go {
		case "bool":
			return &c20Node{kind: c20KScalar, sval: g.r.chance(50)}
		case "int", "uint":
			return &c20Node{kind: c20KScalar, sval: g.r.intn(4)}
		case "float":
			return &c20Node{kind: c20KScalar, sval: 1.5}
		}
		return &c20Node{kind: c20KScalar, sval: c20String(key)}
	case "any":
		switch g.r.intn(5) {
		case 0:
			return &c20Node{kind: c20KScalar, sval: "v"}
		case 1:
			return &c20Node{kind: c20KScalar, sval: g.r.intn(9)}
		case 2:
			return &c20Node{kind: c20KSeq, items: []*c20Node{{kind: c20KScalar, sval: "a"}}, flow: true}
		case 3:
			// free-form mapping below an `any`: arbitrary keys are fine there
			g.kinds["any-mapping"]++
			return &c20Node{kind: c20KMap, keys: []string{"free_key", "kind"}, vals: []*c20Node{{kind: c20KScalar, sval: 1}, {kind: c20KMap, keys: []string{"nested_free"}, vals: []*c20Node{{kind: c20KNull}}}}}
		}
		if g.nulls {
			return &c20Node{kind: c20KNull}
		}
		return &c20Node{kind: c20KScalar, sval: true}
	case "list":
		n := g.r.intn(3)
		if depth >= g.maxDepth {
			n = g.r.intn(2)
		}
		out := &c20Node{kind: c20KSeq, flow: t.Elem.K == "scalar" && g.r.chance(40)}
		for i := 0; i < n; i++ {
			out.items = append(out.items, g.gen(*t.Elem, depth+1, key))
		}
		return out
	case "fmap":
		out := &c20Node{kind: c20KMap}
		n := g.r.intn(3)
		for i := 0; i < n; i++ {
			k := fmt.Sprintf("k%d", i)
			if key == "defaults" {
				k = fmt.Sprintf("p.O.f%d", i)
			}
			out.keys = append(out.keys, k)
			out.vals = append(out.vals, g.gen(*t.Elem, depth+1, key))
		}
		return out
	case "ref", "opaque":
		// opaque = struct with a custom unmarshaller: still a struct of the configuration
		// language, the property demands that it rejects unknown keys like any other
		return g.record(t.Ref, depth)
	}
	panic("c20: unknown lty kind " + t.K)
}

func (g *c20Gen) record(def, depth int) *c20Node {
	d := g.f.LEnv[def]
	out := &c20Node{kind: c20KMap, rec: true, def: def, decl: g.f.members(def)}
	if g.r.chance(8) && depth > 0 {
		out.flow = true
	}
	type cand struct {
		key string
		ty  c20LTy
	}
	var cands []cand
	for _, fl := range d.Fields {
		cands = append(cands, cand{fl.Key, fl.Ty})
	}
	// random order of keys in the document
	for i := len(cands) - 1; i > 0; i-- {
		j := g.r.intn(i + 1)
		cands[i], cands[j] = cands[j], cands[i]
	}
	deep := func(t c20LTy) bool {
		for t.K == "list" || t.K == "fmap" {
			t = *t.Elem
		}
		return t.K == "ref" || t.K == "opaque"
	}
	if g.f.isUnion(def) && len(cands) > 0 {
		n := 1
		if g.r.chance(15) {
			n = 2
		}
		for i := 0; i < n && i < len(cands); i++ {
			out.keys = append(out.keys, cands[i].key)
			out.vals = append(out.vals, g.gen(cands[i].ty, depth+1, cands[i].key))
		}
		return out
	}
	for _, c := range cands {
		p := 45
		if depth >= g.maxDepth && deep(c.ty) {
			p = 0
		}
		if c20Forced[c.key] {
			p = 100
		}
		if def == g.f.LRoot {
			p = 85
		}
		if !g.r.chance(p) {
			continue
		}
		// an explicit null is a legal value for every key
		if g.nulls && g.r.chance(6) && !c20Forced[c.key] {
			out.keys = append(out.keys, c.key)
			out.vals = append(out.vals, &c20Node{kind: c20KNull})
			continue
		}
		out.keys = append(out.keys, c.key)
		out.vals = append(out.vals, g.gen(c.ty, depth+1, c.key))
	}
	return out
}

// minimal value of a type (used by the exhaustive key-path stream)
func c20Minimal(t c20LTy, key string) *c20Node {
	switch t.K {
	case "scalar":
		switch t.Go {
		case "bool":
			return &c20Node{kind: c20KScalar, sval: true}
		case "int", "uint":
			return &c20Node{kind: c20KScalar, sval: 1}
		case "float":
			return &c20Node{kind: c20KScalar, sval: 1.5}
		}
		return &c20Node{kind: c20KScalar, sval: c20String(key)}
	case "any":
		return &c20Node{kind: c20KScalar, sval: "v"}
	case "list":
		return &c20Node{kind: c20KSeq}
	case "fmap":
		return &c20Node{kind: c20KMap}
	}
	return &c20Node{kind: c20KMap, rec: true, def: t.Ref}
}

// c20PathTo computes, for every struct reachable from the root, a minimal document containing
// one instance of it: returns the document root and the instance node.
func c20PathTo(f *c20File, target int) (*c20Node, *c20Node) {
	type step struct {
		def int
		key string
	}
	prev := map[int]step{f.LRoot: {-1, ""}}
	queue := []int{f.LRoot}
	for len(queue) > 0 {
		d := queue[0]
		queue = queue[1:]
		for _, fl := range f.LEnv[d].Fields {
			t := fl.Ty
			for t.K == "list" || t.K == "fmap" {
				t = *t.Elem
			}
			if t.K == "ref" || t.K == "opaque" {
				if _, seen := prev[t.Ref]; !seen {
					prev[t.Ref] = step{d, fl.Key}
					queue = append(queue, t.Ref)
				}
			}
		}
	}
	if _, ok := prev[target]; !ok {
		return nil, nil
	}
	// chain root … target
	var chain []step
	for d := target; d != f.LRoot; d = prev[d].def {
		chain = append([]step{{prev[d].def, prev[d].key}}, chain...)
	}
	root := &c20Node{kind: c20KMap, rec: true, def: f.LRoot}
	cur := root
	for i, st := range chain {
		next := target
		if i+1 < len(chain) {
			next = chain[i+1].def
		}
		var ty c20LTy
		for _, fl := range f.LEnv[st.def].Fields {
			if fl.Key == st.key {
				ty = fl.Ty
			}
		}
		child := &c20Node{kind: c20KMap, rec: true, def: next}
		// wrap the child according to the field's type: list → [child], fmap → {k0: child}
		var wrap func(t c20LTy) *c20Node
		wrap = func(t c20LTy) *c20Node {
			switch t.K {
			case "list":
				return &c20Node{kind: c20KSeq, items: []*c20Node{wrap(*t.Elem)}}
			case "fmap":
				return &c20Node{kind: c20KMap, keys: []string{"k0"}, vals: []*c20Node{wrap(*t.Elem)}}
			}
			return child
		}
		cur.keys = append(cur.keys, st.key)
		cur.vals = append(cur.vals, wrap(ty))
		cur = child
	}
	return root, cur
}

// ---- generator from the PUBLISHED tables alone ------------------------------------------------
// Used always (a second, loader-independent source of documents) and as the fallback when the
// loader side of the extractor refuses: documents that the published schema accepts, with the
// closed objects (`additionalProperties: false`) marked as records.

func (g *c20Gen) pubResolve(t c20PTy) c20PTy {
	for i := 0; i < len(g.f.PEnv)+1 && t.K == "ref"; i++ {
		t = g.f.PEnv[t.Ref]
	}
	return t
}

func (g *c20Gen) pgen(t c20PTy, depth int, key string) *c20Node {
	t = g.pubResolve(t)
	g.kinds["pub-"+t.K]++
	switch t.K {
	case "top":
		return &c20Node{kind: c20KScalar, sval: "v"}
	case "scalar":
		switch t.Ty {
		case "boolean":
			return &c20Node{kind: c20KScalar, sval: g.r.chance(50)}
		case "integer":
			return &c20Node{kind: c20KScalar, sval: g.r.intn(4)}
		case "number":
			return &c20Node{kind: c20KScalar, sval: 1.5}
		}
		return &c20Node{kind: c20KScalar, sval: c20String(key)}
	case "arr":
		n := g.r.intn(3)
		if depth >= g.maxDepth {
			n = g.r.intn(2)
		}
		out := &c20Node{kind: c20KSeq}
		for i := 0; i < n; i++ {
			out.items = append(out.items, g.pgen(*t.Items, depth+1, key))
		}
		return out
	case "obj":
		if t.Addl == nil || t.Addl.K != "bot" {
			// open object: free-form keys, values follow additionalProperties
			out := &c20Node{kind: c20KMap}
			if len(t.Props) > 0 {
				panic("c20: open published object with properties is not generated")
			}
			for i := 0; i < g.r.intn(3); i++ {
				k := fmt.Sprintf("k%d", i)
				if key == "defaults" {
					k = fmt.Sprintf("p.O.f%d", i)
				}
				v := &c20Node{kind: c20KScalar, sval: "v"}
				if t.Addl != nil {
					v = g.pgen(*t.Addl, depth+1, key)
				}
				out.keys = append(out.keys, k)
				out.vals = append(out.vals, v)
			}
			return out
		}
		out := &c20Node{kind: c20KMap, rec: true, def: -1}
		deep := 0
		for _, pp := range t.Props {
			out.decl = append(out.decl, pp.Key)
			if g.pubDeep(pp.Ty) {
				deep++
			}
		}
		idx := make([]int, len(t.Props))
		for i := range idx {
			idx[i] = i
		}
		for i := len(idx) - 1; i > 0; i-- {
			j := g.r.intn(i + 1)
			idx[i], idx[j] = idx[j], idx[i]
		}
		// rule entries / inputs / output languages: objects whose members are (almost) all
		// objects themselves; one member is what a valid file has
		if len(t.Props) >= 6 && deep >= len(t.Props)-1 {
			taken := 0
			for _, i := range idx {
				if taken < 1 && g.pubDeep(t.Props[i].Ty) {
					out.keys = append(out.keys, t.Props[i].Key)
					out.vals = append(out.vals, g.pgen(t.Props[i].Ty, depth+1, t.Props[i].Key))
					taken++
				}
			}
			return out
		}
		for _, i := range idx {
			pp := t.Props[i]
			p := 45
			if depth >= g.maxDepth && g.pubDeep(pp.Ty) {
				p = 0
			}
			if c20Forced[pp.Key] {
				p = 100
			}
			if depth == 0 {
				p = 85
			}
			if !g.r.chance(p) {
				continue
			}
			out.keys = append(out.keys, pp.Key)
			out.vals = append(out.vals, g.pgen(pp.Ty, depth+1, pp.Key))
		}
		return out
	}
	return &c20Node{kind: c20KNull}
}

// pubDeep: the published type leads to a closed object
func (g *c20Gen) pubDeep(t c20PTy) bool {
	for i := 0; i < 2*len(g.f.PEnv)+4; i++ {
		t = g.pubResolve(t)
		switch {
		case t.K == "arr" && t.Items != nil:
			t = *t.Items
		case t.K == "obj" && len(t.Props) == 0 && t.Addl != nil && t.Addl.K != "bot":
			t = *t.Addl
		default:
			return t.K == "obj"
		}
	}
	return false
}
