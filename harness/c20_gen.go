package main

// C20 — configuration documents generated from the extracted key tables
// (/verif/.work/c20/facts.json, written by extract/xconfig on every run).

import (
	"encoding/json"
	"fmt"
	"os"
	"strings"

	"gopkg.in/yaml.v3"
)

// ---- facts (mirror of extract/xconfig's JSON) -------------------------------------------

type c20LTy struct {
	K    string  `json:"k"`
	Go   string  `json:"go"`
	Ref  int     `json:"ref"`
	Elem *c20LTy `json:"elem"`
}

type c20LDef struct {
	Name   string `json:"name"`
	Fields []struct {
		Key string `json:"key"`
		Ty  c20LTy `json:"ty"`
	} `json:"fields"`
	InlineMap *c20LTy `json:"inline_map"`
}

type c20PTy struct {
	K     string  `json:"k"`
	Ref   int     `json:"ref"`
	Items *c20PTy `json:"items"`
	Props []struct {
		Key string `json:"key"`
		Ty  c20PTy `json:"ty"`
	} `json:"props"`
	Addl *c20PTy `json:"addl"`
}

type c20File struct {
	Name   string    `json:"name"`
	Schema string    `json:"schema"`
	LEnv   []c20LDef `json:"lenv"`
	LRoot  int       `json:"lroot"`
	PNames []string  `json:"pnames"`
	PEnv   []c20PTy  `json:"penv"`
	PRoot  int       `json:"proot"`
	Unions []struct {
		Def        int      `json:"def"`
		Name       string   `json:"name"`
		Recognised []string `json:"recognised"`
		Declared   []string `json:"declared"`
	} `json:"unions"`
	RuleLists [][2]any `json:"rule_lists"`
}

type c20Facts struct {
	Keys  []string  `json:"keys"`
	Files []c20File `json:"files"`
}

func c20LoadFacts(path string) (*c20Facts, error) {
	raw, err := os.ReadFile(path)
	if err != nil {
		return nil, err
	}
	var f c20Facts
	if err := json.Unmarshal(raw, &f); err != nil {
		return nil, err
	}
	return &f, nil
}

func (f *c20File) isUnion(def int) bool {
	for _, u := range f.Unions {
		if u.Def == def {
			return true
		}
	}
	return false
}

// ---- document trees ----------------------------------------------------------------------

const (
	yNull = iota
	yScalar
	ySeq
	yMap
)

type ynode struct {
	kind  int
	sval  any
	keys  []string
	vals  []*ynode
	items []*ynode
	rec   bool // mapping decoded into a Go struct (closed set of keys)
	def   int  // index of that struct
	flow  bool
}

func (n *ynode) clone() *ynode {
	c := *n
	c.keys = append([]string(nil), n.keys...)
	c.vals = make([]*ynode, len(n.vals))
	for i, v := range n.vals {
		c.vals[i] = v.clone()
	}
	c.items = make([]*ynode, len(n.items))
	for i, v := range n.items {
		c.items[i] = v.clone()
	}
	return &c
}

// tokens renders the tree in the Lean evaluator's request syntax.
func (n *ynode) tokens(sb *strings.Builder) {
	switch n.kind {
	case yNull:
		sb.WriteString("n")
	case yScalar:
		sb.WriteString("s")
	case ySeq:
		sb.WriteString("[")
		for _, it := range n.items {
			sb.WriteString(" ")
			it.tokens(sb)
		}
		sb.WriteString(" ]")
	case yMap:
		sb.WriteString("{")
		for i, k := range n.keys {
			sb.WriteString(" " + k + " ")
			n.vals[i].tokens(sb)
		}
		sb.WriteString(" }")
	}
}

func (n *ynode) toYAML() *yaml.Node {
	switch n.kind {
	case yNull:
		return &yaml.Node{Kind: yaml.ScalarNode, Tag: "!!null", Value: "~"}
	case yScalar:
		var out yaml.Node
		if err := out.Encode(n.sval); err != nil {
			panic(err)
		}
		return &out
	case ySeq:
		out := &yaml.Node{Kind: yaml.SequenceNode, Tag: "!!seq"}
		if n.flow {
			out.Style = yaml.FlowStyle
		}
		for _, it := range n.items {
			out.Content = append(out.Content, it.toYAML())
		}
		return out
	}
	out := &yaml.Node{Kind: yaml.MappingNode, Tag: "!!map"}
	if n.flow {
		out.Style = yaml.FlowStyle
	}
	for i, k := range n.keys {
		out.Content = append(out.Content, &yaml.Node{Kind: yaml.ScalarNode, Tag: "!!str", Value: k}, n.vals[i].toYAML())
	}
	return out
}

func (n *ynode) render() []byte {
	out, err := yaml.Marshal(n.toYAML())
	if err != nil {
		panic(err)
	}
	return out
}

// mapping nodes in pre-order, each with its path (for reports)
type ymapRef struct {
	node *ynode
	path string
}

func (n *ynode) mappings(path string, out *[]ymapRef) {
	switch n.kind {
	case yMap:
		*out = append(*out, ymapRef{n, path})
		for i, k := range n.keys {
			n.vals[i].mappings(path+"/"+k, out)
		}
	case ySeq:
		for i, it := range n.items {
			it.mappings(fmt.Sprintf("%s/%d", path, i), out)
		}
	}
}

// ---- generator ---------------------------------------------------------------------------

type c20Gen struct {
	f        *c20File
	r        *rng
	maxDepth int
	nulls    bool           // explicit `key: ~` members allowed (they load; `type:` in the schema rejects them)
	kinds    map[string]int // distribution of generated constructs
}

// strings that satisfy cog's post-decode parsers ([pkg].[object], [pkg].[object].[field],
// object.option) so that most generated documents get past As…(): this only widens the part
// of the loader that is exercised, no verdict depends on it.
func c20String(key string) string {
	switch key {
	case "field", "fields", "defaults":
		return "p.O.f"
	case "language":
		return "go"
	}
	return "p.O"
}

var c20Forced = map[string]bool{"package": true, "by_name": true}

func (g *c20Gen) gen(t c20LTy, depth int, key string) *ynode {
	g.kinds[t.K]++
	switch t.K {
	case "scalar":
		switch t.Go {
		case "bool":
			return &ynode{kind: yScalar, sval: g.r.chance(50)}
		case "int", "uint":
			return &ynode{kind: yScalar, sval: g.r.intn(4)}
		case "float":
			return &ynode{kind: yScalar, sval: 1.5}
		}
		return &ynode{kind: yScalar, sval: c20String(key)}
	case "any":
		switch g.r.intn(5) {
		case 0:
			return &ynode{kind: yScalar, sval: "v"}
		case 1:
			return &ynode{kind: yScalar, sval: g.r.intn(9)}
		case 2:
			return &ynode{kind: ySeq, items: []*ynode{{kind: yScalar, sval: "a"}}, flow: true}
		case 3:
			// free-form mapping below an `any`: arbitrary keys are fine there
			g.kinds["any-mapping"]++
			return &ynode{kind: yMap, keys: []string{"free_key", "kind"}, vals: []*ynode{{kind: yScalar, sval: 1}, {kind: yMap, keys: []string{"nested_free"}, vals: []*ynode{{kind: yNull}}}}}
		}
		if g.nulls {
			return &ynode{kind: yNull}
		}
		return &ynode{kind: yScalar, sval: true}
	case "list":
		n := g.r.intn(3)
		if depth >= g.maxDepth {
			n = g.r.intn(2)
		}
		out := &ynode{kind: ySeq, flow: t.Elem.K == "scalar" && g.r.chance(40)}
		for i := 0; i < n; i++ {
			out.items = append(out.items, g.gen(*t.Elem, depth+1, key))
		}
		return out
	case "fmap":
		out := &ynode{kind: yMap}
		n := g.r.intn(3)
		for i := 0; i < n; i++ {
			k := fmt.Sprintf("k%d", i)
			if key == "defaults" {
				k = fmt.Sprintf("p.O.f%d", i)
			}
			out.keys = append(out.keys, k)
			out.vals = append(out.vals, g.gen(*t.Elem, depth+1, key))
		}
		return out
	case "ref":
		return g.record(t.Ref, depth)
	}
	panic("c20: unknown lty kind " + t.K)
}

func (g *c20Gen) record(def, depth int) *ynode {
	d := g.f.LEnv[def]
	out := &ynode{kind: yMap, rec: true, def: def}
	if g.r.chance(8) && depth > 0 {
		out.flow = true
	}
	type cand struct {
		key string
		ty  c20LTy
	}
	var cands []cand
	for _, fl := range d.Fields {
		cands = append(cands, cand{fl.Key, fl.Ty})
	}
	// random order of keys in the document
	for i := len(cands) - 1; i > 0; i-- {
		j := g.r.intn(i + 1)
		cands[i], cands[j] = cands[j], cands[i]
	}
	deep := func(t c20LTy) bool {
		for t.K == "list" || t.K == "fmap" {
			t = *t.Elem
		}
		return t.K == "ref"
	}
	if g.f.isUnion(def) && len(cands) > 0 {
		n := 1
		if g.r.chance(15) {
			n = 2
		}
		for i := 0; i < n && i < len(cands); i++ {
			out.keys = append(out.keys, cands[i].key)
			out.vals = append(out.vals, g.gen(cands[i].ty, depth+1, cands[i].key))
		}
		return out
	}
	for _, c := range cands {
		p := 45
		if depth >= g.maxDepth && deep(c.ty) {
			p = 0
		}
		if c20Forced[c.key] {
			p = 100
		}
		if def == g.f.LRoot {
			p = 85
		}
		if !g.r.chance(p) {
			continue
		}
		// an explicit null is a legal value for every key
		if g.nulls && g.r.chance(6) && !c20Forced[c.key] {
			out.keys = append(out.keys, c.key)
			out.vals = append(out.vals, &ynode{kind: yNull})
			continue
		}
		out.keys = append(out.keys, c.key)
		out.vals = append(out.vals, g.gen(c.ty, depth+1, c.key))
	}
	return out
}

// minimal value of a type (used by the exhaustive key-path stream)
func c20Minimal(t c20LTy, key string) *ynode {
	switch t.K {
	case "scalar":
		switch t.Go {
		case "bool":
			return &ynode{kind: yScalar, sval: true}
		case "int", "uint":
			return &ynode{kind: yScalar, sval: 1}
		case "float":
			return &ynode{kind: yScalar, sval: 1.5}
		}
		return &ynode{kind: yScalar, sval: c20String(key)}
	case "any":
		return &ynode{kind: yScalar, sval: "v"}
	case "list":
		return &ynode{kind: ySeq}
	case "fmap":
		return &ynode{kind: yMap}
	}
	return &ynode{kind: yMap, rec: true, def: t.Ref}
}

// c20PathTo computes, for every struct reachable from the root, a minimal document containing
// one instance of it: returns the document root and the instance node.
func c20PathTo(f *c20File, target int) (*ynode, *ynode) {
	type step struct {
		def int
		key string
	}
	prev := map[int]step{f.LRoot: {-1, ""}}
	queue := []int{f.LRoot}
	for len(queue) > 0 {
		d := queue[0]
		queue = queue[1:]
		for _, fl := range f.LEnv[d].Fields {
			t := fl.Ty
			for t.K == "list" || t.K == "fmap" {
				t = *t.Elem
			}
			if t.K == "ref" {
				if _, seen := prev[t.Ref]; !seen {
					prev[t.Ref] = step{d, fl.Key}
					queue = append(queue, t.Ref)
				}
			}
		}
	}
	if _, ok := prev[target]; !ok {
		return nil, nil
	}
	// chain root … target
	var chain []step
	for d := target; d != f.LRoot; d = prev[d].def {
		chain = append([]step{{prev[d].def, prev[d].key}}, chain...)
	}
	root := &ynode{kind: yMap, rec: true, def: f.LRoot}
	cur := root
	for i, st := range chain {
		next := target
		if i+1 < len(chain) {
			next = chain[i+1].def
		}
		var ty c20LTy
		for _, fl := range f.LEnv[st.def].Fields {
			if fl.Key == st.key {
				ty = fl.Ty
			}
		}
		child := &ynode{kind: yMap, rec: true, def: next}
		// wrap the child according to the field's type: list → [child], fmap → {k0: child}
		var wrap func(t c20LTy) *ynode
		wrap = func(t c20LTy) *ynode {
			switch t.K {
			case "list":
				return &ynode{kind: ySeq, items: []*ynode{wrap(*t.Elem)}}
			case "fmap":
				return &ynode{kind: yMap, keys: []string{"k0"}, vals: []*ynode{wrap(*t.Elem)}}
			}
			return child
		}
		cur.keys = append(cur.keys, st.key)
		cur.vals = append(cur.vals, wrap(ty))
		cur = child
	}
	return root, cur
}
