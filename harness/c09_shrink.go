package main

// C09: candidate generator for shrinking a failing pinned line
//   format \t defs \t veneers \t builder \t calls
// Candidates: drop one call; empty / drop the calls of one nested builder; shorten one list or
// dict argument; drop one veneer rule; drop one member of a definition / one definition that the
// run does not name. The check re-runs the candidates and keeps the smallest that still fails
// in the same way.

import (
	"bufio"
	"fmt"
	"strings"
)

func c09ArgVariants(a c09Arg) []c09Arg {
	var out []c09Arg
	switch a.Kind {
	case 'b':
		if len(a.Calls) > 0 {
			e := a
			e.Calls = nil
			out = append(out, e)
			for i := range a.Calls {
				e := a
				e.Calls = append(append([]c09Call{}, a.Calls[:i]...), a.Calls[i+1:]...)
				out = append(out, e)
			}
		}
		for ci, cl := range a.Calls {
			for ai, x := range cl.Args {
				for _, v := range c09ArgVariants(x) {
					e := a
					e.Calls = append([]c09Call{}, a.Calls...)
					nc := c09Call{Opt: cl.Opt, Args: append([]c09Arg{}, cl.Args...)}
					nc.Args[ai] = v
					e.Calls[ci] = nc
					out = append(out, e)
				}
			}
		}
	case 'l':
		for i := range a.L {
			if len(a.L) > 1 {
				e := a
				e.L = append(append([]c09Arg{}, a.L[:i]...), a.L[i+1:]...)
				out = append(out, e)
			}
			for _, v := range c09ArgVariants(a.L[i]) {
				e := a
				e.L = append([]c09Arg{}, a.L...)
				e.L[i] = v
				out = append(out, e)
			}
		}
	case 'd':
		for i := range a.DK {
			if len(a.DK) > 1 {
				e := a
				e.DK = append(append([]string{}, a.DK[:i]...), a.DK[i+1:]...)
				e.DV = append(append([]c09Arg{}, a.DV[:i]...), a.DV[i+1:]...)
				out = append(out, e)
			}
			for _, v := range c09ArgVariants(a.DV[i]) {
				e := a
				e.DV = append([]c09Arg{}, a.DV...)
				e.DV[i] = v
				out = append(out, e)
			}
		}
	case 'j':
		switch a.J.K {
		case 'a':
			if len(a.J.A) > 1 {
				e := a
				e.J = jArr(a.J.A[:1]...)
				out = append(out, e)
			}
		case 'o':
			if len(a.J.O) > 1 {
				e := a
				e.J = jObj(a.J.O[0])
				out = append(out, e)
			}
		}
	}
	return out
}

func init() {
	register("c09-cands", func(args map[string]string, out *bufio.Writer) error {
		for _, line := range readLines(args["in"]) {
			f := strings.Split(line, "\t")
			if len(f) < 5 {
				continue
			}
			emit := func(defs, veneers, calls string) {
				fmt.Fprintf(out, "%s\t%s\t%s\t%s\t%s\n", f[0], defs, veneers, f[3], calls)
			}
			sp := &c09Spec{}
			if args["doc"] == "1" {
				// C14: the last column is a JSON document
				doc, err := parseJV([]byte(f[4]))
				if err != nil {
					return err
				}
				for _, v := range c14DocVariants(doc, 0) {
					emit(f[1], f[2], v.json())
				}
			} else {
				var err error
				sp, err = c09ParseSpec(f[3], f[4])
				if err != nil {
					return err
				}
			}
			// calls
			for i := range sp.Calls {
				if len(sp.Calls) > 1 {
					e := *sp
					e.Calls = append(append([]c09Call{}, sp.Calls[:i]...), sp.Calls[i+1:]...)
					emit(f[1], f[2], e.sexp())
				}
				for ai, x := range sp.Calls[i].Args {
					for _, v := range c09ArgVariants(x) {
						e := *sp
						e.Calls = append([]c09Call{}, sp.Calls...)
						nc := c09Call{Opt: sp.Calls[i].Opt, Args: append([]c09Arg{}, sp.Calls[i].Args...)}
						nc.Args[ai] = v
						e.Calls[i] = nc
						emit(f[1], f[2], e.sexp())
					}
				}
			}
			// veneer rules
			// (a rule set with merge_into / omit is kept whole: dropping one of its rules but not the `omit` of the
			// root option would make members unreachable by construction)
			if f[2] != "-" && f[2] != "" && !strings.Contains(f[2], "merge_into") && !strings.Contains(f[2], "omit:") {
				lines := strings.Split(f[2], "\\n")
				for i, l := range lines {
					if !strings.HasPrefix(l, "  - ") {
						continue
					}
					rest := append(append([]string{}, lines[:i]...), lines[i+1:]...)
					// drop a section header left without rules
					var kept []string
					for j, x := range rest {
						if (x == "options:" || x == "builders:") && (j+1 >= len(rest) || !strings.HasPrefix(rest[j+1], "  - ")) {
							continue
						}
						kept = append(kept, x)
					}
					hasRule := false
					for _, x := range kept {
						if strings.HasPrefix(x, "  - ") {
							hasRule = true
						}
					}
					if hasRule {
						emit(f[1], strings.Join(kept, "\\n"), f[4])
					} else {
						emit(f[1], "-", f[4])
					}
				}
			}
			// definitions
			d, err := parseDefsSexp(f[1])
			if err != nil {
				return err
			}
			for di, def := range d.Items {
				if def.Name != d.Root {
					e := d.clone()
					e.Items = append(append([]Def{}, e.Items[:di]...), e.Items[di+1:]...)
					if e.wf() == nil {
						emit(e.sexp(), f[2], f[4])
					}
				}
				if def.Ty != nil && def.Ty.Kind == SStruct {
					for fi := range def.Ty.Fields {
						e := d.clone()
						fs := e.Items[di].Ty.Fields
						e.Items[di].Ty.Fields = append(append([]Field{}, fs[:fi]...), fs[fi+1:]...)
						if e.wf() == nil {
							emit(e.sexp(), f[2], f[4])
						}
					}
				}
			}
		}
		return nil
	})
}

// c14DocVariants: the document with one member removed / one array shortened (two levels deep)
func c14DocVariants(d JV, depth int) []JV {
	var out []JV
	switch d.K {
	case 'o':
		for i, e := range d.O {
			c := d.clone()
			c.O = append(append([]JKV{}, c.O[:i]...), c.O[i+1:]...)
			out = append(out, c)
			if depth < 3 {
				for _, v := range c14DocVariants(e.V, depth+1) {
					c := d.clone()
					c.O[i].V = v
					out = append(out, c)
				}
			}
		}
	case 'a':
		if len(d.A) > 1 {
			out = append(out, jArr(d.A[:1]...))
			out = append(out, jArr(d.A[1:]...))
		}
		if depth < 3 {
			for i, e := range d.A {
				for _, v := range c14DocVariants(e, depth+1) {
					c := d.clone()
					c.A[i] = v
					out = append(out, c)
				}
			}
		}
	}
	return out
}
