package main

// C01, parser soundness (part (b)): the tie of the Lean model of the JSON Schema front-end
// (lean/Cog/Front/JsonSchema.lean: `generateAST`), of the validation semantics `jsv`
// (lean/Cog/Front/JsonSchemaValid.lean) and of the theorem C01_jsonschema_parser_sound_partial to the code.
//
// For every case (lab terms rendered as JSON Schema, /repo/testdata/jsonschema/*/schema.json, pinned
// hand-written schemas covering every keyword the generator reads) the schema text is compiled with
// the SAME library calls as GenerateAST (NewCompiler, ExtractAnnotations, AddResource("schema"),
// Compile("schema")); the compiled *jsonschema.Schema graph is encoded as the S-expression of the Lean
// datatype `JS` (targets of $ref by name) and sent to the driver, next to the REAL GenerateAST output:
//
//   -                                              \t case <id> kind=… …                  \t ok
//   -                                              \t schema <id> <schema text, one line> \t ok
//   jsfdef <id> (case "<pkg>" ROOT (defs …))       \t ok                                  \t ok
//   jsfront <id>                                   \t ok <VIR of the real GenerateAST> | err \t ok
//   defschemas <id>.fe <VIR of the real output>    \t ok                                  \t ok
//   jsfdoc <id> <id>.fe <doc sexp>                 \t valid=<bool> doc=<kind>             \t ok
//   jsfkeeps <id> <id>.fe                          \t -                                   \t ok   (C10 / keeps instances)
//   jsfc08 <id> <id>.fe <doc sexp>                 \t -                                   \t ok   (C08 instances)
//   -                                              \t skip <id> <reason>                  \t ok
//
// `valid` is the verdict of the compiled schema itself (santhosh-tekuri `Schema.Validate`), for lab
// cases cross-checked with the lab's reference validator (`newRefValidator`, draft-07 + AssertFormat).
// checks/c01.py decides the obligations (model VIR = real VIR; jsv = valid; FragJS ∧ jsvX ⇒ srcDen on
// the REAL IR).

import (
	"bufio"
	"encoding/json"
	"fmt"
	"math/big"
	"os"
	"path/filepath"
	"reflect"
	"sort"
	"strconv"
	"strings"

	"github.com/grafana/cog/internal/ast"
	jsjenny "github.com/grafana/cog/internal/jennies/jsonschema"
	cogjs "github.com/grafana/cog/internal/jsonschema"
	"github.com/grafana/cog/internal/languages"
	jsv "github.com/santhosh-tekuri/jsonschema/v5"
)

// ---- encoder: compiled schema graph → JS S-expression -----------------------------------------

type jsEnc struct {
	defs    map[string]*jsv.Schema
	order   []string
	done    map[string]bool
	refuse  string
	nodes   int
	usedKW  map[string]int
	visited map[*jsv.Schema]bool
}

func jsRefName(s *jsv.Schema) string {
	parts := strings.Split(s.Ref.Location, "/")
	return parts[len(parts)-1]
}

func (e *jsEnc) kw(k string) { e.usedKW[k]++ }

func jsEncJV(v any) (string, bool) {
	switch x := v.(type) {
	case nil:
		return "null", true
	case bool:
		return virBool(x), true
	case json.Number:
		f := ""
		if fl, err := x.Float64(); err == nil {
			f = strconv.FormatFloat(fl, 'g', -1, 64)
		}
		return "(n " + virQuote(string(x)) + " " + virQuote(f) + ")", true
	case string:
		return "(s " + virQuote(x) + ")", true
	case []any:
		parts := []string{"a"}
		for _, el := range x {
			s, ok := jsEncJV(el)
			if !ok {
				return "", false
			}
			parts = append(parts, s)
		}
		return "(" + strings.Join(parts, " ") + ")", true
	case map[string]any:
		keys := make([]string, 0, len(x))
		for k := range x {
			keys = append(keys, k)
		}
		sort.Strings(keys)
		parts := []string{"o"}
		for _, k := range keys {
			s, ok := jsEncJV(x[k])
			if !ok {
				return "", false
			}
			parts = append(parts, "("+virQuote(k)+" "+s+")")
		}
		return "(" + strings.Join(parts, " ") + ")", true
	}
	return "", false
}

func jsEncBound(head string, r *big.Rat) string {
	f, _ := r.Float64()
	return "(" + head + " " + r.Num().String() + " " + r.Denom().String() + " " + virQuote(strconv.FormatFloat(f, 'g', -1, 64)) + ")"
}

func jsFormatAsserted(s *jsv.Schema) bool {
	// the compiled schema holds the checker in the unexported field `format` (nil = annotation only:
	// 2019-09 / 2020-12 with a `$schema`, or a format name the library does not know)
	f := reflect.ValueOf(s).Elem().FieldByName("format")
	return f.IsValid() && !f.IsNil()
}

func (e *jsEnc) schema(s *jsv.Schema) string {
	e.nodes++
	if e.nodes > 20000 {
		e.refuse = "too-many-nodes"
		return "(js (a) (l) (l) (l) (p) none none none)"
	}
	a := []string{"a"}
	if s.Ref != nil {
		name := jsRefName(s)
		if prev, ok := e.defs[name]; ok && prev != s.Ref {
			e.refuse = "ambiguous-ref-name:" + name
		} else if !ok {
			e.defs[name] = s.Ref
			e.order = append(e.order, name)
		}
		a = append(a, "(ref "+virQuote(name)+")")
		e.kw("$ref")
	}
	if s.Always != nil {
		a = append(a, "(always "+virBool(*s.Always)+")")
		e.kw("boolean-schema")
	}
	if len(s.Types) > 0 {
		parts := []string{"types"}
		for _, t := range s.Types {
			parts = append(parts, virQuote(t))
		}
		a = append(a, "("+strings.Join(parts, " ")+")")
		if len(s.Types) > 1 {
			e.kw("type-array")
		} else {
			e.kw("type:" + s.Types[0])
		}
	}
	if s.Enum != nil {
		parts := []string{"enum"}
		for _, v := range s.Enum {
			x, ok := jsEncJV(v)
			if !ok {
				e.refuse = "enum-value-type"
			}
			parts = append(parts, x)
		}
		a = append(a, "("+strings.Join(parts, " ")+")")
		e.kw("enum")
	}
	if s.Constant != nil {
		if len(s.Constant) != 1 {
			e.refuse = "constant-slice-length"
		} else {
			x, ok := jsEncJV(s.Constant[0])
			if !ok {
				e.refuse = "const-value-type"
			}
			a = append(a, "(const "+x+")")
			e.kw("const")
		}
	}
	flag := func(c bool, name string) {
		if c {
			a = append(a, "("+name+")")
		}
	}
	flag(s.OneOf != nil, "hasOneOf")
	flag(s.AnyOf != nil, "hasAnyOf")
	flag(s.AllOf != nil, "hasAllOf")
	flag(s.Properties != nil, "hasProps")
	flag(s.PatternProperties != nil, "hasPatternProps")
	if len(s.Required) > 0 {
		parts := []string{"required"}
		for _, r := range s.Required {
			parts = append(parts, virQuote(r))
		}
		a = append(a, "("+strings.Join(parts, " ")+")")
		e.kw("required")
	}
	if s.Format != "" {
		a = append(a, "(format "+virQuote(s.Format)+")")
		e.kw("format:" + s.Format)
		flag(jsFormatAsserted(s), "fmtAsserted")
	}
	if s.MinLength != -1 {
		a = append(a, "(minLength "+strconv.Itoa(s.MinLength)+")")
		e.kw("minLength")
	}
	if s.MaxLength != -1 {
		a = append(a, "(maxLength "+strconv.Itoa(s.MaxLength)+")")
		e.kw("maxLength")
	}
	if s.Pattern != nil {
		a = append(a, "(pattern "+virQuote(s.Pattern.String())+")")
		e.kw("pattern")
	}
	if s.Minimum != nil {
		a = append(a, jsEncBound("minimum", s.Minimum))
		e.kw("minimum")
	}
	if s.ExclusiveMinimum != nil {
		a = append(a, jsEncBound("exclMinimum", s.ExclusiveMinimum))
		e.kw("exclusiveMinimum")
	}
	if s.Maximum != nil {
		a = append(a, jsEncBound("maximum", s.Maximum))
		e.kw("maximum")
	}
	if s.ExclusiveMaximum != nil {
		a = append(a, jsEncBound("exclMaximum", s.ExclusiveMaximum))
		e.kw("exclusiveMaximum")
	}
	if s.Default != nil {
		x, ok := jsEncJV(s.Default)
		if !ok {
			e.refuse = "default-value-type"
		}
		a = append(a, "(default "+x+")")
		e.kw("default")
	}
	if s.Description != "" {
		a = append(a, "(description "+virQuote(s.Description)+")")
		e.kw("description")
	}
	// validation keywords `jsv` does not read
	un := []string{}
	u := func(c bool, name string) {
		if c {
			un = append(un, name)
		}
	}
	u(s.Not != nil, "not")
	u(s.If != nil, "if")
	u(s.MinProperties != -1, "minProperties")
	u(s.MaxProperties != -1, "maxProperties")
	u(s.PropertyNames != nil, "propertyNames")
	u(s.RegexProperties, "regexProperties")
	u(len(s.PatternProperties) > 0, "patternProperties")
	u(len(s.Dependencies) > 0, "dependencies")
	u(len(s.DependentRequired) > 0, "dependentRequired")
	u(len(s.DependentSchemas) > 0, "dependentSchemas")
	u(s.UnevaluatedProperties != nil, "unevaluatedProperties")
	u(s.MinItems != -1, "minItems")
	u(s.MaxItems != -1, "maxItems")
	u(s.UniqueItems, "uniqueItems")
	u(s.AdditionalItems != nil, "additionalItems")
	u(len(s.PrefixItems) > 0, "prefixItems")
	u(s.Contains != nil, "contains")
	u(s.UnevaluatedItems != nil, "unevaluatedItems")
	u(s.Pattern != nil, "pattern")
	u(s.ContentEncoding != "" || s.ContentMediaType != "", "content")
	u(s.MultipleOf != nil, "multipleOf")
	u(s.RecursiveRef != nil, "$recursiveRef")
	u(s.DynamicRef != nil, "$dynamicRef")
	u(len(s.Extensions) > 0, "extensions")
	u(jsFormatAsserted(s) && s.Format != "date-time", "format:"+s.Format)
	if _, isTuple := s.Items.([]*jsv.Schema); isTuple {
		un = append(un, "items-tuple")
	}
	if len(un) > 0 {
		parts := []string{"unmodelled"}
		for _, x := range un {
			parts = append(parts, virQuote(x))
			e.kw("unmodelled:" + x)
		}
		a = append(a, "("+strings.Join(parts, " ")+")")
	}
	list := func(ss []*jsv.Schema) string {
		parts := []string{"l"}
		for _, x := range ss {
			parts = append(parts, e.schema(x))
		}
		return "(" + strings.Join(parts, " ") + ")"
	}
	if s.OneOf != nil {
		e.kw("oneOf")
	}
	if s.AnyOf != nil {
		e.kw("anyOf")
	}
	if s.AllOf != nil {
		e.kw("allOf")
	}
	props := []string{"p"}
	names := make([]string, 0, len(s.Properties))
	for k := range s.Properties {
		names = append(names, k)
	}
	sort.Strings(names)
	for _, k := range names {
		props = append(props, "("+virQuote(k)+" "+e.schema(s.Properties[k])+")")
	}
	if len(names) > 0 {
		e.kw("properties")
	}
	addl := "none"
	switch x := s.AdditionalProperties.(type) {
	case nil:
	case bool:
		addl = "(b " + virBool(x) + ")"
		e.kw("additionalProperties:" + virBool(x))
	case *jsv.Schema:
		addl = "(s " + e.schema(x) + ")"
		e.kw("additionalProperties:schema")
	default:
		e.refuse = "additionalProperties-type"
	}
	items := "none"
	switch x := s.Items.(type) {
	case nil:
	case *jsv.Schema:
		items = "(one " + e.schema(x) + ")"
		e.kw("items")
	case []*jsv.Schema:
		parts := []string{"tuple"}
		for _, y := range x {
			parts = append(parts, e.schema(y))
		}
		items = "(" + strings.Join(parts, " ") + ")"
		e.kw("items-tuple")
	default:
		e.refuse = "items-type"
	}
	items2020 := "none"
	if s.Items2020 != nil {
		items2020 = "(one " + e.schema(s.Items2020) + ")"
		e.kw("items2020")
	}
	return "(js (" + strings.Join(a, " ") + ") " + list(s.OneOf) + " " + list(s.AnyOf) + " " + list(s.AllOf) + " (" + strings.Join(props, " ") + ") " + addl + " " + items + " " + items2020 + ")"
}

// jsEncodeCase returns `(case "<pkg>" ROOT (defs ("name" JS)…))`, "" + reason when the encoder refuses.
func jsEncodeCase(pkg string, root *jsv.Schema) (string, string, map[string]int) {
	e := &jsEnc{defs: map[string]*jsv.Schema{}, done: map[string]bool{}, usedKW: map[string]int{}}
	rootText := e.schema(root)
	defs := []string{"defs"}
	for i := 0; i < len(e.order); i++ { // e.order grows while targets are encoded
		name := e.order[i]
		defs = append(defs, "("+virQuote(name)+" "+e.schema(e.defs[name])+")")
	}
	if e.refuse != "" {
		return "", e.refuse, e.usedKW
	}
	return "(case " + virQuote(pkg) + " " + rootText + " (" + strings.Join(defs, " ") + "))", "", e.usedKW
}

// jsCompileLikeGenerator: the library calls of GenerateAST.
func jsCompileLikeGenerator(text string) (s *jsv.Schema, err error) {
	defer func() {
		if rec := recover(); rec != nil {
			err = fmt.Errorf("PANIC in compile: %v", rec)
		}
	}()
	compiler := jsv.NewCompiler()
	compiler.ExtractAnnotations = true
	if err := compiler.AddResource("schema", strings.NewReader(text)); err != nil {
		return nil, err
	}
	return compiler.Compile("schema")
}

func jsRealGenerateAST(text, pkg string) (sch *ast.Schema, err error) {
	defer func() {
		if rec := recover(); rec != nil {
			err = fmt.Errorf("PANIC: %v", rec)
		}
	}()
	return cogjs.GenerateAST(strings.NewReader(text), cogjs.Config{Package: pkg})
}

// c01FrontRealEmitted: the JSON Schema the REAL jsonschema jenny writes for the real front-end IR (after the jsonschema
// language's own compiler passes), compiled by the reference validator at `#/definitions/<root>`: the back half of the
// source-schema → IR → emitted-schema round trip (tie of C12_jsonschema_source_validates_emitted_partial).
func c01FrontRealEmitted(real *ast.Schema, root string) (rv *refValidator, text string, err error) {
	defer func() {
		if rec := recover(); rec != nil {
			err = fmt.Errorf("PANIC: %v", rec)
		}
	}()
	cp := real.DeepCopy()
	processed, err := jsjenny.New(jsjenny.Config{}).CompilerPasses().Process(ast.Schemas{&cp})
	if err != nil {
		return nil, "", err
	}
	var sch *ast.Schema
	for _, s := range processed {
		if s.Package == real.Package {
			sch = s
		}
	}
	if sch == nil {
		return nil, "", fmt.Errorf("package lost by the compiler passes")
	}
	if root == "" {
		return nil, "", fmt.Errorf("no root definition")
	}
	jenny := jsjenny.Schema{ReferenceFormatter: func(ref ast.RefType) string { return "#/definitions/" + ref.ReferredType }}
	def := jenny.GenerateSchema(languages.Context{Schemas: processed}, sch)
	raw, err := json.Marshal(def)
	if err != nil {
		return nil, "", err
	}
	rv, err = newRefValidator("jsonschema", string(raw), root)
	return rv, string(raw), err
}

// ---- pinned schemas: every keyword the generator reads, with documents ------------------------

type frontPinned struct {
	ID     string
	Schema string
	Docs   []string
}

var c01FrontPinned = []frontPinned{
	{"pinscalars", `{"$schema": "http://json-schema.org/draft-07/schema#", "$ref": "#/definitions/R", "definitions": {
	  "R": {"type": "object", "additionalProperties": false, "required": ["s", "i"], "properties": {
	    "s": {"type": "string", "minLength": 0, "maxLength": 3, "default": "ab", "description": "first line\n\nsecond line\n"},
	    "i": {"type": "integer", "minimum": 1, "maximum": 10, "default": 3},
	    "n": {"type": "number", "exclusiveMinimum": 0.5, "exclusiveMaximum": 7.25, "default": 1.5},
	    "b": {"type": "boolean", "default": true},
	    "z": {"type": "null"},
	    "t": {"type": "string", "format": "date-time"},
	    "e": {"type": "string", "format": "email"},
	    "big": {"type": "integer", "default": 9223372036854775808},
	    "huge": {"type": "number", "default": 1e999, "maximum": 1e400},
	    "ds": {"type": "string", "default": 5},
	    "any": {},
	    "anyd": {"description": "only a description", "default": 1}
	  }}}}`,
		[]string{`{"s":"abc","i":1}`, `{"s":"abcd","i":1}`, `{"s":"é世ü","i":10,"n":0.75,"b":false,"z":null,"t":"2020-01-02T03:04:05Z","any":[1,{"a":null}]}`,
			`{"s":"","i":0}`, `{"s":"a","i":11}`, `{"s":"a","i":2,"n":0.5}`, `{"s":"a","i":2,"n":7.25}`, `{"s":"a","i":2,"n":7}`, `{"s":"a","i":2.5}`,
			`{"s":"a","i":2,"t":"yesterday"}`, `{"s":"a","i":2,"z":0}`, `{"s":"a","i":2,"x":1}`, `{"i":2}`, `{"s":"a","i":2,"b":"true"}`, `[]`, `null`, `{"s":"a","i":9223372036854775808}`}},
	{"pinconsts", `{"$schema": "http://json-schema.org/draft-07/schema#", "$ref": "#/definitions/R", "definitions": {
	  "R": {"type": "object", "additionalProperties": false, "properties": {
	    "cs": {"const": "x"}, "ci": {"const": 7}, "cf": {"const": 1.5}, "cb": {"const": true}, "cn": {"const": null},
	    "cneg": {"const": -0},
	    "ts": {"type": "string", "const": "y"}, "ti": {"type": "integer", "const": 3}, "tn": {"type": "number", "const": 2.25},
	    "tb": {"type": "boolean", "const": false}, "tsn": {"type": "string", "const": 4},
	    "pm": {"type": "string", "pattern": "^math$"}, "pe": {"type": "string", "pattern": "^$"},
	    "pr": {"type": "string", "pattern": "^a.c$"}, "pc": {"type": "string", "pattern": "^k$", "const": "other"},
	    "pu": {"type": "string", "pattern": "^"}
	  }}}}`,
		[]string{`{}`, `{"cs":"x","ci":7,"cf":1.5,"cb":true,"cn":null}`, `{"cs":"y"}`, `{"ci":7.0}`, `{"ci":8}`, `{"cb":false}`, `{"cn":0}`, `{"ts":"y","ti":3,"tn":2.25,"tb":false}`, `{"ti":4}`}},
	{"pinenums", `{"$schema": "http://json-schema.org/draft-07/schema#", "$ref": "#/definitions/R", "definitions": {
	  "R": {"type": "object", "additionalProperties": false, "properties": {
	    "es": {"type": "string", "enum": ["a", "b c"], "default": "a"},
	    "ei": {"type": "integer", "enum": [1, -2, 30]},
	    "eu": {"enum": ["u", "v"]},
	    "en": {"enum": [1, 2]},
	    "em": {"enum": ["m", 1, true, null, 2.5]},
	    "ef": {"enum": [1.5, 2]},
	    "eb": {"enum": [true, false]},
	    "ec": {"enum": [[1, "x"], {"k": 1, "a": [2]}]},
	    "et": {"type": "integer", "enum": ["s"]},
	    "er": {"$ref": "#/definitions/E"},
	    "ebig": {"enum": [9223372036854775808, 1e400]}
	  }},
	  "E": {"type": "string", "enum": ["asc", "desc"]}}}`,
		[]string{`{}`, `{"es":"a","ei":-2,"eu":"v","en":2,"er":"desc"}`, `{"es":"c"}`, `{"ei":2}`, `{"ei":1.0}`, `{"em":null}`, `{"em":2.5}`, `{"em":"1"}`, `{"er":"up"}`, `{"eb":true}`, `{"et":"s"}`, `{"et":1}`}},
	{"pincollections", `{"$schema": "http://json-schema.org/draft-07/schema#", "$ref": "#/definitions/R", "definitions": {
	  "R": {"type": "object", "additionalProperties": false, "required": ["rl"], "properties": {
	    "rl": {"type": "array", "items": {"type": "string"}},
	    "l": {"type": "array", "items": {"type": "integer"}, "default": [1, 2.5, "x"]},
	    "la": {"type": "array"},
	    "le": {"type": "array", "items": {}},
	    "ll": {"type": "array", "items": {"type": "array", "items": {"$ref": "#/definitions/P"}}},
	    "m": {"type": "object", "additionalProperties": {"type": "number"}},
	    "mu": {"additionalProperties": {"type": "boolean"}},
	    "mr": {"type": "object", "additionalProperties": {"$ref": "#/definitions/P"}},
	    "ot": {"type": "object", "additionalProperties": true},
	    "of": {"type": "object", "additionalProperties": false},
	    "oo": {"type": "object"},
	    "op": {"properties": {"k": {"type": "string"}}},
	    "oe": {"type": "object", "properties": {}},
	    "ox": {"type": "object", "properties": {"k": {"type": "string"}}, "additionalProperties": {"type": "integer"}, "default": {"k": "v"}},
	    "in": {"type": "object", "additionalProperties": false, "required": ["q"], "properties": {"q": {"type": "boolean"}, "w": {"type": "array", "items": {"type": "number"}}}}
	  }},
	  "P": {"type": "object", "additionalProperties": false, "required": ["x"], "properties": {"x": {"type": "integer"}, "next": {"$ref": "#/definitions/P"}}}}}`,
		[]string{`{"rl":[]}`, `{"rl":["a"],"l":[1,2],"la":[1,"x",null],"ll":[[{"x":1,"next":{"x":2}}],[]],"m":{"a":1.5},"mr":{"k":{"x":3}},"in":{"q":true,"w":[]}}`,
			`{"rl":[1]}`, `{"rl":["a"],"l":[]}`, `{"rl":["a"],"m":{}}`, `{"rl":["a"],"m":{"a":"b"}}`, `{"rl":["a"],"of":{}}`, `{"rl":["a"],"of":{"k":1}}`, `{"rl":["a"],"mu":{"k":true}}`, `{"rl":["a"],"mu":3}`,
			`{"rl":["a"],"op":{"k":1}}`, `{"rl":["a"],"op":{"z":1}}`, `{"rl":["a"],"ox":{"k":"s","z":1}}`, `{"rl":["a"],"ox":{"z":"s"}}`, `{"rl":["a"],"in":{}}`, `{"rl":["a"],"in":{"q":false,"e":1}}`, `{"rl":["a"],"ll":[[{"x":1,"next":{}}]]}`, `{"rl":null}`}},
	{"pincombinators", `{"$schema": "http://json-schema.org/draft-07/schema#", "$ref": "#/definitions/R", "definitions": {
	  "R": {"type": "object", "additionalProperties": false, "properties": {
	    "ns": {"anyOf": [{"type": "string"}, {"type": "null"}]},
	    "nf": {"oneOf": [{"type": "null"}, {"$ref": "#/definitions/A"}]},
	    "ta": {"type": ["integer", "null"]},
	    "tn": {"type": ["null", "string"]},
	    "tu": {"type": ["string", "number", "boolean"]},
	    "t3": {"type": ["string", "integer", "null"]},
	    "ou": {"oneOf": [{"type": "string"}, {"type": "integer", "minimum": 0}]},
	    "au": {"anyOf": [{"type": "number"}, {"type": "integer"}]},
	    "al": {"allOf": [{"$ref": "#/definitions/A"}, {"type": "object", "properties": {"extra": {"type": "string"}}}]},
	    "or": {"oneOf": [{"$ref": "#/definitions/A"}, {"$ref": "#/definitions/B"}]},
	    "os": {"type": "string", "oneOf": [{"const": "p"}, {"const": "q"}]},
	    "ne": {"anyOf": [{"type": "string", "enum": ["x", "y"]}, {"type": "null"}]},
	    "na": {"anyOf": [{"type": "array", "items": {"type": "string"}}, {"type": "null"}]}
	  }},
	  "A": {"type": "object", "additionalProperties": false, "required": ["kind"], "properties": {"kind": {"const": "a"}, "v": {"type": "integer"}}},
	  "B": {"type": "object", "additionalProperties": false, "required": ["kind"], "properties": {"kind": {"const": "b"}}}}}`,
		[]string{`{}`, `{"ns":null,"nf":null,"ta":null,"tn":"s","tu":true,"t3":4,"ou":"s","au":1.5,"or":{"kind":"b"},"os":"p","ne":"y","na":[]}`,
			`{"ns":1}`, `{"nf":{"kind":"a","v":1}}`, `{"nf":{"kind":"b"}}`, `{"ta":1.5}`, `{"ta":9223372036854775808}`, `{"tu":null}`, `{"ou":-1}`, `{"ou":3}`, `{"au":1}`, `{"al":{"kind":"a","extra":"e"}}`, `{"al":{"kind":"a"}}`,
			`{"or":{"kind":"c"}}`, `{"os":"r"}`, `{"ne":"z"}`, `{"ne":null}`, `{"na":null}`, `{"na":["a",1]}`}},
	{"pinrootinline", `{"$schema": "http://json-schema.org/draft-07/schema#", "type": "object", "additionalProperties": false, "required": ["name"],
	  "properties": {"name": {"type": "string"}, "self": {"$ref": "#"}, "other": {"$ref": "#/definitions/pinrootinline"}, "d": {"$ref": "#/definitions/D"}},
	  "definitions": {"pinrootinline": {"type": "integer"}, "D": {"type": "array", "items": {"$ref": "#/definitions/D"}}}}`,
		[]string{`{"name":"a"}`, `{"name":"a","self":{"name":"b"},"d":[[],[[]]]}`, `{"name":"a","other":3}`, `{"name":"a","other":{"name":"x"}}`, `{}`}},
	{"pindraft2020", `{"$schema": "https://json-schema.org/draft/2020-12/schema", "$ref": "#/$defs/R", "$defs": {
	  "R": {"type": "object", "additionalProperties": false, "properties": {
	    "l": {"type": "array", "items": {"type": "string", "format": "date-time"}},
	    "p": {"type": "array", "prefixItems": [{"type": "string"}]},
	    "r": {"$ref": "#/$defs/S", "description": "sibling of a reference", "default": "d"},
	    "t": {"type": "string", "format": "date-time"}
	  }},
	  "S": {"type": "string", "minLength": 2}}}`,
		[]string{`{}`, `{"l":["not a date"],"t":"nor this","r":"ab"}`, `{"r":"a"}`, `{"l":[1]}`}},
	{"pindraft4", `{"$schema": "http://json-schema.org/draft-04/schema#", "type": "object", "additionalProperties": false,
	  "properties": {"n": {"type": "number", "minimum": 1, "exclusiveMinimum": true, "maximum": 5, "exclusiveMaximum": false}, "c": {"const": 1}}}`,
		[]string{`{}`, `{"n":1}`, `{"n":1.25}`, `{"n":5}`, `{"c":2}`}},
	{"pinnodraft", `{"type": "object", "properties": {"a": {"type": "string", "format": "date-time"}, "b": true, "c": false, "l": {"type": "array", "items": {"type": "string"}}}}`,
		[]string{`{}`, `{"a":"no date","l":["x"],"zz":1}`, `{"c":1}`, `{"l":[1]}`}},
	{"pinconsthuge", `{"$schema": "http://json-schema.org/draft-07/schema#", "type": "object", "properties": {"cbig": {"const": 1e999}}}`, nil},
	{"pinbool", `{"$schema": "http://json-schema.org/draft-07/schema#", "$ref": "#/definitions/R", "definitions": {
	  "R": {"type": "object", "properties": {"yes": true, "no": false, "l": {"type": "array", "items": true}}, "additionalProperties": false}}}`,
		[]string{`{}`, `{"yes":1}`, `{"no":1}`, `{"l":[1,"a"]}`}},
	{"pinaliases", `{"$schema": "http://json-schema.org/draft-07/schema#", "$ref": "#/definitions/R", "definitions": {
	  "R": {"type": "object", "additionalProperties": false, "required": ["rn"], "properties": {
	    "rn": {"$ref": "#/definitions/Name"}, "on": {"$ref": "#/definitions/Name"}, "c": {"$ref": "#/definitions/Count"},
	    "aa": {"$ref": "#/definitions/Alias"}, "tags": {"$ref": "#/definitions/Tags"}, "dict": {"$ref": "#/definitions/Dict"},
	    "when": {"$ref": "#/definitions/When"}, "k": {"$ref": "#/definitions/K"}, "any": {"$ref": "#/definitions/Anything"},
	    "mn": {"anyOf": [{"$ref": "#/definitions/Name"}, {"type": "null"}]}
	  }},
	  "Name": {"type": "string"}, "Count": {"type": "integer", "minimum": 0}, "Alias": {"$ref": "#/definitions/Name"},
	  "Tags": {"type": "array", "items": {"type": "string"}}, "Dict": {"type": "object", "additionalProperties": {"type": "integer"}},
	  "When": {"type": "string", "format": "date-time"}, "K": {"const": "k"}, "Anything": {}}}`,
		[]string{`{"rn":"a"}`, `{"rn":"a","on":"","c":0,"aa":"z","tags":["t"],"dict":{"a":1},"when":"2021-05-06T07:08:09+05:30","k":"k","any":{"x":[1]},"mn":null}`,
			`{"rn":1}`, `{"rn":"a","tags":[]}`, `{"rn":"a","dict":{}}`, `{"rn":"a","c":-1}`, `{"rn":"a","k":"j"}`, `{"rn":"a","aa":2}`, `{"rn":"a","mn":"x"}`}},
	// witness of C01_jsonschema_parser_sound_counterexample (lean/Cog/Props/C01.lean: `cxDefs`, `cxDoc`)
	{"pinint64", `{"$schema": "http://json-schema.org/draft-07/schema#", "$ref": "#/definitions/R", "definitions": {"R": {"type": "integer"}}}`,
		[]string{`9223372036854775808`, `9223372036854775807`, `-9223372036854775808`, `1.0`, `1.5`}},
	// witness of C12_jsonschema_source_validates_emitted_counterexample (Props/C12.lean): `null` at a required nullable member is
	// valid against the source schema and rejected by the emitted one (known finding C12/nullable/not-represented-null-rejected)
	{"pinnullreq", `{"$schema": "http://json-schema.org/draft-07/schema#", "$ref": "#/definitions/R", "definitions": {
	  "R": {"type": "object", "additionalProperties": false, "required": ["x"], "properties": {"x": {"type": ["string", "null"]}}}}}`,
		[]string{`{"x": null}`, `{"x": "a"}`, `{}`, `{"x": 1}`}},
	// `pattern` values around tools.RegexMatchesConstantString (anchored literal = constant; every metacharacter of its list, an
	// escaped one, unanchored literals): model-vs-real VIR equality pins the helper's metacharacter list
	{"pinpatterns", `{"$schema": "http://json-schema.org/draft-07/schema#", "$ref": "#/definitions/R", "definitions": {
	  "R": {"type": "object", "additionalProperties": false, "properties": {
	    "lit": {"type": "string", "pattern": "^math$"},
	    "alt": {"type": "string", "pattern": "^instant|range$"},
	    "altg": {"type": "string", "pattern": "^(a|b)$"},
	    "dot": {"type": "string", "pattern": "^a.c$"},
	    "plus": {"type": "string", "pattern": "^ab+$"},
	    "star": {"type": "string", "pattern": "^ab*$"},
	    "opt": {"type": "string", "pattern": "^ab?$"},
	    "cls": {"type": "string", "pattern": "^[a-z]$"},
	    "dig": {"type": "string", "pattern": "^\\d$"},
	    "rep": {"type": "string", "pattern": "^a{2}$"},
	    "ul": {"type": "string", "pattern": "math"},
	    "ula": {"type": "string", "pattern": "^math"},
	    "ulz": {"type": "string", "pattern": "math$"},
	    "escd": {"type": "string", "pattern": "^a\\.b$"},
	    "escp": {"type": "string", "pattern": "^a\\|b$"},
	    "dash": {"type": "string", "pattern": "^a-b_c$"},
	    "grp": {"type": "string", "pattern": "^(ab)$"},
	    "rb": {"type": "string", "pattern": "^a]b$"},
	    "rc": {"type": "string", "pattern": "^a}b$"}}}}}`,
		[]string{`{"lit":"math","alt":"instant","altg":"a","dot":"abc","plus":"abb","star":"a","opt":"ab","cls":"q","dig":"7","rep":"aa","ul":"xmathx","ula":"maths","ulz":"xmath","escd":"a.b","escp":"a|b","dash":"a-b_c"}`,
			`{"lit":"maths"}`, `{"alt":"range"}`, `{"alt":"instant|range"}`, `{"alt":"x"}`, `{"altg":"b"}`, `{"altg":"(a|b)"}`, `{"dot":"a.c"}`, `{"dot":"ac"}`,
			`{"plus":"a"}`, `{"star":"abbb"}`, `{"opt":"abb"}`, `{"cls":"Q"}`, `{"dig":"x"}`, `{"rep":"a"}`, `{"ul":"no"}`, `{"escd":"axb"}`, `{"escp":"a"}`, `{"dash":"a-b_c"}`, `{"dash":"x"}`}},
	{"pinflat", `{"$schema": "http://json-schema.org/draft-07/schema#", "$ref": "#/definitions/R", "definitions": {
	  "R": {"type": "object", "additionalProperties": false, "required": ["code", "n"], "properties": {
	    "code": {"type": "string", "minLength": 2, "maxLength": 4, "default": "ab"},
	    "flag": {"type": "boolean", "default": true},
	    "k": {"type": "string", "const": "fixed"},
	    "n": {"type": "integer", "minimum": 1, "maximum": 10, "default": 3},
	    "pm": {"type": "string", "pattern": "^math$"},
	    "r": {"type": "number", "exclusiveMinimum": 0.5, "exclusiveMaximum": 7.25, "default": 1.5},
	    "z": {"type": "integer", "default": 0}
	  }}}}`,
		[]string{`{"code":"abc","n":1}`, `{"code":"a","n":1}`, `{"code":"abcde","n":11,"r":0.5}`, `{"code":"ab","n":0,"r":7.25,"flag":false}`,
			`{"code":"ab","n":5,"r":7,"k":"fixed","pm":"math","z":4,"flag":true}`, `{"code":"abcdefgh","n":-3,"r":100}`}},
	{"pinenumempty", `{"$schema": "http://json-schema.org/draft-07/schema#", "type": "object", "properties": {"e": {"enum": []}}}`, nil},
	{"pintuple", `{"$schema": "http://json-schema.org/draft-07/schema#", "type": "object", "properties": {"l": {"type": "array", "items": [{"type": "string"}, {"type": "integer"}]}}}`, nil},
	{"pinbadtype", `{"$schema": "http://json-schema.org/draft-07/schema#", "type": "object", "properties": {"l": {"type": "frob"}}}`, nil},
	{"pinuniondisj", `{"$schema": "http://json-schema.org/draft-07/schema#", "type": "object", "properties": {"l": {"type": ["string", "object"]}}}`, nil},
	{"pinambiguous", `{"$schema": "http://json-schema.org/draft-07/schema#", "type": "object", "properties": {"a": {"$ref": "#/definitions/X"}, "b": {"$ref": "#/definitions/nested/X"}},
	  "definitions": {"X": {"type": "string"}, "nested": {"X": {"type": "integer"}}}}`, nil},
	{"pinvariantless", `{"$schema": "http://json-schema.org/draft-07/schema#", "$ref": "#/definitions/pinvariantless", "definitions": {"pinvariantless": {"type": "object", "additionalProperties": false, "properties": {"me": {"$ref": "#/definitions/pinvariantless"}, "u": {"$ref": "#/definitions/Unused2"}}}, "Unused": {"type": "string"}, "Unused2": {"type": "boolean"}}}`,
		[]string{`{}`, `{"me":{"me":{}},"u":true}`, `{"u":1}`}},
}

// ---- the stream -----------------------------------------------------------------------------

type frontCase struct {
	ID, Kind, Pkg, Text, Note string
	Docs                      []frontDoc
	rv                        *refValidator
}

type frontDoc struct {
	Doc  JV
	Kind string
}

func c01FrontEmit(out *bufio.Writer, c frontCase, hist map[string]int) {
	defer func() {
		if rec := recover(); rec != nil {
			fmt.Fprintf(out, "-\tskip %s harness-panic %s\tok\n", c.ID, labOneLine(fmt.Sprint(rec)))
		}
	}()
	real, rerr := jsRealGenerateAST(c.Text, c.Pkg)
	compiled, cerr := jsCompileLikeGenerator(c.Text)
	if cerr != nil {
		// nothing to model below the library: the real front-end must fail as well
		verdict := "ok"
		if rerr == nil {
			verdict = "FAIL library refuses the schema but GenerateAST succeeded"
		}
		fmt.Fprintf(out, "-\tskip %s library-refuses %s\t%s\n", c.ID, labOneLine(shortErr(cerr)), verdict)
		return
	}
	enc, refuse, used := jsEncodeCase(c.Pkg, compiled)
	if refuse != "" {
		fmt.Fprintf(out, "-\tskip %s encoder-refuses %s\tok\n", c.ID, refuse)
		return
	}
	for k, v := range used {
		hist[k] += v
	}
	fmt.Fprintf(out, "-\tcase %s kind=%s %s\tok\n", c.ID, c.Kind, c.Note)
	if jv, err := parseJV([]byte(c.Text)); err == nil {
		fmt.Fprintf(out, "-\tschema %s %s\tok\n", c.ID, jv.json())
	}
	fmt.Fprintf(out, "jsfdef %s %s\tok\tok\n", c.ID, enc)
	if rerr != nil {
		if strings.HasPrefix(rerr.Error(), "PANIC") {
			fmt.Fprintf(out, "jsfront %s\tpanic\tFAIL GenerateAST panicked: %s\n", c.ID, labOneLine(labFirstLine(rerr.Error())))
		} else {
			fmt.Fprintf(out, "jsfront %s\terr\tok\n", c.ID)
		}
		return
	}
	vir := virSchemas(ast.Schemas{real})
	fmt.Fprintf(out, "jsfront %s\tok %s\tok\n", c.ID, vir)
	fmt.Fprintf(out, "defschemas %s.fe %s\tok\tok\n", c.ID, vir)
	// instances of keeps_property and of the C10 compositions on the REAL front-end IR (lean/Cog/Drv/KeepsDrv.lean)
	fmt.Fprintf(out, "jsfkeeps %s %s.fe\t-\tok\n", c.ID, c.ID)
	for _, d := range c.Docs {
		// instances of the C08 composition: every sub-document at a flat object definition
		fmt.Fprintf(out, "jsfc08 %s %s.fe %s\t-\tok\n", c.ID, c.ID, d.Doc.sexp())
	}
	// source schema → real front-end → real jsonschema jenny: does the EMITTED schema accept the document? (lean/Cog/Drv/FrontEmitDrv.lean)
	erv, etext, eerr := c01FrontRealEmitted(real, real.EntryPoint)
	if eerr == nil {
		if ejv, err := parseJV([]byte(etext)); err == nil {
			fmt.Fprintf(out, "-\temitted %s %s\tok\n", c.ID, ejv.json())
		}
	} else {
		fmt.Fprintf(out, "-\temitted-err %s %s\tok\n", c.ID, labOneLine(shortErr(eerr)))
	}
	for _, d := range c.Docs {
		remit := "n/a"
		if eerr == nil {
			remit = fmt.Sprint(erv.validate(d.Doc) == nil)
		}
		fmt.Fprintf(out, "jsfc12 %s %s.fe %s\tsrc=%v remit=%s\tok\n", c.ID, c.ID, d.Doc.sexp(), compiled.Validate(d.Doc.toAny(true)) == nil, remit)
	}
	for _, d := range c.Docs {
		valid := compiled.Validate(d.Doc.toAny(true)) == nil
		verdict := "ok"
		if c.rv != nil {
			if rvValid := c.rv.validate(d.Doc) == nil; rvValid != valid {
				verdict = fmt.Sprintf("FAIL compiled schema says valid=%v, the lab's reference validator says %v", valid, rvValid)
			}
		}
		fmt.Fprintf(out, "jsfdoc %s %s.fe %s\tvalid=%v doc=%s\t%s\n", c.ID, c.ID, d.Doc.sexp(), valid, d.Kind, verdict)
	}
}

func init() {
	register("c01-front", func(args map[string]string, out *bufio.Writer) error {
		n := argInt(args, "n", 30)
		ndocs := argInt(args, "docs", 10)
		nfault := argInt(args, "faults", 6)
		seed := uint64(argInt(args, "seed", 1))
		from := argInt(args, "from", 0)
		base := argGenOpts(args)
		hist := map[string]int{}
		faultKinds := []string{"undeclaredKey", "missingRequired", "nullRequired", "wrongType", "notInEnum", "min-1", "max+1", "minLength-1", "maxLength+1"}
		if args["pinned"] != "0" {
			for _, p := range c01FrontPinned {
				c := frontCase{ID: p.ID, Kind: "pinned", Pkg: p.ID, Text: p.Schema}
				for i, d := range p.Docs {
					jv, err := parseJV([]byte(d))
					if err != nil {
						return fmt.Errorf("pinned %s doc %d: %w", p.ID, i, err)
					}
					c.Docs = append(c.Docs, frontDoc{jv, "pinned"})
				}
				c01FrontEmit(out, c, hist)
			}
		}
		if args["testdata"] != "0" {
			files, _ := filepath.Glob("testdata/jsonschema/*/schema.json")
			sort.Strings(files)
			for _, f := range files {
				raw, err := os.ReadFile(f)
				if err != nil {
					continue
				}
				name := strings.ReplaceAll(filepath.Base(filepath.Dir(f)), "_", "")
				c01FrontEmit(out, frontCase{ID: "td" + name, Kind: "testdata", Pkg: "grafanatest", Text: string(raw), Note: "file=" + f}, hist)
			}
		}
		for i := from; i < from+n; i++ {
			profile := i % 3
			if p, ok := args["profile"]; ok {
				fmt.Sscanf(p, "%d", &profile)
			}
			o := base
			switch profile {
			case 1:
				o = base.with(c01PlainSwitches)
				if (i/3)%2 == 1 {
					// plain shapes WITH defaults (instances of the C10 compositions need `Plain` front-end output)
					o = base.with(strings.Replace(c01PlainSwitches, ",-default", "", 1))
				}
				if i%12 == 10 {
					// flat objects of constrained scalars (instances of the C08 composition)
					o = base.with(c01PlainSwitches + ",-array,-dict,-ref,-ref.recursive,-enumS,-enumI,-any,-const.string,-const.int,-const.bool,-def.enum,-nullable,-elem.nullable")
				}
				o.NoForce = true
			case 2:
				o = base.with("+def.collection,+struct.empty,+int.hugeBounds")
			}
			d0 := genDefs(seed, i, o)
			if profile == 1 && (i/3)%2 == 1 {
				d0 = c01HoistEnums(d0)
			} else if profile == 1 {
				d0 = c01DropDefaults(c01HoistEnums(d0))
			}
			id := fmt.Sprintf("f%djs", i)
			if err := d0.wf(); err != nil {
				fmt.Fprintf(out, "-\tskip %s term-not-wf %s\tok\n", id, labOneLine(err.Error()))
				continue
			}
			func() {
				defer func() {
					if rec := recover(); rec != nil {
						fmt.Fprintf(out, "-\tskip %s harness-panic %s\tok\n", id, labOneLine(fmt.Sprint(rec)))
					}
				}()
				// degradation level 1: only what JSON Schema cannot express (constructs the front-end drops stay in)
				d, notes := degradeDefs(d0, "jsonschema", 1)
				ro := renderDefs(d, "jsonschema", id)
				if ro.Text == "" || len(ro.Unsupported) > 0 {
					fmt.Fprintf(out, "-\tskip %s unsupported-by-format %s\tok\n", id, labOneLine(strings.Join(ro.Unsupported, ",")))
					return
				}
				c := frontCase{ID: id, Kind: "lab", Pkg: id, Text: ro.Text,
					Note: fmt.Sprintf("profile=%d degraded=%v notes=%v style=%v src=%s", profile, notes, ro.Notes, ro.Style, d.sexp())}
				if rv, err := newRefValidator("jsonschema", ro.refText(), d.Root); err == nil {
					c.rv = rv
				}
				dg := newDocGen(d, newRng(seed*7919+uint64(i)*31+5), defaultDocOpts())
				for k := 0; k < ndocs; k++ {
					c.Docs = append(c.Docs, frontDoc{dg.validDoc(), "valid"})
				}
				for k := 0; k < nfault; k++ {
					if fd, ok := dg.faultDoc(faultKinds); ok {
						c.Docs = append(c.Docs, frontDoc{fd.Doc, "fault:" + fd.Kind})
					}
				}
				c01FrontEmit(out, c, hist)
			}()
		}
		keys := make([]string, 0, len(hist))
		for k := range hist {
			keys = append(keys, k)
		}
		sort.Strings(keys)
		parts := []string{}
		for _, k := range keys {
			parts = append(parts, fmt.Sprintf("%s=%d", k, hist[k]))
		}
		fmt.Fprintf(out, "-\tstats keywords %s\tok\n", strings.Join(parts, " "))
		return nil
	})
}
