package main

// C12 lab stream: Src terms × 3 input formats through the real pipeline; the emitted JSON Schema /
// OpenAPI files next to the Lean model of the emitter (`jsemit`), the independent oracles of
// c12_oracle.go, and every document the generated Go code re-encodes validated against the emitted
// JSON Schema by santhosh-tekuri/jsonschema next to the Lean validator (`jsvalid`).
//
// rows:  defschemas <case>.js <IR after the jsonschema chain>   \t ok \t ok
//        defschemas <case>.go <IR after the Go chain>           \t ok \t ok
//        jsemit <case>.js <pkg> js|oa                           \t ok <emitted file, compact> \t verdict of the oracles
//        jswf <case>.js <pkg>                                   \t refs=<b> present=<b>       \t ok
//        jsvalid <case>.js <pkg> <root> <re-encoded doc>        \t valid|invalid              \t ok | FAIL encoded-value-rejected …
//        jshyp <case>.go <case>.js <pkg> <root> <source doc>    \t valid=<b>                  \t ok
//        jsself <case>.go <case>.js <pkg>                       \t -                          \t ok   (model-side hypotheses only)

import (
	"bufio"
	"errors"
	"fmt"
	"strconv"
	"strings"

	"github.com/grafana/cog/internal/ast"
	jsv "github.com/santhosh-tekuri/jsonschema/v5"
)

// c12Pointer resolves a JSON pointer (as santhosh prints keyword locations) in a document.
func c12Pointer(doc JV, ptr string) (JV, bool) {
	cur := doc
	if ptr == "" || ptr == "/" {
		return cur, true
	}
	for _, seg := range strings.Split(strings.TrimPrefix(ptr, "/"), "/") {
		seg = strings.ReplaceAll(strings.ReplaceAll(seg, "~1", "/"), "~0", "~")
		seg = strings.ReplaceAll(seg, "%25", "%")
		switch cur.K {
		case 'o':
			v, ok := cur.get(seg)
			if !ok {
				return JV{}, false
			}
			cur = v
		case 'a':
			i, err := strconv.Atoi(seg)
			if err != nil || i < 0 || i >= len(cur.A) {
				return JV{}, false
			}
			cur = cur.A[i]
		default:
			return JV{}, false
		}
	}
	return cur, true
}

func c12NodeKind(node JV) string {
	if node.K != 'o' {
		return "?"
	}
	if canonJSON([]byte(node.json())) == `{"additionalProperties":{},"type":"object"}` {
		return "any"
	}
	if _, ok := node.get("$ref"); ok {
		return "ref"
	}
	if _, ok := node.get("enum"); ok {
		return "enum"
	}
	if _, ok := node.get("anyOf"); ok {
		return "anyOf"
	}
	if _, ok := node.get("const"); ok {
		return "const"
	}
	if t, ok := node.get("type"); ok && t.K == 's' {
		if _, ok := node.get("properties"); ok {
			return "struct"
		}
		return t.S
	}
	if len(node.O) == 0 {
		return "empty"
	}
	return "?"
}

func c12JSONKind(v JV) string {
	switch v.K {
	case 'z':
		return "null"
	case 't', 'f':
		return "boolean"
	case 'n':
		return "number"
	case 's':
		return "string"
	case 'a':
		return "array"
	case 'o':
		return "object"
	}
	return "?"
}

// c12Explain: the deepest first cause of a santhosh validation error, as
// `kw=<keyword> node=<kind of the emitted node> got=<JSON type of the offending value> at=<instance pointer>`
func c12Explain(err error, emitted JV, instance JV) string {
	var ve *jsv.ValidationError
	if !errors.As(err, &ve) {
		return "kw=? " + shortErr(err)
	}
	// prefer a leaf whose emitted node is not a union: the alternatives of an anyOf all fail, the
	// interesting one is reported by the first leaf
	leaf := ve
	for len(leaf.Causes) > 0 {
		// among the alternatives (the branches of an anyOf all fail) follow the one that got deepest
		// into the document: the branch the value was meant for
		best, bestDepth := leaf.Causes[0], -1
		for _, c := range leaf.Causes {
			if d := c12Depth(c); d > bestDepth {
				best, bestDepth = c, d
			}
		}
		leaf = best
	}
	kwLoc := leaf.AbsoluteKeywordLocation
	if i := strings.Index(kwLoc, "#"); i >= 0 {
		kwLoc = kwLoc[i+1:]
	}
	kw := kwLoc
	parent := ""
	if i := strings.LastIndex(kwLoc, "/"); i >= 0 {
		kw = kwLoc[i+1:]
		parent = kwLoc[:i]
	}
	node, _ := c12Pointer(emitted, parent)
	got, _ := c12Pointer(instance, leaf.InstanceLocation)
	return fmt.Sprintf("kw=%s node=%s got=%s at=%s msg=%s", kw, c12NodeKind(node), c12JSONKind(got), leaf.InstanceLocation, labOneLine(leaf.Message))
}

// c12SrcAt describes the source construct at an instance pointer ("/a/0/b") of a document of the root.
func c12Depth(ve *jsv.ValidationError) int {
	if len(ve.Causes) == 0 {
		d := 4 * strings.Count(ve.InstanceLocation, "/")
		kw := ve.KeywordLocation
		if i := strings.LastIndex(kw, "/"); i >= 0 {
			kw = kw[i+1:]
		}
		// a mismatching constant / enum / member set is how a union alternative says "not me"
		if kw != "const" && kw != "enum" {
			d += 2
		}
		if kw != "required" && kw != "additionalProperties" {
			d++
		}
		return d
	}
	d := -1
	for _, c := range ve.Causes {
		if x := c12Depth(c); x > d {
			d = x
		}
	}
	return d
}

func c12SrcAt(d *Defs, ptr string) string {
	if d == nil {
		return "?"
	}
	resolve := func(s *Src) *Src {
		for i := 0; i < 20 && s != nil && s.Kind == SRef; i++ {
			s = d.lookup(s.Ref)
		}
		return s
	}
	cur := resolve(srcRef(d.Root))
	desc := []string{}
	if ptr != "" && ptr != "/" {
		for _, seg := range strings.Split(strings.TrimPrefix(ptr, "/"), "/") {
			if cur == nil {
				break
			}
			switch cur.Kind {
			case SStruct:
				var next *Src
				for _, f := range cur.Fields {
					if f.Name == seg {
						flags := "optional"
						if f.Required {
							flags = "required"
						}
						if f.Nullable {
							flags += "+nullable"
						}
						desc = append(desc, "field("+flags+")")
						next = f.Ty
					}
				}
				cur = resolve(next)
			case SArray:
				desc = append(desc, "array")
				cur = resolve(cur.Elem)
			case SDict:
				desc = append(desc, "dict")
				cur = resolve(cur.Elem)
			case SOneOfStructs:
				desc = append(desc, "oneOfStructs")
				var next *Src
				for _, br := range cur.Branches {
					bs := resolve(srcRef(br.Name))
					if bs == nil || bs.Kind != SStruct {
						continue
					}
					for _, f := range bs.Fields {
						if f.Name == seg && next == nil {
							flags := "optional"
							if f.Required {
								flags = "required"
							}
							if f.Nullable {
								flags += "+nullable"
							}
							desc = append(desc, "field("+flags+")")
							next = f.Ty
						}
					}
				}
				cur = resolve(next)
			default:
				desc = append(desc, "?"+cur.Kind.String())
				cur = nil
			}
		}
	}
	if cur != nil {
		desc = append(desc, cur.Kind.String())
	}
	return strings.Join(desc, "/")
}

func c12FindSchema(ss ast.Schemas, pkg string) *ast.Schema {
	for _, s := range ss {
		if s.Package == pkg {
			return s
		}
	}
	return nil
}

// c12LabRows: the rows of a built lab (cases with their source-valid documents).
func c12LabRows(out *bufio.Writer, lab *Lab, cases []*LabCase, docs map[string][]JV, stats map[string]int) {
	var reqs []LabReq
	for _, c := range cases {
		if !c.generated() || !c.GoOK {
			continue
		}
		for _, d := range docs[c.ID] {
			reqs = append(reqs, LabReq{c.ID, c.Defs.Root, "dec", []string{d.json()}})
		}
	}
	rep := lab.GoCall(reqs)
	ri := 0
	for _, c := range cases {
		switch {
		case c.Defs == nil || len(c.Unsupported) > 0:
			fmt.Fprintf(out, "-\tskip %s unsupported-by-format %s\tok\n", c.ID, labOneLine(strings.Join(c.Unsupported, ",")))
			continue
		case c.GenErr != "":
			fmt.Fprintf(out, "-\tskip %s generr %s\tok\n", c.ID, labOneLine(c.GenErr))
			continue
		}
		fmt.Fprintf(out, "-\tcase %s format=%s degraded=%v notes=%v src=%s\tok\n", c.ID, c.Format, c.Degraded, c.Notes, c.Defs.sexp())
		skipDocs := func() {
			if c.GoOK {
				ri += len(docs[c.ID])
			}
		}
		irJS, _, err := lab.labRun(c).chainIR("jsonschema")
		if err != nil {
			fmt.Fprintf(out, "-\tskip %s no-jsonschema-chain-ir %s\tok\n", c.ID, labOneLine(err.Error()))
			skipDocs()
			continue
		}
		schema := c12FindSchema(irJS, c.ID)
		if schema == nil {
			fmt.Fprintf(out, "-\tskip %s no-schema-for-package\tok\n", c.ID)
			skipDocs()
			continue
		}
		stats["cases"]++
		fmt.Fprintf(out, "defschemas %s.js %s\tok\tok\n", c.ID, virSchemas(irJS))
		jsText, oaText := c.EmittedJSONSchema(), c.EmittedOpenAPI()
		fmt.Fprintf(out, "jsemit %s.js %s js\tok %s\t%s\n", c.ID, c.ID, c12Compact(jsText), c12VerdictJSONSchema(irJS, schema, jsText, true))
		fmt.Fprintf(out, "jsemit %s.js %s oa\tok %s\t%s\n", c.ID, c.ID, c12Compact(oaText), c12VerdictOpenAPI(irJS, schema, oaText, true))
		emitted, _ := parseJV(jsText)
		refsOK := len(c12Unresolved(emitted, false)) == 0
		defs, _ := c12Definitions(emitted, false)
		present := true
		schema.Objects.Iterate(func(_ string, o ast.Object) {
			if _, ok := defs.get(o.Name); !ok {
				present = false
			}
		})
		fmt.Fprintf(out, "jswf %s.js %s\trefs=%v present=%v\tok\n", c.ID, c.ID, refsOK, present)
		if !c.GoOK {
			fmt.Fprintf(out, "-\tskip %s gocompile %s\tok\n", c.ID, labOneLine(c.GoCompileErr))
			continue
		}
		fmt.Fprintf(out, "defschemas %s.go %s\tok\tok\n", c.ID, virSchemas(c.IRGo))
		fmt.Fprintf(out, "jsself %s.go %s.js %s\t-\tok\n", c.ID, c.ID, c.ID)
		src, srcErr := c.RefValidator("")
		ev, evErr := newRefValidator("jsonschema", string(jsText), c.Defs.Root)
		for _, d := range docs[c.ID] {
			dec := rep[ri]
			ri++
			if srcErr != nil || src.validate(d) != nil {
				stats["doc-not-source-valid"]++
				continue
			}
			if !strings.HasPrefix(dec, "ok ") {
				stats["dec-error"]++ // C01's business
				continue
			}
			got, perr := parseJV([]byte(strings.TrimPrefix(dec, "ok ")))
			if perr != nil {
				stats["reenc-invalid-json"]++
				continue
			}
			stats["values"]++
			impl, verdict := "valid", "ok"
			if evErr != nil {
				impl, verdict = "invalid", "FAIL emitted-schema-does-not-compile case="+c.ID+" "+shortErr(evErr)
			} else if verr := ev.validate(got); verr != nil {
				impl = "invalid"
				ex := c12Explain(verr, emitted, got)
				at := ""
				if i := strings.Index(ex, " at="); i >= 0 {
					at = strings.Fields(ex[i+4:])[0]
				}
				by := c12ExplainedBy(schema, emitted, c.Defs.Root, got)
				if by == "" {
					by = "nothing"
				}
				verdict = fmt.Sprintf("FAIL encoded-value-rejected explained-by=%s format=%s src=%s %s case=%s", by, c.Format, c12SrcAt(c.Defs, at), ex, c.ID)
				stats["rejected-explained-by-"+by]++
				stats["values-rejected"]++
			}
			fmt.Fprintf(out, "jsvalid %s.js %s %s %s\t%s\t%s\t%s\t%s\n", c.ID, c.ID, c.Defs.Root, got.sexp(), impl, verdict, got.json(), d.json())
			fmt.Fprintf(out, "jshyp %s.go %s.js %s %s %s\tvalid=%v\tok\n", c.ID, c.ID, c.ID, c.Defs.Root, d.sexp(), impl == "valid")
		}
	}
}

// pinned lab cases: the recorded findings about encoded values, on real generated Go code
var c12LabPinned = []struct {
	id, defs string
	docs     []string
}{
	{"any", `(defs "R" ("R" (struct (field "v" (any) true false -))))`, []string{`{"v":"text"}`, `{"v":12}`}},
	{"requirednullable", `(defs "R" ("R" (struct (field "n" (int 64 true - -) true true -))))`, []string{`{"n":null}`, `{"n":4}`}},
	{"const", `(defs "R" ("R" (struct (field "c" (const (s "fixed")) true false -) (field "n" (int 64 true - -) false false -))))`, []string{`{"c":"fixed"}`, `{"c":"fixed","n":3}`}},
	{"nullunion", `(defs "R" ("R" (struct (field "x" (oneOfStructs "type" ("a" "A") ("b" "B")) false true -))) ("A" (struct (field "type" (const (s "a")) true false -))) ("B" (struct (field "type" (const (s "b")) true false -) (field "n" (int 64 true - -) true false -))))`,
		[]string{`{"x":{"type":"b","n":1}}`, `{"x":null}`, `{}`}},
	{"enumsign", `(defs "R" ("R" (struct (field "e" (ref "E") true false -))) ("E" (enumI -1)))`, []string{`{"e":-1}`}},
	{"bytes", `(defs "R" ("R" (struct (field "b" (array (int 8 false - -)) true false -))))`, []string{`{"b":[1,2]}`, `{"b":[]}`}},
	{"plain", `(defs "R" ("R" (struct (field "s" (string 1 5 false) true false -) (field "k" (ref "E") false false -) (field "l" (array (int 64 true 0 9)) true false -))) ("E" (enumS "a" "b")))`,
		[]string{`{"s":"ab","k":"b","l":[1,9]}`, `{"s":"abcde","l":[]}`}},
}

func init() {
	register("c12-lab", func(args map[string]string, out *bufio.Writer) error {
		args["python"] = "0"
		b, err := buildLabBatch(args, "c12-"+args["seed"]+"-"+args["tier"], false)
		if err != nil {
			return err
		}
		defer b.lab.Close()
		if path, ok := args["docfile"]; ok {
			// replay: the documents of the file (one JSON document per line) instead of generated ones
			var ds []JV
			for _, l := range readLines(path) {
				if v, err := parseJV([]byte(l)); err == nil {
					ds = append(ds, v)
				}
			}
			for _, c := range b.cases {
				b.docs[c.ID] = ds
			}
		}
		stats := map[string]int{}
		c12LabRows(out, b.lab, b.cases, b.docs, stats)
		fmt.Fprintf(out, "-\tstats %v timings=%s constructs=%v docvariants=%v\tok\n", stats, fmtTimings(b.lab.Timings), b.hist, b.dhist)
		return nil
	})

	register("c12-labpinned", func(args map[string]string, out *bufio.Writer) error {
		opts := defaultLabOpts()
		opts.NoPython = true
		lab, err := NewLab(labWorkDir("c12pin"), opts)
		if err != nil {
			return err
		}
		defer lab.Close()
		docs := map[string][]JV{}
		var cases []*LabCase
		for _, p := range c12LabPinned {
			if only, ok := args["id"]; ok && only != p.id {
				continue
			}
			d, err := parseDefsSexp(p.defs)
			if err != nil {
				return err
			}
			for _, f := range labFormats {
				c := lab.AddCase(d, f)
				cases = append(cases, c)
				for _, t := range p.docs {
					docs[c.ID] = append(docs[c.ID], mustJV(t))
				}
				fmt.Fprintf(out, "-\tpinned %s %s %s\tok\n", p.id, c.ID, f)
			}
		}
		if err := lab.Build(); err != nil {
			return err
		}
		stats := map[string]int{}
		c12LabRows(out, lab, cases, docs, stats)
		fmt.Fprintf(out, "-\tstats %v\tok\n", stats)
		return nil
	})
}
