package main

// C12 lab stream: Src terms × 3 input formats through the real pipeline; the emitted JSON Schema /
// OpenAPI files next to the Lean model of the emitter (`jsemit`), the independent oracles of
// c12_oracle.go, and every document the generated Go code re-encodes validated against the emitted
// JSON Schema by santhosh-tekuri/jsonschema next to the Lean validator (`jsvalid`).
//
// rows:  defschemas <case>.js <IR after the jsonschema chain>   \t ok \t ok
//        defschemas <case>.go <IR after the Go chain>           \t ok \t ok
//        jsemit <case>.js <pkg> js|oa                           \t ok <emitted file, compact> \t verdict of the oracles
//        jswf <case>.js <pkg>                                   \t refs=<b> present=<b>       \t ok
//        jsvalid <case>.js <pkg> <root> <re-encoded doc>        \t valid|invalid              \t ok | FAIL encoded-value-rejected …
//        jshyp <case>.go <case>.js <pkg> <root> <source doc>    \t valid=<b>                  \t ok
//        jsself <case>.go <case>.js <pkg>                       \t -                          \t ok   (model-side hypotheses only)

import (
	"bufio"
	"errors"
	"fmt"
	"math/big"
	"strconv"
	"strings"

	"github.com/grafana/cog/internal/ast"
	jsv "github.com/santhosh-tekuri/jsonschema/v5"
)

// c12Pointer resolves a JSON pointer (as santhosh prints keyword locations) in a document.
func c12Pointer(doc JV, ptr string) (JV, bool) {
	cur := doc
	if ptr == "" || ptr == "/" {
		return cur, true
	}
	for _, seg := range strings.Split(strings.TrimPrefix(ptr, "/"), "/") {
		seg = strings.ReplaceAll(strings.ReplaceAll(seg, "~1", "/"), "~0", "~")
		seg = strings.ReplaceAll(seg, "%25", "%")
		switch cur.K {
		case 'o':
			v, ok := cur.get(seg)
			if !ok {
				return JV{}, false
			}
			cur = v
		case 'a':
			i, err := strconv.Atoi(seg)
			if err != nil || i < 0 || i >= len(cur.A) {
				return JV{}, false
			}
			cur = cur.A[i]
		default:
			return JV{}, false
		}
	}
	return cur, true
}

func c12NodeKind(node JV) string {
	if node.K != 'o' {
		return "?"
	}
	if canonJSON([]byte(node.json())) == `{"additionalProperties":{},"type":"object"}` {
		return "any"
	}
	if _, ok := node.get("$ref"); ok {
		return "ref"
	}
	if _, ok := node.get("enum"); ok {
		return "enum"
	}
	if _, ok := node.get("anyOf"); ok {
		return "anyOf"
	}
	if _, ok := node.get("const"); ok {
		return "const"
	}
	if t, ok := node.get("type"); ok && t.K == 's' {
		if _, ok := node.get("properties"); ok {
			return "struct"
		}
		return t.S
	}
	if len(node.O) == 0 {
		return "empty"
	}
	return "?"
}

func c12JSONKind(v JV) string {
	switch v.K {
	case 'z':
		return "null"
	case 't', 'f':
		return "boolean"
	case 'n':
		return "number"
	case 's':
		return "string"
	case 'a':
		return "array"
	case 'o':
		return "object"
	}
	return "?"
}

// c12Explain: the deepest first cause of a santhosh validation error, as
// `kw=<keyword> node=<kind of the emitted node> got=<JSON type of the offending value> at=<instance pointer>`
func c12Explain(err error, emitted JV, instance JV) string {
	var ve *jsv.ValidationError
	if !errors.As(err, &ve) {
		return "kw=? " + shortErr(err)
	}
	// prefer a leaf whose emitted node is not a union: the alternatives of an anyOf all fail, the
	// interesting one is reported by the first leaf
	leaf := ve
	for len(leaf.Causes) > 0 {
		// among the alternatives (the branches of an anyOf all fail) follow the one that got deepest
		// into the document: the branch the value was meant for
		best, bestDepth := leaf.Causes[0], -1
		for _, c := range leaf.Causes {
			if d := c12Depth(c); d > bestDepth {
				best, bestDepth = c, d
			}
		}
		leaf = best
	}
	kwLoc := leaf.AbsoluteKeywordLocation
	if i := strings.Index(kwLoc, "#"); i >= 0 {
		kwLoc = kwLoc[i+1:]
	}
	kw := kwLoc
	parent := ""
	if i := strings.LastIndex(kwLoc, "/"); i >= 0 {
		kw = kwLoc[i+1:]
		parent = kwLoc[:i]
	}
	node, _ := c12Pointer(emitted, parent)
	got, _ := c12Pointer(instance, leaf.InstanceLocation)
	return fmt.Sprintf("kw=%s node=%s got=%s at=%s msg=%s", kw, c12NodeKind(node), c12JSONKind(got), leaf.InstanceLocation, labOneLine(leaf.Message))
}

// c12SrcAt describes the source construct at an instance pointer ("/a/0/b") of a document of the root.
func c12Depth(ve *jsv.ValidationError) int {
	if len(ve.Causes) == 0 {
		d := 4 * strings.Count(ve.InstanceLocation, "/")
		kw := ve.KeywordLocation
		if i := strings.LastIndex(kw, "/"); i >= 0 {
			kw = kw[i+1:]
		}
		// a mismatching constant / enum / member set is how a union alternative says "not me"
		if kw != "const" && kw != "enum" {
			d += 2
		}
		if kw != "required" && kw != "additionalProperties" {
			d++
		}
		return d
	}
	d := -1
	for _, c := range ve.Causes {
		if x := c12Depth(c); x > d {
			d = x
		}
	}
	return d
}

func c12SrcAt(d *Defs, ptr string) string {
	if d == nil {
		return "?"
	}
	resolve := func(s *Src) *Src {
		for i := 0; i < 20 && s != nil && s.Kind == SRef; i++ {
			s = d.lookup(s.Ref)
		}
		return s
	}
	cur := resolve(srcRef(d.Root))
	desc := []string{}
	if ptr != "" && ptr != "/" {
		for _, seg := range strings.Split(strings.TrimPrefix(ptr, "/"), "/") {
			if cur == nil {
				break
			}
			switch cur.Kind {
			case SStruct:
				var next *Src
				for _, f := range cur.Fields {
					if f.Name == seg {
						flags := "optional"
						if f.Required {
							flags = "required"
						}
						if f.Nullable {
							flags += "+nullable"
						}
						desc = append(desc, "field("+flags+")")
						next = f.Ty
					}
				}
				cur = resolve(next)
			case SArray:
				desc = append(desc, "array")
				cur = resolve(cur.Elem)
			case SDict:
				desc = append(desc, "dict")
				cur = resolve(cur.Elem)
			case SOneOfStructs:
				desc = append(desc, "oneOfStructs")
				var next *Src
				for _, br := range cur.Branches {
					bs := resolve(srcRef(br.Name))
					if bs == nil || bs.Kind != SStruct {
						continue
					}
					for _, f := range bs.Fields {
						if f.Name == seg && next == nil {
							flags := "optional"
							if f.Required {
								flags = "required"
							}
							if f.Nullable {
								flags += "+nullable"
							}
							desc = append(desc, "field("+flags+")")
							next = f.Ty
						}
					}
				}
				cur = resolve(next)
			default:
				desc = append(desc, "?"+cur.Kind.String())
				cur = nil
			}
		}
	}
	if cur != nil {
		desc = append(desc, cur.Kind.String())
	}
	return strings.Join(desc, "/")
}

// c12AddFails appends oracle failures to a verdict (`ok …` / `FAIL a ;; b`).
func c12AddFails(verdict string, fails []string) string {
	if len(fails) == 0 {
		return verdict
	}
	if !strings.HasPrefix(verdict, "FAIL ") {
		return "FAIL " + strings.Join(fails, " ;; ")
	}
	return verdict + " ;; " + strings.Join(fails, " ;; ")
}

func c12FindSchema(ss ast.Schemas, pkg string) *ast.Schema {
	for _, s := range ss {
		if s.Package == pkg {
			return s
		}
	}
	return nil
}

// c12LabRows: the rows of a built lab (cases with their source-valid documents).
func c12LabRows(out *bufio.Writer, lab *Lab, cases []*LabCase, docs map[string][]JV, faults map[string][]Fault, stats map[string]int) {
	var reqs []LabReq
	for _, c := range cases {
		if !c.generated() || !c.GoOK {
			continue
		}
		for _, d := range docs[c.ID] {
			reqs = append(reqs, LabReq{c.ID, c.Defs.Root, "dec", []string{d.json()}})
		}
	}
	rep := lab.GoCall(reqs)
	ri := 0
	for _, c := range cases {
		switch {
		case c.Defs == nil || len(c.Unsupported) > 0:
			fmt.Fprintf(out, "-\tskip %s unsupported-by-format %s\tok\n", c.ID, labOneLine(strings.Join(c.Unsupported, ",")))
			continue
		case c.GenErr != "":
			fmt.Fprintf(out, "-\tskip %s generr %s\tok\n", c.ID, labOneLine(c.GenErr))
			continue
		}
		fmt.Fprintf(out, "-\tcase %s format=%s degraded=%v notes=%v src=%s\tok\n", c.ID, c.Format, c.Degraded, c.Notes, c.Defs.sexp())
		fmt.Fprintf(out, "-\tsource %s %s\tok\n", c.ID, jsonQuote(c.SchemaText))
		skipDocs := func() {
			if c.GoOK {
				ri += len(docs[c.ID])
			}
		}
		irJS, _, err := lab.labRun(c).chainIR("jsonschema")
		if err != nil {
			fmt.Fprintf(out, "-\tskip %s no-jsonschema-chain-ir %s\tok\n", c.ID, labOneLine(err.Error()))
			skipDocs()
			continue
		}
		schema := c12FindSchema(irJS, c.ID)
		if schema == nil {
			fmt.Fprintf(out, "-\tskip %s no-schema-for-package\tok\n", c.ID)
			skipDocs()
			continue
		}
		stats["cases"]++
		fmt.Fprintf(out, "defschemas %s.js %s\tok\tok\n", c.ID, virSchemas(irJS))
		jsText, oaText := c.EmittedJSONSchema(), c.EmittedOpenAPI()
		vjs := c12VerdictJSONSchema(irJS, schema, jsText, true)
		voa := c12VerdictOpenAPI(irJS, schema, oaText, true)
		tagged := func(fails []string, doc string) []string {
			for i := range fails {
				fails[i] += doc + " format=" + c.Format + " case=" + c.ID
			}
			return fails
		}
		// the FRONT-END IR of the same input (before the language's own compiler passes)
		pre, preErr := lab.labRun(c).loadSchemas()
		if preErr != nil {
			stats["chain-defaults:no-front-end-ir"]++
		}
		if em, err := parseJV(jsText); err == nil {
			if ed, ok := c12Definitions(em, false); ok {
				vjs = c12AddFails(vjs, tagged(c12SourceCarried(c.Defs, ed), ""))
				if preErr == nil {
					w := c12ChainDefaults(pre, c.ID, ed)
					stats["chain-defaults:members"] += w.members
					stats["chain-defaults:front-end-defaults"] += w.defaults
					stats["chain-defaults:on-nullable-union-branch"] += w.onBranch
					stats["chain-defaults:on-nullable-union"] += w.onUnion
					stats["chain-defaults:failures"] += len(w.fails)
					vjs = c12AddFails(vjs, tagged(w.fails, " doc=jsonschema"))
				}
			}
		}
		if em, err := parseJV(oaText); err == nil && preErr == nil {
			if ed, ok := c12Definitions(em, true); ok {
				w := c12ChainDefaults(pre, c.ID, ed)
				stats["chain-defaults:failures"] += len(w.fails)
				voa = c12AddFails(voa, tagged(w.fails, " doc=openapi"))
			}
		}
		fmt.Fprintf(out, "jsemit %s.js %s js\tok %s\t%s\n", c.ID, c.ID, c12Compact(jsText), vjs)
		fmt.Fprintf(out, "jsemit %s.js %s oa\tok %s\t%s\n", c.ID, c.ID, c12Compact(oaText), voa)
		emitted, _ := parseJV(jsText)
		refsOK := len(c12Unresolved(emitted, false)) == 0
		defs, _ := c12Definitions(emitted, false)
		present := true
		schema.Objects.Iterate(func(_ string, o ast.Object) {
			if _, ok := defs.get(o.Name); !ok {
				present = false
			}
		})
		fmt.Fprintf(out, "jswf %s.js %s\trefs=%v present=%v\tok\n", c.ID, c.ID, refsOK, present)
		c12FaultRows(out, c, irJS, string(jsText), faults[c.ID], stats)
		if !c.GoOK {
			fmt.Fprintf(out, "-\tskip %s gocompile %s\tok\n", c.ID, labOneLine(c.GoCompileErr))
			continue
		}
		fmt.Fprintf(out, "defschemas %s.go %s\tok\tok\n", c.ID, virSchemas(c.IRGo))
		fmt.Fprintf(out, "jsself %s.go %s.js %s\t-\tok\n", c.ID, c.ID, c.ID)
		src, srcErr := c.RefValidator("")
		ev, evErr := newRefValidator("jsonschema", string(jsText), c.Defs.Root)
		for _, d := range docs[c.ID] {
			dec := rep[ri]
			ri++
			if srcErr != nil || src.validate(d) != nil {
				stats["doc-not-source-valid"]++
				continue
			}
			if !strings.HasPrefix(dec, "ok ") {
				stats["dec-error"]++ // C01's business
				continue
			}
			got, perr := parseJV([]byte(strings.TrimPrefix(dec, "ok ")))
			if perr != nil {
				stats["reenc-invalid-json"]++
				continue
			}
			stats["values"]++
			impl, verdict := "valid", "ok"
			if evErr != nil {
				impl, verdict = "invalid", "FAIL emitted-schema-does-not-compile case="+c.ID+" "+shortErr(evErr)
			} else if verr := ev.validate(got); verr != nil {
				impl = "invalid"
				ex := c12Explain(verr, emitted, got)
				at := ""
				if i := strings.Index(ex, " at="); i >= 0 {
					at = strings.Fields(ex[i+4:])[0]
				}
				by := c12ExplainedBy(schema, emitted, c.Defs.Root, got)
				if by == "" {
					by = "nothing"
				}
				verdict = fmt.Sprintf("FAIL encoded-value-rejected explained-by=%s format=%s src=%s %s case=%s", by, c.Format, c12SrcAt(c.Defs, at), ex, c.ID)
				stats["rejected-explained-by-"+by]++
				stats["values-rejected"]++
			}
			fmt.Fprintf(out, "jsvalid %s.js %s %s %s\t%s\t%s\t%s\t%s\n", c.ID, c.ID, c.Defs.Root, got.sexp(), impl, verdict, got.json(), d.json())
			fmt.Fprintf(out, "jshyp %s.go %s.js %s %s %s\tvalid=%v\tok\n", c.ID, c.ID, c.ID, c.Defs.Root, d.sexp(), impl == "valid")
		}
	}
}

// c12FaultRows: the emitted schema must reject what the source schema rejects. Every fault document is a
// valid document of the source term with exactly one fault (constraint exceeded by one, value outside
// the enumeration, missing required member, wrong type, undeclared member, …) and is rejected by the
// schema language's own validator on the source text; required-ness, constraints and enum values being
// carried over unchanged, the emitted JSON Schema has to reject it as well.
func c12FaultRows(out *bufio.Writer, c *LabCase, irJS ast.Schemas, emittedText string, faults []Fault, stats map[string]int) {
	if len(faults) == 0 {
		return
	}
	src, srcErr := c.RefValidator("")
	ev, evErr := newRefValidator("jsonschema", emittedText, c.Defs.Root)
	if srcErr != nil || evErr != nil {
		return
	}
	for _, f := range faults {
		if src.validate(f.Doc) == nil {
			stats["fault-accepted-by-source-validator"]++ // (CUE: unification supplies the member, …) not a fault of the source
			continue
		}
		stats["faults"]++
		impl, verdict := "invalid", "ok"
		if ev.validate(f.Doc) == nil {
			impl = "valid"
			ptr := c12PathToPointer(f.Path)
			verdict = fmt.Sprintf("FAIL emitted-accepts-source-invalid kind=%s format=%s src=%s %s path=%s case=%s", f.Kind, c.Format, c12SrcAt(c.Defs, ptr), c12IRDiagnosis(irJS, c.ID, c.Defs.Root, ptr, f), f.Path, c.ID)
			stats["faults-accepted-by-emitted:"+f.Kind]++
		}
		fmt.Fprintf(out, "jsvalid %s.js %s %s %s\t%s\t%s\t%s\t%s\n", c.ID, c.ID, c.Defs.Root, f.Doc.sexp(), impl, verdict, f.Doc.json(), f.Doc.json())
	}
}

// c12IRAt walks the IR (after the jsonschema chain) along a document pointer.
func c12IRAt(ss ast.Schemas, pkg string, t ast.Type, segs []string, depth int) (ast.Type, bool) {
	if depth > 40 {
		return t, false
	}
	if t.Kind == ast.KindRef && t.Ref != nil {
		o, ok := ss.LocateObject(t.Ref.ReferredPkg, t.Ref.ReferredType)
		if !ok {
			return t, false
		}
		return c12IRAt(ss, pkg, o.Type, segs, depth+1)
	}
	if len(segs) == 0 {
		return t, true
	}
	switch {
	case t.Kind == ast.KindStruct && t.Struct != nil:
		for _, f := range t.Struct.Fields {
			if f.Name == segs[0] {
				return c12IRAt(ss, pkg, f.Type, segs[1:], depth+1)
			}
		}
	case t.Kind == ast.KindArray && t.Array != nil:
		return c12IRAt(ss, pkg, t.Array.ValueType, segs[1:], depth+1)
	case t.Kind == ast.KindMap && t.Map != nil:
		return c12IRAt(ss, pkg, t.Map.ValueType, segs[1:], depth+1)
	case t.Kind == ast.KindDisjunction && t.Disjunction != nil:
		for _, b := range t.Disjunction.Branches {
			if r, ok := c12IRAt(ss, pkg, b, segs, depth+1); ok {
				return r, true
			}
		}
	}
	return t, false
}

var c12KindRange = map[ast.ScalarKind][2]float64{
	ast.KindInt8: {-128, 127}, ast.KindInt16: {-32768, 32767}, ast.KindInt32: {-2147483648, 2147483647},
	ast.KindUint8: {0, 255}, ast.KindUint16: {0, 65535}, ast.KindUint32: {0, 4294967295}, ast.KindUint64: {0, 1.8446744073709552e19},
}

// c12IRDiagnosis: what the IR the jennies saw holds at the place of an accepted fault —
// `ir=<kind> ir-constraint=<present|absent|n/a> ir-default=<yes|no> outside-kind-range=<yes|no>`:
// the constraint the fault exceeds is present in the IR (the emitter lost it), absent (a front-end
// or a pass lost it), or implied by the width / signedness of the scalar kind (never emitted).
func c12IRDiagnosis(ss ast.Schemas, pkg, root, ptr string, f Fault) string {
	var segs []string
	if ptr != "" && ptr != "/" {
		segs = strings.Split(strings.TrimPrefix(ptr, "/"), "/")
	}
	t, ok := c12IRAt(ss, pkg, ast.NewRef(pkg, root), segs, 0)
	if !ok {
		return "ir=? ir-constraint=n/a ir-default=no outside-kind-range=no"
	}
	kind, constraint, def, outside := string(t.Kind), "n/a", "no", "no"
	if t.Default != nil {
		def = "yes"
	}
	if t.Kind == ast.KindScalar && t.Scalar != nil {
		kind = string(t.Scalar.ScalarKind)
		var ops []ast.Op
		switch f.Kind {
		case "minLength-1":
			ops = []ast.Op{ast.MinLengthOp}
		case "maxLength+1":
			ops = []ast.Op{ast.MaxLengthOp}
		case "min-1":
			ops = []ast.Op{ast.GreaterThanEqualOp, ast.GreaterThanOp}
		case "max+1":
			ops = []ast.Op{ast.LessThanEqualOp, ast.LessThanOp}
		}
		if len(ops) > 0 {
			constraint = "absent"
			for _, cs := range t.Scalar.Constraints {
				for _, op := range ops {
					if cs.Op == op {
						constraint = "present"
					}
				}
			}
			if t.Scalar.Value != nil {
				constraint = "present(constant)"
			}
		}
		if rg, ok := c12KindRange[t.Scalar.ScalarKind]; ok {
			if v, ok := c12Pointer(f.Doc, ptr); ok && v.K == 'n' {
				if x, err := strconv.ParseFloat(v.S, 64); err == nil && (x < rg[0] || x > rg[1]) {
					outside = "yes"
				}
			}
		}
	}
	return fmt.Sprintf("ir=%s ir-constraint=%s ir-default=%s outside-kind-range=%s", kind, constraint, def, outside)
}

// c12PathToPointer turns a fault path ($.a.b[2]["odd key"]) into a JSON pointer (/a/b/2/odd key).
func c12PathToPointer(path string) string {
	var b strings.Builder
	i := 0
	if strings.HasPrefix(path, "$") {
		i = 1
	}
	for i < len(path) {
		switch path[i] {
		case '.':
			j := i + 1
			for j < len(path) && path[j] != '.' && path[j] != '[' {
				j++
			}
			b.WriteString("/" + path[i+1:j])
			i = j
		case '[':
			j := strings.IndexByte(path[i:], ']')
			if j < 0 {
				return b.String()
			}
			seg := path[i+1 : i+j]
			if strings.HasPrefix(seg, "\"") {
				if u, err := strconv.Unquote(seg); err == nil {
					seg = u
				}
			}
			b.WriteString("/" + seg)
			i += j + 1
		default:
			i++
		}
	}
	return b.String()
}

// ---- source term vs emitted document (exact number text) ----------------------------------------

// c12SourceCarried compares the defaults, constants and enumeration members of the SOURCE term with the
// emitted JSON Schema, number by number on their exact decimal text (canonJSON: big.Rat, never float64).
// Unions are not descended into (their emitted shape depends on the chain); everything else is.
func c12SourceCarried(d *Defs, emittedDefs JV) []string {
	var fails []string
	fail := func(format string, args ...any) {
		if len(fails) < 6 {
			fails = append(fails, fmt.Sprintf(format, args...))
		}
	}
	same := func(a, b JV) bool { return canonJSON([]byte(a.json())) == canonJSON([]byte(b.json())) }
	// cause of a difference between two numbers (or lists of numbers), when it is a recognisable one
	var cause func(src, em JV) string
	cause = func(src, em JV) string {
		if src.K == 'a' && em.K == 'a' && len(src.A) == len(em.A) {
			for i := range src.A {
				if !same(src.A[i], em.A[i]) {
					return cause(src.A[i], em.A[i])
				}
			}
		}
		if src.K == 'n' && em.K == 'n' {
			// (the exact value of the nearest float64, or its shortest decimal spelling)
			if f, err := strconv.ParseFloat(src.S, 64); err == nil && (canonNumber(new(big.Float).SetFloat64(f).Text('f', 0)) == canonNumber(em.S) ||
				canonNumber(strconv.FormatFloat(f, 'f', -1, 64)) == canonNumber(em.S)) {
				return " cause=float64-rounding"
			}
			if canonNumber("-"+strings.TrimPrefix(src.S, "-")) == canonNumber(src.S) && canonNumber(strings.TrimPrefix(src.S, "-")) == canonNumber(em.S) {
				return " cause=sign-lost"
			}
		}
		return " cause=?"
	}
	var walk func(s *Src, node JV, at string, depth int)
	walk = func(s *Src, node JV, at string, depth int) {
		if s == nil || node.K != 'o' || depth > 12 {
			return
		}
		if _, isUnion := node.get("anyOf"); isUnion {
			return // nullable-with-null-branch / union shapes: not compared
		}
		switch s.Kind {
		case SConst:
			if c, ok := node.get("const"); ok {
				if !same(c, s.Const) {
					fail("source-const-differs at=%s source=%s emitted=%s%s", at, s.Const.json(), c.json(), cause(s.Const, c))
				}
			} else if e, ok := node.get("enum"); ok && e.K == 'a' && len(e.A) == 1 {
				if !same(e.A[0], s.Const) {
					fail("source-const-differs at=%s source=%s emitted=%s%s", at, s.Const.json(), e.A[0].json(), cause(s.Const, e.A[0]))
				}
			}
		case SEnumI, SEnumS:
			want := jArr()
			for _, v := range s.EnumI {
				want.A = append(want.A, jInt(v))
			}
			for _, v := range s.EnumS {
				want.A = append(want.A, jStr(v))
			}
			if e, ok := node.get("enum"); ok {
				if !same(e, want) {
					fail("source-enum-differs at=%s source=%s emitted=%s%s", at, want.json(), e.json(), cause(want, e))
				}
			} else if c, ok := node.get("const"); ok && len(want.A) == 1 {
				if !same(c, want.A[0]) {
					fail("source-enum-differs at=%s source=%s emitted=%s%s", at, want.json(), c.json(), cause(want.A[0], c))
				}
			}
		case SArray:
			if it, ok := node.get("items"); ok {
				walk(s.Elem, it, at+"[]", depth+1)
			}
		case SDict:
			if it, ok := node.get("additionalProperties"); ok {
				walk(s.Elem, it, at+"{}", depth+1)
			}
		case SStruct:
			props, _ := node.get("properties")
			for _, f := range s.Fields {
				p, ok := props.get(f.Name)
				if !ok {
					continue // presence is the business of the IR-level oracle
				}
				if f.Default != nil {
					// an ABSENT default is not reported here: whether the front-end keeps a default (on nullable
					// members, unions, …) is C10's question, and a default the IR has but the emitter drops is
					// reported by the IR-level oracle (default-dropped); a default that IS written must be the source's
					if dv, ok := p.get("default"); ok && !same(dv, *f.Default) {
						fail("source-default-differs at=%s.%s source=%s emitted=%s%s", at, f.Name, f.Default.json(), dv.json(), cause(*f.Default, dv))
					}
				}
				walk(f.Ty, p, at+"."+f.Name, depth+1)
			}
		}
	}
	for _, it := range d.Items {
		if node, ok := emittedDefs.get(it.Name); ok {
			walk(it.Ty, node, it.Name, 0)
		}
	}
	return fails
}

// ---- inferred entry points -----------------------------------------------------------------------

// c12RenameDef returns a copy of d in which definition `old` (and every reference to it) is called `name`.
func c12RenameDef(d *Defs, old, name string) *Defs {
	c, err := parseDefsSexp(d.sexp())
	if err != nil {
		return nil
	}
	var walk func(s *Src)
	walk = func(s *Src) {
		if s == nil {
			return
		}
		if s.Kind == SRef && s.Ref == old {
			s.Ref = name
		}
		walk(s.Elem)
		for i := range s.Fields {
			walk(s.Fields[i].Ty)
		}
		for _, a := range s.Alts {
			walk(a)
		}
		for i := range s.Branches {
			if s.Branches[i].Name == old {
				s.Branches[i].Name = name
			}
		}
	}
	for i := range c.Items {
		if c.Items[i].Name == old {
			c.Items[i].Name = name
		}
		walk(c.Items[i].Ty)
	}
	if c.Root == old {
		c.Root = name
	}
	return c
}

func c12RefersTo(d *Defs, name string) bool {
	return strings.Contains(d.sexp(), "(ref "+virQuote(name)+")") || strings.Contains(d.sexp(), " "+virQuote(name)+")")
}

// c12Casings: spellings of a package name that match it case-insensitively.
func c12Casings(pkg string) []string {
	mixed := []byte(strings.ToLower(pkg))
	for i := range mixed {
		if i%2 == 1 && mixed[i] >= 'a' && mixed[i] <= 'z' {
			mixed[i] -= 32
		}
	}
	cap := strings.ToUpper(pkg[:1]) + strings.ToLower(pkg[1:])
	return []string{strings.ToLower(pkg), cap, strings.ToUpper(pkg), string(mixed)}
}

// c12AddEntryCase adds a case whose entry point cog has to INFER (InferEntrypoint: the object named like
// the package, compared case-insensitively): the root definition is renamed to a casing of the package
// name (= the case ID the lab is about to assign). JSON Schema input: the root type is written at the
// top level of the document instead of behind a root `$ref` (the front-end then names the object after
// the package); OpenAPI and CUE inputs never carry an explicit entry point.
func c12AddEntryCase(lab *Lab, d *Defs, format string, casing int) (*LabCase, string) {
	id := fmt.Sprintf("c%d%s", len(lab.Cases), labFormatSuffix[format])
	name := c12Casings(id)[casing%4]
	if format == "jsonschema" {
		name = id // the front-end names the top-level object after the package
	}
	rd := c12RenameDef(d, d.Root, name)
	if rd == nil {
		return nil, "rename failed"
	}
	dd, notes := degradeDefs(rd, format, lab.Opts.Degrade)
	ro := renderDefs(dd, format, id)
	if ro.Text == "" || len(ro.Unsupported) > 0 {
		return nil, "not renderable: " + strings.Join(ro.Unsupported, ",")
	}
	text := ro.Text
	if format == "jsonschema" {
		doc, err := parseJV([]byte(ro.Text))
		if err != nil {
			return nil, "rendering is not JSON"
		}
		defs, _ := doc.get("definitions")
		root, ok := defs.get(name)
		if !ok || root.K != 'o' {
			return nil, "no root definition"
		}
		top := jObj(kv("$schema", jStr("http://json-schema.org/draft-07/schema#")))
		for _, e := range root.O {
			top.O = append(top.O, e)
		}
		rest := jObj()
		for _, e := range defs.O {
			if e.K != name {
				rest.O = append(rest.O, e)
			}
		}
		top.O = append(top.O, JKV{"definitions", rest})
		text = top.pretty() + "\n"
	}
	c := lab.AddCaseText(format, text, dd)
	c.Degraded, c.Notes = notes, ro.Notes
	c.RefSchemaText = ro.RefText
	if format == "jsonschema" {
		c.RefSchemaText = ro.Text // the reference validator reads the form with definitions + root $ref
	}
	return c, ""
}

// ---- boundary terms ------------------------------------------------------------------------------

// c12BoundaryDefs draws a root struct whose members carry constraints, enumerations, constants and
// defaults at boundary values: zero / empty / equal bounds, bounds around zero, one-sided bounds.
// (The lab's general generator draws bounds mostly away from zero.)
func c12BoundaryDefs(seed uint64, index int) *Defs {
	r := newRng(seed*7477 + uint64(index)*131 + 17)
	optI := func(vals ...int64) *int64 {
		k := r.intn(len(vals) + 1)
		if k == len(vals) {
			return nil
		}
		return i64p(vals[k])
	}
	var pool []func() (*Src, *JV)
	pool = append(pool,
		func() (*Src, *JV) { // string lengths
			switch r.intn(7) {
			case 0:
				return srcStringLen(i64p(0), nil), nil
			case 1:
				return srcStringLen(nil, i64p(0)), nil
			case 2:
				return srcStringLen(i64p(0), i64p(0)), nil
			case 3:
				return srcStringLen(i64p(1), i64p(1)), nil
			case 4:
				return srcStringLen(i64p(0), i64p(1)), nil
			case 5:
				return srcStringLen(nil, i64p(1)), nil
			}
			return srcStringLen(i64p(2), i64p(2)), nil
		},
		func() (*Src, *JV) { // integer bounds around zero
			lo := optI(0, -1, 1)
			hi := optI(0, -1, 1)
			if lo != nil && hi != nil && *lo > *hi {
				lo, hi = hi, lo
			}
			return srcInt(64, true, lo, hi), nil
		},
		func() (*Src, *JV) { // number bounds around zero (one-sided: two-sided is not expressible in CUE for cog)
			v := []float64{0, -0.25, 0.25}[r.intn(3)]
			if r.chance(50) {
				return srcNum(64, f64p(v), nil), nil
			}
			return srcNum(64, nil, f64p(v)), nil
		},
		func() (*Src, *JV) { // enumerations holding zero
			switch r.intn(3) {
			case 0:
				return srcEnumI(0, 1), nil
			case 1:
				return srcEnumI(-2, 0), nil
			}
			return srcEnumI(0, 5, 7), nil
		},
		func() (*Src, *JV) { // falsy defaults
			switch r.intn(3) {
			case 0:
				return srcInt(64, true, nil, nil), jvp(jInt(0))
			case 1:
				return srcString(), jvp(jStr(""))
			}
			return srcBool(), jvp(jBool(false))
		},
		func() (*Src, *JV) { // integers no float64 holds exactly: enumeration members, constants, defaults
			big := []int64{9007199254740993, -9007199254740993, 4611686018427387905, 9223372036854775807, 9007199254740995, 1152921504606846977}
			v := big[r.intn(len(big))]
			switch r.intn(3) {
			case 0:
				return srcEnumI(v, int64(r.intn(3))), nil
			case 1:
				return srcConst(jInt(v)), nil
			}
			return srcInt(64, true, nil, nil), jvp(jInt(v))
		},
		func() (*Src, *JV) { return srcArray(srcStringLen(nil, i64p(int64(r.intn(2))))), nil },
		func() (*Src, *JV) { return srcDict(srcInt(64, true, i64p(0), i64p(0))), nil },
	)
	n := 4 + r.intn(4)
	var fields []Field
	for i := 0; i < n; i++ {
		ty, def := pool[(index+i)%len(pool)]()
		required := r.chance(60)
		if def != nil {
			required = false
		}
		fields = append(fields, fld(fmt.Sprintf("f%d", i), ty, required, false, def))
	}
	return &Defs{Root: "B", Items: []Def{{Name: "B", Ty: srcStruct(fields...)}}}
}

var c12FaultKinds = []string{"undeclaredKey", "missingRequired", "nullRequired", "wrongType", "min-1", "max+1", "minLength-1", "maxLength+1", "notInEnum"}

// pinned lab cases: the recorded findings about encoded values, on real generated Go code
var c12LabPinned = []struct {
	id, defs string
	docs     []string
	faults   [][3]string // kind, path, source-invalid document
}{
	{"any", `(defs "R" ("R" (struct (field "v" (any) true false -))))`, []string{`{"v":"text"}`, `{"v":12}`}, nil},
	{"requirednullable", `(defs "R" ("R" (struct (field "n" (int 64 true - -) true true -))))`, []string{`{"n":null}`, `{"n":4}`}, nil},
	{"const", `(defs "R" ("R" (struct (field "c" (const (s "fixed")) true false -) (field "n" (int 64 true - -) false false -))))`, []string{`{"c":"fixed"}`, `{"c":"fixed","n":3}`}, nil},
	{"nullunion", `(defs "R" ("R" (struct (field "x" (oneOfStructs "type" ("a" "A") ("b" "B")) false true -))) ("A" (struct (field "type" (const (s "a")) true false -))) ("B" (struct (field "type" (const (s "b")) true false -) (field "n" (int 64 true - -) true false -))))`,
		[]string{`{"x":{"type":"b","n":1}}`, `{"x":null}`, `{}`}, nil},
	{"enumsign", `(defs "R" ("R" (struct (field "e" (ref "E") true false -))) ("E" (enumI -1)))`, []string{`{"e":-1}`}, nil},
	{"bytes", `(defs "R" ("R" (struct (field "b" (array (int 8 false - -)) true false -))))`, []string{`{"b":[1,2]}`, `{"b":[]}`}, nil},
	{"cuelendefault", `(defs "R" ("R" (struct (field "s" (string 3 - false) false false (s "abcd")) (field "t" (string - 2 false) false false (s "a")))))`,
		[]string{`{"s":"abc"}`, `{}`}, [][3]string{{"minLength-1", "$.s", `{"s":"ab"}`}, {"maxLength+1", "$.t", `{"t":"abc"}`}}},
	{"uintrange", `(defs "R" ("R" (struct (field "n" (int 64 true 0 1) true false -))))`,
		[]string{`{"n":0}`, `{"n":1}`}, [][3]string{{"min-1", "$.n", `{"n":-1}`}, {"max+1", "$.n", `{"n":2}`}}},
	{"cueintdefault", `(defs "R" ("R" (struct (field "n" (int 64 true 0 64) false false (n "0")))))`,
		[]string{`{"n":3}`, `{}`}, [][3]string{{"min-1", "$.n", `{"n":-1}`}, {"max+1", "$.n", `{"n":65}`}}},
	{"bigint", `(defs "R" ("R" (struct (field "c" (const (n "9007199254740993")) true false -) (field "e" (enumI 4611686018427387905 1) true false -) (field "d" (int 64 true - -) false false (n "-9007199254740993")))))`,
		[]string{`{"c":9007199254740993,"e":4611686018427387905}`, `{"c":9007199254740993,"e":1,"d":5}`}, nil},
	{"lenzero", `(defs "R" ("R" (struct (field "e" (string - 0 false) true false -) (field "z" (string 0 - false) true false -))))`,
		[]string{`{"e":"","z":""}`}, [][3]string{{"maxLength+1", "$.e", `{"e":"x","z":""}`}}},
	// nullable members with a default (JSON Schema: the default sits inside the non-null branch of a union with null,
	// spelled by hash; OpenAPI: `nullable: true`; CUE: the default mark sits on the disjunction)
	{"nullabledefault", `(defs "R" ("R" (struct (field "title" (string - - false) false false (s "untitled")) (field "mode" (string - - false) false true (s "auto")) (field "limit" (int 64 true 0 -) false true (n "10")) (field "on" (bool) false true false) (field "size" (num 64 - -) false true (n "0.5")))))`,
		[]string{`{}`, `{"title":"t","mode":"x","limit":3,"on":true,"size":1.25}`, `{"mode":null,"limit":null}`}, nil},
	{"plain", `(defs "R" ("R" (struct (field "s" (string 1 5 false) true false -) (field "k" (ref "E") false false -) (field "l" (array (int 64 true 0 9)) true false -))) ("E" (enumS "a" "b")))`,
		[]string{`{"s":"ab","k":"b","l":[1,9]}`, `{"s":"abcde","l":[]}`}, nil},
}

// pinned lab cases given as schema TEXT (spellings the renderers choose by hash are fixed here): nullable
// unions `T | null` / `null | T` whose default sits on the non-null BRANCH (JSON Schema anyOf / oneOf) or on
// the disjunction (CUE `*"x" | string | null`); the chain-default oracle compares the front-end IR's
// effective default with the emitted property
var c12LabPinnedText = []struct {
	id, format, text, defs string
	docs                   []string
}{
	{"nullbranchjs", "jsonschema", `{
  "$schema": "http://json-schema.org/draft-07/schema#",
  "$ref": "#/definitions/R",
  "definitions": {
    "R": {"type": "object", "additionalProperties": false,
      "properties": {
        "title": {"type": "string", "default": "untitled"},
        "mode": {"anyOf": [{"type": "string", "default": "auto"}, {"type": "null"}]},
        "limit": {"anyOf": [{"type": "null"}, {"type": "integer", "minimum": 0, "default": 10}]},
        "on": {"oneOf": [{"type": "boolean", "default": false}, {"type": "null"}]},
        "tags": {"oneOf": [{"type": "null"}, {"type": "array", "items": {"type": "string"}, "default": ["a", "b"]}]}
      }}
  }
}
`, `(defs "R" ("R" (struct (field "title" (string - - false) false false (s "untitled")) (field "mode" (string - - false) false true (s "auto")) (field "limit" (int 64 true 0 -) false true (n "10")) (field "on" (bool) false true false) (field "tags" (array (string - - false)) false true (a (s "a") (s "b"))))))`,
		[]string{`{}`, `{"title":"t","mode":"x","limit":3,"on":true,"tags":["z"]}`, `{"mode":null,"limit":null}`}},
	{"nullbranchcue", "cue", `package %PKG%

#R: {
	title?: string | *"untitled"
	mode?:  *"auto" | string | null
	limit?: null | int64 & >=0 | *10
	on?:    bool | *false | null
}
`, `(defs "R" ("R" (struct (field "title" (string - - false) false false (s "untitled")) (field "mode" (string - - false) false true (s "auto")) (field "limit" (int 64 true 0 -) false true (n "10")) (field "on" (bool) false true false))))`,
		[]string{`{}`, `{"title":"t","mode":"x","limit":3,"on":true}`, `{"mode":null,"limit":null}`}},
}

// c12Spellings: the c12 streams draw the spelling of a nullable member's union (null branch first / last,
// anyOf / oneOf, position of the CUE default mark) by hash per member; `nullbranch=plain` switches back
func c12Spellings(args map[string]string) {
	if args["nullbranch"] != "plain" {
		jsNullBranchStyle, cueNullBranchStyle = "mixed", "mixed"
	}
}

func init() {
	register("c12-lab", func(args map[string]string, out *bufio.Writer) error {
		args["python"] = "0"
		c12Spellings(args)
		b, err := buildLabBatch(args, "c12-"+args["seed"]+"-"+args["tier"], true)
		if err != nil {
			return err
		}
		defer b.lab.Close()
		if path, ok := args["docfile"]; ok {
			// replay: the documents of the file (one JSON document per line) instead of generated ones
			var ds []JV
			for _, l := range readLines(path) {
				if v, err := parseJV([]byte(l)); err == nil {
					ds = append(ds, v)
				}
			}
			for _, c := range b.cases {
				b.docs[c.ID] = ds
			}
		}
		if path, ok := args["faultfile"]; ok {
			// replay: the source-invalid documents of the file instead of generated ones
			var fs []Fault
			for _, l := range readLines(path) {
				if v, err := parseJV([]byte(l)); err == nil {
					fs = append(fs, Fault{Kind: args["faultkind"], Path: args["faultpath"], Doc: v})
				}
			}
			for _, c := range b.cases {
				b.fault[c.ID] = fs
			}
		}
		stats := map[string]int{}
		c12LabRows(out, b.lab, b.cases, b.docs, b.fault, stats)
		fmt.Fprintf(out, "-\tstats %v timings=%s constructs=%v docvariants=%v\tok\n", stats, fmtTimings(b.lab.Timings), b.hist, b.dhist)
		return nil
	})

	// boundary terms × 3 formats: valid documents at the bounds (through real generated Go code) and
	// single-fault documents one step beyond them
	register("c12-bounds", func(args map[string]string, out *bufio.Writer) error {
		c12Spellings(args)
		opts := defaultLabOpts()
		opts.NoPython = true
		lab, err := NewLab(labWorkDir("c12bounds-"+args["seed"]), opts)
		if err != nil {
			return err
		}
		defer lab.Close()
		seed := uint64(argInt(args, "seed", 1))
		n := argInt(args, "n", 8)
		ndocs := argInt(args, "docs", 12)
		from := argInt(args, "from", 0)
		docs := map[string][]JV{}
		faults := map[string][]Fault{}
		var cases []*LabCase
		for i := from; i < from+n; i++ {
			d := c12BoundaryDefs(seed, i)
			for _, f := range labFormats {
				if only, ok := args["format"]; ok && only != f {
					continue
				}
				c := lab.AddCase(d, f)
				cases = append(cases, c)
				if c.Defs == nil {
					continue
				}
				do := defaultDocOpts()
				do.ForcedPct = 50 // boundary values and absent optional members half of the time
				dg := newDocGen(c.Defs, newRng(seed*7919+uint64(i)*31+5), do)
				for k := 0; k < ndocs; k++ {
					docs[c.ID] = append(docs[c.ID], dg.validDoc())
				}
				for k := 0; k < 2*ndocs; k++ {
					if fd, ok := dg.faultDoc(c12FaultKinds); ok {
						faults[c.ID] = append(faults[c.ID], fd)
					}
				}
			}
		}
		if err := lab.Build(); err != nil {
			return err
		}
		stats := map[string]int{}
		c12LabRows(out, lab, cases, docs, faults, stats)
		fmt.Fprintf(out, "-\tstats %v\tok\n", stats)
		return nil
	})

	// inferred entry points: the root object is named like the package in several casings and the input
	// carries no explicit entry point; the emitted top-level `$ref` has to name a definition
	register("c12-entry", func(args map[string]string, out *bufio.Writer) error {
		c12Spellings(args)
		opts := defaultLabOpts()
		opts.NoPython = true
		lab, err := NewLab(labWorkDir("c12entry-"+args["seed"]), opts)
		if err != nil {
			return err
		}
		defer lab.Close()
		seed := uint64(argInt(args, "seed", 1))
		n := argInt(args, "n", 4)
		ndocs := argInt(args, "docs", 8)
		from := argInt(args, "from", 0)
		docs := map[string][]JV{}
		faults := map[string][]Fault{}
		var cases []*LabCase
		stats := map[string]int{}
		for i := from; i < from+n; i++ {
			var d *Defs
			if i%2 == 0 {
				d = c12BoundaryDefs(seed, i)
			} else {
				d = genDefs(seed, i, argGenOpts(args).with("-ref.recursive"))
			}
			if c12RefersTo(d, d.Root) {
				stats["root-is-referenced:skipped"]++
				continue
			}
			for fi, f := range labFormats {
				if only, ok := args["format"]; ok && only != f {
					continue
				}
				c, why := c12AddEntryCase(lab, d, f, i+fi)
				if c == nil {
					stats["not-added:"+why]++
					continue
				}
				cases = append(cases, c)
				stats["root="+c.Defs.Root[:1]+"…:"+f]++
				dg := newDocGen(c.Defs, newRng(seed*7919+uint64(i)*31+5), defaultDocOpts())
				for k := 0; k < ndocs; k++ {
					docs[c.ID] = append(docs[c.ID], dg.validDoc())
				}
				for k := 0; k < ndocs; k++ {
					if fd, ok := dg.faultDoc(c12FaultKinds); ok {
						faults[c.ID] = append(faults[c.ID], fd)
					}
				}
			}
		}
		if err := lab.Build(); err != nil {
			return err
		}
		c12LabRows(out, lab, cases, docs, faults, stats)
		fmt.Fprintf(out, "-\tstats %v\tok\n", stats)
		return nil
	})

	register("c12-labpinned", func(args map[string]string, out *bufio.Writer) error {
		c12Spellings(args)
		opts := defaultLabOpts()
		opts.NoPython = true
		lab, err := NewLab(labWorkDir("c12pin"), opts)
		if err != nil {
			return err
		}
		defer lab.Close()
		docs := map[string][]JV{}
		faults := map[string][]Fault{}
		var cases []*LabCase
		for _, p := range c12LabPinned {
			if only, ok := args["id"]; ok && only != p.id {
				continue
			}
			d, err := parseDefsSexp(p.defs)
			if err != nil {
				return err
			}
			for _, f := range labFormats {
				c := lab.AddCase(d, f)
				cases = append(cases, c)
				for _, t := range p.docs {
					docs[c.ID] = append(docs[c.ID], mustJV(t))
				}
				for _, ft := range p.faults {
					faults[c.ID] = append(faults[c.ID], Fault{Kind: ft[0], Path: ft[1], Doc: mustJV(ft[2])})
				}
				fmt.Fprintf(out, "-\tpinned %s %s %s\tok\n", p.id, c.ID, f)
			}
		}
		for _, p := range c12LabPinnedText {
			if only, ok := args["id"]; ok && only != p.id {
				continue
			}
			d, err := parseDefsSexp(p.defs)
			if err != nil {
				return err
			}
			c := lab.AddCaseText(p.format, p.text, d)
			cases = append(cases, c)
			for _, t := range p.docs {
				docs[c.ID] = append(docs[c.ID], mustJV(t))
			}
			fmt.Fprintf(out, "-\tpinned %s %s %s\tok\n", p.id, c.ID, p.format)
		}
		if err := lab.Build(); err != nil {
			return err
		}
		stats := map[string]int{}
		c12LabRows(out, lab, cases, docs, faults, stats)
		fmt.Fprintf(out, "-\tstats %v\tok\n", stats)
		return nil
	})
}
