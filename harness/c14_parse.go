package main

// C14: the text a generated converter returns, parsed with go/parser into the abstract call
// list (the same form C09 uses: constructor arguments + option calls, nested builders as data).

import (
	"fmt"
	"go/ast"
	"go/parser"
	"go/token"
	"sort"
	"strconv"
	"strings"
	"time"

	cogast "github.com/grafana/cog/internal/ast"
	"github.com/grafana/cog/internal/tools"
)

type c14Parser struct {
	bs cogast.Builders
}

func (p *c14Parser) builderByGoName(goName string) (cogast.Builder, bool) {
	for _, b := range p.bs {
		if tools.UpperCamelCase(b.Name) == goName {
			return b, true
		}
	}
	return cogast.Builder{}, false
}

func c14OptionByMethod(b cogast.Builder, method string) (cogast.Option, bool) {
	for _, o := range b.Options {
		if tools.UpperCamelCase(o.Name) == method {
			return o, true
		}
	}
	return cogast.Option{}, false
}

// isChain: does the expression start (at the bottom of a selector-call chain) with pkg.New…Builder(…)?
func c14ChainBase(e ast.Expr) (*ast.CallExpr, bool) {
	for {
		call, ok := e.(*ast.CallExpr)
		if !ok {
			return nil, false
		}
		sel, ok := call.Fun.(*ast.SelectorExpr)
		if !ok {
			return nil, false
		}
		if id, ok := sel.X.(*ast.Ident); ok {
			if strings.HasPrefix(sel.Sel.Name, "New") && strings.HasSuffix(sel.Sel.Name, "Builder") && id.Name != "cog" && id.Name != "time" {
				return call, true
			}
			return nil, false
		}
		e = sel.X
	}
}

// chain parses  pkg.NewXBuilder(args).Opt1(args).Opt2(args)…
func (p *c14Parser) chain(e ast.Expr) (c09Arg, error) {
	var calls []*ast.CallExpr
	cur := e
	for {
		call, ok := cur.(*ast.CallExpr)
		if !ok {
			return c09Arg{}, fmt.Errorf("call expected, got %T", cur)
		}
		sel, ok := call.Fun.(*ast.SelectorExpr)
		if !ok {
			return c09Arg{}, fmt.Errorf("selector call expected, got %T", call.Fun)
		}
		calls = append(calls, call)
		if _, isIdent := sel.X.(*ast.Ident); isIdent {
			break
		}
		cur = sel.X
	}
	base := calls[len(calls)-1]
	name := base.Fun.(*ast.SelectorExpr).Sel.Name
	goName := strings.TrimSuffix(strings.TrimPrefix(name, "New"), "Builder")
	b, ok := p.builderByGoName(goName)
	if !ok {
		return c09Arg{}, fmt.Errorf("no builder for constructor %s", name)
	}
	out := c09Arg{Kind: 'b', B: b.Name}
	for _, a := range base.Args {
		x, err := p.value(a)
		if err != nil {
			return c09Arg{}, err
		}
		out.Ctor = append(out.Ctor, x)
	}
	for i := len(calls) - 2; i >= 0; i-- {
		method := calls[i].Fun.(*ast.SelectorExpr).Sel.Name
		o, ok := c14OptionByMethod(b, method)
		optName := o.Name
		if !ok {
			optName = "?" + method
		}
		cl := c09Call{Opt: optName}
		for _, a := range calls[i].Args {
			x, err := p.value(a)
			if err != nil {
				return c09Arg{}, err
			}
			cl.Args = append(cl.Args, x)
		}
		out.Calls = append(out.Calls, cl)
	}
	// runs of consecutive calls of one index option come from a range over a Go map: the order
	// varies from run to run; print them sorted
	isIdx := func(name string) bool {
		for _, o := range b.Options {
			if o.Name == name {
				for _, a := range o.Assignments {
					if a.Method == cogast.IndexAssignment {
						return true
					}
				}
			}
		}
		return false
	}
	for i := 0; i < len(out.Calls); {
		j := i + 1
		if isIdx(out.Calls[i].Opt) {
			for j < len(out.Calls) && out.Calls[j].Opt == out.Calls[i].Opt {
				j++
			}
			run := out.Calls[i:j]
			for k := range run {
				for a := range run[k].Args {
					c14Canon(&run[k].Args[a])
				}
			}
			key := func(c c09Call) string { return c09Spec{Calls: []c09Call{c}}.sexp() }
			sort.SliceStable(run, func(x, y int) bool { return key(run[x]) < key(run[y]) })
		}
		i = j
	}
	return out, nil
}

var c14Months = map[string]time.Month{"January": 1, "February": 2, "March": 3, "April": 4, "May": 5, "June": 6, "July": 7,
	"August": 8, "September": 9, "October": 10, "November": 11, "December": 12}

func c14Int(e ast.Expr) (int, bool) {
	switch x := e.(type) {
	case *ast.BasicLit:
		if x.Kind == token.INT {
			n, err := strconv.Atoi(x.Value)
			return n, err == nil
		}
	case *ast.UnaryExpr:
		if x.Op == token.SUB {
			n, ok := c14Int(x.X)
			return -n, ok
		}
	}
	return 0, false
}

// value parses an argument expression: a literal (→ plain JSON), a composite of literals, or a
// nested builder chain / a collection of chains
func (p *c14Parser) value(e ast.Expr) (c09Arg, error) {
	if _, ok := c14ChainBase(e); ok {
		return p.chain(e)
	}
	switch x := e.(type) {
	case *ast.ParenExpr:
		return p.value(x.X)
	case *ast.BasicLit:
		switch x.Kind {
		case token.INT:
			// %#v prints unsigned integers in hexadecimal
			if n, err := strconv.ParseUint(x.Value, 0, 64); err == nil {
				return c09Arg{Kind: 'j', J: jNumText(strconv.FormatUint(n, 10))}, nil
			}
			return c09Arg{Kind: 'j', J: jNumText(x.Value)}, nil
		case token.FLOAT:
			return c09Arg{Kind: 'j', J: jNumText(x.Value)}, nil
		case token.STRING:
			s, err := strconv.Unquote(x.Value)
			if err != nil {
				return c09Arg{}, err
			}
			return c09Arg{Kind: 'j', J: jStr(s)}, nil
		}
	case *ast.Ident:
		switch x.Name {
		case "true":
			return c09Arg{Kind: 'j', J: jBool(true)}, nil
		case "false":
			return c09Arg{Kind: 'j', J: jBool(false)}, nil
		case "nil":
			return c09Arg{Kind: 'j', J: jNull()}, nil
		}
	case *ast.UnaryExpr:
		if x.Op == token.SUB {
			v, err := p.value(x.X)
			if err == nil && v.Kind == 'j' && v.J.K == 'n' {
				return c09Arg{Kind: 'j', J: jNumText("-" + v.J.S)}, nil
			}
		}
		if x.Op == token.AND {
			return p.value(x.X)
		}
	case *ast.CallExpr:
		// cog.ToPtr[T](v)
		if ix, ok := x.Fun.(*ast.IndexExpr); ok {
			if sel, ok := ix.X.(*ast.SelectorExpr); ok && sel.Sel.Name == "ToPtr" && len(x.Args) == 1 {
				return p.value(x.Args[0])
			}
		}
		// time.Date(y, time.Month, d, h, m, s, ns, loc)
		if sel, ok := x.Fun.(*ast.SelectorExpr); ok && sel.Sel.Name == "Date" && len(x.Args) == 8 {
			var n [7]int
			for i, a := range x.Args[:7] {
				if i == 1 {
					if ms, ok := a.(*ast.SelectorExpr); ok {
						n[1] = int(c14Months[ms.Sel.Name])
						continue
					}
				}
				v, ok := c14Int(a)
				if !ok {
					return c09Arg{}, fmt.Errorf("time.Date argument")
				}
				n[i] = v
			}
			loc := "?"
			if ls, ok := x.Args[7].(*ast.SelectorExpr); ok && ls.Sel.Name == "UTC" {
				loc = "Z"
			}
			if loc != "Z" {
				return c09Arg{Kind: 'j', J: jStr("time.Date(… non-UTC location)")}, nil
			}
			t := time.Date(n[0], time.Month(n[1]), n[2], n[3], n[4], n[5], n[6], time.UTC)
			return c09Arg{Kind: 'j', J: jStr(t.Format(time.RFC3339Nano))}, nil
		}
	case *ast.CompositeLit:
		switch x.Type.(type) {
		case *ast.ArrayType:
			allPlain := true
			var parts []c09Arg
			for _, el := range x.Elts {
				v, err := p.value(el)
				if err != nil {
					return c09Arg{}, err
				}
				if v.Kind != 'j' {
					allPlain = false
				}
				parts = append(parts, v)
			}
			if allPlain {
				out := jArr()
				for _, v := range parts {
					out.A = append(out.A, v.J)
				}
				return c09Arg{Kind: 'j', J: out}, nil
			}
			return c09Arg{Kind: 'l', L: parts}, nil
		case *ast.MapType:
			allPlain := true
			var keys []string
			var parts []c09Arg
			for _, el := range x.Elts {
				kvx, ok := el.(*ast.KeyValueExpr)
				if !ok {
					return c09Arg{}, fmt.Errorf("map literal element")
				}
				k, err := p.value(kvx.Key)
				if err != nil || k.Kind != 'j' || k.J.K != 's' {
					return c09Arg{}, fmt.Errorf("map literal key")
				}
				v, err := p.value(kvx.Value)
				if err != nil {
					return c09Arg{}, err
				}
				if v.Kind != 'j' {
					allPlain = false
				}
				keys = append(keys, k.J.S)
				parts = append(parts, v)
			}
			if allPlain {
				out := jObj()
				for i, v := range parts {
					out.set(keys[i], v.J)
				}
				return c09Arg{Kind: 'j', J: out}, nil
			}
			return c09Arg{Kind: 'd', DK: keys, DV: parts}, nil
		default:
			// a struct literal printed by cog.Dump: members keyed by Go field names
			out := jObj()
			for _, el := range x.Elts {
				kvx, ok := el.(*ast.KeyValueExpr)
				if !ok {
					return c09Arg{}, fmt.Errorf("struct literal element")
				}
				id, ok := kvx.Key.(*ast.Ident)
				if !ok {
					return c09Arg{}, fmt.Errorf("struct literal key")
				}
				v, err := p.value(kvx.Value)
				if err != nil {
					return c09Arg{}, err
				}
				if v.Kind != 'j' {
					return c09Arg{}, fmt.Errorf("builder inside a struct literal")
				}
				out.set("go:"+id.Name, v.J)
			}
			return c09Arg{Kind: 'j', J: out}, nil
		}
	}
	return c09Arg{}, fmt.Errorf("unsupported expression %T", e)
}

// c14ParseText: converter output → (syntax ok, abstract run)
func c14ParseText(bs cogast.Builders, text string) (spec c09Spec, syntaxErr error, absErr error) {
	e, err := parser.ParseExpr(text)
	if err != nil {
		return c09Spec{}, err, nil
	}
	p := &c14Parser{bs: bs}
	a, err := p.chain(e)
	if err != nil {
		return c09Spec{}, nil, err
	}
	c14Canon(&a)
	return c09Spec{Builder: a.B, Ctor: a.Ctor, Calls: a.Calls}, nil, nil
}

// c14CanonJV: numbers in canonical text, object members sorted by key (Go map literals are
// printed in map iteration order)
func c14CanonJV(v JV) JV {
	switch v.K {
	case 'n':
		return jNumText(canonNumber(v.S))
	case 'a':
		out := jArr()
		for _, x := range v.A {
			out.A = append(out.A, c14CanonJV(x))
		}
		return out
	case 'o':
		keys := make([]string, 0, len(v.O))
		for _, e := range v.O {
			keys = append(keys, e.K)
		}
		sort.Strings(keys)
		out := jObj()
		for _, k := range keys {
			x, _ := v.get(k)
			out.set(k, c14CanonJV(x))
		}
		return out
	}
	return v
}

func c14Canon(a *c09Arg) {
	switch a.Kind {
	case 'j':
		a.J = c14CanonJV(a.J)
	case 'b':
		for i := range a.Ctor {
			c14Canon(&a.Ctor[i])
		}
		for ci := range a.Calls {
			for i := range a.Calls[ci].Args {
				c14Canon(&a.Calls[ci].Args[i])
			}
		}
	case 'l':
		for i := range a.L {
			c14Canon(&a.L[i])
		}
	case 'd':
		idx := make([]int, len(a.DK))
		for i := range idx {
			idx[i] = i
		}
		sort.Slice(idx, func(x, y int) bool { return a.DK[idx[x]] < a.DK[idx[y]] })
		dk := make([]string, len(idx))
		dv := make([]c09Arg, len(idx))
		for i, j := range idx {
			dk[i], dv[i] = a.DK[j], a.DV[j]
			c14Canon(&dv[i])
		}
		a.DK, a.DV = dk, dv
	}
}
