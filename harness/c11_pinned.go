package main

// C11 generator for a construct outside the frozen Src grammar: members PINNED to one member of a
// named enum (CUE `unit: #Unit & "M"`), which the CUE front-end turns into constant references.
// The Python constructor hard-codes such members (`self.unit = Unit.MONTH`, from_json never reads
// them) by looking the pinned value up in the enum (ast.EnumType.MemberForValue) — so the lookup
// must find exactly the pinned member.
//
// Generic widening (nothing here knows which lookup is used): enums are drawn with values that are
// close to one another — same letters in a different case, one a prefix of another, differing by
// surrounding space, numerically adjacent / opposite sign —, a struct is pinned to EVERY member (not
// only the first), and documents reach every pinned struct.
//
// c11GenPinned returns the semantic reading as a *Defs (a pinned member is `const <value>`; used for
// documents, paths and construct names) and the CUE text that is really handed to cog.

import (
	"fmt"
	"strings"
)

var c11WordPool = []string{"m", "ab", "Up", "x y", "key", "asc", "Tz", "q"}
var c11MemberNames = []string{"Alpha", "Beta", "Gamma", "Delta", "Epsilon", "Zeta", "Eta"}
var c11PinFieldPool = []string{"unit", "kind", "mode", "type", "tz"}
var c11IntPool = []int64{0, 1, -1, 10, -10, 100, 2, 11}

func c11SwapCase(s string) string {
	var b strings.Builder
	for _, c := range s {
		switch {
		case c >= 'a' && c <= 'z':
			b.WriteRune(c - 32)
		case c >= 'A' && c <= 'Z':
			b.WriteRune(c + 32)
		default:
			b.WriteRune(c)
		}
	}
	return b.String()
}

type c11Enum struct {
	name  string
	strs  []string // string enum when non-nil
	ints  []int64
	names []string
}

func (e c11Enum) size() int {
	if e.strs != nil {
		return len(e.strs)
	}
	return len(e.ints)
}

func (e c11Enum) value(i int) JV {
	if e.strs != nil {
		return jStr(e.strs[i])
	}
	return jInt(e.ints[i])
}

func (e c11Enum) src() *Src {
	if e.strs != nil {
		return srcEnumS(e.strs...)
	}
	return srcEnumI(e.ints...)
}

func (e c11Enum) cue() string {
	parts := []string{}
	for i := 0; i < e.size(); i++ {
		parts = append(parts, cueValue(e.value(i)))
	}
	return strings.Join(parts, " | ") + fmt.Sprintf(` @cog(kind="enum",memberNames="%s")`, strings.Join(e.names[:e.size()], "|"))
}

func c11DrawEnum(r *rng, name string) c11Enum {
	e := c11Enum{name: name, names: c11MemberNames}
	if r.chance(25) {
		// integers: a base value, its opposite, its decimal extension, a neighbour, unrelated ones
		base := pick(r, []int64{1, 2, 10})
		cands := []int64{base, -base, base * 10, base + 1, pick(r, c11IntPool), 0}
		seen := map[int64]bool{}
		for _, i := range c11Perm(r, len(cands)) {
			if !seen[cands[i]] && len(e.ints) < 2+r.intn(4) {
				seen[cands[i]] = true
				e.ints = append(e.ints, cands[i])
			}
		}
		if len(e.ints) < 2 {
			e.ints = []int64{base, -base}
		}
		return e
	}
	w := pick(r, c11WordPool)
	cands := []string{w, c11SwapCase(w), strings.ToUpper(w), strings.ToLower(w), w + "b", w[:1], " " + w, w + " ", pick(r, c11WordPool), pick(r, c11WordPool) + "_z"}
	want := 2 + r.intn(4)
	seen := map[string]bool{}
	e.strs = []string{}
	for _, i := range c11Perm(r, len(cands)) {
		if !seen[cands[i]] && len(e.strs) < want {
			seen[cands[i]] = true
			e.strs = append(e.strs, cands[i])
		}
	}
	if len(e.strs) < 2 {
		e.strs = []string{w, w + "b"}
	}
	return e
}

// c11GenPinned: reproducible from (seed, index)
func c11GenPinned(seed uint64, index int) (*Defs, string) {
	r := newRng(seed*1000003 + uint64(index)*97 + 11)
	d := &Defs{Root: "Root"}
	var cue strings.Builder
	enums := []c11Enum{c11DrawEnum(r, "Unit")}
	if r.chance(40) {
		enums = append(enums, c11DrawEnum(r, "Zone"))
	}
	// an OPTIONAL pinned member makes the generated Go not compile (Equals compares the non-pointer enum
	// with nil): keep it to a quarter of the cases so that the others have a Go side to compare with
	optionalPins := r.chance(25)
	rootFields := []Field{fld("name", srcString(), true, false, nil)}
	rootCue := []string{"name: string"}
	var later []Def
	var laterCue []string
	for _, e := range enums {
		// a free (not pinned) member of the enum's type
		freeReq := r.chance(60)
		fname := "free" + e.name
		rootFields = append(rootFields, fld(fname, srcRef(e.name), freeReq, false, nil))
		rootCue = append(rootCue, fname+c11Opt(freeReq)+": #"+e.name)
		later = append(later, Def{e.name, e.src()})
		laterCue = append(laterCue, "#"+e.name+": "+e.cue())
		pinField := pick(r, c11PinFieldPool)
		for i := 0; i < e.size(); i++ {
			sname := fmt.Sprintf("%sPin%d", e.name, i)
			pinReq := !(optionalPins && r.chance(50))
			fields := []Field{fld(pinField, srcConst(e.value(i)), pinReq, false, nil), fld("count", srcInt(64, true, nil, nil), true, false, nil)}
			fcue := []string{pinField + c11Opt(pinReq) + ": #" + e.name + " & " + cueValue(e.value(i)), "count: int64"}
			if r.chance(30) {
				fields = append(fields, fld("prec", srcRef(e.name), false, false, nil))
				fcue = append(fcue, "prec?: #"+e.name)
			}
			later = append(later, Def{sname, srcStruct(fields...)})
			laterCue = append(laterCue, "#"+sname+": {\n\t"+strings.Join(fcue, "\n\t")+"\n}")
			// how the root reaches the pinned struct
			req := r.chance(70)
			mname := fmt.Sprintf("p%s%d", strings.ToLower(e.name[:1]), i)
			switch r.intn(5) {
			case 0:
				rootFields = append(rootFields, fld(mname, srcArray(srcRef(sname)), req, false, nil))
				rootCue = append(rootCue, mname+c11Opt(req)+": [...#"+sname+"]")
			case 1:
				rootFields = append(rootFields, fld(mname, srcDict(srcRef(sname)), req, false, nil))
				rootCue = append(rootCue, mname+c11Opt(req)+": {[string]: #"+sname+"}")
			default:
				rootFields = append(rootFields, fld(mname, srcRef(sname), req, false, nil))
				rootCue = append(rootCue, mname+c11Opt(req)+": #"+sname)
			}
		}
	}
	// KB01: a map of structs needs an array of structs in the package for the Go strict decoder to compile
	rootFields = append(rootFields, fld("all"+enums[0].name, srcArray(srcRef(enums[0].name+"Pin0")), false, false, nil))
	rootCue = append(rootCue, "all"+enums[0].name+"?: [...#"+enums[0].name+"Pin0]")
	d.Items = append([]Def{{"Root", srcStruct(rootFields...)}}, later...)
	cue.WriteString("package %PKG%\n\n#Root: {\n\t" + strings.Join(rootCue, "\n\t") + "\n}\n\n" + strings.Join(laterCue, "\n\n") + "\n")
	return d, cue.String()
}

func c11Perm(r *rng, n int) []int {
	p := make([]int, n)
	for i := range p {
		p[i] = i
	}
	for i := n - 1; i > 0; i-- {
		j := r.intn(i + 1)
		p[i], p[j] = p[j], p[i]
	}
	return p
}

func c11Opt(required bool) string {
	if required {
		return ""
	}
	return "?"
}

// one document that reaches every member of the root (so that every pinned struct is exercised)
func c11FullDoc(d *Defs, r *rng) JV {
	o := defaultDocOpts()
	o.NoForced = true
	dg := newDocGen(d, r, o)
	dg.rich = true
	best := dg.validDoc()
	for i := 0; i < 12; i++ {
		c := dg.validDoc()
		if len(c.O) > len(best.O) {
			best = c
		}
	}
	return best
}
