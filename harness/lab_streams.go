package main

import (
	"bufio"
	"fmt"
	"os"
	"path/filepath"
	"regexp"
	"sort"
	"strings"
	"time"

	"github.com/grafana/cog/internal/jennies/golang"
	"github.com/grafana/cog/internal/jennies/python"
)

func labWorkDir(name string) string {
	return filepath.Join(labWorkBase(), fmt.Sprintf("%s-%d", name, os.Getpid()))
}

func argGenOpts(args map[string]string) GenOpts {
	o := defaultGenOpts()
	o.MaxDefs = argInt(args, "maxdefs", o.MaxDefs)
	o.MaxFields = argInt(args, "maxfields", o.MaxFields)
	o.MaxDepth = argInt(args, "maxdepth", o.MaxDepth)
	if sw, ok := args["switches"]; ok {
		o = o.with(sw)
	}
	return o
}

// iterDefs yields the terms a stream works on: generated from (seed, from.., n) or read from
// file=<path> (one Defs S-expression per line).
func iterDefs(args map[string]string, f func(i int, d *Defs) error) error {
	n := argInt(args, "n", 3)
	seed := uint64(argInt(args, "seed", 1))
	from := argInt(args, "from", 0)
	o := argGenOpts(args)
	if path, ok := args["file"]; ok {
		for i, line := range readLines(path) {
			d, err := parseDefsSexp(line)
			if err != nil {
				return fmt.Errorf("%s line %d: %w", path, i+1, err)
			}
			if err := f(i, d); err != nil {
				return err
			}
		}
		return nil
	}
	for i := from; i < from+n; i++ {
		if err := f(i, genDefs(seed, i, o)); err != nil {
			return err
		}
	}
	return nil
}

func init() {
	// src-probe: print generated terms, their three renderings and what the front-ends make of
	// them (debugging aid for the renderers).
	register("src-probe", func(args map[string]string, out *bufio.Writer) error {
		dir := labWorkDir("probe")
		defer os.RemoveAll(dir)
		degrade := argInt(args, "degrade", 1)
		return iterDefs(args, func(i int, d0 *Defs) error {
			fmt.Fprintf(out, "=== case %d\n%s\n", i, d0.sexp())
			if err := d0.wf(); err != nil {
				fmt.Fprintf(out, "WF-ERROR %v\n", err)
			}
			for _, f := range labFormats {
				if only, ok := args["format"]; ok && only != f {
					continue
				}
				pkg := fmt.Sprintf("c%d%s", i, labFormatSuffix[f])
				d, dnotes := degradeDefs(d0, f, degrade)
				ro := renderDefs(d, f, pkg)
				fmt.Fprintf(out, "--- %s unsupported=%v notes=%v degraded=%v\n", f, ro.Unsupported, ro.Notes, dnotes)
				if ro.Text == "" {
					continue
				}
				if args["text"] == "1" {
					fmt.Fprintln(out, ro.Text)
				}
				path, err := writeSchemaFile(dir, f, pkg, ro.Text)
				if err != nil {
					return err
				}
				lr := labRun{Format: f, Path: path, Package: pkg,
					GoCfg: &golang.Config{GenerateJSONMarshaller: true, GenerateStrictUnmarshaller: true, GenerateEqual: true, GenerateValidate: true, PackageRoot: "example.com/lab/go"},
					PyCfg: &python.Config{GenerateJSONMarshaller: true}}
				ss, err := lr.loadSchemas()
				if err != nil {
					fmt.Fprintf(out, "LOAD-ERROR %s: %v\n", f, strings.ReplaceAll(err.Error(), "\n", " | "))
					if args["text"] != "1" {
						fmt.Fprintln(out, ro.Text)
					}
					continue
				}
				if args["ir"] == "1" {
					fmt.Fprintln(out, virSchemas(ss))
				}
				if _, err := lr.run(); err != nil {
					fmt.Fprintf(out, "GEN-ERROR %s: %v\n", f, strings.ReplaceAll(err.Error(), "\n", " | "))
				} else {
					fmt.Fprintf(out, "ok %s\n", f)
				}
			}
			return nil
		})
	})
}

func init() {
	// lab-gen: run the pipeline on one schema file and write the generated files (debugging aid)
	//   format=jsonschema|openapi|cue path=<file|dir> pkg=<name> out=<dir> [builders=1] [skipfmt=1]
	register("lab-gen", func(args map[string]string, out *bufio.Writer) error {
		lr := labRun{Format: args["format"], Path: args["path"], Package: args["pkg"], OutDir: args["out"],
			GoCfg: &golang.Config{GenerateJSONMarshaller: true, GenerateStrictUnmarshaller: true, GenerateEqual: true, GenerateValidate: true,
				PackageRoot: "example.com/lab/go", SkipPostFormatting: args["skipfmt"] == "1"},
			PyCfg: &python.Config{GenerateJSONMarshaller: true}, JSONSch: true, OpenAPI: true, Builders: args["builders"] == "1", Convert: args["builders"] == "1"}
		files, err := lr.run()
		if err != nil {
			fmt.Fprintln(out, "ERR", err)
			return nil
		}
		for n, data := range files {
			fmt.Fprintln(out, n, len(data))
		}
		return writeFiles(args["out"], files)
	})
}

func init() {
	// src-refval: agreement of the document generator with the three reference validators
	register("src-refval", func(args map[string]string, out *bufio.Writer) error {
		if _, ok := args["n"]; !ok {
			args["n"] = "20"
		}
		seed := uint64(argInt(args, "seed", 1))
		ndocs := argInt(args, "docs", 20)
		degrade := argInt(args, "degrade", 1)
		verbose := argInt(args, "show", 3)
		type cnt struct{ cases, compileFail, validOK, validRej, faultRej, faultAcc, noFault int }
		counts := map[string]*cnt{}
		shown := map[string]int{}
		err := iterDefs(args, func(i int, d0 *Defs) error {
			for _, f := range labFormats {
				if only, ok := args["format"]; ok && only != f {
					continue
				}
				c := counts[f]
				if c == nil {
					c = &cnt{}
					counts[f] = c
				}
				pkg := fmt.Sprintf("c%d%s", i, labFormatSuffix[f])
				d, _ := degradeDefs(d0, f, degrade)
				ro := renderDefs(d, f, pkg)
				if ro.Text == "" {
					continue
				}
				c.cases++
				rv, err := newRefValidator(f, ro.refText(), d.Root)
				if err != nil {
					c.compileFail++
					fmt.Fprintf(out, "COMPILE-FAIL case=%d %s: %s\n%s\n", i, f, shortErr(err), ro.Text)
					continue
				}
				r := newRng(seed*7919 + uint64(i)*31 + 5)
				dg := newDocGen(d, r, defaultDocOpts())
				for k := 0; k < ndocs; k++ {
					doc := dg.validDoc()
					if err := rv.validate(doc); err != nil {
						c.validRej++
						key := f + "/valid"
						if shown[key] < verbose {
							shown[key]++
							fmt.Fprintf(out, "VALID-REJECTED case=%d %s doc=%s\n  err=%s\n  defs=%s\n", i, f, doc.json(), shortErr(err), d.sexp())
						}
					} else {
						c.validOK++
					}
				}
				for k := 0; k < ndocs; k++ {
					fd, ok := dg.faultDoc(nil)
					if !ok {
						c.noFault++
						continue
					}
					if err := rv.validate(fd.Doc); err == nil && f == "cue" && fd.CueMayAccept {
						c.faultRej++ // a documented, legitimate difference of CUE
					} else if err == nil {
						c.faultAcc++
						key := f + "/" + fd.Kind
						if shown[key] < verbose {
							shown[key]++
							fmt.Fprintf(out, "FAULT-ACCEPTED case=%d %s kind=%s path=%s doc=%s\n  defs=%s\n", i, f, fd.Kind, fd.Path, fd.Doc.json(), d.sexp())
						}
					} else {
						c.faultRej++
					}
				}
			}
			return nil
		})
		if err != nil {
			return err
		}
		for _, f := range labFormats {
			if c := counts[f]; c != nil {
				fmt.Fprintf(out, "SUMMARY %s cases=%d compileFail=%d valid: accepted=%d rejected=%d  fault: rejected=%d accepted=%d nosite=%d\n",
					f, c.cases, c.compileFail, c.validOK, c.validRej, c.faultRej, c.faultAcc, c.noFault)
			}
		}
		return nil
	})
}

// ---- lab-selftest and lab-c01-rows ----

type labBatch struct {
	lab   *Lab
	cases []*LabCase
	docs  map[string][]JV    // case ID → valid documents of the root object
	fault map[string][]Fault // case ID → single-fault documents
	hist  map[string]int     // construct histogram over the original terms
	dhist map[string]int     // document variants drawn
	t     map[string]time.Duration
}

// buildLabBatch: n generated terms × formats, ndocs valid (+ nfault fault) documents each.
func buildLabBatch(args map[string]string, dirName string, withFaults bool) (*labBatch, error) {
	if _, ok := args["n"]; !ok {
		args["n"] = "24"
	}
	seed := uint64(argInt(args, "seed", 1))
	ndocs := argInt(args, "docs", 40)
	opts := defaultLabOpts()
	opts.Degrade = argInt(args, "degrade", opts.Degrade)
	opts.Keep = args["keep"] == "1"
	opts.NoPython = args["python"] == "0"
	opts.Builders = args["builders"] == "1"
	opts.Converters = args["converters"] == "1"
	if s, ok := args["oamapping"]; ok {
		oaMappingStyle = s
	}
	if s, ok := args["jstypearray"]; ok {
		jsTypeArrayStyle = s
	}
	if s, ok := args["cuespell"]; ok {
		cueSpellStyle = s // canonical | mixed | alt (src_render_cue.go)
	}
	docOpts := defaultDocOpts()
	for _, t := range strings.Split(args["docswitches"], ",") { // +tag switches a document variant on, -tag off
		switch {
		case strings.HasPrefix(t, "+"):
			delete(docOpts.Avoid, t[1:])
		case strings.HasPrefix(t, "-"):
			docOpts.Avoid[t[1:]] = true
		}
	}
	flagmix := args["flagmix"] != "0" && !opts.Builders
	lab, err := NewLab(labWorkDir(dirName), opts)
	if err != nil {
		return nil, err
	}
	b := &labBatch{lab: lab, docs: map[string][]JV{}, fault: map[string][]Fault{}, hist: map[string]int{}, dhist: map[string]int{}, t: map[string]time.Duration{}}
	t0 := time.Now()
	err = iterDefs(args, func(i int, d *Defs) error {
		d.walkTags(func(t string) { b.hist[t]++ })
		for _, f := range labFormats {
			if only, ok := args["format"]; ok && only != f {
				continue
			}
			// flagmix (default on): equal / validate are switched off for part of the terms, so that a
			// defect hidden behind a method that no longer compiles still reaches dec/strict
			flags := opts.GoFlags
			if flagmix {
				flags = labFlagMix(i, flags)
			}
			var c *LabCase
			if vf, ok := args["veneers"]; ok {
				raw, err := os.ReadFile(vf)
				if err != nil {
					return err
				}
				c = lab.AddCaseVeneers(d, f, flags, opts.Builders, opts.Converters, string(raw))
			} else {
				c = lab.AddCaseWith(d, f, flags, opts.Builders, opts.Converters)
			}
			b.cases = append(b.cases, c)
			if c.Defs == nil {
				continue
			}
			dg := newDocGen(c.Defs, newRng(seed*7919+uint64(i)*31+5), docOpts)
			for k := 0; k < ndocs; k++ {
				b.docs[c.ID] = append(b.docs[c.ID], dg.validDoc())
			}
			if withFaults {
				for k := 0; k < ndocs; k++ {
					if fd, ok := dg.faultDoc(nil); ok {
						b.fault[c.ID] = append(b.fault[c.ID], fd)
					}
				}
			}
			for k, v := range dg.tags {
				b.dhist[k] += v
			}
		}
		return nil
	})
	b.t["generate+docs"] = time.Since(t0)
	if err != nil {
		lab.Close()
		return nil, err
	}
	if args["ext"] == "1" {
		var g strings.Builder
		g.WriteString("package pingext\n\nimport \"" + labGoModule + "/labrt\"\n\nfunc init() {\n")
		for _, c := range b.cases {
			if c.Defs != nil {
				fmt.Fprintf(&g, "\tlabrt.Register(%q, %q, \"ping\", func(p []string) string { return \"pong \" + p[0] })\n", c.ID, c.Defs.Root)
			}
		}
		g.WriteString("}\n")
		lab.AddGoExt("pingext", map[string]string{"ping.go": g.String()})
		lab.AddGoExt("brokenext", map[string]string{"b.go": "package brokenext\n\nfunc init() { undefinedSymbol() }\n"})
		var py strings.Builder
		for _, c := range b.cases {
			if c.Defs != nil {
				fmt.Fprintf(&py, "register(%q, %q, \"ping\", lambda p: \"pong \" + p[0])\n", c.ID, c.Defs.Root)
			}
		}
		lab.AddPyExt("ping", py.String())
	}
	t1 := time.Now()
	if err := lab.Build(); err != nil {
		lab.Close()
		return nil, err
	}
	b.t["build"] = time.Since(t1)
	if args["ext"] == "1" {
		// second stage: another extension, Build() again
		lab.AddGoExt("stage2", map[string]string{"s.go": "package stage2\n\nimport \"" + labGoModule + "/labrt\"\n\nfunc init() { labrt.Register(\"*\", \"*\", \"stage2\", func(p []string) string { return \"ok stage2\" }) }\n"})
		t2 := time.Now()
		if err := lab.Build(); err != nil {
			lab.Close()
			return nil, err
		}
		b.t["rebuild"] = time.Since(t2)
	}
	return b, nil
}

// labFlagMix: Go flags of term i under flag mixing — (i + i/4) % 4: 0 unchanged, 1 equal off,
// 2 validate off, 3 both off (JSON marshaller and strict unmarshaller untouched).
func labFlagMix(i int, flags GoFlags) GoFlags {
	switch (i + i/4) % 4 {
	case 1:
		flags.Equal = false
	case 2:
		flags.Validate = false
	case 3:
		flags.Equal, flags.Validate = false, false
	}
	return flags
}

func labSortedKeys(m map[string]int) []string {
	ks := make([]string, 0, len(m))
	for k := range m {
		ks = append(ks, k)
	}
	sort.Strings(ks)
	return ks
}

func init() {
	register("lab-selftest", func(args map[string]string, out *bufio.Writer) error {
		t0 := time.Now()
		if _, ok := args["flagmix"]; !ok {
			args["flagmix"] = "0" // the self-test exercises equals / validate on every case
		}
		b, err := buildLabBatch(args, "selftest", true)
		if err != nil {
			return err
		}
		defer b.lab.Close()
		type cnt struct{ cases, rendered, loaded, generated, compiled, pyImported, validOK, validRej, faultRej, faultAcc, refFail int }
		cs := map[string]*cnt{}
		failures := map[string][]string{}
		fail := func(class, text string) {
			if len(failures[class]) < argInt(args, "show", 2) {
				failures[class] = append(failures[class], text)
			}
		}
		var goReqs, pyReqs []LabReq
		pairKinds := map[string]int{}
		for _, c := range b.cases {
			k := cs[c.Format]
			if k == nil {
				k = &cnt{}
				cs[c.Format] = k
			}
			k.cases++
			if c.Defs == nil {
				continue
			}
			k.rendered++
			if c.IRGoErr == "" && c.IRGo != nil {
				k.loaded++
			} else {
				fail(c.Format+" load: "+labClassOf(c.IRGoErr), c.IRGoErr+"\n    src="+c.Defs.sexp())
			}
			if c.GenErr != "" {
				if c.IRGoErr == "" {
					fail(c.Format+" generate: "+labClassOf(c.GenErr), c.GenErr+"\n    src="+c.Defs.sexp())
				}
				continue
			}
			k.generated++
			if c.GoOK {
				k.compiled++
			} else {
				fail(c.Format+" go-compile: "+labClassOf(c.GoCompileErr), c.GoCompileErr+"\n    src="+c.Defs.sexp())
			}
			if c.PyOK {
				k.pyImported++
			} else if !b.lab.Opts.NoPython {
				fail(c.Format+" py-import: "+labClassOf(c.PyImportErr), c.PyImportErr+"\n    src="+c.Defs.sexp())
			}
			rv, err := c.RefValidator("")
			if err != nil {
				k.refFail++
				fail(c.Format+" refval-compile", shortErr(err)+"\n    src="+c.Defs.sexp())
			} else {
				for _, d := range b.docs[c.ID] {
					if err := rv.validate(d); err != nil {
						k.validRej++
						fail(c.Format+" valid-doc-rejected", d.json()+" :: "+shortErr(err)+"\n    src="+c.Defs.sexp())
					} else {
						k.validOK++
					}
				}
				for _, fd := range b.fault[c.ID] {
					err := rv.validate(fd.Doc)
					if err == nil && !(c.Format == "cue" && fd.CueMayAccept) {
						k.faultAcc++
						fail(c.Format+" fault-doc-accepted "+fd.Kind, fd.Path+" "+fd.Doc.json()+"\n    src="+c.Defs.sexp())
					} else {
						k.faultRej++
					}
				}
			}
			for _, d := range b.docs[c.ID] {
				if c.GoOK {
					goReqs = append(goReqs, LabReq{c.ID, c.Defs.Root, "dec", []string{d.json()}}, LabReq{c.ID, c.Defs.Root, "strict", []string{d.json()}},
						LabReq{c.ID, c.Defs.Root, "validate", []string{d.json()}})
				}
				if c.PyOK {
					pyReqs = append(pyReqs, LabReq{c.ID, c.Defs.Root, "roundtrip", []string{d.json()}})
				}
			}
			if c.GoOK {
				for _, fd := range b.fault[c.ID] {
					goReqs = append(goReqs, LabReq{c.ID, c.Defs.Root, "strict", []string{fd.Doc.json()}}, LabReq{c.ID, c.Defs.Root, "validate", []string{fd.Doc.json()}})
				}
				dg := newDocGen(c.Defs, newRng(uint64(c.Idx)+99), defaultDocOpts())
				for k := 0; k < 6; k++ {
					if p, ok := dg.pair(""); ok {
						pairKinds[p.Kind]++
						goReqs = append(goReqs, LabReq{c.ID, c.Defs.Root, "equals", []string{p.A.json(), p.B.json()}})
					}
				}
				tr := dg.triple()
				goReqs = append(goReqs, LabReq{c.ID, c.Defs.Root, "equals", []string{tr.A.json(), tr.C.json()}})
				for _, o := range c.GoObjects {
					goReqs = append(goReqs, LabReq{c.ID, o.Name, "new", nil})
				}
			}
			if c.PyOK {
				for _, o := range c.PyObjects {
					pyReqs = append(pyReqs, LabReq{c.ID, o.Name, "new", nil})
				}
			}
			if args["ext"] == "1" {
				goReqs = append(goReqs, LabReq{c.ID, c.Defs.Root, "ping", []string{"x"}})
				pyReqs = append(pyReqs, LabReq{c.ID, c.Defs.Root, "ping", []string{"x"}})
			}
		}
		t1 := time.Now()
		goRep := b.lab.GoCall(goReqs)
		tg := time.Since(t1)
		t2 := time.Now()
		pyRep := b.lab.PyCall(pyReqs)
		tp := time.Since(t2)
		replyClass := func(reqs []LabReq, reps []string) string {
			m := map[string]int{}
			for i, r := range reps {
				m[reqs[i].Op+":"+strings.SplitN(r, " ", 2)[0]]++
			}
			parts := []string{}
			for _, k := range labSortedKeys(m) {
				parts = append(parts, fmt.Sprintf("%s=%d", k, m[k]))
			}
			return strings.Join(parts, " ")
		}
		for _, f := range labFormats {
			if k := cs[f]; k != nil {
				fmt.Fprintf(out, "FORMAT %-10s cases=%d rendered=%d loaded=%d generated=%d go-compiled=%d py-imported=%d | refval: compile-fail=%d valid accepted=%d rejected=%d, fault rejected=%d accepted=%d\n",
					f, k.cases, k.rendered, k.loaded, k.generated, k.compiled, k.pyImported, k.refFail, k.validOK, k.validRej, k.faultRej, k.faultAcc)
			}
		}
		unsup := map[string]int{}
		notes := map[string]int{}
		degr := map[string]int{}
		for _, c := range b.cases {
			for _, u := range c.Unsupported {
				unsup[c.Format+" "+u]++
			}
			for _, u := range c.Notes {
				notes[c.Format+" "+u]++
			}
			for _, u := range c.Degraded {
				degr[c.Format+" "+strings.SplitN(u, " x", 2)[0]]++
			}
		}
		for _, k := range labSortedKeys(unsup) {
			fmt.Fprintf(out, "UNSUPPORTED %s cases=%d\n", k, unsup[k])
		}
		for _, k := range labSortedKeys(degr) {
			fmt.Fprintf(out, "DEGRADED %s cases=%d\n", k, degr[k])
		}
		for _, k := range labSortedKeys(notes) {
			fmt.Fprintf(out, "LOSSY-NOTE %s cases=%d\n", k, notes[k])
		}
		fmt.Fprintf(out, "GO-REPLIES n=%d %s\n", len(goRep), replyClass(goReqs, goRep))
		fmt.Fprintf(out, "PY-REPLIES n=%d %s\n", len(pyRep), replyClass(pyReqs, pyRep))
		fmt.Fprintf(out, "PAIR-KINDS %v\n", pairKinds)
		if args["errs"] == "1" {
			seen := map[string]int{}
			dump := func(lang string, reqs []LabReq, reps []string) {
				for i, r := range reps {
					if strings.HasPrefix(r, "ok") || r == "true" || r == "false" || r == "unsupported" || strings.HasPrefix(r, "pong") {
						continue
					}
					k := lang + " " + reqs[i].Op + " " + labClassOf(r)
					if seen[k]++; seen[k] <= 1 {
						fmt.Fprintf(out, "REPLY %s %s -> %s\n", lang, reqs[i].line(), r)
					}
				}
			}
			dump("go", goReqs, goRep)
			dump("py", pyReqs, pyRep)
			for _, k := range labSortedKeys(seen) {
				fmt.Fprintf(out, "REPLY-CLASS n=%d %s\n", seen[k], k)
			}
		}
		hs := []string{}
		for _, k := range labSortedKeys(b.hist) {
			hs = append(hs, fmt.Sprintf("%s=%d", k, b.hist[k]))
		}
		fmt.Fprintf(out, "CONSTRUCTS %s\n", strings.Join(hs, " "))
		hs = hs[:0]
		for _, k := range labSortedKeys(b.dhist) {
			hs = append(hs, fmt.Sprintf("%s=%d", k, b.dhist[k]))
		}
		fmt.Fprintf(out, "DOC-VARIANTS %s\n", strings.Join(hs, " "))
		for _, l := range b.lab.BuildLog {
			fmt.Fprintf(out, "BUILD %s\n", l)
		}
		for _, w := range b.lab.Warnings {
			fmt.Fprintf(out, "WARNING %s\n", w)
		}
		if args["ext"] == "1" {
			rep := b.lab.GoCall([]LabReq{{"*", "*", "stage2", nil}})
			fmt.Fprintf(out, "EXT pingext err=%q brokenext err=%q stage2 reply=%q rebuild=%.1fs\n", b.lab.GoExtErr("pingext"), labFirstLine(b.lab.GoExtErr("brokenext")), rep[0], b.t["rebuild"].Seconds())
		}
		fmt.Fprintf(out, "TIMING generate+docs=%.1fs build(write+go build+py import)=%.1fs [lab: %v] gocall=%.1fs pycall=%.1fs total=%.1fs\n",
			b.t["generate+docs"].Seconds(), b.t["build"].Seconds(), fmtTimings(b.lab.Timings), tg.Seconds(), tp.Seconds(), time.Since(t0).Seconds())
		classes := make([]string, 0, len(failures))
		for k := range failures {
			classes = append(classes, k)
		}
		sort.Strings(classes)
		for _, k := range classes {
			for _, f := range failures[k] {
				fmt.Fprintf(out, "FAILURE [%s] %s\n", k, strings.ReplaceAll(f, "\t", " "))
			}
		}
		return nil
	})

	// lab-c01-rows: <caseId> \t <format> \t <object> \t <doc json> \t <dec reply> \t <strict reply> \t <python roundtrip reply>
	// preceded, per case, by a row: #case \t <caseId> \t <format> \t <status> \t <Src sexp>
	register("lab-c01-rows", func(args map[string]string, out *bufio.Writer) error {
		b, err := buildLabBatch(args, "c01rows", false)
		if err != nil {
			return err
		}
		defer b.lab.Close()
		var goReqs, pyReqs []LabReq
		for _, c := range b.cases {
			if c.Defs == nil {
				continue
			}
			for _, d := range b.docs[c.ID] {
				goReqs = append(goReqs, LabReq{c.ID, c.Defs.Root, "dec", []string{d.json()}}, LabReq{c.ID, c.Defs.Root, "strict", []string{d.json()}})
				pyReqs = append(pyReqs, LabReq{c.ID, c.Defs.Root, "roundtrip", []string{d.json()}})
			}
		}
		goRep := b.lab.GoCall(goReqs)
		pyRep := b.lab.PyCall(pyReqs)
		gi, pi := 0, 0
		for _, c := range b.cases {
			status := "ok"
			switch {
			case c.Defs == nil:
				status = "unsupported " + strings.Join(c.Unsupported, ",")
			case c.GenErr != "":
				status = "generr " + labOneLine(c.GenErr)
			case !c.GoOK:
				status = "gocompile " + labOneLine(c.GoCompileErr)
			case !c.PyOK && !b.lab.Opts.NoPython:
				status = "pyimport " + labOneLine(c.PyImportErr)
			}
			src := "-"
			if c.Defs != nil {
				src = c.Defs.sexp()
			}
			fmt.Fprintf(out, "#case\t%s\t%s\t%s\t%s\n", c.ID, c.Format, status, src)
			if c.Defs == nil {
				continue
			}
			for _, d := range b.docs[c.ID] {
				fmt.Fprintf(out, "%s\t%s\t%s\t%s\t%s\t%s\t%s\n", c.ID, c.Format, c.Defs.Root, d.json(), goRep[gi], goRep[gi+1], pyRep[pi])
				gi += 2
				pi++
			}
		}
		return nil
	})
}

func fmtTimings(m map[string]time.Duration) string {
	ks := make([]string, 0, len(m))
	for k := range m {
		ks = append(ks, k)
	}
	sort.Strings(ks)
	parts := []string{}
	for _, k := range ks {
		parts = append(parts, fmt.Sprintf("%s=%.1fs", k, m[k].Seconds()))
	}
	return strings.Join(parts, " ")
}

var classNum = regexp.MustCompile(`[0-9]+`)
var classCase = regexp.MustCompile(`c[0-9]+(js|oa|cue)`)

// classOf reduces an error text to a class (first line, numbers and case ids masked).
func labClassOf(s string) string {
	s = labFirstLine(strings.TrimSpace(s))
	if i := strings.Index(s, "\n"); i >= 0 {
		s = s[:i]
	}
	s = classCase.ReplaceAllString(s, "cN")
	s = classNum.ReplaceAllString(s, "N")
	if len(s) > 160 {
		s = s[:160]
	}
	return s
}

func init() {
	// lab-cuelib-demo: a two-package CUE case (AddCaseCueLib) with builders; prints status and the
	// default objects of the main package in Go and Python.
	register("lab-cuelib-demo", func(args map[string]string, out *bufio.Writer) error {
		opts := defaultLabOpts()
		opts.Builders = true
		opts.Keep = args["keep"] == "1"
		lab, err := NewLab(labWorkDir("cuelib"), opts)
		if err != nil {
			return err
		}
		defer lab.Close()
		libText := "package %LIB%\n\n#Kind: \"widget\"\n\nMeta: {\n\towner: string\n}\n"
		mainText := "package %PKG%\n\nimport \"example.com/%LIB%\"\n\n#Kind: \"app-widget\"\n\nWidget: {\n\tkind: %LIB%.#Kind\n\tflavour: #Kind\n\ttitle: string\n\tmeta: %LIB%.Meta\n}\n"
		c := lab.AddCaseCueLib(libText, mainText, opts.GoFlags, true, false, "")
		if err := lab.Build(); err != nil {
			return err
		}
		fmt.Fprintf(out, "case %s lib=%s generr=%q irgoerr=%q goOK=%v gocompile=%q pyOK=%v pyimport=%q\n", c.ID, c.LibPkg, c.GenErr, c.IRGoErr, c.GoOK, labFirstLine(c.GoCompileErr), c.PyOK, c.PyImportErr)
		names := []string{}
		for n := range c.Files {
			names = append(names, n)
		}
		sort.Strings(names)
		fmt.Fprintf(out, "files %s\n", strings.Join(names, " "))
		pk := []string{}
		for _, s := range c.IRGo {
			pk = append(pk, s.Package)
		}
		fmt.Fprintf(out, "irgo packages %v builders %d objects %v\n", pk, len(c.BuildersGo), c.GoObjects)
		rg := lab.GoCall([]LabReq{{c.ID, "Widget", "new", nil}, {c.ID, "Widget", "dec", []string{`{"kind":"widget","flavour":"app-widget","title":"t","meta":{"owner":"o"}}`}}})
		rp := lab.PyCall([]LabReq{{c.ID, "Widget", "new", nil}, {c.ID, "Widget", "roundtrip", []string{`{"kind":"widget","flavour":"app-widget","title":"t","meta":{"owner":"o"}}`}}})
		fmt.Fprintf(out, "go %v\npy %v\n", rg, rp)
		return nil
	})
}
