package main

import (
	"bufio"
	"fmt"
	"os"
	"path/filepath"
	"strings"

	"github.com/grafana/cog/internal/jennies/golang"
	"github.com/grafana/cog/internal/jennies/python"
)

func labWorkDir(name string) string {
	base := os.Getenv("VERIF_WORK")
	if base == "" {
		base = "/verif/.work"
	}
	return filepath.Join(base, fmt.Sprintf("%s-%d", name, os.Getpid()))
}

func argGenOpts(args map[string]string) GenOpts {
	o := defaultGenOpts()
	o.MaxDefs = argInt(args, "maxdefs", o.MaxDefs)
	o.MaxFields = argInt(args, "maxfields", o.MaxFields)
	o.MaxDepth = argInt(args, "maxdepth", o.MaxDepth)
	if sw, ok := args["switches"]; ok {
		o = o.with(sw)
	}
	return o
}

func init() {
	// src-probe: print generated terms, their three renderings and what the front-ends make of
	// them (debugging aid for the renderers).
	register("src-probe", func(args map[string]string, out *bufio.Writer) error {
		n := argInt(args, "n", 3)
		seed := uint64(argInt(args, "seed", 1))
		from := argInt(args, "from", 0)
		o := argGenOpts(args)
		dir := labWorkDir("probe")
		defer os.RemoveAll(dir)
		degrade := argInt(args, "degrade", 1)
		var fromFile []string
		if f, ok := args["file"]; ok {
			fromFile = readLines(f)
			from, n = 0, len(fromFile)
		}
		for i := from; i < from+n; i++ {
			d0 := genDefs(seed, i, o)
			if fromFile != nil {
				var err error
				if d0, err = parseDefsSexp(fromFile[i]); err != nil {
					return fmt.Errorf("%s line %d: %w", args["file"], i+1, err)
				}
			}
			fmt.Fprintf(out, "=== case %d\n%s\n", i, d0.sexp())
			if err := d0.wf(); err != nil {
				fmt.Fprintf(out, "WF-ERROR %v\n", err)
			}
			for _, f := range labFormats {
				if only, ok := args["format"]; ok && only != f {
					continue
				}
				pkg := fmt.Sprintf("c%d%s", i, labFormatSuffix[f])
				d, dnotes := degradeDefs(d0, f, degrade)
				ro := renderDefs(d, f, pkg)
				fmt.Fprintf(out, "--- %s unsupported=%v notes=%v degraded=%v\n", f, ro.Unsupported, ro.Notes, dnotes)
				if ro.Text == "" {
					continue
				}
				if args["text"] == "1" {
					fmt.Fprintln(out, ro.Text)
				}
				path, err := writeSchemaFile(dir, f, pkg, ro.Text)
				if err != nil {
					return err
				}
				lr := labRun{Format: f, Path: path, Package: pkg,
					GoCfg: &golang.Config{GenerateJSONMarshaller: true, GenerateStrictUnmarshaller: true, GenerateEqual: true, GenerateValidate: true, PackageRoot: "example.com/lab/go"},
					PyCfg: &python.Config{GenerateJSONMarshaller: true}}
				ss, err := lr.loadSchemas()
				if err != nil {
					fmt.Fprintf(out, "LOAD-ERROR %s: %v\n", f, strings.ReplaceAll(err.Error(), "\n", " | "))
					if args["text"] != "1" {
						fmt.Fprintln(out, ro.Text)
					}
					continue
				}
				if args["ir"] == "1" {
					fmt.Fprintln(out, virSchemas(ss))
				}
				if _, err := lr.run(); err != nil {
					fmt.Fprintf(out, "GEN-ERROR %s: %v\n", f, strings.ReplaceAll(err.Error(), "\n", " | "))
				} else {
					fmt.Fprintf(out, "ok %s\n", f)
				}
			}
		}
		return nil
	})
}

func init() {
	// lab-gen: run the pipeline on one schema file and write the generated files (debugging aid)
	//   format=jsonschema|openapi|cue path=<file|dir> pkg=<name> out=<dir> [builders=1] [skipfmt=1]
	register("lab-gen", func(args map[string]string, out *bufio.Writer) error {
		lr := labRun{Format: args["format"], Path: args["path"], Package: args["pkg"], OutDir: args["out"],
			GoCfg: &golang.Config{GenerateJSONMarshaller: true, GenerateStrictUnmarshaller: true, GenerateEqual: true, GenerateValidate: true,
				PackageRoot: "example.com/lab/go", SkipPostFormatting: args["skipfmt"] == "1"},
			PyCfg: &python.Config{GenerateJSONMarshaller: true}, JSONSch: true, OpenAPI: true, Builders: args["builders"] == "1", Convert: args["builders"] == "1"}
		files, err := lr.run()
		if err != nil {
			fmt.Fprintln(out, "ERR", err)
			return nil
		}
		for n, data := range files {
			fmt.Fprintln(out, n, len(data))
		}
		return writeFiles(args["out"], files)
	})
}
