package main

// Generator of veneer rule files for C17. Rules are built as JSON documents (YAML is a superset of
// JSON, so the real yaml.v3-based loader reads them) with selectors that hit / miss / differ in case,
// every rule kind, parameters drawn from the builders actually derived from the schemas.

import (
	"encoding/json"
	"strings"

	"github.com/grafana/cog/internal/ast"
)

type vFile struct {
	Language string
	Package  string
	Builders []map[string]any
	Options  []map[string]any
}

func (f vFile) doc() []byte {
	d := map[string]any{"language": f.Language}
	if f.Package != "" {
		d["package"] = f.Package
	}
	if f.Builders != nil {
		d["builders"] = f.Builders
	}
	if f.Options != nil {
		d["options"] = f.Options
	}
	b, _ := json.Marshal(d)
	return b
}

type c17Gen struct {
	r         *rng
	schemas   ast.Schemas
	bs        []ast.Builder
	nComments int
	curPkg    string // package of the file being generated: rules prefer builders of that package
	focus     int    // index of the builder most rules of the case are about (-1: none): sequences that
	// keep working on one builder are what exposes forgotten members in copies and shared pointers
}

func caseVariant(r *rng, s string) string {
	switch r.intn(3) {
	case 0:
		return strings.ToUpper(s)
	case 1:
		return strings.ToLower(s)
	}
	if len(s) > 0 {
		return strings.ToUpper(s[:1]) + strings.ToLower(s[1:])
	}
	return s
}

// name: exact 65%, case variant 20%, missing 15%
func (g *c17Gen) nameLike(s string) string {
	n := g.r.intn(100)
	switch {
	case n < 65:
		return s
	case n < 85:
		return caseVariant(g.r, s)
	}
	return pick(g.r, []string{"Nope", "missing", s + "X"})
}

func (g *c17Gen) builder() *ast.Builder {
	if len(g.bs) == 0 {
		return nil
	}
	if g.focus >= 0 && g.focus < len(g.bs) && g.r.chance(65) {
		return &g.bs[g.focus]
	}
	if g.r.chance(90) {
		cands := []int{}
		for i := range g.bs {
			if g.bs[i].For.SelfRef.ReferredPkg == g.curPkg {
				cands = append(cands, i)
			}
		}
		if len(cands) > 0 {
			return &g.bs[pick(g.r, cands)]
		}
	}
	return &g.bs[g.r.intn(len(g.bs))]
}

func (g *c17Gen) bsel(b *ast.Builder) map[string]any {
	m := map[string]any{}
	n := g.r.intn(100)
	switch {
	case n < 55:
		m["by_object"] = g.nameLike(b.For.Name)
	case n < 85:
		m["by_name"] = g.nameLike(b.Name)
	case n < 91:
		m["by_variant"] = pick(g.r, []string{"panelcfg", "dataquery", "nope"})
	case n < 97:
		m["generated_from_disjunction"] = true
	default:
		// empty selector: the loader must refuse the file
	}
	return m
}

func merge(a, b map[string]any) map[string]any {
	for k, v := range b {
		a[k] = v
	}
	return a
}

// yamlType renders a type the way the YAML decoder of ast.Type expects it; ok=false when the type is
// not one of the simple shapes (then the caller falls back to something else).
func yamlType(t ast.Type) (map[string]any, bool) {
	m := map[string]any{"kind": string(t.Kind)}
	if t.Nullable {
		m["nullable"] = true
	}
	switch t.Kind {
	case ast.KindScalar:
		if t.Scalar == nil || t.Scalar.Value != nil || len(t.Scalar.Constraints) != 0 || t.Default != nil || len(t.Hints) != 0 {
			return nil, false
		}
		m["scalar"] = map[string]any{"scalar_kind": string(t.Scalar.ScalarKind)}
		return m, true
	case ast.KindRef:
		if t.Ref == nil || t.Default != nil || len(t.Hints) != 0 {
			return nil, false
		}
		m["ref"] = map[string]any{"referred_pkg": t.Ref.ReferredPkg, "referred_type": t.Ref.ReferredType}
		return m, true
	case ast.KindArray:
		if t.Array == nil || t.Default != nil || len(t.Hints) != 0 {
			return nil, false
		}
		e, ok := yamlType(t.Array.ValueType)
		if !ok {
			return nil, false
		}
		m["array"] = map[string]any{"value_type": e}
		return m, true
	case ast.KindMap:
		if t.Map == nil || t.Default != nil || len(t.Hints) != 0 {
			return nil, false
		}
		i, ok1 := yamlType(t.Map.IndexType)
		v, ok2 := yamlType(t.Map.ValueType)
		if !ok1 || !ok2 {
			return nil, false
		}
		m["map"] = map[string]any{"indextype": i, "valuetype": v}
		return m, true
	}
	return nil, false
}

func yamlScalar(kind string) map[string]any {
	return map[string]any{"kind": "scalar", "scalar": map[string]any{"scalar_kind": kind}}
}

func (g *c17Gen) resolvedFields(b *ast.Builder) []ast.StructField {
	r, st := c16Resolve(g.schemas, b.For.Type)
	if st != "ok" || !isRealStruct(r) {
		return nil
	}
	return r.Struct.Fields
}

// a dotted path of existing fields starting at the builder's object (length 1-2), or a bad one
func (g *c17Gen) path(b *ast.Builder) (string, ast.Type) {
	fs := g.resolvedFields(b)
	if len(fs) == 0 || g.r.chance(12) {
		return pick(g.r, []string{"nope", "", "a.nope", "a..b"}), ast.Type{}
	}
	f := pick(g.r, fs)
	p, t := f.Name, f.Type
	if f2 := g.fieldNamed(fs, "nest"); f2 != nil && g.r.chance(45) {
		p, t = f2.Name, f2.Type // the deep chain nest.inner.leaf.<field>
	}
	for hop := 0; hop < 3 && g.r.chance(60); hop++ {
		// one more hop if the field is a struct or a ref to an object that has a builder
		var inner []ast.StructField
		if isRealStruct(t) {
			inner = t.Struct.Fields
		} else if t.Kind == ast.KindRef && t.Ref != nil {
			for i := range g.bs {
				if g.bs[i].For.SelfRef.ReferredPkg == t.Ref.ReferredPkg && g.bs[i].For.SelfRef.ReferredType == t.Ref.ReferredType && isRealStruct(g.bs[i].For.Type) {
					inner = g.bs[i].For.Type.Struct.Fields
					break
				}
			}
		}
		if len(inner) == 0 {
			break
		}
		f2 := pick(g.r, inner)
		if strings.HasPrefix(p, "nest") && g.r.chance(70) { // stay on the chain
			for _, c := range inner {
				if c.Name == "inner" || c.Name == "leaf" {
					f2 = c
				}
			}
		}
		p, t = p+"."+f2.Name, f2.Type
	}
	return p, t
}

func (g *c17Gen) fieldNamed(fs []ast.StructField, name string) *ast.StructField {
	for i := range fs {
		if fs[i].Name == name {
			return &fs[i]
		}
	}
	return nil
}

func (g *c17Gen) constantFor(t ast.Type) any {
	if t.Kind == ast.KindScalar && t.Scalar != nil {
		switch t.Scalar.ScalarKind {
		case ast.KindBool:
			return g.r.chance(50)
		case ast.KindString:
			return pick(g.r, []string{"v", "hello"})
		case ast.KindFloat32, ast.KindFloat64:
			return 1.5
		case ast.KindAny, ast.KindBytes:
			return "x"
		default:
			return g.r.intn(9)
		}
	}
	return pick(g.r, []any{"c", 3, true})
}

// assignment value for a YAML-declared assignment to a path of type t, using argument `arg` if given
func (g *c17Gen) vvalue(t ast.Type, arg map[string]any) map[string]any {
	if arg != nil && g.r.chance(60) {
		return map[string]any{"argument": arg}
	}
	if g.r.chance(12) {
		return map[string]any{} // empty assignment value: AsIR returns an error
	}
	et := t
	if et.Kind == ast.KindArray && et.Array != nil {
		et = et.Array.ValueType
	}
	if et.Kind == ast.KindMap && et.Map != nil {
		et = et.Map.ValueType
	}
	if r, st := c16Resolve(g.schemas, et); g.r.chance(35) && st == "ok" && isRealStruct(r) && len(r.Struct.Fields) > 0 {
		vals := []any{}
		for i := 0; i < 1+g.r.intn(2); i++ {
			f := pick(g.r, r.Struct.Fields)
			name := f.Name
			if g.r.chance(8) {
				name = "nope"
			}
			vals = append(vals, map[string]any{"field": name, "value": map[string]any{"constant": g.constantFor(f.Type)}})
		}
		return map[string]any{"envelope": map[string]any{"values": vals}}
	}
	return map[string]any{"constant": g.constantFor(t)}
}

func (g *c17Gen) builderRule() (string, map[string]any) {
	b := g.builder()
	if b == nil {
		return "", map[string]any{"omit": map[string]any{"by_object": "Nope"}}
	}
	pkg := b.For.SelfRef.ReferredPkg
	if g.r.chance(6) {
		pkg = pick(g.r, []string{"nopkg", strings.ToUpper(pkg)})
	}
	optName := func(bb *ast.Builder) string {
		if len(bb.Options) == 0 {
			return "nope"
		}
		return g.nameLike(bb.Options[g.r.intn(len(bb.Options))].Name)
	}
	switch g.r.intn(11) {
	case 0:
		return pkg, map[string]any{"omit": g.bsel(b)}
	case 1:
		return pkg, map[string]any{"rename": merge(g.bsel(b), map[string]any{"as": pick(g.r, []string{"Renamed", b.Name + "2", "foo"})})}
	case 2:
		src := g.builder()
		for i := 0; i < 4 && src.For.SelfRef.ReferredPkg != b.For.SelfRef.ReferredPkg; i++ {
			src = g.builder()
		}
		under, _ := g.path(b)
		m := map[string]any{"destination": g.nameLike(b.Name), "source": src.Name, "under_path": under}
		if g.r.chance(8) {
			m["source"] = "Nope"
		}
		if g.r.chance(40) {
			m["exclude_options"] = []string{optName(src), "zzz"}
		}
		if g.r.chance(40) && len(src.Options) > 0 {
			m["rename_options"] = map[string]string{src.Options[g.r.intn(len(src.Options))].Name: "renamedOpt"}
		}
		return pkg, map[string]any{"merge_into": m}
	case 3:
		src := g.builder()
		cmap := map[string]string{}
		for i := 0; i < 1+g.r.intn(2); i++ {
			cb := g.builder()
			p, _ := g.path(src)
			cmap[cb.For.Name] = p
		}
		if g.r.chance(25) {
			p, _ := g.path(src)
			cmap["__schema_entrypoint"] = p
		}
		discr := "type"
		if fs := g.resolvedFields(src); len(fs) > 0 && g.r.chance(80) {
			discr = pick(g.r, fs).Name
		}
		m := merge(g.bsel(b), map[string]any{
			"source_builder_name":        src.For.SelfRef.ReferredPkg + "." + src.For.Name,
			"plugin_discriminator_field": discr,
			"composition_map":            cmap,
		})
		if g.r.chance(8) {
			m["source_builder_name"] = "nodot"
		}
		if g.r.chance(30) {
			m["exclude_options"] = []string{optName(src)}
		}
		if g.r.chance(30) {
			m["composed_builder_name"] = "Composed"
		}
		if g.r.chance(40) {
			m["preserve_original_builders"] = true
		}
		return pkg, map[string]any{"compose": m}
	case 4:
		props := []any{map[string]any{"name": "prop", "type": yamlScalar("string")}}
		if g.r.chance(40) {
			props = append(props, map[string]any{"name": "count", "type": yamlScalar("int64"), "required": true, "comments": []string{"c"}})
		}
		return pkg, map[string]any{"properties": merge(g.bsel(b), map[string]any{"set": props})}
	case 5:
		m := merge(g.bsel(b), map[string]any{"as": pick(g.r, []string{"Copy", b.Name + "Bis"})})
		if g.r.chance(40) {
			m["exclude_options"] = []string{optName(b)}
		}
		return pkg, map[string]any{"duplicate": m}
	case 6:
		set := []any{}
		for i := 0; i < 1+g.r.intn(2); i++ {
			p, t := g.path(b)
			set = append(set, map[string]any{"property": p, "value": pick(g.r, []any{g.constantFor(t), nil})})
		}
		return pkg, map[string]any{"initialize": merge(g.bsel(b), map[string]any{"set": set})}
	case 7:
		names := []string{optName(b)}
		if g.r.chance(30) {
			names = append(names, optName(b))
		}
		return pkg, map[string]any{"promote_options_to_constructor": merge(g.bsel(b), map[string]any{"options": names})}
	case 8, 9:
		p, t := g.path(b)
		var arg map[string]any
		args := []any{}
		if yt, ok := yamlType(t); ok && g.r.chance(75) {
			arg = map[string]any{"name": pick(g.r, []string{"value", "v", "items"}), "type": yt}
			args = append(args, arg)
		}
		asg := map[string]any{"path": p, "method": pick(g.r, []string{"direct", "direct", "append", "index"}), "value": g.vvalue(t, arg)}
		opt := map[string]any{"name": pick(g.r, []string{"added", "WithX", "a"}), "arguments": args, "assignments": []any{asg}}
		if g.r.chance(30) {
			opt["comments"] = []string{"added by a veneer"}
		}
		if g.r.chance(15) {
			opt["assignments"] = []any{}
		}
		return pkg, map[string]any{"add_option": merge(g.bsel(b), map[string]any{"option": opt})}
	default:
		params := []any{map[string]any{"constant": map[string]any{"type": yamlScalar("string"), "value": "x"}}}
		if g.r.chance(50) {
			params = append(params, map[string]any{"argument": map[string]any{"name": "n", "type": yamlScalar("int64")}})
		}
		if g.r.chance(30) {
			params = append(params, map[string]any{"factory": map[string]any{"ref": map[string]any{"package": pkg, "builder": b.Name, "factory": "Other"}, "parameters": []any{}}})
		}
		f := map[string]any{"name": "New" + b.Name, "arguments": []any{map[string]any{"name": "n", "type": yamlScalar("int64")}},
			"options": []any{map[string]any{"name": optName(b), "parameters": params}}}
		if g.r.chance(30) {
			f["comments"] = []string{"factory"}
		}
		return pkg, map[string]any{"add_factory": merge(g.bsel(b), map[string]any{"factory": f})}
	}
}

// option whose first argument has one of the wanted kinds (biased), else any option
func (g *c17Gen) optionOf(b *ast.Builder, want func(t ast.Type) bool) *ast.Option {
	if len(b.Options) == 0 {
		return nil
	}
	if want != nil && g.r.chance(75) {
		cands := []int{}
		for i, o := range b.Options {
			if len(o.Args) > 0 && want(o.Args[0].Type) {
				cands = append(cands, i)
			}
		}
		if len(cands) > 0 {
			return &b.Options[pick(g.r, cands)]
		}
	}
	return &b.Options[g.r.intn(len(b.Options))]
}

func (g *c17Gen) osel(b *ast.Builder, o *ast.Option) map[string]any {
	oname := "nope"
	if o != nil {
		oname = g.nameLike(o.Name)
	}
	n := g.r.intn(100)
	switch {
	case n < 40:
		return map[string]any{"by_name": g.nameLike(b.For.Name) + "." + oname}
	case n < 65:
		return map[string]any{"by_builder": g.nameLike(b.Name) + "." + oname}
	case n < 92:
		names := []string{oname}
		if len(b.Options) > 1 && g.r.chance(50) {
			names = append(names, b.Options[g.r.intn(len(b.Options))].Name)
		}
		m := map[string]any{"options": names}
		if g.r.chance(50) {
			m["object"] = g.nameLike(b.For.Name)
		} else {
			m["builder"] = g.nameLike(b.Name)
		}
		if g.r.chance(4) {
			delete(m, "object")
			delete(m, "builder")
		}
		return map[string]any{"by_names": m}
	case n < 96:
		return map[string]any{"by_name": "nodot"}
	}
	return map[string]any{}
}

func (g *c17Gen) optionRule() (string, map[string]any) {
	b := g.builder()
	if b == nil {
		return "", map[string]any{"omit": map[string]any{"by_name": "Nope.nope"}}
	}
	// option selectors compare the package exactly: the builder's own package (ByBuilder) or the
	// object's (ByName); both are the schema package for derived builders
	pkg := b.Package
	if g.r.chance(5) {
		pkg = "nopkg"
	}
	resolvesTo := func(t ast.Type, pred func(ast.Type) bool) bool {
		r, st := c16Resolve(g.schemas, t)
		return st == "ok" && pred(r)
	}
	kinds := 12
	k := g.r.intn(kinds)
	if k == 11 && g.nComments >= 2 {
		k = 1
	}
	switch k {
	case 0:
		return pkg, map[string]any{"omit": g.osel(b, g.optionOf(b, nil))}
	case 1:
		return pkg, map[string]any{"rename": merge(g.osel(b, g.optionOf(b, nil)), map[string]any{"as": pick(g.r, []string{"renamed", "With", "a"})})}
	case 2:
		o := g.optionOf(b, nil)
		n := 1
		if o != nil {
			n = len(o.Args)
		}
		if g.r.chance(15) {
			n++
		}
		as := []string{}
		for i := 0; i < n; i++ {
			as = append(as, pick(g.r, []string{"x", "y", "val", "key"}))
		}
		return pkg, map[string]any{"rename_arguments": merge(g.osel(b, o), map[string]any{"as": as})}
	case 3:
		o := g.optionOf(b, func(t ast.Type) bool { return t.Kind == ast.KindScalar && t.Scalar != nil && t.Scalar.ScalarKind == ast.KindBool })
		return pkg, map[string]any{"unfold_boolean": merge(g.osel(b, o), map[string]any{"true_as": "on", "false_as": "off"})}
	case 4, 5:
		o := g.optionOf(b, func(t ast.Type) bool {
			return isRealStruct(t) || (t.Kind == ast.KindRef && resolvesTo(t, isRealStruct)) || (t.Kind == ast.KindArray && t.Array != nil && resolvesTo(t.Array.ValueType, isRealStruct))
		})
		m := g.osel(b, o)
		if o != nil && len(o.Args) > 0 && g.r.chance(45) {
			if r, st := c16Resolve(g.schemas, o.Args[0].Type); st == "ok" && isRealStruct(r) && len(r.Struct.Fields) > 0 {
				m["fields"] = []string{pick(g.r, r.Struct.Fields).Name}
			} else {
				m["fields"] = []string{}
			}
		}
		key := "struct_fields_as_arguments"
		if k == 5 {
			key = "struct_fields_as_options"
		}
		return pkg, map[string]any{key: m}
	case 6:
		o := g.optionOf(b, func(t ast.Type) bool { return t.Kind == ast.KindArray })
		return pkg, map[string]any{"array_to_append": g.osel(b, o)}
	case 7:
		o := g.optionOf(b, func(t ast.Type) bool { return t.Kind == ast.KindMap })
		return pkg, map[string]any{"map_to_index": g.osel(b, o)}
	case 8:
		o := g.optionOf(b, func(t ast.Type) bool {
			return t.Kind == ast.KindDisjunction || (t.Kind == ast.KindRef && resolvesTo(t, func(r ast.Type) bool { return r.IsStructGeneratedFromDisjunction() }))
		})
		m := g.osel(b, o)
		if g.r.chance(25) {
			// also outside the option's arguments: negative, = len, > len (since /repo 423e7f3: option unchanged)
			n := 1
			if o != nil {
				n = len(o.Args)
			}
			m["argument_index"] = pick(g.r, []int{-1, -7, n, n + 1, n + 5, 1, 0})
		}
		return pkg, map[string]any{"disjunction_as_options": m}
	case 9:
		return pkg, map[string]any{"duplicate": merge(g.osel(b, g.optionOf(b, nil)), map[string]any{"as": pick(g.r, []string{"dup", "copyOf"})})}
	case 10:
		o := g.optionOf(b, nil)
		p, t := g.path(b)
		var arg map[string]any
		if o != nil && len(o.Args) > 0 {
			if yt, ok := yamlType(o.Args[0].Type); ok {
				arg = map[string]any{"name": o.Args[0].Name, "type": yt}
			}
		}
		asg := map[string]any{"path": p, "method": pick(g.r, []string{"direct", "append"}), "value": g.vvalue(t, arg)}
		return pkg, map[string]any{"add_assignment": merge(g.osel(b, o), map[string]any{"assignment": asg})}
	default:
		g.nComments++
		return pkg, map[string]any{"add_comments": merge(g.osel(b, g.optionOf(b, nil)), map[string]any{"comments": []string{pick(g.r, []string{"extra", "see docs"})}})}
	}
}

type scenRule struct {
	goPass    bool // false: language "all" pass, true: the target language's pass (runs after every "all" rule)
	isBuilder bool
	rule      map[string]any
}

// scenario: cooperating rule sequences in which a later rule selects the PRODUCT of an earlier one and
// only it (or only the original), common rules followed by language-specific ones. These are the
// sequences on which forgotten members of copies, shared pointers and partially promoted options show.
func (g *c17Gen) scenario() (string, []scenRule) {
	b := g.builder()
	if b == nil || len(b.Options) == 0 {
		return "", nil
	}
	pkg := b.Package
	resolvesTo := func(t ast.Type, pred func(ast.Type) bool) bool {
		r, st := c16Resolve(g.schemas, t)
		return st == "ok" && pred(r)
	}
	isStructArg := func(t ast.Type) bool { return isRealStruct(t) || (t.Kind == ast.KindRef && resolvesTo(t, isRealStruct)) }
	byName := func(bn, on string) map[string]any { return map[string]any{"by_builder": bn + "." + on} }
	objSel := func(on string) map[string]any { return map[string]any{"by_name": b.For.Name + "." + on} }
	later := g.r.chance(50) // the follow-up rule in the language-specific pass
	follow := func(sel map[string]any, o *ast.Option) map[string]any {
		switch g.r.intn(7) {
		case 0:
			n := 1
			if o != nil {
				n = len(o.Args)
			}
			as := []string{}
			for i := 0; i < n; i++ {
				as = append(as, pick(g.r, []string{"x", "y", "val"}))
			}
			return map[string]any{"rename_arguments": merge(sel, map[string]any{"as": as})}
		case 1:
			return map[string]any{"array_to_append": sel}
		case 2:
			return map[string]any{"map_to_index": sel}
		case 3:
			return map[string]any{"unfold_boolean": merge(sel, map[string]any{"true_as": "on", "false_as": "off"})}
		case 4:
			return map[string]any{"struct_fields_as_arguments": sel}
		case 5:
			return map[string]any{"struct_fields_as_options": sel}
		}
		return map[string]any{"rename_arguments": merge(sel, map[string]any{"as": []string{"renamedArg"}})}
	}
	switch g.r.intn(9) {
	case 0: // option duplicate, then a rule on the copy only / on the original only
		o := g.optionOf(b, nil)
		first := scenRule{rule: map[string]any{"duplicate": merge(objSel(o.Name), map[string]any{"as": "dupOf" + o.Name})}}
		target := "dupOf" + o.Name
		if g.r.chance(35) {
			target = o.Name
		}
		return pkg, []scenRule{first, {goPass: later, rule: follow(objSel(target), o)}}
	case 1: // struct_fields_as_arguments, then promote the (now multi-argument) option
		o := g.optionOf(b, isStructArg)
		return pkg, []scenRule{{rule: map[string]any{"struct_fields_as_arguments": objSel(o.Name)}},
			{goPass: true, isBuilder: true, rule: map[string]any{"promote_options_to_constructor": map[string]any{"by_object": b.For.Name, "options": []string{o.Name}}}}}
	case 2: // map_to_index / array_to_append, then something that looks at the rewritten option
		o := g.optionOf(b, func(t ast.Type) bool { return t.Kind == ast.KindMap || t.Kind == ast.KindArray })
		key := "map_to_index"
		if len(o.Args) > 0 && o.Args[0].Type.Kind == ast.KindArray {
			key = "array_to_append"
		}
		second := scenRule{goPass: later, rule: follow(objSel(o.Name), o)}
		if g.r.chance(30) {
			second = scenRule{goPass: true, isBuilder: true, rule: map[string]any{"promote_options_to_constructor": map[string]any{"by_object": b.For.Name, "options": []string{o.Name}}}}
		}
		return pkg, []scenRule{{rule: map[string]any{key: objSel(o.Name)}}, second}
	case 3: // builder duplicate, then an option rule on the copy's option only
		o := g.optionOf(b, nil)
		return pkg, []scenRule{{isBuilder: true, rule: map[string]any{"duplicate": map[string]any{"by_object": b.For.Name, "as": b.Name + "Copy"}}},
			{goPass: later, rule: follow(byName(b.Name+"Copy", o.Name), o)}}
	case 4: // add_assignment using the option's argument, then a rule that rewrites the argument
		o := g.optionOf(b, nil)
		p, _ := g.path(b)
		var arg map[string]any
		if len(o.Args) > 0 {
			if yt, ok := yamlType(o.Args[0].Type); ok {
				arg = map[string]any{"name": o.Args[0].Name, "type": yt}
			}
		}
		val := map[string]any{"constant": 1}
		if arg != nil {
			val = map[string]any{"argument": arg}
		}
		return pkg, []scenRule{{rule: map[string]any{"add_assignment": merge(objSel(o.Name), map[string]any{"assignment": map[string]any{"path": p, "method": "direct", "value": val}})}},
			{goPass: later, rule: follow(objSel(o.Name), o)}}
	case 5: // promote, then a rule that rewrites the promoted option's argument
		o := g.optionOf(b, nil)
		return pkg, []scenRule{{isBuilder: true, rule: map[string]any{"promote_options_to_constructor": map[string]any{"by_object": b.For.Name, "options": []string{o.Name}}}},
			{goPass: later, rule: follow(objSel(o.Name), o)}}
	case 6: // members added to a builder, then the builder is duplicated (language pass)
		var first map[string]any
		switch g.r.intn(3) {
		case 0:
			first = map[string]any{"properties": map[string]any{"by_object": b.For.Name, "set": []any{map[string]any{"name": "prop", "type": yamlScalar("string")}}}}
		case 1:
			first = map[string]any{"add_factory": map[string]any{"by_object": b.For.Name, "factory": map[string]any{"name": "New" + b.Name, "options": []any{}}}}
		default:
			p, t := g.path(b)
			first = map[string]any{"initialize": map[string]any{"by_object": b.For.Name, "set": []any{map[string]any{"property": p, "value": g.constantFor(t)}}}}
		}
		return pkg, []scenRule{{isBuilder: true, rule: first},
			{goPass: later, isBuilder: true, rule: map[string]any{"duplicate": map[string]any{"by_object": b.For.Name, "as": b.Name + "Copy"}}}}
	case 7: // merge_into, then a rule on the merged option (selected through the destination only)
		src := g.builder()
		o := g.optionOf(src, nil)
		if o == nil {
			return "", nil
		}
		under, _ := g.path(b)
		return pkg, []scenRule{{isBuilder: true, rule: map[string]any{"merge_into": map[string]any{"destination": b.Name, "source": src.Name, "under_path": under}}},
			{goPass: later, rule: follow(objSel(o.Name), o)}}
	default: // option duplicate in the common pass, rename of the copy in the language pass, then a rule on the renamed copy
		o := g.optionOf(b, nil)
		return pkg, []scenRule{{rule: map[string]any{"duplicate": merge(objSel(o.Name), map[string]any{"as": "twin"})}},
			{goPass: true, rule: map[string]any{"rename": merge(objSel("twin"), map[string]any{"as": "twinRenamed"})}},
			{goPass: true, rule: follow(objSel("twinRenamed"), o)}}
	}
}

// genVeneerFiles: 1-3 files; the rules of a file share the package of the first rule drawn for it.
func genVeneerFiles(r *rng, schemas ast.Schemas, bs []ast.Builder, tier string) (string, []vFile) {
	g := &c17Gen{r: r, schemas: schemas, bs: bs, focus: -1}
	if len(bs) > 0 && r.chance(80) {
		g.focus = r.intn(len(bs))
	}
	language := "go"
	if r.chance(35) {
		if pkg, rules := g.scenario(); len(rules) > 0 {
			files := []vFile{{Language: "all", Package: pkg}, {Language: "go", Package: pkg}}
			for _, sr := range rules {
				f := &files[0]
				if sr.goPass {
					f = &files[1]
				}
				if sr.isBuilder {
					f.Builders = append(f.Builders, sr.rule)
				} else {
					f.Options = append(f.Options, sr.rule)
				}
			}
			// sometimes one unrelated rule on top
			if r.chance(30) {
				g.curPkg = pkg
				if _, extra := g.optionRule(); extra != nil {
					files[r.intn(2)].Options = append(files[r.intn(2)].Options, extra)
				}
			}
			return language, files
		}
	}
	maxRules := 4
	if tier == "thorough" {
		maxRules = 8
	}
	total := 1 + r.intn(maxRules)
	nFiles := 1 + r.intn(3)
	files := make([]vFile, nFiles)
	for i := range files {
		files[i].Language = pick(r, []string{"all", "all", "go", "go", "java"})
		if len(schemas) > 0 {
			files[i].Package = pick(r, schemas).Package
			if g.focus >= 0 && r.chance(75) {
				files[i].Package = bs[g.focus].For.SelfRef.ReferredPkg
			}
		}
		switch {
		case r.chance(3):
			files[i].Package = "nopkg"
		case r.chance(2):
			files[i].Package = ""
		}
	}
	for i := 0; i < total; i++ {
		f := &files[r.intn(nFiles)]
		g.curPkg = f.Package
		var rule map[string]any
		isBuilder := r.chance(40)
		if isBuilder {
			_, rule = g.builderRule()
		} else {
			_, rule = g.optionRule()
		}
		if r.chance(2) {
			rule = map[string]any{} // empty rule
		}
		if isBuilder {
			f.Builders = append(f.Builders, rule)
		} else {
			f.Options = append(f.Options, rule)
		}
	}
	return language, files
}
