package main

// VIR encoding of decoded veneer rule files (cogyaml.Veneers, i.e. what yaml.v3 produced from the
// generated file). Lean side: lean/Cog/Builder/Vir.lean (veneersIn). The order in which the members
// of a rule / selector are tested mirrors the `AsRewriteRule` / `AsSelector` switch of the loader
// only in that exactly one member is printed; the generator never sets two.

import (
	"sort"
	"strconv"
	"strings"

	"github.com/grafana/cog/internal/ast"
	"github.com/grafana/cog/internal/veneers"
	cogyaml "github.com/grafana/cog/internal/yaml"
)

func virStrList(head string, ss []string) string { return virStrs(head, ss) }

func virStrMap(head string, m map[string]string) string { return virPairsHead(head, m) }

func virBSel(s cogyaml.BuilderSelector) string {
	switch {
	case s.ByObject != nil:
		return "(by_object " + virQuote(*s.ByObject) + ")"
	case s.ByName != nil:
		return "(by_name " + virQuote(*s.ByName) + ")"
	case s.ByVariant != nil:
		return "(by_variant " + virQuote(*s.ByVariant) + ")"
	case s.GeneratedFromDisjunction != nil:
		return "(gen)"
	}
	return "(empty)"
}

func virVValue(v veneers.AssignmentValue) string {
	a := "none"
	if v.Argument != nil {
		a = virArg(*v.Argument)
	}
	e := "none"
	if v.Envelope != nil {
		parts := []string{"env"}
		for _, f := range v.Envelope.Values {
			parts = append(parts, "(ef "+virQuote(f.Field)+" "+virVValue(f.Value)+")")
		}
		e = "(" + strings.Join(parts, " ") + ")"
	}
	return "(vv " + a + " " + virVal(v.Constant) + " " + e + ")"
}

func virVAssignment(a veneers.Assignment) string {
	return "(vasg " + virQuote(a.Path) + " " + virQuote(string(a.Method)) + " " + virVValue(a.Value) + ")"
}

func virVOption(o veneers.Option) string {
	gs := []string{"vasgs"}
	for _, a := range o.Assignments {
		gs = append(gs, virVAssignment(a))
	}
	return "(vopt " + virQuote(o.Name) + " " + virStrs("c", o.Comments) + " " + virArgs(o.Arguments) + " (" + strings.Join(gs, " ") + "))"
}

func virBRule(r cogyaml.BuilderRule) string {
	switch {
	case r.Omit != nil:
		return "(omit " + virBSel(*r.Omit) + ")"
	case r.Rename != nil:
		return "(rename " + virBSel(r.Rename.BuilderSelector) + " " + virQuote(r.Rename.As) + ")"
	case r.MergeInto != nil:
		m := r.MergeInto
		return "(merge_into " + virQuote(m.Destination) + " " + virQuote(m.Source) + " " + virQuote(m.UnderPath) + " " + virStrList("ex", m.ExcludeOptions) + " " + virStrMap("ren", m.RenameOptions) + ")"
	case r.ComposeBuilders != nil:
		c := r.ComposeBuilders
		return "(compose " + virBSel(c.BuilderSelector) + " " + virQuote(c.SourceBuilderName) + " " + virQuote(c.PluginDiscriminatorField) + " " + virStrList("ex", c.ExcludeOptions) + " " + virStrMap("map", c.CompositionMap) + " " + virQuote(c.ComposedBuilderName) + " " + virBool(c.PreserveOriginalBuilders) + ")"
	case r.Properties != nil:
		parts := []string{"properties", virBSel(r.Properties.BuilderSelector)}
		for _, f := range r.Properties.Set {
			parts = append(parts, virStructField(f))
		}
		return "(" + strings.Join(parts, " ") + ")"
	case r.Duplicate != nil:
		return "(duplicate " + virBSel(r.Duplicate.BuilderSelector) + " " + virQuote(r.Duplicate.As) + " " + virStrList("ex", r.Duplicate.ExcludeOptions) + ")"
	case r.Initialize != nil:
		parts := []string{"initialize", virBSel(r.Initialize.BuilderSelector)}
		for _, s := range r.Initialize.Set {
			parts = append(parts, "("+virQuote(s.Property)+" "+virVal(s.Value)+")")
		}
		return "(" + strings.Join(parts, " ") + ")"
	case r.PromoteOptsToConstructor != nil:
		parts := []string{"promote", virBSel(r.PromoteOptsToConstructor.BuilderSelector)}
		for _, o := range r.PromoteOptsToConstructor.Options {
			parts = append(parts, virQuote(o))
		}
		return "(" + strings.Join(parts, " ") + ")"
	case r.AddOption != nil:
		return "(add_option " + virBSel(r.AddOption.BuilderSelector) + " " + virVOption(r.AddOption.Option) + ")"
	case r.AddFactory != nil:
		return "(add_factory " + virBSel(r.AddFactory.BuilderSelector) + " " + virFactory(r.AddFactory.Factory) + ")"
	}
	return "(empty)"
}

func virOSel(s cogyaml.OptionSelector) string {
	switch {
	case s.ByName != nil:
		return "(by_name " + virQuote(*s.ByName) + ")"
	case s.ByBuilder != nil:
		return "(by_builder " + virQuote(*s.ByBuilder) + ")"
	case s.ByNames != nil:
		parts := []string{"by_names", virQuote(s.ByNames.Object), virQuote(s.ByNames.Builder)}
		for _, o := range s.ByNames.Options {
			parts = append(parts, virQuote(o))
		}
		return "(" + strings.Join(parts, " ") + ")"
	}
	return "(empty)"
}

func virFields(fs []string) string {
	if fs == nil {
		return "none"
	}
	return virStrs("fields", fs)
}

func virORule(r cogyaml.OptionRule) string {
	switch {
	case r.Omit != nil:
		return "(omit " + virOSel(*r.Omit) + ")"
	case r.Rename != nil:
		return "(rename " + virOSel(r.Rename.OptionSelector) + " " + virQuote(r.Rename.As) + ")"
	case r.RenameArguments != nil:
		parts := []string{"rename_arguments", virOSel(r.RenameArguments.OptionSelector)}
		for _, a := range r.RenameArguments.As {
			parts = append(parts, virQuote(a))
		}
		return "(" + strings.Join(parts, " ") + ")"
	case r.UnfoldBoolean != nil:
		return "(unfold_boolean " + virOSel(r.UnfoldBoolean.OptionSelector) + " " + virQuote(r.UnfoldBoolean.TrueAs) + " " + virQuote(r.UnfoldBoolean.FalseAs) + ")"
	case r.StructFieldsAsArguments != nil:
		return "(sf_args " + virOSel(r.StructFieldsAsArguments.OptionSelector) + " " + virFields(r.StructFieldsAsArguments.Fields) + ")"
	case r.StructFieldsAsOptions != nil:
		return "(sf_opts " + virOSel(r.StructFieldsAsOptions.OptionSelector) + " " + virFields(r.StructFieldsAsOptions.Fields) + ")"
	case r.ArrayToAppend != nil:
		return "(array_to_append " + virOSel(r.ArrayToAppend.OptionSelector) + ")"
	case r.MapToIndex != nil:
		return "(map_to_index " + virOSel(r.MapToIndex.OptionSelector) + ")"
	case r.DisjunctionAsOptions != nil:
		return "(disj_as_opts " + virOSel(r.DisjunctionAsOptions.OptionSelector) + " " + strconv.Itoa(r.DisjunctionAsOptions.ArgumentIndex) + ")"
	case r.Duplicate != nil:
		return "(duplicate " + virOSel(r.Duplicate.OptionSelector) + " " + virQuote(r.Duplicate.As) + ")"
	case r.AddAssignment != nil:
		return "(add_assignment " + virOSel(r.AddAssignment.OptionSelector) + " " + virVAssignment(r.AddAssignment.Assignment) + ")"
	case r.AddComments != nil:
		parts := []string{"add_comments", virOSel(r.AddComments.OptionSelector)}
		for _, c := range r.AddComments.Comments {
			parts = append(parts, virQuote(c))
		}
		return "(" + strings.Join(parts, " ") + ")"
	}
	return "(empty)"
}

func virVeneersFile(v cogyaml.Veneers) string {
	bs := []string{"builders"}
	for _, r := range v.Builders {
		bs = append(bs, virBRule(r))
	}
	os := []string{"options"}
	for _, r := range v.Options {
		os = append(os, virORule(r))
	}
	return "(file " + virQuote(v.Language) + " " + virQuote(v.Package) + " (" + strings.Join(bs, " ") + ") (" + strings.Join(os, " ") + "))"
}

func virVeneers(language string, files []cogyaml.Veneers) string {
	parts := []string{"veneers", virQuote(language)}
	for _, f := range files {
		parts = append(parts, virVeneersFile(f))
	}
	return "(" + strings.Join(parts, " ") + ")"
}

var _ = sort.Strings
var _ = ast.KindRef
