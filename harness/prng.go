package main

// splitmix64: every random choice of the harness derives from one state so that a
// case is reproducible from (seed, index).
type rng struct{ s uint64 }

func newRng(seed uint64) *rng { return &rng{s: seed*0x9E3779B97F4A7C15 + 0x1234567} }

func (r *rng) next() uint64 {
	r.s += 0x9E3779B97F4A7C15
	z := r.s
	z = (z ^ (z >> 30)) * 0xBF58476D1CE4E5B9
	z = (z ^ (z >> 27)) * 0x94D049BB133111EB
	return z ^ (z >> 31)
}

func (r *rng) intn(n int) int {
	if n <= 0 {
		return 0
	}
	return int(r.next() % uint64(n))
}

func (r *rng) chance(pct int) bool { return r.intn(100) < pct }

func pick[T any](r *rng, xs []T) T { return xs[r.intn(len(xs))] }
