package main

// degradeDefs rewrites the constructs a format cannot express (level 1) — and optionally those
// cog's front-end for that format is known to drop (level 2) — into the nearest construct the
// format does express, so that the same random term can be exercised in all three formats. The
// rewritten term is what gets rendered AND what the case reports as its Src, so models always see
// the schema that was really used. Every rewrite is recorded.

import (
	"fmt"
	"sort"
	"strconv"
)

type degrader struct {
	d      *Defs
	format string
	level  int
	log    map[string]int
	extra  []Def
	nAuto  int

	inNullable bool
}

func degradeDefs(d *Defs, format string, level int) (*Defs, []string) {
	if level <= 0 {
		return d, nil
	}
	g := &degrader{d: d.clone(), format: format, level: level, log: map[string]int{}}
	for i := range g.d.Items {
		g.d.Items[i].Ty = g.ty(g.d.Items[i].Ty, true)
	}
	g.d.Items = append(g.d.Items, g.extra...)
	notes := []string{}
	for k, n := range g.log {
		notes = append(notes, fmt.Sprintf("%s x%d", k, n))
	}
	sort.Strings(notes)
	return g.d, notes
}

func (g *degrader) ty(s *Src, attrOK bool) *Src {
	switch s.Kind {
	case SInt:
		return g.intTy(s)
	case SNum:
		if g.format == "cue" && s.FLo != nil && s.FHi != nil {
			g.log["num.twoBounds→lower only"]++
			c := *s
			c.FHi = nil
			return &c
		}
		if g.format == "jsonschema" && s.Width == 32 {
			g.log["num.f32→f64"]++
			c := *s
			c.Width = 64
			return &c
		}
	case SConst:
		if g.format == "openapi" && (s.Const.K == 't' || s.Const.K == 'f') {
			g.log["const.bool→bool"]++
			return srcBool()
		}
	case SEnumS:
		// cue level 2: `null | "a" | "b"` → `null | #AutoEnumN`
		if g.format == "cue" && !attrOK && g.level >= 2 && g.inNullable && len(s.EnumS) > 1 {
			g.nAuto++
			name := fmt.Sprintf("AutoEnum%d", g.nAuto)
			for g.d.lookup(name) != nil {
				g.nAuto++
				name = fmt.Sprintf("AutoEnum%d", g.nAuto)
			}
			g.extra = append(g.extra, Def{name, s})
			g.log["nullable.enumS.inline→ref"]++
			return srcRef(name)
		}
	case SEnumI:
		if g.format == "cue" && !attrOK {
			g.nAuto++
			name := fmt.Sprintf("AutoEnum%d", g.nAuto)
			for g.d.lookup(name) != nil {
				g.nAuto++
				name = fmt.Sprintf("AutoEnum%d", g.nAuto)
			}
			g.extra = append(g.extra, Def{name, s})
			g.log["enumI.nested→ref"]++
			return srcRef(name)
		}
	case SNullable:
		saved := g.inNullable
		g.inNullable = true
		s.Elem = g.ty(s.Elem, false)
		g.inNullable = saved
		if g.format == "openapi" {
			k := s.Elem.Kind
			switch {
			case k == SRef:
				g.log["elem.nullable.ref→not nullable"]++
				return s.Elem
			case k == SString || k == SInt || k == SNum:
			case k == SConst && s.Elem.Const.K == 's' && regexSafeConst(s.Elem.Const.S):
			case g.level >= 2:
				g.log["elem.nullable."+k.String()+"→not nullable"]++
				return s.Elem
			}
		}
	case SArray:
		s.Elem = g.ty(s.Elem, false)
	case SDict:
		s.Elem = g.ty(s.Elem, false)
	case SOneOfScalars:
		if g.format == "cue" && srcConstUnion(s.Alts) && s.Alts[0].Const.K == 'n' {
			// `0 | 1 | 2` without member names is refused by cog's CUE front-end ("numeric enums may only be
			// generated from memberNames attribute"): the union of integer constants IS an integer enum there
			allInt := true
			e := &Src{Kind: SEnumI}
			for _, a := range s.Alts {
				v, err := strconv.ParseInt(a.Const.S, 10, 64)
				if a.Const.K != 'n' || err != nil {
					allInt = false
					break
				}
				e.EnumI = append(e.EnumI, v)
			}
			if allInt {
				g.log["union.constInts→enumI"]++
				return g.ty(e, attrOK)
			}
		}
		for i := range s.Alts {
			s.Alts[i] = g.ty(s.Alts[i], false)
		}
	case SStruct:
		for i := range s.Fields {
			f := &s.Fields[i]
			g.inNullable = f.Nullable
			f.Ty = g.ty(f.Ty, !f.Nullable)
			g.inNullable = false
			g.field(f)
		}
	}
	return s
}

func (g *degrader) field(f *Field) {
	k := f.Ty.Kind
	if f.Default != nil {
		switch g.format {
		case "jsonschema":
			if k == SRef {
				g.log["default.onRef→dropped"]++
				f.Default = nil
			} else if g.level >= 2 && (k == SEnumS || k == SEnumI || k == SStruct || k == SOneOfScalars) {
				g.log["default."+k.String()+"→dropped"]++
				f.Default = nil
			}
		case "cue":
			if rt := g.d.resolve(f.Ty); g.level >= 2 && f.Nullable && rt != nil && rt.Kind == SStruct {
				// `null | #S | *{…}`: cog's Python output prints the default in Go syntax
				g.log["default.struct.nullable→dropped"]++
				f.Default = nil
			} else if g.level >= 2 && k == SStruct {
				// Python output for a default on an inline struct is not Python (Go %#v syntax)
				g.log["default.struct.inline→dropped"]++
				f.Default = nil
			}
		case "openapi":
			if k == SRef {
				g.log["default.onRef→dropped"]++
				f.Default = nil
			} else if g.level >= 2 && (k == SStruct || k == SOneOfScalars) {
				g.log["default."+k.String()+"→dropped"]++
				f.Default = nil
			} else if k == SStruct && f.Default.K == 'o' {
				// OpenAPI requires `default` to be a valid instance (kin-openapi refuses the document)
				for _, sf := range f.Ty.Fields {
					if _, ok := f.Default.get(sf.Name); sf.Required && !ok {
						g.log["default.struct.partial→dropped"]++
						f.Default = nil
						break
					}
				}
			}
		}
	}
	if f.Nullable && g.format == "openapi" {
		switch {
		case k == SRef:
			g.log["nullable.ref→dropped"]++
			f.Nullable = false
		case k == SString || k == SInt || k == SNum:
		case k == SConst && f.Ty.Const.K == 's' && regexSafeConst(f.Ty.Const.S):
		case g.level >= 2:
			g.log["nullable."+k.String()+"→dropped"]++
			f.Nullable = false
		}
	}
}

func (g *degrader) intTy(s *Src) *Src {
	c := *s
	lo, hi := s.effRange()
	switch g.format {
	case "jsonschema":
		if s.Width == 64 && s.Signed {
			return s
		}
		c.Width, c.Signed = 64, true
		if s.Width == 64 { // uint64: only the lower bound can be kept
			if s.Lo == nil || *s.Lo < 0 {
				c.Lo = i64p(0)
			}
			g.log["int.u64→i64,min0"]++
			return &c
		}
		c.Lo, c.Hi = &lo, &hi
		g.log["int.narrow→i64+bounds"]++
		return &c
	case "openapi":
		if s.Signed && (s.Width == 32 || s.Width == 64) {
			return s
		}
		c.Signed = true
		switch {
		case s.Width <= 16:
			c.Width = 32
			c.Lo, c.Hi = &lo, &hi
			g.log["int.narrow→i32+bounds"]++
		case s.Width == 32: // uint32
			c.Width = 64
			c.Lo, c.Hi = &lo, &hi
			g.log["int.u32→i64+bounds"]++
		default: // uint64
			c.Width = 64
			if s.Lo == nil || *s.Lo < 0 {
				c.Lo = i64p(0)
			}
			g.log["int.u64→i64,min0"]++
		}
		return &c
	}
	return s
}
