package main

// C02 stream `c02-lab`: Src terms × 3 formats under Go flag combinations (pairwise covering array in
// quick, every combination in thorough) with builders / converters on and off, through the shared
// lab: real pipeline, real `go build`, real Python import. Rows:
//
//   defschemas <id> <post-chain Go IR as VIR>            \t ok                         \t ok
//   godecl <id> <pkg> <flags>                            \t <verdict> <fragment text>   \t oracle verdict
//        verdict = the Go type checker on the declaration fragment alone (see c02_frag.go)
//   -                                                    \t go <id> …                   \t oracle verdict (whole package)
//   -                                                    \t py <id> …                   \t oracle verdict
//   -                                                    \t scan <id> files=n           \t oracle verdict (placeholder texts)
//
// The oracle is the property itself: run reported success ∧ (compile/import error ∨ placeholder) ⇒ FAIL.

import (
	"bufio"
	"fmt"
	"sort"
	"strings"
)

// c02Covering returns a pairwise covering array for k ≤ 10 binary factors in 6 rows: the all-zero
// row plus five rows whose columns are distinct 5-bit vectors of weight 3.
func c02Covering(k int) [][]bool {
	cols := [][]bool{}
	for v := 0; v < 32 && len(cols) < k; v++ {
		w := 0
		for b := 0; b < 5; b++ {
			if v>>b&1 == 1 {
				w++
			}
		}
		if w == 3 {
			col := make([]bool, 6)
			for b := 0; b < 5; b++ {
				col[b+1] = v>>b&1 == 1
			}
			cols = append(cols, col)
		}
	}
	rows := make([][]bool, 6)
	for r := range rows {
		rows[r] = make([]bool, k)
		for c := 0; c < k; c++ {
			rows[r][c] = cols[c][r]
		}
	}
	return rows
}

// c02Combo is one point of the configuration space.
type c02Combo struct {
	Go           GoFlags
	EnumsAsUnion bool
	Builders     bool
	Converters   bool
	APIRef       bool
	LangMarshal  bool
	LangSkipRT   bool
}

func c02ComboOfBits(bits []bool) c02Combo {
	g := func(i int) bool { return i < len(bits) && bits[i] }
	return c02Combo{Go: GoFlags{JSONMarshaller: g(0), StrictUnmarshaller: g(1), Equal: g(2), Validate: g(3), AnyAsInterface: g(4), SkipRuntime: g(5)}, EnumsAsUnion: g(6)}
}

// c02Combos: the flag combinations of a tier. quick: the six rows of the covering array over the 7
// flags, each with the complement row's worth of pairs already covered, plus the all-on row.
// thorough: all 2^7 combinations.
func c02Combos(tier string) []c02Combo {
	out := []c02Combo{}
	if tier == "thorough" {
		for v := 0; v < 128; v++ {
			bits := make([]bool, 7)
			for b := 0; b < 7; b++ {
				bits[b] = v>>b&1 == 1
			}
			out = append(out, c02ComboOfBits(bits))
		}
		return out
	}
	for _, row := range c02Covering(7) {
		out = append(out, c02ComboOfBits(row))
	}
	out = append(out, c02ComboOfBits([]bool{true, true, true, true, true, false, true}))  // everything on, runtime kept
	out = append(out, c02ComboOfBits([]bool{true, true, true, true, false, false, false})) // the default flags of the other labs
	return out
}

// c02Mode: types only / builders / builders+converters, api_reference on and off.
func c02Mode(j int, c c02Combo) c02Combo {
	switch j % 3 {
	case 1:
		c.Builders = true
	case 2:
		c.Builders, c.Converters = true, true
	}
	c.APIRef = j%2 == 0
	c.LangMarshal = j%4 < 2
	c.LangSkipRT = j%5 == 3
	return c
}

func (c c02Combo) String() string {
	b := func(x bool) string {
		if x {
			return "1"
		}
		return "0"
	}
	return fmt.Sprintf("go=%s union=%s builders=%s converters=%s apiref=%s marshal=%s skiprt=%s", goFlagBits(c.Go), b(c.EnumsAsUnion), b(c.Builders), b(c.Converters), b(c.APIRef), b(c.LangMarshal), b(c.LangSkipRT))
}

// placeholder texts of cog's printers (collected from /repo/internal/jennies: return values and
// template texts for unknown / unhandled / unsupported / unimplemented cases)
type c02Placeholder struct {
	Text  string
	Langs []string // nil = every language
	Word  bool     // match as a whole word (identifier boundaries)
}

var c02Placeholders = []c02Placeholder{
	{Text: "unhandled type def kind", Langs: nil},
	{Text: "unhandled object of type", Langs: nil},
	{Text: "unsupported default value case", Langs: nil},
	{Text: "found an unimplemented", Langs: nil},
	{Text: "/* unhandled scalar type */", Langs: nil},
	{Text: "/* unhandled type */", Langs: nil},
	{Text: "we should never be here", Langs: nil},
	{Text: "is not implemented for python", Langs: nil},
	// the bare word `unknown` is cog's fallback type name in Go, Java, Python and PHP; in TypeScript
	// `unknown` is a legitimate type, there the fallback cannot be told apart by a byte scan
	{Text: "unknown", Langs: []string{"go", "java", "python", "php"}, Word: true},
}

func c02IsWordByte(b byte) bool {
	return b == '_' || b >= '0' && b <= '9' || b >= 'a' && b <= 'z' || b >= 'A' && b <= 'Z'
}

// c02ScanFile returns the placeholders found in one emitted file.
func c02ScanFile(path string, data []byte) []string {
	lang := c02LangOf(path)
	text := string(data)
	found := []string{}
	for _, p := range c02Placeholders {
		if p.Langs != nil {
			ok := false
			for _, l := range p.Langs {
				ok = ok || l == lang
			}
			if !ok {
				continue
			}
		}
		from := 0
		for {
			i := strings.Index(text[from:], p.Text)
			if i < 0 {
				break
			}
			i += from
			from = i + len(p.Text)
			if p.Word {
				if i > 0 && c02IsWordByte(text[i-1]) || from < len(text) && c02IsWordByte(text[from]) {
					continue
				}
				// legitimate uses of the English word in cog's own fixed texts (error messages of the runtime)
				ls := strings.LastIndexByte(text[:i], '\n') + 1
				le := strings.IndexByte(text[i:], '\n')
				if le < 0 {
					le = len(text) - i
				}
				line := text[ls : i+le]
				if strings.Contains(line, "can not convert unknown disjunction branch") || strings.Contains(line, "Unknown panel type") {
					continue
				}
			}
			found = append(found, p.Text)
			break
		}
	}
	return found
}

func c02ScanFiles(files map[string][]byte) (hits []string, n int) {
	for _, name := range c02SortedNames(files) {
		n++
		for _, h := range c02ScanFile(name, files[name]) {
			hits = append(hits, fmt.Sprintf("%s in %s", strings.ReplaceAll(h, " ", "_"), name))
		}
	}
	return hits, n
}

// c02CaseText is the description every FAIL row carries: what the known-findings patterns and the
// replay are matched against.
func c02CaseText(lang, class string, trig []string, combo string, format string, d *Defs) string {
	src := "-"
	if d != nil {
		src = d.sexp()
	}
	sort.Strings(trig)
	return fmt.Sprintf("lang=%s class=%s trig=%s format=%s %s src=%s", lang, class, strings.Join(trig, ","), format, combo, src)
}

func init() {
	register("c02-lab", func(args map[string]string, out *bufio.Writer) error {
		n := argInt(args, "n", 12)
		seed := uint64(argInt(args, "seed", 1))
		from := argInt(args, "from", 0)
		tier := args["tier"]
		combos := c02Combos(tier)
		opts := defaultLabOpts()
		opts.Keep = args["keep"] == "1"
		opts.Degrade = argInt(args, "degrade", 2)
		lab, err := NewLab(labWorkDir("c02lab-"+args["seed"]+"-"+tier), opts)
		if err != nil {
			return err
		}
		defer lab.Close()
		gen := argGenOpts(args)
		type entry struct {
			c     *LabCase
			combo c02Combo
			frag  *c02Fragment
			ferr  string
		}
		entries := []*entry{}
		hist := map[string]int{}
		terms := []*Defs{}
		if path, ok := args["file"]; ok {
			for _, line := range readLines(path) {
				d, err := parseDefsSexp(line)
				if err != nil {
					return err
				}
				terms = append(terms, d)
			}
		} else {
			for i := from; i < from+n; i++ {
				// one term in three: definitions (and members) renamed into a non-canonical style (c02_names.go)
				terms = append(terms, c02MaybeRestyle(genDefs(seed, i, gen), i+int(seed), ""))
			}
			c02Spell = "mixed" // constants: one of the spellings of the source format per term (c02_spell.go)
		}
		if sp, ok := args["spell"]; ok {
			c02Spell = sp
		}
		j := int(seed) * 7
		for _, d := range terms {
			d.walkTags(func(t string) { hist[t]++ })
			for _, f := range labFormats {
				if only, ok := args["format"]; ok && only != f {
					continue
				}
				combo := c02Mode(j, combos[j%len(combos)])
				if fb, ok := args["goflags"]; ok {
					combo.Go = goFlagsOfBits(fb)
				}
				if v, ok := args["builders"]; ok {
					combo.Builders = v == "1"
				}
				if v, ok := args["converters"]; ok {
					combo.Converters = v == "1"
					combo.Builders = combo.Builders || combo.Converters
				}
				j++
				c := lab.AddCaseWith(d, f, combo.Go, combo.Builders, combo.Converters)
				e := &entry{c: c, combo: combo}
				entries = append(entries, e)
				if !c.generated() {
					continue
				}
				src, ok := c.Files["go/"+c.ID+"/types_gen.go"]
				if !ok {
					e.ferr = "no types_gen.go"
					continue
				}
				frag, err := c02ExtractFragment(src, "frag"+c.ID)
				if err != nil {
					e.ferr = "fragment: " + labOneLine(err.Error())
					continue
				}
				e.frag = frag
				lab.AddGoExt("frag"+c.ID, map[string]string{"frag.go": frag.Source})
			}
		}
		if err := lab.Build(); err != nil {
			return err
		}
		counts := map[string]int{}
		for _, e := range entries {
			c := e.c
			switch {
			case c.Defs == nil || len(c.Unsupported) > 0:
				counts["unsupported-by-format"]++
				fmt.Fprintf(out, "-\tskip %s unsupported-by-format %s\tok\n", c.ID, labOneLine(strings.Join(c.Unsupported, ",")))
				continue
			case c.GenErr != "":
				// the run returned an error: the property holds vacuously (panics are C04's business)
				counts["run-error"]++
				fmt.Fprintf(out, "-\tskip %s run-error %s\tok\n", c.ID, labOneLine(labFirstLine(c.GenErr)))
				continue
			}
			counts["run-ok"]++
			combo := e.combo.String()
			trig := c02Triggers(c.Defs, e.combo)
			// declaration fragment vs. the Lean model
			if e.frag != nil && c.IRGoErr == "" {
				verdict := "welltyped"
				if diag := lab.GoExtErr("frag" + c.ID); diag != "" {
					verdict = "illtyped:" + c02FirstDiag(diag)
				}
				fmt.Fprintf(out, "defschemas %s %s\tok\tok\n", c.ID, virSchemas(c.IRGo))
				fmt.Fprintf(out, "godecl %s %s %s\t%s %s\tok\n", c.ID, c.ID, goFlagBits(e.combo.Go), verdict, e.frag.Stripped)
			} else {
				fmt.Fprintf(out, "-\tskip %s no-fragment %s %s\tok\n", c.ID, e.ferr, labOneLine(c.IRGoErr))
			}
			// whole Go package
			switch {
			case c.GoOK:
				counts["go-ok"]++
				fmt.Fprintf(out, "-\tgo %s ok %s\tok\n", c.ID, combo)
			case strings.HasPrefix(c.GoCompileErr, "glue: "):
				counts["go-glue-only"]++
				fmt.Fprintf(out, "-\tgo %s glue-failed %s\tok\n", c.ID, labOneLine(labFirstLine(c.GoCompileErr)))
			default:
				counts["go-fail"]++
				class := c02FirstDiag(c.GoCompileErr)
				fmt.Fprintf(out, "-\tgo %s compile-error %s\tFAIL go-compile %s diag=%s\n", c.ID, labOneLine(labFirstLine(c.GoCompileErr)),
					c02CaseText("go", class, trig, combo, c.Format, c.Defs), labOneLine(labFirstLine(c.GoCompileErr)))
			}
			// Python
			if !lab.Opts.NoPython {
				if c.PyOK {
					counts["py-ok"]++
					fmt.Fprintf(out, "-\tpy %s ok\tok\n", c.ID)
				} else {
					counts["py-fail"]++
					class := c02PyClass(c.PyImportErr)
					fmt.Fprintf(out, "-\tpy %s import-error %s\tFAIL py-import %s diag=%s\n", c.ID, labOneLine(c.PyImportErr),
						c02CaseText("python", class, trig, combo, c.Format, c.Defs), labOneLine(c.PyImportErr))
				}
			}
			// placeholders in every file the lab's pipeline emitted (go, python, jsonschema, openapi)
			hits, nf := c02ScanFiles(c.Files)
			if len(hits) == 0 {
				fmt.Fprintf(out, "-\tscan %s files=%d\tok\n", c.ID, nf)
			} else {
				counts["placeholder"]++
				fmt.Fprintf(out, "-\tscan %s files=%d %s\tFAIL placeholder %s hits=%s\n", c.ID, nf, hits[0],
					c02CaseText(c02LangOf(strings.SplitN(hits[0], " in ", 2)[1]), "placeholder:"+strings.SplitN(hits[0], " in ", 2)[0], trig, combo, c.Format, c.Defs), strings.Join(hits, ";"))
			}
		}
		fmt.Fprintf(out, "-\tstats cases=%d %v combos=%d timings=%s constructs=%v buildlog=%v\tok\n", len(entries), counts, len(combos), fmtTimings(lab.Timings), hist, lab.BuildLog)
		return nil
	})
}

func c02PyClass(msg string) string {
	for _, k := range []string{"SyntaxError", "NameError", "TypeError", "ImportError", "ModuleNotFoundError", "AttributeError", "IndentationError", "ValueError"} {
		if strings.Contains(msg, k) {
			return k
		}
	}
	return "other"
}
