package main

import (
	"github.com/grafana/cog/internal/ast"
	cogyaml "github.com/grafana/cog/internal/yaml"
)

func c17Pinned(name string) c17Case { return c17Case{} }

func c17OracleFailed(cs c17Case, decoded []cogyaml.Veneers, status string) string { return "ok" }

func c17Oracle(cs c17Case, decoded []cogyaml.Veneers, out []ast.Builder) string { return "ok" }
