package main

// Implementation-side oracle for C17. It re-applies the decoded rules ONE AT A TIME with the real
// rule functions (cogyaml.*Rule.AsRewriteRule -> internal/veneers/{builder,option}) in the order the
// rewriter uses, checks after every step, on the real data:
//   * well-typedness (goWT) is preserved,
//   * frame: builders / options the rule did not select are unchanged and keep their relative order,
//   * the rule's contract (omit removes, rename only renames, duplicate yields an identical copy under
//     the new name, array_to_append / map_to_index / unfold_boolean / struct_fields_as_* /
//     disjunction_as_options still assign the same target),
// and finally that this stepwise run ends in exactly what rewrite.Rewriter.ApplyTo returned.
// Selectors are re-implemented here from the YAML structs (independently of the veneers package).

import (
	"fmt"
	"strings"

	"github.com/grafana/cog/internal/ast"
	cogyaml "github.com/grafana/cog/internal/yaml"
)

/* ---------- well-typedness on the real data ---------- */

func typeKeyErased(t ast.Type, alsoNullable bool) string {
	t.Default = nil
	if alsoNullable {
		t.Nullable = false
	}
	return virType(t)
}

func goDeclared(args []ast.Argument, a ast.Argument) bool {
	for _, d := range args {
		if d.Name == a.Name && typeKeyErased(d.Type, true) == typeKeyErased(a.Type, true) {
			return true
		}
	}
	return false
}

func goStructFields(schemas ast.Schemas, t ast.Type) ([]ast.StructField, bool) {
	r, st := c16Resolve(schemas, t)
	if st != "ok" || !isRealStruct(r) {
		return nil, false
	}
	return r.Struct.Fields, true
}

func goWalkPath(schemas ast.Schemas, args []ast.Argument, p ast.Path, cur ast.Type) string {
	for _, it := range p {
		if it.Index != nil {
			r, st := c16Resolve(schemas, cur)
			var v ast.Type
			switch {
			case st == "ok" && r.Kind == ast.KindArray && r.Array != nil:
				v = r.Array.ValueType
			case st == "ok" && r.Kind == ast.KindMap && r.Map != nil:
				v = r.Map.ValueType
			default:
				return "index-into-non-collection"
			}
			if typeKeyErased(it.Type, false) != typeKeyErased(v, false) {
				// the one shape map_to_index produces after array_to_append: the path ends in an array of
				// maps and the index item carries the inner map's value type
				if r.Kind == ast.KindArray && v.Kind == ast.KindMap && v.Map != nil &&
					typeKeyErased(it.Type, false) == typeKeyErased(v.Map.ValueType, false) {
					return "index-item-type-through-array-of-maps"
				}
				return "index-item-type"
			}
			if it.Index.Argument != nil && !goDeclared(args, *it.Index.Argument) {
				return "index-argument-undeclared"
			}
		} else {
			fs, ok := goStructFields(schemas, cur)
			if !ok {
				through := "unresolved"
				if r, st := c16Resolve(schemas, cur); st == "ok" {
					through = string(r.Kind)
				}
				return "(through " + through + "):path-through-non-struct"
			}
			found := false
			for _, f := range fs {
				if f.Name == it.Identifier {
					found = true
					if typeKeyErased(it.Type, false) != typeKeyErased(f.Type, false) {
						return "path-item-type"
					}
					break
				}
			}
			if !found {
				return "path-field-missing"
			}
		}
		cur = it.Type
		if it.TypeHint != nil {
			cur = *it.TypeHint
		}
	}
	return ""
}

func goValueWT(schemas ast.Schemas, args []ast.Argument, v ast.AssignmentValue) string {
	if v.Argument != nil && !goDeclared(args, *v.Argument) {
		return "value-argument-undeclared"
	}
	if v.Envelope != nil {
		if _, ok := goStructFields(schemas, v.Envelope.Type); !ok {
			return "envelope-not-struct"
		}
		for _, ev := range v.Envelope.Values {
			if why := goWalkPath(schemas, args, ev.Path, v.Envelope.Type); why != "" {
				if i := strings.Index(why, "):"); strings.HasPrefix(why, "(") && i >= 0 {
					return why[:i+2] + "envelope-" + why[i+2:]
				}
				return "envelope-" + why
			}
			if why := goValueWT(schemas, args, ev.Value); why != "" {
				return why
			}
		}
	}
	return ""
}

func goAssignmentWT(schemas ast.Schemas, root ast.Type, args []ast.Argument, a ast.Assignment) string {
	if len(a.Path) == 0 {
		return "empty-path"
	}
	if why := goWalkPath(schemas, args, a.Path, root); why != "" {
		return why
	}
	if why := goValueWT(schemas, args, a.Value); why != "" {
		return why
	}
	for _, c := range a.Constraints {
		if !goDeclared(args, c.Argument) {
			return "constraint-argument-undeclared"
		}
	}
	return ""
}

// goWT: "" when well-typed, else "<where>:<why>"
func goWT(schemas ast.Schemas, b ast.Builder) string {
	for i, a := range b.Constructor.Assignments {
		if why := goAssignmentWT(schemas, b.For.Type, b.Constructor.Args, a); why != "" {
			return fmt.Sprintf("constructor[%d]:%s", i, why)
		}
	}
	for _, o := range b.Options {
		for i, a := range o.Assignments {
			if why := goAssignmentWT(schemas, b.For.Type, o.Args, a); why != "" {
				return fmt.Sprintf("option %s[%d]%s", o.Name, i, sepWhy(why))
			}
		}
	}
	return ""
}

// sepWhy: "<why>" -> ":<why>", "(detail):<why>" -> " (detail):<why>" (the detail stays out of the reason,
// which is what failure classes and known-finding patterns are keyed on)
func sepWhy(why string) string {
	if strings.HasPrefix(why, "(") {
		return " " + why
	}
	return ":" + why
}

func goWTBits(schemas ast.Schemas, bs []ast.Builder) string {
	var sb strings.Builder
	for _, b := range bs {
		if goWT(schemas, b) == "" {
			sb.WriteByte('t')
		} else {
			sb.WriteByte('f')
		}
	}
	return sb.String()
}

/* ---------- snapshots (rules mutate in place: everything is compared as text) ---------- */

type optSnap struct {
	name     string
	vir      string
	virNoName string
	paths    []string
	pathItems [][]string
	nArgs    int
	hasDflt  bool
}

type bSnap struct {
	nCtorArgs, nCtorAsgs int
	key   string // pkg.object/name
	vir   string
	head  string // everything but the options
	headNoName string
	opts  []optSnap
	wt    string
	nFact int
}

func snapOpt(o ast.Option) optSnap {
	s := optSnap{name: o.Name, vir: virOption(o), nArgs: len(o.Args), hasDflt: o.Default != nil}
	o2 := o
	o2.Name = ""
	s.virNoName = virOption(o2)
	for _, a := range o.Assignments {
		s.paths = append(s.paths, virPath(a.Path))
		items := []string{}
		for _, it := range a.Path {
			items = append(items, virPathItem(it))
		}
		s.pathItems = append(s.pathItems, items)
	}
	return s
}

func snapBuilder(schemas ast.Schemas, b ast.Builder) bSnap {
	s := bSnap{key: b.For.SelfRef.ReferredPkg + "." + b.For.Name + "/" + b.Name, vir: virBuilder(b), wt: goWT(schemas, b), nFact: len(b.Factories),
		nCtorArgs: len(b.Constructor.Args), nCtorAsgs: len(b.Constructor.Assignments)}
	b2 := b
	b2.Options = nil
	s.head = virBuilder(b2)
	b2.Name = ""
	s.headNoName = virBuilder(b2)
	for _, o := range b.Options {
		s.opts = append(s.opts, snapOpt(o))
	}
	return s
}

func snapAll(schemas ast.Schemas, bs []ast.Builder) []bSnap {
	out := make([]bSnap, 0, len(bs))
	for _, b := range bs {
		out = append(out, snapBuilder(schemas, b))
	}
	return out
}

/* ---------- selectors, re-implemented ---------- */

func oracleBSel(sel cogyaml.BuilderSelector, pkg string, schemas ast.Schemas, b ast.Builder) bool {
	switch {
	case sel.ByObject != nil:
		return strings.EqualFold(b.For.SelfRef.ReferredPkg, pkg) && strings.EqualFold(b.For.SelfRef.ReferredType, *sel.ByObject)
	case sel.ByName != nil:
		return strings.EqualFold(b.For.SelfRef.ReferredPkg, pkg) && strings.EqualFold(b.Name, *sel.ByName)
	case sel.ByVariant != nil:
		for _, s := range schemas {
			if s.Package == b.For.SelfRef.ReferredPkg {
				return string(s.Metadata.Kind) == "composable" && string(s.Metadata.Variant) == *sel.ByVariant && s.Metadata.Identifier != ""
			}
		}
		return false
	case sel.GeneratedFromDisjunction != nil:
		r, st := c16Resolve(schemas, b.For.Type)
		return st == "ok" && r.Kind == ast.KindStruct && (r.Hints["disjunction_of_scalars"] != nil || r.Hints["disjunction_of_refs"] != nil)
	}
	return false
}

func foldIn(needle string, hay []string) bool {
	for _, h := range hay {
		if strings.EqualFold(h, needle) {
			return true
		}
	}
	return false
}

func oracleOSel(sel cogyaml.OptionSelector, pkg string, b ast.Builder, o ast.Option) bool {
	byName := func(obj string, names []string) bool {
		return b.For.SelfRef.ReferredPkg == pkg && strings.EqualFold(b.For.Name, obj) && foldIn(o.Name, names)
	}
	byBuilder := func(bn string, names []string) bool {
		return b.Package == pkg && strings.EqualFold(b.Name, bn) && foldIn(o.Name, names)
	}
	switch {
	case sel.ByName != nil:
		obj, name, _ := strings.Cut(*sel.ByName, ".")
		return byName(obj, []string{name})
	case sel.ByBuilder != nil:
		bn, name, _ := strings.Cut(*sel.ByBuilder, ".")
		return byBuilder(bn, []string{name})
	case sel.ByNames != nil:
		if sel.ByNames.Builder != "" {
			return byBuilder(sel.ByNames.Builder, sel.ByNames.Options)
		}
		return byName(sel.ByNames.Object, sel.ByNames.Options)
	}
	return false
}

/* ---------- the rules in execution order ---------- */

type vStep struct {
	isBuilder bool
	pkg       string
	kind      string
	b         cogyaml.BuilderRule
	o         cogyaml.OptionRule
	endOfPhase bool // after this step the rewriter dismisses option-less builders
}

func bRuleKind(r cogyaml.BuilderRule) (string, *cogyaml.BuilderSelector) {
	switch {
	case r.Omit != nil:
		return "omit", r.Omit
	case r.Rename != nil:
		return "rename", &r.Rename.BuilderSelector
	case r.MergeInto != nil:
		d := r.MergeInto.Destination
		return "merge_into", &cogyaml.BuilderSelector{ByName: &d}
	case r.ComposeBuilders != nil:
		return "compose", &r.ComposeBuilders.BuilderSelector
	case r.Properties != nil:
		return "properties", &r.Properties.BuilderSelector
	case r.Duplicate != nil:
		return "duplicate", &r.Duplicate.BuilderSelector
	case r.Initialize != nil:
		return "initialize", &r.Initialize.BuilderSelector
	case r.PromoteOptsToConstructor != nil:
		return "promote", &r.PromoteOptsToConstructor.BuilderSelector
	case r.AddOption != nil:
		return "add_option", &r.AddOption.BuilderSelector
	case r.AddFactory != nil:
		return "add_factory", &r.AddFactory.BuilderSelector
	}
	return "empty", nil
}

func oRuleKind(r cogyaml.OptionRule) (string, *cogyaml.OptionSelector) {
	switch {
	case r.Omit != nil:
		return "omit", r.Omit
	case r.Rename != nil:
		return "rename", &r.Rename.OptionSelector
	case r.RenameArguments != nil:
		return "rename_arguments", &r.RenameArguments.OptionSelector
	case r.UnfoldBoolean != nil:
		return "unfold_boolean", &r.UnfoldBoolean.OptionSelector
	case r.StructFieldsAsArguments != nil:
		return "struct_fields_as_arguments", &r.StructFieldsAsArguments.OptionSelector
	case r.StructFieldsAsOptions != nil:
		return "struct_fields_as_options", &r.StructFieldsAsOptions.OptionSelector
	case r.ArrayToAppend != nil:
		return "array_to_append", &r.ArrayToAppend.OptionSelector
	case r.MapToIndex != nil:
		return "map_to_index", &r.MapToIndex.OptionSelector
	case r.DisjunctionAsOptions != nil:
		return "disjunction_as_options", &r.DisjunctionAsOptions.OptionSelector
	case r.Duplicate != nil:
		return "duplicate", &r.Duplicate.OptionSelector
	case r.AddAssignment != nil:
		return "add_assignment", &r.AddAssignment.OptionSelector
	case r.AddComments != nil:
		return "add_comments", &r.AddComments.OptionSelector
	}
	return "empty", nil
}

func executionOrder(language string, files []cogyaml.Veneers) []vStep {
	steps := []vStep{}
	for _, l := range []string{"all", language} {
		for _, f := range files {
			if f.Language != l {
				continue
			}
			for _, r := range f.Builders {
				k, _ := bRuleKind(r)
				steps = append(steps, vStep{isBuilder: true, pkg: f.Package, kind: k, b: r})
			}
		}
		for _, f := range files {
			if f.Language != l {
				continue
			}
			for _, r := range f.Options {
				k, _ := oRuleKind(r)
				steps = append(steps, vStep{pkg: f.Package, kind: k, o: r})
			}
		}
		steps = append(steps, vStep{kind: "dismiss", endOfPhase: true})
	}
	return steps
}

/* ---------- the oracle ---------- */

type stepOutcome struct {
	status string // ok | err | panic
}

func applyStep(schemas ast.Schemas, bs []ast.Builder, st vStep) (out []ast.Builder, status string) {
	defer func() {
		if e := recover(); e != nil {
			out, status = nil, "panic"
		}
	}()
	if st.endOfPhase {
		kept := []ast.Builder{}
		for _, b := range bs {
			if len(b.Options) != 0 {
				kept = append(kept, b)
			}
		}
		return kept, "ok"
	}
	if st.isBuilder {
		rule, err := st.b.AsRewriteRule(st.pkg)
		if err != nil {
			return nil, "err"
		}
		res, err := rule(schemas, bs)
		if err != nil {
			return nil, "err"
		}
		return res, "ok"
	}
	rule, err := st.o.AsRewriteRule(st.pkg)
	if err != nil {
		return nil, "err"
	}
	for i, b := range bs {
		processed := make([]ast.Option, 0, len(b.Options))
		for _, opt := range b.Options {
			if !rule.Selector(b, opt) {
				processed = append(processed, opt)
				continue
			}
			processed = append(processed, rule.Action(schemas, b, opt)...)
		}
		bs[i].Options = processed
	}
	return bs, "ok"
}

func isSubsequence(sub, seq []string) bool {
	j := 0
	for _, s := range seq {
		if j < len(sub) && sub[j] == s {
			j++
		}
	}
	return j == len(sub)
}

func optVirs(os []optSnap) []string {
	out := make([]string, len(os))
	for i, o := range os {
		out[i] = o.vir
	}
	return out
}

func hasPrefixPath(path, prefix string) bool {
	// paths are printed "(path item item …)": prefix relation on the item lists
	p := strings.TrimSuffix(prefix, ")")
	return path == prefix || strings.HasPrefix(path, p+" ")
}

// WT preservation is claimed for these rules unconditionally; merge_into / add_option / add_assignment
// depend on the rule's own parameters being well-typed (their under_path / declared arguments) and
// are not flagged here.
var wtClaimed = map[string]bool{"omit": true, "rename": true, "compose": true, "properties": true, "duplicate": true,
	"initialize": true, "promote": true, "add_factory": true, "rename_arguments": true, "unfold_boolean": true,
	"struct_fields_as_arguments": true, "struct_fields_as_options": true, "array_to_append": true, "map_to_index": true,
	"disjunction_as_options": true, "add_comments": true, "dismiss": true}

// c17Hazard: sequences outside the domain on which the Lean model claims to be faithful
// (ComposeBuilders ranges over a Go map of panel types; the builder it creates shares the backing
// arrays of the source builder's Constructor.Assignments / Properties, so later appends may collide).
var c17Hazard string

func c17OracleRun(cs c17Case, decoded []cogyaml.Veneers, wantStatus string, wantVir string) (verdict string, stats string) {
	c17Hazard = ""
	composed := false
	sharing := []string{}
	bs, pm := runFromAST(cs.schemas)
	if pm != "" {
		return "ok", ""
	}
	steps := executionOrder(cs.language, decoded)
	everSelected := map[string]bool{}
	statParts := []string{}
	fail := ""
	setFail := func(s string) {
		if fail == "" {
			fail = s
		}
	}
	status := "ok"
	for _, st := range steps {
		before := snapAll(cs.schemas, bs)
		selB := make([]bool, len(bs))
		selO := make([][]bool, len(bs))
		nSel := 0
		if st.isBuilder {
			_, sel := bRuleKind(st.b)
			for i, b := range bs {
				if sel != nil && oracleBSel(*sel, st.pkg, cs.schemas, b) {
					selB[i] = true
					nSel++
					everSelected[before[i].key] = true
				}
			}
		} else if !st.endOfPhase {
			_, sel := oRuleKind(st.o)
			for i, b := range bs {
				selO[i] = make([]bool, len(b.Options))
				for j, o := range b.Options {
					if sel != nil && oracleOSel(*sel, st.pkg, b, o) {
						selO[i][j] = true
						nSel++
						everSelected[before[i].key] = true
					}
				}
			}
		}
		if st.isBuilder && nSel > 0 {
			switch st.kind {
			case "compose":
				ids := map[string]bool{}
				for i, b := range bs {
					if selB[i] {
						for _, sch := range cs.schemas {
							if sch.Package == b.For.SelfRef.ReferredPkg {
								ids[sch.Metadata.Identifier] = true
								break
							}
						}
					}
				}
				if len(ids) > 1 {
					c17Hazard = "compose-map-order"
				}
				if composed {
					c17Hazard = "compose-append-aliasing"
				}
				composed = true
			case "initialize", "promote", "merge_into", "properties":
				if composed {
					c17Hazard = "compose-append-aliasing"
				}
			}
		}
		if nSel > 0 {
			switch st.kind {
			case "promote", "merge_into", "compose":
				// (add_option / add_assignment no longer share anything with the rule: /repo b52532c)
				sharing = append(sharing, st.kind)
			}
		}
		var out []ast.Builder
		out, status = applyStep(cs.schemas, bs, st)
		if status != "ok" {
			which := "option-"
			if st.isBuilder {
				which = "builder-"
			}
			statParts = append(statParts, fmt.Sprintf("%s%s:%s", which, st.kind, status))
			break
		}
		bs = out
		after := snapAll(cs.schemas, bs)
		statParts = append(statParts, fmt.Sprintf("%s:%d", st.kind, nSel))
		who := st.kind
		if st.isBuilder {
			who = "builder-" + st.kind
		} else if !st.endOfPhase {
			who = "option-" + st.kind
		}

		// --- frame and contracts
		switch {
		case st.endOfPhase:
			kept := []string{}
			for _, b := range before {
				if len(b.opts) != 0 {
					kept = append(kept, b.vir)
				} else if !everSelected[b.key] {
					setFail(fmt.Sprintf("FAIL frame-dismissed(option-less-builder): builder %s was selected by no rule, has no options, and is dismissed by applyOptionRules", b.key))
				}
			}
			_ = kept
		case st.isBuilder:
			c17CheckBuilderStep(st, who, before, after, selB, setFail)
		default:
			c17CheckOptionStep(st, who, before, after, selO, setFail)
		}

		// --- well-typedness preserved
		if wtClaimed[st.kind] {
			allBefore := true
			for _, b := range before {
				if b.wt != "" {
					allBefore = false
				}
			}
			if allBefore {
				for _, a := range after {
					if a.wt != "" {
						why := a.wt
						if i := strings.LastIndexByte(why, ':'); i >= 0 {
							why = why[i+1:]
						}
						place := "option"
						if strings.HasPrefix(a.wt, "constructor") {
							place = "constructor"
						}
						detail := ""
						if st.isBuilder && st.kind == "promote" && len(before) == len(after) {
							// how much the rule put into the constructors: it declares one argument per promoted option
							dArgs, dAsgs := 0, 0
							for x := range before {
								dArgs += after[x].nCtorArgs - before[x].nCtorArgs
								dAsgs += after[x].nCtorAsgs - before[x].nCtorAsgs
							}
							detail = fmt.Sprintf(" [promote: +%d constructor assignments, +%d constructor arguments]", dAsgs, dArgs)
						}
						setFail(fmt.Sprintf("FAIL wt-broken(%s/%s/%s): builder %s: %s%s", who, place, why, a.key, a.wt, detail))
						break
					}
				}
			}
		}
		if fail != "" {
			break
		}
	}
	stats = strings.Join(statParts, ",")
	if fail != "" {
		if len(sharing) > 0 {
			// the class (text before the first ':') says so too, so that failures with and without
			// previously shared pointers are never folded into one class
			if i := strings.Index(fail, "):"); i >= 0 {
				fail = fail[:i] + "/after-" + strings.Join(sharing, "+") + fail[i:]
			}
			fail += " [pointers-shared-by=" + strings.Join(sharing, "+") + "]"
		}
		return fail, stats
	}
	// the stepwise run must end where the real rewriter ended
	if status != wantStatus {
		return fmt.Sprintf("FAIL stepper-disagrees: stepwise application ended %q, Rewriter.ApplyTo ended %q", status, wantStatus), stats
	}
	if status == "ok" && virBuilders(bs) != wantVir {
		return "FAIL stepper-disagrees: stepwise application of the rule functions and Rewriter.ApplyTo produce different builders", stats
	}
	return "ok", stats
}

func c17CheckBuilderStep(st vStep, who string, before, after []bSnap, sel []bool, setFail func(string)) {
	virs := func(ss []bSnap) []string {
		out := make([]string, len(ss))
		for i, s := range ss {
			out[i] = s.vir
		}
		return out
	}
	switch st.kind {
	case "omit":
		want := []string{}
		for i, b := range before {
			if !sel[i] {
				want = append(want, b.vir)
			}
		}
		if strings.Join(want, "\n") != strings.Join(virs(after), "\n") {
			setFail(fmt.Sprintf("FAIL contract-omit(%s): result is not exactly the unselected builders in order", who))
		}
	case "duplicate":
		if len(after) < len(before) || strings.Join(virs(before), "\n") != strings.Join(virs(after[:len(before)]), "\n") {
			setFail(fmt.Sprintf("FAIL frame-builders(%s): the existing builders changed", who))
			return
		}
		k := len(before)
		for i, b := range before {
			if !sel[i] {
				continue
			}
			if k >= len(after) {
				setFail(fmt.Sprintf("FAIL contract-duplicate(%s): no copy of %s", who, b.key))
				return
			}
			cp := after[k]
			k++
			if cp.headNoName != b.headNoName {
				what := "members"
				if cp.nFact != b.nFact {
					what = "factories"
				}
				setFail(fmt.Sprintf("FAIL contract-duplicate(%s/%s): the copy of %s differs from the original in its %s", who, what, b.key, what))
				return
			}
			ex := st.b.Duplicate.ExcludeOptions
			want := []optSnap{}
			for _, o := range b.opts {
				if len(ex) != 0 && foldIn(o.name, ex) {
					continue
				}
				want = append(want, o)
			}
			if len(want) != len(cp.opts) {
				setFail(fmt.Sprintf("FAIL contract-duplicate(%s): the copy of %s has %d options, expected %d", who, b.key, len(cp.opts), len(want)))
				return
			}
			for j := range want {
				if want[j].vir != cp.opts[j].vir {
					what := "members"
					if want[j].hasDflt && !cp.opts[j].hasDflt {
						what = "default"
					}
					setFail(fmt.Sprintf("FAIL contract-duplicate(%s/option-%s): option %s of the copy of %s lost/changed its %s", who, what, want[j].name, b.key, what))
					return
				}
			}
		}
		if k != len(after) {
			setFail(fmt.Sprintf("FAIL contract-duplicate(%s): %d extra builders", who, len(after)-k))
		}
	case "compose":
		want := []string{}
		for i, b := range before {
			if !sel[i] {
				want = append(want, b.vir)
			}
		}
		// unselected builders unchanged, in order, first (when the source builder exists; otherwise nothing changes at all)
		if strings.Join(virs(before), "\n") == strings.Join(virs(after), "\n") {
			return
		}
		if len(after) < len(want) || strings.Join(want, "\n") != strings.Join(virs(after[:len(want)]), "\n") {
			setFail(fmt.Sprintf("FAIL frame-builders(%s): unselected builders changed or moved", who))
		}
	default:
		// in-place rules: same builders, same order; unselected ones identical
		if len(after) != len(before) {
			setFail(fmt.Sprintf("FAIL frame-builders(%s): number of builders changed from %d to %d", who, len(before), len(after)))
			return
		}
		for i := range before {
			if !sel[i] && before[i].vir != after[i].vir {
				setFail(fmt.Sprintf("FAIL frame-builders(%s): unselected builder %s changed", who, before[i].key))
				return
			}
		}
		if st.kind == "merge_into" {
			c17CheckMergeInto(st, who, before, after, sel, setFail)
		}
		if st.kind == "rename" {
			for i := range before {
				if sel[i] && (before[i].headNoName != after[i].headNoName || strings.Join(optVirs(before[i].opts), "\n") != strings.Join(optVirs(after[i].opts), "\n")) {
					setFail(fmt.Sprintf("FAIL contract-rename(%s): builder %s changed in more than its name", who, before[i].key))
					return
				}
			}
		}
	}
}

// merge_into contract: the options appended to the destination are the source's options (minus the
// excluded ones), in order, each assignment targeting `under_path ++ <the source assignment's path>`:
// one common prefix, the source path as suffix ("still assign the same target", under the new root).
func c17CheckMergeInto(st vStep, who string, before, after []bSnap, sel []bool, setFail func(string)) {
	m := st.b.MergeInto
	for i := range before {
		if !sel[i] || len(after[i].opts) < len(before[i].opts) {
			continue
		}
		pkg := before[i].key[:strings.IndexByte(before[i].key, '.')]
		srcIdx := -1
		for x := range before {
			if strings.HasPrefix(before[x].key, pkg+".") && strings.HasSuffix(before[x].key, "/"+m.Source) {
				srcIdx = x
				break
			}
		}
		if srcIdx < 0 || (sel[srcIdx] && srcIdx <= i) {
			continue // no source, or the source was itself rewritten earlier in this step
		}
		want := []optSnap{}
		for _, o := range before[srcIdx].opts {
			excluded := false
			for _, e := range m.ExcludeOptions {
				excluded = excluded || e == o.name
			}
			if !excluded {
				want = append(want, o)
			}
		}
		got := after[i].opts[len(before[i].opts):]
		if len(got) != len(want) {
			continue // under_path did not resolve: the builder is returned untouched
		}
		prefix := ""
		havePrefix := false
		for k := range want {
			if len(got[k].pathItems) != len(want[k].pathItems) {
				setFail(fmt.Sprintf("FAIL contract-merge_into(%s): merged option %s of %s has another number of assignments than the source option", who, got[k].name, before[i].key))
				return
			}
			for a := range want[k].pathItems {
				src, dst := want[k].pathItems[a], got[k].pathItems[a]
				if len(dst) < len(src) || strings.Join(dst[len(dst)-len(src):], " ") != strings.Join(src, " ") {
					setFail(fmt.Sprintf("FAIL contract-merge_into(%s): merged option %s of %s no longer assigns the source option's target under the new root", who, got[k].name, before[i].key))
					return
				}
				p := strings.Join(dst[:len(dst)-len(src)], " ")
				if havePrefix && p != prefix {
					setFail(fmt.Sprintf("FAIL contract-merge_into(%s): merged options of %s are not all under the same path", who, before[i].key))
					return
				}
				prefix, havePrefix = p, true
			}
		}
	}
}

func c17CheckOptionStep(st vStep, who string, before, after []bSnap, sel [][]bool, setFail func(string)) {
	if len(after) != len(before) {
		setFail(fmt.Sprintf("FAIL frame-builders(%s): an option rule changed the number of builders", who))
		return
	}
	for i := range before {
		b, a := before[i], after[i]
		if b.head != a.head {
			setFail(fmt.Sprintf("FAIL frame-builder-members(%s): an option rule changed builder %s outside its options (constructor / properties / factories / name)", who, b.key))
			return
		}
		unsel := []string{}
		selIdx := []int{}
		for j, o := range b.opts {
			if sel[i][j] {
				selIdx = append(selIdx, j)
			} else {
				unsel = append(unsel, o.vir)
			}
		}
		if !isSubsequence(unsel, optVirs(a.opts)) {
			setFail(fmt.Sprintf("FAIL frame-options(%s): an unselected option of builder %s changed or moved", who, b.key))
			return
		}
		if len(selIdx) != 1 {
			continue // several selected options in one builder: outputs cannot be aligned without knowing their count
		}
		j := selIdx[0]
		tail := len(b.opts) - j - 1
		if len(a.opts) < j+tail {
			setFail(fmt.Sprintf("FAIL frame-options(%s): options of builder %s were lost", who, b.key))
			return
		}
		for x := 0; x < j; x++ {
			if a.opts[x].vir != b.opts[x].vir {
				setFail(fmt.Sprintf("FAIL frame-options(%s): an unselected option of builder %s changed or moved", who, b.key))
				return
			}
		}
		for x := 0; x < tail; x++ {
			if a.opts[len(a.opts)-tail+x].vir != b.opts[j+1+x].vir {
				setFail(fmt.Sprintf("FAIL frame-options(%s): an unselected option of builder %s changed or moved", who, b.key))
				return
			}
		}
		outs := a.opts[j : len(a.opts)-tail]
		old := b.opts[j]
		c17CheckOptionContract(st, who, b.key, old, outs, setFail)
	}
}

func c17CheckOptionContract(st vStep, who, bkey string, old optSnap, outs []optSnap, setFail func(string)) {
	where := bkey + "." + old.name
	sameTarget := func(o optSnap) bool { // every assignment of o targets the old first target or below it
		if len(old.paths) == 0 {
			return true
		}
		for _, p := range o.paths {
			ok := false
			for _, q := range old.paths {
				if hasPrefixPath(p, q) {
					ok = true
				}
			}
			if !ok {
				return false
			}
		}
		return true
	}
	switch st.kind {
	case "omit":
		if len(outs) != 0 {
			setFail(fmt.Sprintf("FAIL contract-omit(%s): option %s is still there", who, where))
		}
	case "rename":
		if len(outs) != 1 || outs[0].virNoName != old.virNoName || outs[0].name != st.o.Rename.As {
			setFail(fmt.Sprintf("FAIL contract-rename(%s): option %s changed in more than its name", who, where))
		}
	case "duplicate":
		if len(outs) != 2 || outs[0].vir != old.vir {
			setFail(fmt.Sprintf("FAIL contract-duplicate(%s): the original option %s is not kept as is", who, where))
			return
		}
		if outs[1].name != st.o.Duplicate.As || outs[1].virNoName != old.virNoName {
			what := "members"
			if old.hasDflt && !outs[1].hasDflt {
				what = "default"
			}
			setFail(fmt.Sprintf("FAIL contract-duplicate(%s/%s): the copy of option %s lost/changed its %s", who, what, where, what))
		}
	case "array_to_append", "map_to_index", "unfold_boolean", "struct_fields_as_arguments", "struct_fields_as_options", "disjunction_as_options", "rename_arguments", "add_comments":
		for _, o := range outs {
			if !sameTarget(o) {
				setFail(fmt.Sprintf("FAIL contract-same-target(%s): an option produced from %s assigns outside the original target", who, where))
				return
			}
		}
	}
}

// c17Stats: per-step summary of the last oracle run ("kind:selected,…" / "kind:panic"), 5th column of the rows
var c17Stats string

func c17OracleFailed(cs c17Case, decoded []cogyaml.Veneers, status string) string {
	v, st := c17OracleRun(cs, decoded, status, "")
	c17Stats = st
	return v
}

func c17Oracle(cs c17Case, decoded []cogyaml.Veneers, out []ast.Builder) string {
	v, st := c17OracleRun(cs, decoded, "ok", virBuilders(out))
	c17Stats = st
	return v
}

