package main

// C05: shrinking of failing cases (greedy delta debugging: drop operations / allowed objects /
// schemas / objects / fields / branches, replace types by simpler ones, drop JSON definitions
// and properties or CUE lines of source schemas) while the failure CLASS persists.

import (
	"encoding/json"
	"sort"
	"strings"

	"github.com/grafana/cog/internal/ast"
	"github.com/grafana/cog/internal/ast/compiler"
)

// c05Clone: a fully independent copy (through the interchange text)
func c05Clone(ss ast.Schemas) ast.Schemas {
	out, err := c05DecodeSchemas(virSchemas(ss))
	if err != nil {
		return c05Copy(ss)
	}
	return out
}

func c05CloneCase(c *c05Case) *c05Case {
	n := *c
	n.ops = append([]c05Op{}, c.ops...)
	n.addrs = append([]c05Addr{}, c.addrs...)
	n.allowed = append([]string{}, c.allowed...)
	if c.inputs != nil {
		p := c05PClone(c)
		n.files, n.inputs = p.files, p.inputs
	}
	if c.ss != nil {
		n.ss = c05Clone(c.ss)
	}
	return &n
}

func c05CountNodes(t *ast.Type) int {
	n := 0
	c05EachType(t, "", func(*ast.Type, string) { n++ })
	return n
}

// c05NodeVariants: simpler replacements for one type node
func c05NodeVariants(t ast.Type) []ast.Type {
	out := []ast.Type{}
	plain := func(x ast.Type) bool {
		return x.Kind == ast.KindScalar && x.Scalar != nil && x.Scalar.ScalarKind == ast.KindString && x.Scalar.Value == nil && len(x.Scalar.Constraints) == 0 && !x.Nullable && x.Default == nil && len(x.Hints) == 0
	}
	if !plain(t) {
		out = append(out, ast.String())
	}
	switch t.Kind {
	case ast.KindArray:
		if t.Array != nil {
			out = append(out, t.Array.ValueType)
		}
	case ast.KindMap:
		if t.Map != nil {
			out = append(out, t.Map.ValueType, t.Map.IndexType)
		}
	case ast.KindStruct:
		if t.Struct != nil {
			for i := range t.Struct.Fields {
				c := t.DeepCopy()
				c.Struct.Fields = append(append([]ast.StructField{}, c.Struct.Fields[:i]...), c.Struct.Fields[i+1:]...)
				for h, v := range t.Hints {
					c.Hints[h] = v
				}
				out = append(out, c)
			}
			if h, d, ok := c05GenPayload(t); ok {
				for i := range d.Branches {
					c := t.DeepCopy()
					nd := d
					nd.Branches = append(append(ast.Types{}, d.Branches[:i]...), d.Branches[i+1:]...)
					c.Hints[h] = nd
					out = append(out, c)
				}
				for _, k := range c05SortedKeys(d.DiscriminatorMapping) {
					c := t.DeepCopy()
					nd := d
					nd.DiscriminatorMapping = map[string]string{}
					for k2, v := range d.DiscriminatorMapping {
						if k2 != k {
							nd.DiscriminatorMapping[k2] = v
						}
					}
					c.Hints[h] = nd
					out = append(out, c)
				}
			}
		}
	case ast.KindDisjunction:
		if t.Disjunction != nil {
			for i := range t.Disjunction.Branches {
				c := t.DeepCopy()
				c.Disjunction.Branches = append(append(ast.Types{}, c.Disjunction.Branches[:i]...), c.Disjunction.Branches[i+1:]...)
				out = append(out, c)
			}
			for _, k := range c05SortedKeys(t.Disjunction.DiscriminatorMapping) {
				c := t.DeepCopy()
				delete(c.Disjunction.DiscriminatorMapping, k)
				out = append(out, c)
			}
			for _, b := range t.Disjunction.Branches {
				out = append(out, b)
			}
		}
	case ast.KindIntersection:
		if t.Intersection != nil {
			for i := range t.Intersection.Branches {
				c := t.DeepCopy()
				c.Intersection.Branches = append(append([]ast.Type{}, c.Intersection.Branches[:i]...), c.Intersection.Branches[i+1:]...)
				out = append(out, c)
			}
		}
	}
	if t.Nullable || t.Default != nil {
		c := t.DeepCopy()
		for h, v := range t.Hints {
			c.Hints[h] = v
		}
		c.Nullable, c.Default = false, nil
		out = append(out, c)
	}
	return out
}

// c05SchemaCandidates: smaller IRs, most aggressive first
func c05SchemaCandidates(ss ast.Schemas, emit func(ast.Schemas) bool) bool {
	if len(ss) > 1 {
		for i := range ss {
			c := c05Clone(ss)
			c = append(c[:i], c[i+1:]...)
			if emit(c) {
				return true
			}
		}
	}
	for si, s := range ss {
		for _, k := range c05Keys(s) {
			c := c05Clone(ss)
			c[si].Objects.Remove(k)
			if emit(c) {
				return true
			}
		}
	}
	for si, s := range ss {
		if s.EntryPoint != "" || s.EntryPointType.Kind != "" {
			c := c05Clone(ss)
			c[si].EntryPoint, c[si].EntryPointType = "", ast.Type{}
			if emit(c) {
				return true
			}
		}
		if s.Metadata != (ast.SchemaMeta{}) {
			c := c05Clone(ss)
			c[si].Metadata = ast.SchemaMeta{}
			if emit(c) {
				return true
			}
		}
	}
	for si, s := range ss {
		for _, k := range c05Keys(s) {
			o := s.Objects.Get(k)
			n := c05CountNodes(&o.Type)
			for j := 0; j < n; j++ {
				// variants of node j
				var node ast.Type
				idx := 0
				c05EachType(&o.Type, "", func(t *ast.Type, _ string) {
					if idx == j {
						node = *t
					}
					idx++
				})
				for _, v := range c05NodeVariants(node) {
					c := c05Clone(ss)
					co := c[si].Objects.Get(k)
					idx2 := 0
					done := false
					c05EachType(&co.Type, "", func(t *ast.Type, _ string) {
						if idx2 == j && !done {
							*t = v
							done = true
						}
						idx2++
					})
					c[si].Objects.Set(k, co)
					if emit(c) {
						return true
					}
				}
			}
			if len(o.Comments) > 0 {
				c := c05Clone(ss)
				co := c[si].Objects.Get(k)
				co.Comments = nil
				c[si].Objects.Set(k, co)
				if emit(c) {
					return true
				}
			}
		}
	}
	return false
}

// c05JSONCandidates: drop one entry of a definitions / properties / schemas map, one element of a
// oneOf / allOf / anyOf / required list
func c05JSONCandidates(text string, emit func(string) bool) bool {
	var doc any
	if json.Unmarshal([]byte(text), &doc) != nil {
		return false
	}
	type edit func()
	var walk func(v any, try func(e edit, undo edit) bool) bool
	walk = func(v any, try func(e edit, undo edit) bool) bool {
		switch x := v.(type) {
		case map[string]any:
			keys := make([]string, 0, len(x))
			for k := range x {
				keys = append(keys, k)
			}
			sort.Strings(keys)
			for _, k := range keys {
				if m, ok := x[k].(map[string]any); ok && (k == "definitions" || k == "properties" || k == "schemas" || k == "mapping") {
					sub := make([]string, 0, len(m))
					for sk := range m {
						sub = append(sub, sk)
					}
					sort.Strings(sub)
					for _, sk := range sub {
						old := m[sk]
						if try(func() { delete(m, sk) }, func() { m[sk] = old }) {
							return true
						}
					}
				}
				if l, ok := x[k].([]any); ok && (k == "oneOf" || k == "allOf" || k == "anyOf" || k == "required") && len(l) > 1 {
					for i := range l {
						nl := append(append([]any{}, l[:i]...), l[i+1:]...)
						if try(func() { x[k] = nl }, func() { x[k] = l }) {
							return true
						}
					}
				}
				if k == "discriminator" || k == "required" || k == "$schema" {
					old := x[k]
					if try(func() { delete(x, k) }, func() { x[k] = old }) {
						return true
					}
				}
				if walk(x[k], try) {
					return true
				}
			}
		case []any:
			for _, e := range x {
				if walk(e, try) {
					return true
				}
			}
		}
		return false
	}
	return walk(doc, func(e edit, undo edit) bool {
		e()
		b, _ := json.Marshal(doc)
		ok := emit(string(b))
		if !ok {
			undo()
		}
		return ok
	})
}

func c05LineCandidates(text string, emit func(string) bool) bool {
	lines := strings.Split(text, "\n")
	for i := range lines {
		if strings.TrimSpace(lines[i]) == "" {
			continue
		}
		nl := append(append([]string{}, lines[:i]...), lines[i+1:]...)
		if emit(strings.Join(nl, "\n")) {
			return true
		}
	}
	return false
}

func c05Shrink(c *c05Case, budget int) *c05Case {
	_, _, v := c05Eval(c)
	class := c05Class(v)
	if class == "" {
		return c
	}
	best := c05CloneCase(c)
	same := func(cand *c05Case) bool {
		if budget <= 0 {
			return false
		}
		budget--
		_, _, v := c05Eval(cand)
		return c05Class(v) == class
	}
	// name-op sequences: cut down to the failing step and the state before it
	if best.verb == "nameops" && len(best.ops) > 1 {
		cur := c05Clone(best.ss)
		for _, op := range best.ops {
			cand := &c05Case{verb: "nameops", ops: []c05Op{op}, ss: c05Clone(cur)}
			if same(cand) {
				best = cand
				break
			}
			step := c05Process(compiler.Passes{op.pass()}, cur)
			if step.status != "ok" {
				break
			}
			cur = step.out
		}
	}
	for changed := true; changed && budget > 0; {
		changed = false
		if len(best.ops) > 1 {
			for i := range best.ops {
				cand := c05CloneCase(best)
				cand.ops = append(cand.ops[:i], cand.ops[i+1:]...)
				if same(cand) {
					best, changed = cand, true
					break
				}
			}
			if changed {
				continue
			}
		}
		if len(best.addrs) > 1 {
			for i := range best.addrs {
				cand := c05CloneCase(best)
				cand.addrs = append(cand.addrs[:i], cand.addrs[i+1:]...)
				if same(cand) {
					best, changed = cand, true
					break
				}
			}
			if changed {
				continue
			}
		}
		if len(best.allowed) > 1 {
			cand := c05CloneCase(best)
			cand.allowed = cand.allowed[:1]
			if same(cand) {
				best, changed = cand, true
				continue
			}
		}
		switch best.verb {
		case "c05parse":
			try := func(text string) bool {
				cand := c05CloneCase(best)
				cand.src = text
				if same(cand) {
					best = cand
					return true
				}
				return false
			}
			if best.format == "cue" {
				changed = c05LineCandidates(best.src, try)
			} else {
				changed = c05JSONCandidates(best.src, try)
			}
		case "c05popt":
			best, changed = c05PShrinkStep(best, same)
		case "c05load":
			// a repository file: nothing to shrink
		default:
			changed = c05SchemaCandidates(best.ss, func(ss ast.Schemas) bool {
				cand := c05CloneCase(best)
				cand.ss = ss
				if same(cand) {
					best = cand
					return true
				}
				return false
			})
		}
	}
	return best
}
