package main

// C05: a small generator of SOURCE schemas (JSON Schema draft-07, OpenAPI 3.0, CUE) aimed at
// naming positions: references in properties / items / additionalProperties / oneOf / allOf,
// aliases, recursive and nested references, discriminators with mappings, a root `$ref`.
// (The construct grammar of the labs, harness/src_*.go, is aimed at document semantics; this
// one is aimed at the shapes of references the three front-ends have to resolve.)

import (
	"encoding/json"
	"fmt"
	"sort"
	"strings"
)

type c05SrcTy struct {
	Kind   string // string | int | bool | ref | array | dict | enum | oneof | nullable | const | object | allof | nested
	Ref    string
	Elem   *c05SrcTy
	Alts   []*c05SrcTy
	Fields []c05SrcField
	Vals   []string
	Disc   string            // oneof: discriminator property ("" = none)
	MapSty string            // oneof: mapping style: "" none | "full" (#/components/schemas/X) | "bare" (X)
	Path   string            // nested: JSON pointer tail below the referenced definition (properties/x)
}

type c05SrcField struct {
	Name     string
	Ty       *c05SrcTy
	Required bool
}

type c05SrcDefs struct {
	Names   []string
	Defs    map[string]*c05SrcTy
	Root    string // definition referenced by the root `$ref` ("" = root is an inline object)
	SelfRef bool   // JSON Schema: one property is `$ref: "#"`
}

var c05SrcNames = []string{"Foo", "Bar", "Baz", "Kind", "Root", "Item", "Spec", "Node"}
var c05SrcFields = []string{"a", "b", "kind", "name", "items", "next", "value", "meta"}

type c05SrcGen struct {
	r *rng
	d *c05SrcDefs
}

func (g *c05SrcGen) structNames() []string {
	out := []string{}
	for _, n := range g.d.Names {
		if t := g.d.Defs[n]; t != nil && t.Kind == "object" {
			out = append(out, n)
		}
	}
	return out
}

func (g *c05SrcGen) leaf() *c05SrcTy {
	switch g.r.intn(5) {
	case 0:
		return &c05SrcTy{Kind: "int"}
	case 1:
		return &c05SrcTy{Kind: "bool"}
	case 2:
		return &c05SrcTy{Kind: "enum", Vals: []string{"x", "y"}}
	case 3:
		return &c05SrcTy{Kind: "const", Vals: []string{pick(g.r, []string{"foo", "bar"})}}
	}
	return &c05SrcTy{Kind: "string"}
}

func (g *c05SrcGen) ref() *c05SrcTy { return &c05SrcTy{Kind: "ref", Ref: pick(g.r, g.d.Names)} }

func (g *c05SrcGen) ty(depth int) *c05SrcTy {
	n := g.r.intn(100)
	switch {
	case n < 25 || depth > 2:
		if g.r.chance(50) {
			return g.ref()
		}
		return g.leaf()
	case n < 40:
		return g.ref()
	case n < 52:
		return &c05SrcTy{Kind: "array", Elem: g.ty(depth + 1)}
	case n < 62:
		return &c05SrcTy{Kind: "dict", Elem: g.ty(depth + 1)}
	case n < 72:
		sn := g.structNames()
		if len(sn) == 0 {
			return g.ref()
		}
		t := &c05SrcTy{Kind: "oneof"}
		for i := 0; i < 2+g.r.intn(2); i++ {
			t.Alts = append(t.Alts, &c05SrcTy{Kind: "ref", Ref: pick(g.r, sn)})
		}
		if g.r.chance(60) {
			t.Disc = "kind"
			t.MapSty = pick(g.r, []string{"", "full", "bare"})
		}
		return t
	case n < 78:
		return &c05SrcTy{Kind: "nullable", Elem: g.ref()}
	case n < 86:
		return &c05SrcTy{Kind: "object", Fields: g.fields(depth + 1)}
	case n < 92:
		return &c05SrcTy{Kind: "allof", Alts: []*c05SrcTy{g.ref(), {Kind: "object", Fields: g.fields(depth + 1)}}}
	case n < 96:
		sn := g.structNames()
		if len(sn) == 0 {
			return g.ref()
		}
		target := pick(g.r, sn)
		fs := g.d.Defs[target].Fields
		if len(fs) == 0 {
			return g.ref()
		}
		return &c05SrcTy{Kind: "nested", Ref: target, Path: pick(g.r, fs).Name}
	}
	return g.leaf()
}

func (g *c05SrcGen) fields(depth int) []c05SrcField {
	n := 1 + g.r.intn(3)
	out := []c05SrcField{}
	used := map[string]bool{}
	for i := 0; i < n; i++ {
		name := pick(g.r, c05SrcFields)
		if used[name] {
			continue
		}
		used[name] = true
		out = append(out, c05SrcField{Name: name, Ty: g.ty(depth), Required: g.r.chance(50)})
	}
	return out
}

func c05GenSrc(r *rng) *c05SrcDefs {
	g := &c05SrcGen{r: r, d: &c05SrcDefs{Defs: map[string]*c05SrcTy{}}}
	n := 2 + r.intn(4)
	seen := map[string]bool{}
	for i := 0; i < n; i++ {
		name := pick(r, c05SrcNames)
		if !seen[name] {
			seen[name] = true
			g.d.Names = append(g.d.Names, name)
		}
	}
	// objects first (so that unions / nested references have targets), then the other shapes
	for i, name := range g.d.Names {
		if i == 0 || r.chance(60) {
			g.d.Defs[name] = &c05SrcTy{Kind: "object", Fields: []c05SrcField{{Name: "kind", Ty: &c05SrcTy{Kind: "const", Vals: []string{strings.ToLower(name)}}, Required: true}}}
		}
	}
	for _, name := range g.d.Names {
		if t := g.d.Defs[name]; t != nil {
			t.Fields = append(t.Fields, g.fields(0)...)
			dedup := map[string]bool{}
			fs := []c05SrcField{}
			for _, f := range t.Fields {
				if !dedup[f.Name] {
					dedup[f.Name] = true
					fs = append(fs, f)
				}
			}
			t.Fields = fs
			continue
		}
		switch r.intn(4) {
		case 0:
			g.d.Defs[name] = &c05SrcTy{Kind: "enum", Vals: []string{"a", "b", "c"}}
		case 1:
			g.d.Defs[name] = g.ref() // alias
		case 2:
			g.d.Defs[name] = &c05SrcTy{Kind: "array", Elem: g.ref()}
		default:
			g.d.Defs[name] = g.ty(1)
		}
	}
	if r.chance(60) {
		g.d.Root = g.d.Names[0]
	}
	g.d.SelfRef = r.chance(10)
	return g.d
}

// ---- JSON Schema / OpenAPI ----

type c05JS = map[string]any

func (d *c05SrcDefs) jsTy(t *c05SrcTy, base string, openapi bool) c05JS {
	switch t.Kind {
	case "string":
		return c05JS{"type": "string"}
	case "int":
		return c05JS{"type": "integer"}
	case "bool":
		return c05JS{"type": "boolean"}
	case "ref":
		return c05JS{"$ref": base + t.Ref}
	case "nested":
		return c05JS{"$ref": base + t.Ref + "/properties/" + t.Path}
	case "array":
		return c05JS{"type": "array", "items": d.jsTy(t.Elem, base, openapi)}
	case "dict":
		return c05JS{"type": "object", "additionalProperties": d.jsTy(t.Elem, base, openapi)}
	case "enum":
		vals := []any{}
		for _, v := range t.Vals {
			vals = append(vals, v)
		}
		return c05JS{"type": "string", "enum": vals}
	case "const":
		if openapi {
			return c05JS{"type": "string", "enum": []any{t.Vals[0]}}
		}
		return c05JS{"type": "string", "const": t.Vals[0]}
	case "nullable":
		if openapi {
			return c05JS{"nullable": true, "allOf": []any{d.jsTy(t.Elem, base, openapi)}}
		}
		return c05JS{"anyOf": []any{d.jsTy(t.Elem, base, openapi), c05JS{"type": "null"}}}
	case "oneof":
		alts := []any{}
		for _, a := range t.Alts {
			alts = append(alts, d.jsTy(a, base, openapi))
		}
		out := c05JS{"oneOf": alts}
		if openapi && t.Disc != "" {
			disc := c05JS{"propertyName": t.Disc}
			if t.MapSty != "" {
				m := c05JS{}
				for _, a := range t.Alts {
					if t.MapSty == "full" {
						m[strings.ToLower(a.Ref)] = base + a.Ref
					} else {
						m[strings.ToLower(a.Ref)] = a.Ref
					}
				}
				disc["mapping"] = m
			}
			out["discriminator"] = disc
		}
		return out
	case "allof":
		alts := []any{}
		for _, a := range t.Alts {
			alts = append(alts, d.jsTy(a, base, openapi))
		}
		return c05JS{"allOf": alts}
	case "object":
		props := c05JS{}
		req := []any{}
		for _, f := range t.Fields {
			props[f.Name] = d.jsTy(f.Ty, base, openapi)
			if f.Required {
				req = append(req, f.Name)
			}
		}
		out := c05JS{"type": "object", "properties": props}
		if len(req) > 0 {
			out["required"] = req
		}
		return out
	}
	return c05JS{}
}

func (d *c05SrcDefs) renderJSONSchema() string {
	defs := c05JS{}
	for _, n := range d.Names {
		defs[n] = d.jsTy(d.Defs[n], "#/definitions/", false)
	}
	root := c05JS{"$schema": "http://json-schema.org/draft-07/schema#", "definitions": defs}
	if d.Root != "" {
		root["$ref"] = "#/definitions/" + d.Root
	} else {
		root["type"] = "object"
		props := c05JS{}
		for i, n := range d.Names {
			props[fmt.Sprintf("p%d", i)] = c05JS{"$ref": "#/definitions/" + n}
		}
		if d.SelfRef {
			props["self"] = c05JS{"$ref": "#"}
		}
		root["properties"] = props
	}
	b, _ := json.Marshal(root)
	return string(b)
}

func (d *c05SrcDefs) renderOpenAPI() string {
	defs := c05JS{}
	for _, n := range d.Names {
		defs[n] = d.jsTy(d.Defs[n], "#/components/schemas/", true)
	}
	root := c05JS{"openapi": "3.0.0", "info": c05JS{"title": "t", "version": "1"}, "paths": c05JS{}, "components": c05JS{"schemas": defs}}
	b, _ := json.Marshal(root)
	return string(b)
}

// ---- CUE ----

func (d *c05SrcDefs) cueTy(t *c05SrcTy, indent string) string {
	switch t.Kind {
	case "string":
		return "string"
	case "int":
		return "int64"
	case "bool":
		return "bool"
	case "ref":
		return t.Ref
	case "nested":
		return t.Ref + "." + t.Path
	case "array":
		return "[..." + d.cueTy(t.Elem, indent) + "]"
	case "dict":
		return "{[string]: " + d.cueTy(t.Elem, indent) + "}"
	case "enum":
		qs := []string{}
		for _, v := range t.Vals {
			qs = append(qs, fmt.Sprintf("%q", v))
		}
		return strings.Join(qs, " | ")
	case "const":
		return fmt.Sprintf("%q", t.Vals[0])
	case "nullable":
		return d.cueTy(t.Elem, indent) + " | null"
	case "oneof":
		as := []string{}
		for _, a := range t.Alts {
			as = append(as, d.cueTy(a, indent))
		}
		return strings.Join(as, " | ")
	case "allof":
		as := []string{}
		for _, a := range t.Alts {
			as = append(as, d.cueTy(a, indent))
		}
		return strings.Join(as, " & ")
	case "object":
		lines := []string{"{"}
		for _, f := range t.Fields {
			opt := "?"
			if f.Required && (f.Ty.Kind == "string" || f.Ty.Kind == "int" || f.Ty.Kind == "bool" || f.Ty.Kind == "enum" || f.Ty.Kind == "const" || f.Ty.Kind == "array" || f.Ty.Kind == "dict") {
				opt = "" // a required field holding a reference closes a structural cycle in CUE
			}
			lines = append(lines, indent+"  "+f.Name+opt+": "+d.cueTy(f.Ty, indent+"  "))
		}
		lines = append(lines, indent+"}")
		return strings.Join(lines, "\n")
	}
	return "_"
}

func (d *c05SrcDefs) renderCUE(hidden bool) string {
	names := append([]string{}, d.Names...)
	sort.Strings(names)
	var b strings.Builder
	for _, n := range d.Names {
		label := n
		if hidden {
			label = "#" + n
		}
		b.WriteString(label + ": " + d.cueTy(d.Defs[n], "") + "\n")
	}
	out := b.String()
	if hidden {
		for _, n := range names {
			out = c05ReplaceIdent(out, n, "#"+n)
		}
	}
	return out
}

// c05ReplaceIdent replaces whole-word occurrences of an identifier that are used as a type
func c05ReplaceIdent(text, id, by string) string {
	var b strings.Builder
	isId := func(c byte) bool {
		return c == '_' || c == '#' || c == '"' || (c >= '0' && c <= '9') || (c >= 'a' && c <= 'z') || (c >= 'A' && c <= 'Z')
	}
	for i := 0; i < len(text); {
		if strings.HasPrefix(text[i:], id) && (i == 0 || !isId(text[i-1])) && (i+len(id) == len(text) || !isId(text[i+len(id)])) {
			// not a field label of a nested object ("  Foo: …" never happens: field names are lower case)
			b.WriteString(by)
			i += len(id)
			continue
		}
		b.WriteByte(text[i])
		i++
	}
	return b.String()
}

func (d *c05SrcDefs) render(format string, r *rng) string {
	switch format {
	case "jsonschema":
		return d.renderJSONSchema()
	case "openapi":
		return d.renderOpenAPI()
	default:
		return d.renderCUE(r.chance(40))
	}
}
