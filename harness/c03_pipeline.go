package main

// C03 streams (determinism).  Go randomises the iteration order of a map at every `range`,
// so repeating the *real* code in one process samples the schedules the property quantifies
// over.  A recipe is run n times; the row reports how many distinct observations were seen.
//
//	c03-pipeline cfg=<pipeline.yaml> mode=files|schemas|context:<lang>|config n=<k> [name=… site=…]
//	c03-unit     [only=<recipe>] n=<k>
//
// Row: `recipe=<name> site=<site> n=<k>` \t `distinct=<d> counts=<…> digests=<…>` \t verdict,
// verdict = ok | FAIL nondeterministic <where the first two distinct observations differ>.

import (
	"bufio"
	"context"
	"crypto/sha256"
	"encoding/hex"
	"encoding/json"
	"fmt"
	"sort"
	"strings"

	"github.com/grafana/cog/internal/ast"
	"github.com/grafana/cog/internal/codegen"
)

// observation: a list of (name, content) — files of a run, or named IR documents
type c03Obs struct {
	names []string
	data  map[string]string
	err   string
}

func newObs() *c03Obs { return &c03Obs{data: map[string]string{}} }

func (o *c03Obs) put(name, content string) {
	if _, dup := o.data[name]; !dup {
		o.names = append(o.names, name)
	}
	o.data[name] = content
}

func (o *c03Obs) digest() string {
	h := sha256.New()
	names := append([]string{}, o.names...)
	sort.Strings(names)
	for _, n := range names {
		fmt.Fprintf(h, "%d:%s\n%d:", len(n), n, len(o.data[n]))
		h.Write([]byte(o.data[n]))
	}
	fmt.Fprintf(h, "err:%s", o.err)
	return hex.EncodeToString(h.Sum(nil))[:16]
}

func c03Short(s string, n int) string {
	s = strings.ReplaceAll(strings.ReplaceAll(s, "\t", " "), "\n", "\\n")
	if len(s) > n {
		return s[:n] + "…"
	}
	return s
}

// c03Diff describes where two observations differ (first differing name, first differing line).
func c03Diff(a, b *c03Obs) string {
	if a.err != b.err {
		return fmt.Sprintf("error differs: %q vs %q", c03Short(a.err, 200), c03Short(b.err, 200))
	}
	an := append([]string{}, a.names...)
	bn := append([]string{}, b.names...)
	sort.Strings(an)
	sort.Strings(bn)
	if strings.Join(an, "\x00") != strings.Join(bn, "\x00") {
		onlyA, onlyB := []string{}, []string{}
		for _, n := range an {
			if _, ok := b.data[n]; !ok {
				onlyA = append(onlyA, n)
			}
		}
		for _, n := range bn {
			if _, ok := a.data[n]; !ok {
				onlyB = append(onlyB, n)
			}
		}
		return fmt.Sprintf("path sets differ: only-first=%v only-second=%v", onlyA, onlyB)
	}
	differing := []string{}
	detail := ""
	for _, n := range an {
		if a.data[n] != b.data[n] {
			differing = append(differing, n)
			if detail == "" {
				la, lb := strings.Split(a.data[n], "\n"), strings.Split(b.data[n], "\n")
				for i := 0; i < len(la) || i < len(lb); i++ {
					x, y := "", ""
					if i < len(la) {
						x = la[i]
					}
					if i < len(lb) {
						y = lb[i]
					}
					if x != y {
						// for one-line documents (JSON) point at the first differing column
						if len(x) > 160 || len(y) > 160 {
							j := 0
							for j < len(x) && j < len(y) && x[j] == y[j] {
								j++
							}
							lo := j - 60
							if lo < 0 {
								lo = 0
							}
							x, y = x[lo:], y[lo:]
						}
						detail = fmt.Sprintf("%s line %d: %q vs %q", n, i+1, c03Short(x, 160), c03Short(y, 160))
						break
					}
				}
			}
		}
	}
	if len(differing) > 6 {
		differing = append(differing[:6], fmt.Sprintf("…(%d more)", len(differing)-6))
	}
	return fmt.Sprintf("contents differ in %v; first: %s", differing, detail)
}

// c03Repeat runs one recipe n times and writes its row.
func c03Repeat(out *bufio.Writer, name, site string, n int, run func() *c03Obs) {
	type class struct {
		obs   *c03Obs
		count int
	}
	classes := map[string]*class{}
	order := []string{}
	for i := 0; i < n; i++ {
		var obs *c03Obs
		func() {
			defer func() {
				if r := recover(); r != nil {
					obs = newObs()
					obs.err = fmt.Sprintf("panic: %v", r)
				}
			}()
			obs = run()
		}()
		d := obs.digest()
		if c, ok := classes[d]; ok {
			c.count++
		} else {
			classes[d] = &class{obs: obs, count: 1}
			order = append(order, d)
		}
	}
	counts := []string{}
	for _, d := range order {
		counts = append(counts, fmt.Sprint(classes[d].count))
	}
	first := classes[order[0]].obs
	size := 0
	for _, c := range first.data {
		size += len(c)
	}
	reply := fmt.Sprintf("distinct=%d counts=%s digests=%s entries=%d bytes=%d", len(order), strings.Join(counts, ","), strings.Join(order, ","), len(first.names), size)
	if first.err != "" {
		reply += " err=" + c03Short(first.err, 300)
	}
	verdict := "ok"
	if len(order) > 1 {
		verdict = "FAIL nondeterministic " + c03Short(c03Diff(classes[order[0]].obs, classes[order[1]].obs), 900)
	}
	fmt.Fprintf(out, "recipe=%s site=%s n=%d\t%s\t%s\n", name, site, n, reply, verdict)
}

func c03JSON(v any) string {
	b, err := json.Marshal(v)
	if err != nil {
		return "json error: " + err.Error()
	}
	return string(b)
}

// c03RunPipeline executes the real pipeline on a config file and observes it.
// c03Canon sorts schemas by package and builders by (package, name): the order of
// `Schemas.Consolidate` is a known finding with its own recipe; the `+canon` modes look for
// any *other* difference in the IR.
func c03Canon(schemas ast.Schemas, builders ast.Builders) (ast.Schemas, ast.Builders) {
	s := append(ast.Schemas{}, schemas...)
	sort.SliceStable(s, func(i, j int) bool { return s[i].Package < s[j].Package })
	b := append(ast.Builders{}, builders...)
	sort.SliceStable(b, func(i, j int) bool {
		if b[i].Package != b[j].Package {
			return b[i].Package < b[j].Package
		}
		return b[i].Name < b[j].Name
	})
	return s, b
}

// c03Params parses `k1:v1,k2:v2` (extra parameters handed to the public option
// codegen.Parameters, as `cog generate --parameters k1=v1,k2=v2` does)
func c03Params(spec string) map[string]string {
	if spec == "" {
		return nil
	}
	out := map[string]string{}
	for _, kv := range strings.Split(spec, ",") {
		if k, v, ok := strings.Cut(kv, ":"); ok {
			out[k] = v
		}
	}
	return out
}

func c03RunPipeline(cfg, mode string, params map[string]string) *c03Obs {
	obs := newObs()
	canon := strings.HasSuffix(mode, "+canon")
	mode = strings.TrimSuffix(mode, "+canon")
	var extra map[string]string
	if params != nil {
		extra = map[string]string{}
		for k, v := range params {
			extra[k] = v
		}
	}
	pipeline, err := codegen.PipelineFromFile(cfg, codegen.Parameters(extra))
	if err != nil {
		obs.err = "config: " + err.Error()
		return obs
	}
	ctx := context.Background()
	switch {
	case mode == "config":
		obs.put("output.directory", pipeline.Output.Directory)
		obs.put("output.repository_templates", pipeline.Output.RepositoryTemplates)
		obs.put("transformations", c03JSON(pipeline.Transforms))
		obs.put("output.templates_data", c03JSON(pipeline.Output.TemplatesData))
		for i, in := range pipeline.Inputs {
			obs.put(fmt.Sprintf("inputs[%d]", i), c03JSON(in))
		}
	case mode == "files":
		fs, err := pipeline.Run(ctx)
		if err != nil {
			obs.err = "run: " + err.Error()
			return obs
		}
		for _, f := range fs.AsFiles() {
			obs.put(f.RelativePath, string(f.Data))
		}
	case mode == "schemas":
		// `cog inspect --ir types` without a language
		schemas, err := pipeline.LoadSchemas(ctx)
		if err != nil {
			obs.err = "load: " + err.Error()
			return obs
		}
		if canon {
			schemas, _ = c03Canon(schemas, nil)
		}
		obs.put("schemas.json", c03JSON(schemas))
	case strings.HasPrefix(mode, "context:"):
		// `cog inspect --ir types|builders --language <lang>`
		lang := strings.TrimPrefix(mode, "context:")
		targets, err := pipeline.OutputLanguages()
		if err != nil {
			obs.err = "languages: " + err.Error()
			return obs
		}
		target := targets[lang]
		if target == nil {
			obs.err = "language not configured: " + lang
			return obs
		}
		schemas, err := pipeline.LoadSchemas(ctx)
		if err != nil {
			obs.err = "load: " + err.Error()
			return obs
		}
		jctx, err := pipeline.ContextForLanguage(target, schemas)
		if err != nil {
			obs.err = "context: " + err.Error()
			return obs
		}
		if canon {
			jctx.Schemas, jctx.Builders = c03Canon(jctx.Schemas, jctx.Builders)
		}
		obs.put("types.json", c03JSON(jctx.Schemas))
		obs.put("builders.json", c03JSON(jctx.Builders))
	default:
		obs.err = "unknown mode " + mode
	}
	return obs
}

func init() {
	register("c03-pipeline", func(args map[string]string, out *bufio.Writer) error {
		cfg, mode := args["cfg"], args["mode"]
		if cfg == "" || mode == "" {
			return fmt.Errorf("c03-pipeline needs cfg= and mode=")
		}
		name := args["name"]
		if name == "" {
			name = "pipeline:" + mode
		}
		site := args["site"]
		if site == "" {
			site = "-"
		}
		if show := args["show"]; show != "" {
			// debugging aid: print the observed documents whose name contains `show`
			obs := c03RunPipeline(cfg, mode, c03Params(args["params"]))
			for _, n := range obs.names {
				if strings.Contains(n, show) {
					fmt.Fprintf(out, "-\t=== %s\t-\n", n)
					for _, l := range strings.Split(obs.data[n], "\n") {
						fmt.Fprintf(out, "-\t%s\t-\n", strings.ReplaceAll(l, "\t", "    "))
					}
				}
			}
			return nil
		}
		c03Repeat(out, name, site, argInt(args, "n", 10), func() *c03Obs { return c03RunPipeline(cfg, mode, c03Params(args["params"])) })
		return nil
	})
}
