package main

// C02 — replay and shrinking of one failing case: a Src term, an input format and a configuration.
//   c02-replay file=<term.sexp> format= combo=go=111100,union=0,builders=1,…  [lang=]
//   c02-shrink file=<term.sexp> format= combo=… lang= cls=      (greedy deletion keeping (lang, class))

import (
	"bufio"
	"fmt"
	"os"
	"path/filepath"
	"strings"
)

func c02ParseCombo(s string) c02Combo {
	c := c02Combo{Go: defaultGoFlags()}
	for _, kv := range strings.FieldsFunc(s, func(r rune) bool { return r == ',' || r == ' ' }) {
		k, v, ok := strings.Cut(kv, "=")
		if !ok {
			continue
		}
		on := v == "1"
		switch k {
		case "go":
			c.Go = goFlagsOfBits(v)
		case "union":
			c.EnumsAsUnion = on
		case "builders":
			c.Builders = on
		case "converters":
			c.Converters = on
		case "apiref":
			c.APIRef = on
		case "marshal":
			c.LangMarshal = on
		case "skiprt":
			c.LangSkipRT = on
		}
	}
	return c
}

var c02RunSeq int

// c02RunOne runs one term through the lab (Go, Python, JSON Schema, OpenAPI output) or, for the
// other languages, through the all-language runner; returns the oracle's FAIL verdicts.
func c02RunOne(d *Defs, format string, combo c02Combo, lang string) ([]string, error) {
	c02RunSeq++
	fails := []string{}
	if lang == "" || lang == "go" || lang == "python" || lang == "jsonschema" || lang == "openapi" {
		opts := defaultLabOpts()
		opts.Degrade = 0
		lab, err := NewLab(labWorkDir(fmt.Sprintf("c02one-%d", c02RunSeq)), opts)
		if err != nil {
			return nil, err
		}
		defer lab.Close()
		c := lab.AddCaseWith(d, format, combo.Go, combo.Builders, combo.Converters)
		if c.generated() {
			if err := lab.Build(); err != nil {
				return nil, err
			}
			trig := c02Triggers(c.Defs, combo)
			if !c.GoOK && !strings.HasPrefix(c.GoCompileErr, "glue: ") {
				fails = append(fails, "FAIL go-compile "+c02CaseText("go", c02FirstDiag(c.GoCompileErr), trig, combo.String(), format, c.Defs)+" diag="+labOneLine(labFirstLine(c.GoCompileErr)))
			}
			if !c.PyOK {
				fails = append(fails, "FAIL py-import "+c02CaseText("python", c02PyClass(c.PyImportErr), trig, combo.String(), format, c.Defs)+" diag="+labOneLine(c.PyImportErr))
			}
			if hits, _ := c02ScanFiles(c.Files); len(hits) > 0 {
				parts := strings.SplitN(hits[0], " in ", 2)
				fails = append(fails, "FAIL placeholder "+c02CaseText(c02LangOf(parts[1]), "placeholder:"+parts[0], trig, combo.String(), format, c.Defs)+" hits="+strings.Join(hits, ";"))
			}
		}
	}
	if lang == "" || lang == "java" || lang == "php" || lang == "typescript" || lang == "python" {
		work := labWorkDir(fmt.Sprintf("c02onel-%d", c02RunSeq))
		defer os.RemoveAll(work)
		id := "r0" + labFormatSuffix[format]
		lc := &c02LangCase{ID: id, Format: format, Combo: combo, Group: "one", Defs: d}
		ro := renderDefs(d, format, id)
		if ro.Text != "" {
			path, err := writeSchemaFile(filepath.Join(work, "schemas"), format, id, ro.Text)
			if err != nil {
				return nil, err
			}
			o := c02Opts{Types: true, Builders: combo.Builders, Converters: combo.Converters, APIRef: combo.APIRef, Go: combo.Go,
				EnumsAsUnion: combo.EnumsAsUnion, LangMarshal: combo.LangMarshal, LangSkipRuntime: combo.LangSkipRT}
			if lang != "" {
				o.Langs = []string{lang}
			}
			p, err := c02Pipeline(format, path, id, nil, o, work)
			if err != nil {
				return nil, err
			}
			if files, err := c02Run(p); err == nil {
				lc.Files = files
				var buf strings.Builder
				w := bufio.NewWriter(&buf)
				if _, err := c02ReportLangs(w, work, []*c02LangCase{lc}, func(c *c02LangCase, l, class string) string {
					return c02CaseText(l, class, c02Triggers(c.Defs, c.Combo), c.Combo.String(), c.Format, c.Defs)
				}); err != nil {
					return nil, err
				}
				w.Flush()
				for _, line := range strings.Split(buf.String(), "\n") {
					cols := strings.Split(line, "\t")
					if len(cols) == 3 && strings.HasPrefix(cols[2], "FAIL") {
						fails = append(fails, cols[2])
					}
				}
			}
		}
	}
	return fails, nil
}

func c02Has(fails []string, lang, cls string) string {
	for _, f := range fails {
		if strings.Contains(f, " lang="+lang+" ") && strings.Contains(f, " class="+cls+" ") {
			return f
		}
	}
	return ""
}

// c02Candidates: one-step simplifications of a term (each still well-formed).
func c02Candidates(d *Defs) []*Defs {
	out := []*Defs{}
	try := func(f func(c *Defs) bool) {
		c := d.clone()
		if f(c) && c.wf() == nil {
			out = append(out, c)
		}
	}
	// drop a definition that nothing refers to
	for i := range d.Items {
		if d.Items[i].Name == d.Root {
			continue
		}
		i := i
		try(func(c *Defs) bool {
			c.Items = append(c.Items[:i:i], c.Items[i+1:]...)
			return true
		})
	}
	for i := range d.Items {
		if d.Items[i].Ty.Kind != SStruct {
			continue
		}
		for j := range d.Items[i].Ty.Fields {
			i, j := i, j
			// drop a field
			try(func(c *Defs) bool {
				fs := c.Items[i].Ty.Fields
				c.Items[i].Ty.Fields = append(fs[:j:j], fs[j+1:]...)
				return true
			})
			f := d.Items[i].Ty.Fields[j]
			if f.Default != nil {
				try(func(c *Defs) bool { c.Items[i].Ty.Fields[j].Default = nil; return true })
			}
			if f.Nullable {
				try(func(c *Defs) bool { c.Items[i].Ty.Fields[j].Nullable = false; return true })
			}
			if !f.Required {
				try(func(c *Defs) bool { c.Items[i].Ty.Fields[j].Required = true; return true })
			}
			switch f.Ty.Kind {
			case SArray, SDict:
				// unwrap a collection
				try(func(c *Defs) bool {
					c.Items[i].Ty.Fields[j].Ty = c.Items[i].Ty.Fields[j].Ty.Elem
					c.Items[i].Ty.Fields[j].Default = nil
					return true
				})
			case SStruct:
				for k := range f.Ty.Fields {
					k := k
					try(func(c *Defs) bool {
						fs := c.Items[i].Ty.Fields[j].Ty.Fields
						c.Items[i].Ty.Fields[j].Ty.Fields = append(fs[:k:k], fs[k+1:]...)
						c.Items[i].Ty.Fields[j].Default = nil
						return true
					})
				}
			case SOneOfScalars:
				if len(f.Ty.Alts) > 2 {
					for k := range f.Ty.Alts {
						k := k
						try(func(c *Defs) bool {
							a := c.Items[i].Ty.Fields[j].Ty.Alts
							c.Items[i].Ty.Fields[j].Ty.Alts = append(a[:k:k], a[k+1:]...)
							return true
						})
					}
				}
			}
			if f.Ty.Kind != SBool && f.Ty.Kind != SRef {
				try(func(c *Defs) bool {
					c.Items[i].Ty.Fields[j].Ty = srcBool()
					c.Items[i].Ty.Fields[j].Default = nil
					return true
				})
			}
		}
	}
	return out
}

func init() {
	register("c02-replay", func(args map[string]string, out *bufio.Writer) error {
		lines := readLines(args["file"])
		if len(lines) == 0 {
			return fmt.Errorf("no term in %s", args["file"])
		}
		d, err := parseDefsSexp(lines[0])
		if err != nil {
			return err
		}
		c02Spell = args["spell"] // spelling of constants in the source text, from the case text (trig spell:<style>)
		fails, err := c02RunOne(d, args["format"], c02ParseCombo(args["combo"]), args["lang"])
		if err != nil {
			return err
		}
		if len(fails) == 0 {
			fmt.Fprintf(out, "-\treplay %s %s\tok\n", args["format"], args["combo"])
		}
		for _, f := range fails {
			fmt.Fprintf(out, "-\treplay %s %s\t%s\n", args["format"], args["combo"], f)
		}
		return nil
	})
	register("c02-shrink", func(args map[string]string, out *bufio.Writer) error {
		lines := readLines(args["file"])
		if len(lines) == 0 {
			return fmt.Errorf("no term in %s", args["file"])
		}
		d, err := parseDefsSexp(lines[0])
		if err != nil {
			return err
		}
		format, lang, cls := args["format"], args["lang"], args["cls"]
		c02Spell = args["spell"]
		combo := c02ParseCombo(args["combo"])
		budget := argInt(args, "budget", 60)
		fails, err := c02RunOne(d, format, combo, lang)
		if err != nil {
			return err
		}
		best := c02Has(fails, lang, cls)
		if best == "" {
			fmt.Fprintf(out, "-\tshrink not-reproduced-in-isolation\tok\n")
			return nil
		}
		runs := 1
		for progress := true; progress && runs < budget; {
			progress = false
			for _, cand := range c02Candidates(d) {
				if runs >= budget {
					break
				}
				runs++
				fs, err := c02RunOne(cand, format, combo, lang)
				if err != nil {
					continue
				}
				if f := c02Has(fs, lang, cls); f != "" {
					d, best, progress = cand, f, true
					break
				}
			}
		}
		fmt.Fprintf(out, "-\tshrink runs=%d\t%s\n", runs, best)
		return nil
	})
}
