package main

// C15: case generation, execution of the real passes, request parsing, shrinking, streams.
//
//   xform-single  n= seed= tier= [only=<name>] [malformed=1]   one transformation per case
//   xform-seq     n= seed= tier= [maxlen=]                     2..maxlen transformations per case
//   xform-eval    in=<file of request lines>                   corpus / replay / pinned inputs
//   xform-shrink  in=<file with ONE request line>              prints the shrunk row
//   xform-strings n= seed=                                     string helpers (EqualFold, TrimSpace, UpperCamelCase, …FromString)
//
// row: `xform <name> <params> <schemas>` \t `ok <schemas>`|`err`|`panic` \t verdict

import (
	"bufio"
	"encoding/json"
	"fmt"
	"os"
	"runtime/debug"
	"strings"

	"github.com/grafana/cog/internal/ast"
	"github.com/grafana/cog/internal/ast/compiler"
	"github.com/grafana/cog/internal/tools"
)

type c15Case struct {
	steps []*c15Step
	in    ast.Schemas
}

func (c *c15Case) request() string {
	ss := c15VirSchemasMarked(c.in)
	if len(c.steps) == 1 {
		return "xform " + c.steps[0].Name + " " + c.steps[0].paramsSexp() + " " + ss
	}
	parts := []string{}
	for _, st := range c.steps {
		parts = append(parts, "("+st.Name+" "+st.paramsSexp()+")")
	}
	return "xform seq (" + strings.Join(parts, " ") + ") " + ss
}

func c15ParseRequest(line string) (*c15Case, error) {
	xs, err := c15ParseSexps(line)
	if err != nil {
		return nil, err
	}
	if len(xs) != 4 || !xs[0].isAtom("xform") || xs[1].isLst || xs[1].isStr {
		return nil, fmt.Errorf("not an xform request")
	}
	c := &c15Case{}
	if xs[1].atom == "seq" {
		if !xs[2].isLst {
			return nil, fmt.Errorf("bad sequence")
		}
		for _, e := range xs[2].list {
			if !e.isLst || len(e.list) != 2 || e.list[0].isLst || e.list[0].isStr {
				return nil, fmt.Errorf("bad sequence entry")
			}
			st, err := c15StepFromSexp(e.list[0].atom, e.list[1])
			if err != nil {
				return nil, err
			}
			c.steps = append(c.steps, st)
		}
	} else {
		st, err := c15StepFromSexp(xs[1].atom, xs[2])
		if err != nil {
			return nil, err
		}
		c.steps = []*c15Step{st}
	}
	d := &c15Dec{}
	c.in = d.schemas(xs[3])
	if len(c.steps) == 0 {
		return nil, fmt.Errorf("empty sequence")
	}
	return c, d.err
}

// ---------- running the real code ----------

func c15Process(passes compiler.Passes, in ast.Schemas) (status string, out ast.Schemas) {
	defer func() {
		if r := recover(); r != nil {
			if os.Getenv("C15_DEBUG") != "" {
				fmt.Fprintf(os.Stderr, "panic: %v\n%s\n", r, debug.Stack())
			}
			status, out = "panic", nil
		}
	}()
	res, err := passes.Process(in)
	if err != nil {
		return "err", nil
	}
	return "ok", res
}

// c15Run: load through the YAML loader, check the glue, run `Passes.Process` on a private copy
func c15Run(c *c15Case) (status string, out ast.Schemas, glue string) {
	passes, _, err := c15BuildPasses(c.steps)
	if err != nil {
		return "err", nil, ""
	}
	for i, st := range c.steps {
		if g := c15CheckLoaded(st, passes[i]); g != "" && glue == "" {
			glue = g
		}
	}
	status, out = c15Process(passes, c15CloneSchemas(c.in, true))
	return status, out, glue
}

func c15Row(c *c15Case) (req, impl, verdict string) {
	req = c.request()
	status, out, glue := c15Run(c)
	impl = status
	if status == "ok" {
		impl = "ok " + virSchemas(out)
	}
	verdict = glue
	if verdict == "" {
		verdict = c15Verdict(c.steps, c.in, status, out)
	}
	return req, impl, verdict
}

func c15Class(verdict string) string {
	if !strings.HasPrefix(verdict, "FAIL") {
		return "ok"
	}
	f := strings.Fields(verdict)
	if len(f) >= 3 {
		return f[2] // explained-by=… | unexplained | yaml-glue
	}
	return verdict
}

// ---------- shrinking ----------

// a smaller case is kept when it still fails, for a non-empty subset of the same quirks
// (or is still unexplained / a glue failure)
func c15SubClass(cl, of string) bool {
	if cl == of {
		return true
	}
	if !strings.HasPrefix(cl, "explained-by=") || !strings.HasPrefix(of, "explained-by=") {
		return false
	}
	have := map[string]bool{}
	for _, q := range strings.Split(strings.TrimPrefix(of, "explained-by="), "+") {
		have[q] = true
	}
	for _, q := range strings.Split(strings.TrimPrefix(cl, "explained-by="), "+") {
		if !have[q] {
			return false
		}
	}
	return true
}

func c15CopyCase(c *c15Case) *c15Case {
	n := &c15Case{in: c15CloneSchemas(c.in, true)}
	for _, st := range c.steps {
		s2 := &c15Step{Name: st.Name, S: map[string]string{}, L: map[string][]string{}, HasComments: st.HasComments, Comments: append([]string(nil), st.Comments...)}
		for k, v := range st.S {
			s2.S[k] = v
		}
		for k, v := range st.L {
			s2.L[k] = append([]string{}, v...)
		}
		if st.As != nil {
			t := c15CloneType(*st.As, true)
			s2.As = &t
		}
		for _, f := range st.Fields {
			s2.Fields = append(s2.Fields, c15CloneField(f, true))
		}
		for _, e := range st.KVs {
			s2.KVs = append(s2.KVs, c15KV{e.K, c15CloneVal(e.V)})
		}
		n.steps = append(n.steps, s2)
	}
	return n
}

func c15SimpleType() ast.Type {
	return ast.Type{Kind: ast.KindScalar, Scalar: &ast.ScalarType{ScalarKind: ast.KindString}, Hints: ast.JenniesHints{}}
}

// children of a type that can replace it / be dropped
func c15ShrinkType(t ast.Type) []ast.Type {
	out := []ast.Type{}
	simple := c15SimpleType()
	if virType(t) != virType(simple) {
		out = append(out, simple)
	}
	plain := t
	if t.Nullable || t.Default != nil || len(t.Hints) > 0 {
		plain.Nullable, plain.Default = false, nil
		if t.Hints != nil {
			plain.Hints = ast.JenniesHints{}
		}
		out = append(out, plain)
	}
	switch {
	case t.Array != nil:
		out = append(out, t.Array.ValueType)
		for _, c := range c15ShrinkType(t.Array.ValueType) {
			n := c15CloneType(t, true)
			n.Array.ValueType = c
			out = append(out, n)
		}
	case t.Map != nil:
		out = append(out, t.Map.ValueType)
		for _, c := range c15ShrinkType(t.Map.ValueType) {
			n := c15CloneType(t, true)
			n.Map.ValueType = c
			out = append(out, n)
		}
		for _, c := range c15ShrinkType(t.Map.IndexType) {
			n := c15CloneType(t, true)
			n.Map.IndexType = c
			out = append(out, n)
		}
	case t.Struct != nil:
		for i := range t.Struct.Fields {
			n := c15CloneType(t, true)
			n.Struct.Fields = append(n.Struct.Fields[:i:i], n.Struct.Fields[i+1:]...)
			out = append(out, n)
		}
		for i, f := range t.Struct.Fields {
			for _, c := range c15ShrinkType(f.Type) {
				n := c15CloneType(t, true)
				n.Struct.Fields[i].Type = c
				out = append(out, n)
			}
			if len(f.Comments) > 0 {
				n := c15CloneType(t, true)
				n.Struct.Fields[i].Comments = nil
				out = append(out, n)
			}
		}
	case t.Disjunction != nil:
		for i, b := range t.Disjunction.Branches {
			out = append(out, b)
			if len(t.Disjunction.Branches) > 1 {
				n := c15CloneType(t, true)
				n.Disjunction.Branches = append(n.Disjunction.Branches[:i:i], n.Disjunction.Branches[i+1:]...)
				out = append(out, n)
			}
			for _, c := range c15ShrinkType(b) {
				n := c15CloneType(t, true)
				n.Disjunction.Branches[i] = c
				out = append(out, n)
			}
		}
	case t.Intersection != nil:
		for i, b := range t.Intersection.Branches {
			out = append(out, b)
			if len(t.Intersection.Branches) > 1 {
				n := c15CloneType(t, true)
				n.Intersection.Branches = append(n.Intersection.Branches[:i:i], n.Intersection.Branches[i+1:]...)
				out = append(out, n)
			}
			for _, c := range c15ShrinkType(b) {
				n := c15CloneType(t, true)
				n.Intersection.Branches[i] = c
				out = append(out, n)
			}
		}
	case t.Enum != nil:
		if len(t.Enum.Values) > 1 {
			for i := range t.Enum.Values {
				n := c15CloneType(t, true)
				n.Enum.Values = append(n.Enum.Values[:i:i], n.Enum.Values[i+1:]...)
				out = append(out, n)
			}
		}
	}
	return out
}

// every one-step smaller variant of the case
func c15Smaller(c *c15Case, emit func(*c15Case) bool) bool {
	if len(c.steps) > 1 {
		for i := range c.steps {
			n := c15CopyCase(c)
			n.steps = append(n.steps[:i:i], n.steps[i+1:]...)
			if emit(n) {
				return true
			}
		}
	}
	if len(c.in) > 1 {
		for i := range c.in {
			n := c15CopyCase(c)
			n.in = append(n.in[:i:i], n.in[i+1:]...)
			if emit(n) {
				return true
			}
		}
	}
	for si, s := range c.in {
		objs := c15ObjList(s)
		for oi := range objs {
			n := c15CopyCase(c)
			n.in[si].Objects.Remove(objs[oi].Name)
			if emit(n) {
				return true
			}
		}
		if s.EntryPoint != "" || s.Metadata != (ast.SchemaMeta{}) || s.EntryPointType.Kind != "" {
			n := c15CopyCase(c)
			n.in[si].EntryPoint, n.in[si].Metadata, n.in[si].EntryPointType = "", ast.SchemaMeta{}, ast.Type{}
			if emit(n) {
				return true
			}
		}
	}
	for si, s := range c.in {
		for _, o := range c15ObjList(s) {
			if len(o.Comments) > 0 {
				n := c15CopyCase(c)
				o2 := n.in[si].Objects.Get(o.Name)
				o2.Comments = nil
				n.in[si].Objects.Set(o.Name, o2)
				if emit(n) {
					return true
				}
			}
			for _, t := range c15ShrinkType(o.Type) {
				n := c15CopyCase(c)
				o2 := n.in[si].Objects.Get(o.Name)
				o2.Type = t
				n.in[si].Objects.Set(o.Name, o2)
				if emit(n) {
					return true
				}
			}
		}
	}
	for i, st := range c.steps {
		for k, l := range st.L {
			if len(l) > 1 {
				for j := range l {
					n := c15CopyCase(c)
					n.steps[i].L[k] = append(n.steps[i].L[k][:j:j], n.steps[i].L[k][j+1:]...)
					if emit(n) {
						return true
					}
				}
			}
		}
		if len(st.Fields) > 1 {
			for j := range st.Fields {
				n := c15CopyCase(c)
				n.steps[i].Fields = append(n.steps[i].Fields[:j:j], n.steps[i].Fields[j+1:]...)
				if emit(n) {
					return true
				}
			}
		}
		for j, f := range st.Fields {
			for _, t := range c15ShrinkType(f.Type) {
				n := c15CopyCase(c)
				n.steps[i].Fields[j].Type = t
				if emit(n) {
					return true
				}
			}
		}
		if len(st.KVs) > 1 || (len(st.KVs) == 1 && st.Name == "hint_object") {
			for j := range st.KVs {
				n := c15CopyCase(c)
				n.steps[i].KVs = append(n.steps[i].KVs[:j:j], n.steps[i].KVs[j+1:]...)
				if emit(n) {
					return true
				}
			}
		}
		if st.As != nil {
			for _, t := range c15ShrinkType(*st.As) {
				n := c15CopyCase(c)
				t := t
				n.steps[i].As = &t
				if emit(n) {
					return true
				}
			}
		}
		if st.HasComments {
			n := c15CopyCase(c)
			n.steps[i].HasComments, n.steps[i].Comments = false, nil
			if emit(n) {
				return true
			}
		}
	}
	return false
}

func c15Shrink(c *c15Case, class string, budget int) *c15Case {
	cur := c
	for budget > 0 {
		progressed := c15Smaller(cur, func(n *c15Case) bool {
			if budget <= 0 {
				return false
			}
			budget--
			_, _, v := c15Row(n)
			if cl := c15Class(v); c15SubClass(cl, class) {
				cur, class = n, cl
				return true
			}
			return false
		})
		if !progressed {
			break
		}
	}
	return cur
}

// ---------- generation ----------

func c15Variant(r *rng, s string) string {
	if s == "" {
		return s
	}
	switch r.intn(3) {
	case 0:
		return strings.ToLower(s)
	case 1:
		return strings.ToUpper(s)
	}
	c := s[:1]
	if strings.ToUpper(c) == c {
		return strings.ToLower(c) + s[1:]
	}
	return strings.ToUpper(c) + s[1:]
}

type c15Gen struct {
	r    *rng
	o    irGenOpts
	tier string
}

func (g *c15Gen) pkgOf(ss ast.Schemas) string {
	if len(ss) == 0 || g.r.chance(6) {
		return "zz"
	}
	return pick(g.r, ss).Package
}

func (g *c15Gen) schemaOf(ss ast.Schemas, pkg string) *ast.Schema {
	for _, s := range ss {
		if s.Package == pkg {
			return s
		}
	}
	return nil
}

// an object name: mostly one that exists in pkg (structs preferred on request), sometimes a
// letter-case variant, sometimes a name that exists only elsewhere or nowhere
func (g *c15Gen) objName(ss ast.Schemas, pkg string, wantStruct bool) string {
	s := g.schemaOf(ss, pkg)
	if s != nil && g.r.chance(78) {
		objs := c15ObjList(s)
		if wantStruct && g.r.chance(80) {
			st := []ast.Object{}
			for _, o := range objs {
				if o.Type.Kind == ast.KindStruct {
					st = append(st, o)
				}
			}
			if len(st) > 0 {
				objs = st
			}
		}
		if len(objs) > 0 {
			n := pick(g.r, objs).Name
			if g.r.chance(25) {
				n = c15Variant(g.r, n)
			}
			if g.r.chance(6) {
				n = g.nearMiss(n)
			}
			return n
		}
	}
	if g.r.chance(70) {
		return pick(g.r, irObjNames)
	}
	return pick(g.r, []string{"Nope", "Zed", "missing"})
}

// near misses of a name: a proper prefix, or the name with something appended
func (g *c15Gen) nearMiss(s string) string {
	if len(s) > 1 && g.r.chance(50) {
		return s[:1+g.r.intn(len(s)-1)]
	}
	return s + pick(g.r, []string{"x", "s", "_", "2"})
}

func (g *c15Gen) objRef(ss ast.Schemas, wantStruct bool) string {
	if g.r.chance(3) {
		return pick(g.r, []string{"p", "p.Foo.x", "", "Foo", "p.q.r.s"})
	}
	pkg := g.pkgOf(ss)
	return pkg + "." + g.objName(ss, pkg, wantStruct)
}

func (g *c15Gen) fieldRef(ss ast.Schemas) string {
	if g.r.chance(3) {
		return pick(g.r, []string{"p.Foo", "p", "", "p.Foo.a.b"})
	}
	pkg := g.pkgOf(ss)
	obj := g.objName(ss, pkg, true)
	field := pick(g.r, irFieldNames)
	if s := g.schemaOf(ss, pkg); s != nil {
		for _, o := range c15ObjList(s) {
			if strings.EqualFold(o.Name, obj) && o.Type.Kind == ast.KindStruct && o.Type.Struct != nil && len(o.Type.Struct.Fields) > 0 && g.r.chance(80) {
				field = pick(g.r, o.Type.Struct.Fields).Name
				if g.r.chance(25) {
					field = c15Variant(g.r, field)
				}
				if g.r.chance(8) {
					field = g.nearMiss(field)
				}
				break
			}
		}
	}
	if g.r.chance(5) {
		field = "nope"
	}
	return pkg + "." + obj + "." + field
}

func (g *c15Gen) refs(n int, f func() string) []string {
	out := []string{}
	for i := 0; i < n; i++ {
		out = append(out, f())
	}
	return out
}

// values as yaml.v3 decodes them into `any`
func c15YamlNormVal(v any) any {
	switch x := v.(type) {
	case int64:
		return int(x)
	case uint64:
		return int(x)
	case int32:
		return int(x)
	case json.Number:
		return string(x)
	case []any:
		out := make([]any, len(x))
		for i, e := range x {
			out[i] = c15YamlNormVal(e)
		}
		return out
	case map[string]any:
		out := map[string]any{}
		for k, e := range x {
			out[k] = c15YamlNormVal(e)
		}
		return out
	}
	return v
}

// make a generated type one that a YAML document can denote exactly
func (g *c15Gen) yamlNormType(t *ast.Type) {
	c15Walk(t, true, func(x *ast.Type) {
		x.Default = c15YamlNormVal(x.Default)
		for k, v := range x.Hints {
			x.Hints[k] = c15YamlNormVal(v)
		}
		if len(x.Hints) == 0 && g.r.chance(75) {
			x.Hints = nil
		}
		if x.Scalar != nil {
			x.Scalar.Value = c15YamlNormVal(x.Scalar.Value)
			for i := range x.Scalar.Constraints {
				x.Scalar.Constraints[i].Args = c15YamlNormVal(x.Scalar.Constraints[i].Args).([]any)
			}
		}
		if x.ConstantReference != nil {
			x.ConstantReference.ReferenceValue = c15YamlNormVal(x.ConstantReference.ReferenceValue)
		}
		if x.Enum != nil {
			for i := range x.Enum.Values {
				x.Enum.Values[i].Value = c15YamlNormVal(x.Enum.Values[i].Value)
			}
		}
		if x.Disjunction != nil && len(x.Disjunction.DiscriminatorMapping) == 0 {
			x.Disjunction.DiscriminatorMapping = nil
		}
	})
}

func (g *c15Gen) typeFor(ss ast.Schemas, pkg string) ast.Type {
	ig := &irGen{r: g.r, o: g.o, objs: map[string][]string{}}
	for _, s := range ss {
		ig.pkgs = append(ig.pkgs, s.Package)
		for _, o := range c15ObjList(s) {
			ig.objs[s.Package] = append(ig.objs[s.Package], o.Name)
		}
	}
	ig.cur = pkg
	if len(ig.pkgs) == 0 {
		ig.pkgs = []string{"p"}
	}
	if _, ok := ig.objs[pkg]; !ok {
		ig.cur = ig.pkgs[0]
	}
	ig.o.malformed = false
	var t ast.Type
	if g.r.chance(35) {
		t = ig.structType(1)
	} else {
		t = ig.ty(g.o.maxDepth - 2)
	}
	g.yamlNormType(&t)
	return t
}

func (g *c15Gen) yamlVal() any {
	ig := &irGen{r: g.r, o: g.o}
	return c15YamlNormVal(ig.val(0))
}

func c15HasMap(v any) bool {
	switch x := v.(type) {
	case map[string]any:
		return true
	case []any:
		for _, e := range x {
			if c15HasMap(e) {
				return true
			}
		}
	}
	return false
}

// hint values: a YAML mapping inside `hints:` is decoded by yaml.v3 as ast.JenniesHints (the
// type of the enclosing map), which VIR can only print opaquely; not generated
func (g *c15Gen) hintVal() any {
	for {
		if v := g.yamlVal(); !c15HasMap(v) {
			return v
		}
	}
}

func (g *c15Gen) comments() (bool, []string) {
	if !g.r.chance(35) {
		return false, nil
	}
	n := g.r.intn(3)
	out := []string{}
	for i := 0; i < n; i++ {
		out = append(out, pick(g.r, []string{"retyped", "a comment", "", "x: y"}))
	}
	return true, out
}

// object names and names referred to, over all schemas
func (g *c15Gen) allNames(ss ast.Schemas) []string {
	out := []string{}
	for _, s := range ss {
		for _, o := range c15ObjList(s) {
			out = append(out, o.Name)
		}
	}
	for _, ref := range g.refsIn(ss) {
		if _, n, ok := c15ObjRef(ref); ok {
			out = append(out, n)
		}
	}
	return out
}

func (g *c15Gen) refsIn(ss ast.Schemas) []string {
	out := []string{}
	for _, s := range ss {
		for _, o := range c15ObjList(s) {
			c15Walk(&o.Type, true, func(t *ast.Type) {
				if t.Kind == ast.KindRef && t.Ref != nil {
					out = append(out, t.Ref.ReferredPkg+"."+t.Ref.ReferredType)
				}
			})
		}
	}
	return out
}

func (g *c15Gen) step(name string, ss ast.Schemas) *c15Step {
	r := g.r
	st := &c15Step{Name: name, S: map[string]string{}, L: map[string][]string{}}
	switch name {
	case "rename_object":
		from := g.objRef(ss, false)
		st.S["from"] = from
		pkg, obj, _ := c15ObjRef(from)
		switch n := r.intn(100); {
		case n < 15:
			st.S["to"] = g.objName(ss, pkg, false)
		case n < 25:
			st.S["to"] = c15Variant(r, obj)
		default:
			st.S["to"] = pick(r, []string{"Zed", "Renamed", "X", "zed"})
		}
	case "omit", "constant_to_enum":
		st.L["objects"] = g.refs(1+r.intn(3), func() string { return g.objRef(ss, false) })
	case "omit_fields", "fields_set_required", "fields_set_not_required":
		st.L["fields"] = g.refs(1+r.intn(3), func() string { return g.fieldRef(ss) })
	case "add_fields":
		st.S["to"] = g.objRef(ss, true)
		pkg, obj, _ := c15ObjRef(st.S["to"])
		n := 1 + r.intn(3)
		for i := 0; i < n; i++ {
			fname := pick(r, irFieldNames)
			if s := g.schemaOf(ss, pkg); s != nil && r.chance(30) {
				for _, o := range c15ObjList(s) {
					if strings.EqualFold(o.Name, obj) && o.Type.Kind == ast.KindStruct && o.Type.Struct != nil && len(o.Type.Struct.Fields) > 0 {
						fname = pick(r, o.Type.Struct.Fields).Name
						if r.chance(40) {
							fname = c15Variant(r, fname)
						}
					}
				}
			}
			f := ast.StructField{Name: fname, Type: g.typeFor(ss, pkg), Required: r.chance(50)}
			if r.chance(25) {
				f.Comments = []string{"added"}
			}
			st.Fields = append(st.Fields, f)
		}
	case "add_object":
		if r.chance(65) {
			st.S["object"] = g.pkgOf(ss) + "." + pick(r, []string{"NewObj", "Zed", "Added"})
		} else {
			st.S["object"] = g.objRef(ss, false)
		}
		pkg, _, _ := c15ObjRef(st.S["object"])
		t := g.typeFor(ss, pkg)
		st.As = &t
		st.HasComments, st.Comments = g.comments()
	case "duplicate_object":
		st.S["object"] = g.objRef(ss, true)
		spkg, sobj, _ := c15ObjRef(st.S["object"])
		dpkg := spkg
		switch n := r.intn(100); {
		case n < 20:
			dpkg = g.pkgOf(ss)
		case n < 28:
			dpkg = "zz"
		}
		dname := pick(r, []string{"Copy", "Dup", "Zed"})
		if r.chance(25) {
			dname = g.objName(ss, dpkg, false)
		}
		st.S["as"] = dpkg + "." + dname
		if r.chance(3) {
			st.S["as"] = "nodots"
		}
		if r.chance(45) {
			names := []string{pick(r, irFieldNames)}
			if s := g.schemaOf(ss, spkg); s != nil {
				for _, o := range c15ObjList(s) {
					if strings.EqualFold(o.Name, sobj) && o.Type.Kind == ast.KindStruct && o.Type.Struct != nil && len(o.Type.Struct.Fields) > 0 {
						names = append(names, c15Variant(r, pick(r, o.Type.Struct.Fields).Name), pick(r, o.Type.Struct.Fields).Name)
					}
				}
			}
			st.L["omit_fields"] = g.refs(1+r.intn(2), func() string { return pick(r, names) })
		}
	case "retype_object":
		st.S["object"] = g.objRef(ss, false)
		pkg, _, _ := c15ObjRef(st.S["object"])
		t := g.typeFor(ss, pkg)
		st.As = &t
		st.HasComments, st.Comments = g.comments()
	case "retype_field":
		st.S["field"] = g.fieldRef(ss)
		pkg, _, _, _ := c15FieldRef(st.S["field"])
		t := g.typeFor(ss, pkg)
		st.As = &t
		st.HasComments, st.Comments = g.comments()
	case "fields_set_default":
		n := 1 + r.intn(3)
		seen := map[string]bool{}
		for i := 0; i < n; i++ {
			k := g.fieldRef(ss)
			if !seen[k] {
				seen[k] = true
				st.KVs = append(st.KVs, c15KV{k, g.yamlVal()})
			}
		}
		if r.chance(8) {
			k := st.KVs[0].K
			if p, o, f, ok := c15FieldRef(k); ok {
				k2 := p + "." + c15Variant(r, o) + "." + c15Variant(r, f)
				if !seen[k2] {
					st.KVs = append(st.KVs, c15KV{k2, g.yamlVal()})
				}
			}
		}
		c15SortKVs(st.KVs)
	case "replace_reference":
		st.S["from"] = g.objRef(ss, false)
		if used := g.refsIn(ss); len(used) > 0 && r.chance(75) {
			st.S["from"] = pick(r, used)
			if p, o, ok := c15ObjRef(st.S["from"]); ok && r.chance(25) {
				st.S["from"] = p + "." + c15Variant(r, o)
			}
		}
		if r.chance(50) {
			st.S["to"] = g.objRef(ss, false)
		} else {
			st.S["to"] = pick(r, []string{"q.Other", "ext.Thing", "p.Zed"})
		}
	case "trim_enum_values", "unspec":
	case "hint_object":
		st.S["object"] = g.objRef(ss, false)
		n := r.intn(3)
		seen := map[string]bool{}
		for i := 0; i < n; i++ {
			k := pick(r, []string{"kind", "custom", "skip_variant_plugin_registration", "x", "string_format_datetime", "disjunction_of_scalars"})
			if !seen[k] {
				seen[k] = true
				st.KVs = append(st.KVs, c15KV{k, g.hintVal()})
			}
		}
		c15SortKVs(st.KVs)
	case "schema_set_identifier":
		st.S["package"] = g.pkgOf(ss)
		st.S["identifier"] = pick(r, []string{"ident", "", "Dashboard", "x y"})
	case "schema_set_entry_point":
		st.S["package"] = g.pkgOf(ss)
		st.S["entry_point"] = g.objName(ss, st.S["package"], false)
	case "prefix":
		st.S["prefix"] = pick(r, []string{"X", "my_", "Pre fix", "", "a-b", "2x", "foo", "Lib"})
		// prefixes that existing names already start with (or are, or are a case variant of):
		// "do not prefix twice" shortcuts must not exist
		if names := g.allNames(ss); len(names) > 0 && r.chance(35) {
			n := pick(r, names)
			if len(n) > 1 && r.chance(60) {
				n = n[:1+r.intn(len(n)-1)]
			}
			if r.chance(25) {
				n = c15Variant(r, n)
			}
			st.S["prefix"] = n
		}
	case "append_comment":
		st.S["comment"] = pick(r, []string{"Generated", "", "do not edit", "x: \"y\""})
	}
	return st
}

func c15SortKVs(kvs []c15KV) {
	for i := 1; i < len(kvs); i++ {
		for j := i; j > 0 && kvs[j].K < kvs[j-1].K; j-- {
			kvs[j], kvs[j-1] = kvs[j-1], kvs[j]
		}
	}
}

// IR for the xform streams: the shared generator plus the shapes some transformations need
// (string constants for constant_to_enum, padded enum values for trim_enum_values).
func (g *c15Gen) schemas() (ss ast.Schemas) {
	r := g.r
	// the shared generator can dereference a nil kind pointer of its own malformed nodes
	// (irgen.go: `b.IsRef()` on a `Type{Kind: ref}` without Ref); such a draw is skipped
	defer func() {
		if rec := recover(); rec != nil {
			ss = nil
		}
	}()
	ss = genSchemas(r, g.o)
	if len(ss) > 1 && r.chance(3) {
		// two schemas of the same package (cog consolidates them later; the passes see both)
		from, to := ss[1].Package, ss[0].Package
		ss[1].Package = to
		objs := c15ObjList(ss[1])
		for i := range objs {
			objs[i].SelfRef.ReferredPkg = to
		}
		c15SetObjs(ss[1], objs, true)
		_ = from
	}
	for _, s := range ss {
		if r.chance(30) {
			name := pick(r, []string{"Kind", "Const", "kind", "Version"})
			t := ast.String(ast.Value(pick(r, []string{"foo", "dashboard", "", "a b"})))
			if r.chance(40) {
				t.Nullable = true
			}
			if r.chance(30) {
				t.Default = "foo"
			}
			if r.chance(25) {
				t = ast.NewScalar(ast.KindInt64, ast.Value(int64(3)))
			}
			if r.chance(10) {
				t = ast.NewScalar(ast.KindString, ast.Value(int64(1))) // constant of another type than its kind
			}
			s.AddObject(ast.NewObject(s.Package, name, t))
		}
		if r.chance(25) {
			// structs generated from a disjunction keep it as the value of a hint (VIR: gen / geninfo)
			objs := c15ObjList(s)
			names := []string{}
			for _, o := range objs {
				names = append(names, o.Name)
			}
			for i := range objs {
				c15Walk(&objs[i].Type, false, func(t *ast.Type) {
					if t.Kind != ast.KindStruct || t.Struct == nil || t.Hints == nil || !r.chance(35) {
						return
					}
					if r.chance(60) {
						d := ast.DisjunctionType{Discriminator: pick(r, []string{"kind", "type"}), DiscriminatorMapping: map[string]string{}}
						for k := 1 + r.intn(2); k > 0; k-- {
							n := pick(r, names)
							d.Branches = append(d.Branches, ast.NewRef(s.Package, n))
							d.DiscriminatorMapping[pick(r, []string{"k1", "k2", "k3"})] = n
						}
						t.Hints[ast.HintDiscriminatedDisjunctionOfRefs] = d
					} else {
						t.Hints[ast.HintDisjunctionOfScalars] = ast.DisjunctionType{Branches: ast.Types{ast.String(), ast.Bool(), ast.NewRef(s.Package, pick(r, names))}}
					}
				})
			}
			c15SetObjs(s, objs, true)
		}
		if r.chance(50) {
			objs := c15ObjList(s)
			for i := range objs {
				c15Walk(&objs[i].Type, true, func(t *ast.Type) {
					if t.Kind == ast.KindEnum && t.Enum != nil {
						for j, v := range t.Enum.Values {
							if sv, ok := v.Value.(string); ok && r.chance(50) {
								t.Enum.Values[j].Value = pick(r, []string{" ", "  ", "\t", ""}) + sv + pick(r, []string{" ", "\n", "", " x "})
							}
						}
					}
				})
			}
		}
	}
	return ss
}

func c15Names(args map[string]string, withHelpers bool) []string {
	if o := args["only"]; o != "" {
		return strings.Split(o, ",")
	}
	names := append([]string{}, c15YamlNames...)
	if withHelpers {
		names = append(names, c15HelperNames...)
	}
	return names
}

// ---------- streams ----------

// 4th column (single transformations): what the oracle's specification says, for the comparison
// with the Lean specification the theorems are stated about
func c15SpecColumn(c *c15Case) string {
	if len(c.steps) != 1 {
		return "-"
	}
	exp, es, _ := c15Spec(c.steps, c.in, c15Q{})
	if es == "ok" {
		return "ok " + virSchemas(exp)
	}
	return es
}

func c15Emit(out *bufio.Writer, c *c15Case) {
	req, impl, verdict := c15Row(c)
	fmt.Fprintf(out, "%s\t%s\t%s\t%s\n", req, impl, verdict, c15SpecColumn(c))
}

func init() {
	register("xform-single", func(args map[string]string, out *bufio.Writer) error {
		n := argInt(args, "n", 400)
		seed := argInt(args, "seed", 1)
		names := c15Names(args, true)
		for i := 0; i < n; i++ {
			g := &c15Gen{r: newRng(uint64(seed)*1000003 + uint64(i)*7919 + 15), o: defaultIRGenOpts(args["tier"]), tier: args["tier"]}
			g.o.malformed = args["malformed"] == "1"
			ss := g.schemas()
			if ss == nil {
				continue
			}
			c := &c15Case{in: ss, steps: []*c15Step{g.step(names[i%len(names)], ss)}}
			c15Emit(out, c)
		}
		return nil
	})
	register("xform-seq", func(args map[string]string, out *bufio.Writer) error {
		n := argInt(args, "n", 200)
		seed := argInt(args, "seed", 1)
		maxlen := argInt(args, "maxlen", 4)
		names := c15Names(args, true)
		for i := 0; i < n; i++ {
			g := &c15Gen{r: newRng(uint64(seed)*1000003 + uint64(i)*7919 + 16), o: defaultIRGenOpts(args["tier"]), tier: args["tier"]}
			ss := g.schemas()
			if ss == nil {
				continue
			}
			c := &c15Case{in: ss}
			k := 2 + g.r.intn(maxlen-1)
			cur := ss
			for j := 0; j < k; j++ {
				c.steps = append(c.steps, g.step(pick(g.r, names), cur))
				// later steps aim at what the earlier ones really produced
				if status, res, _ := c15Run(c); status == "ok" {
					cur = res
				}
			}
			c15Emit(out, c)
		}
		return nil
	})
	register("xform-eval", func(args map[string]string, out *bufio.Writer) error {
		for _, line := range readLines(args["in"]) {
			line = strings.SplitN(line, "\t", 2)[0]
			if strings.HasPrefix(line, "#") {
				continue
			}
			c, err := c15ParseRequest(line)
			if err != nil {
				return fmt.Errorf("cannot parse request: %w: %s", err, c15Trunc(line, 200))
			}
			c15Emit(out, c)
		}
		return nil
	})
	register("xform-shrink", func(args map[string]string, out *bufio.Writer) error {
		for _, line := range readLines(args["in"]) {
			line = strings.SplitN(line, "\t", 2)[0]
			c, err := c15ParseRequest(line)
			if err != nil {
				return err
			}
			_, _, v := c15Row(c)
			if cl := c15Class(v); cl != "ok" {
				c = c15Shrink(c, cl, argInt(args, "budget", 1500))
			}
			c15Emit(out, c)
		}
		return nil
	})
	register("xform-strings", func(args map[string]string, out *bufio.Writer) error {
		n := argInt(args, "n", 300)
		r := newRng(uint64(argInt(args, "seed", 1)) + 77)
		alphabet := []string{"a", "B", "c", "Z", "0", "9", " ", "_", "-", ".", "x", "Y", "+", "\t", "\n", "/", "k"}
		word := func() string {
			s := ""
			for i := r.intn(7); i > 0; i-- {
				s += pick(r, alphabet)
			}
			return s
		}
		for i := 0; i < n; i++ {
			a := word()
			b := a
			switch r.intn(3) {
			case 0:
				b = c15Variant(r, a)
			case 1:
				b = word()
			}
			fmt.Fprintf(out, "xform str eqfold %s %s\t%v\tok\n", virQuote(a), virQuote(b), strings.EqualFold(a, b))
			fmt.Fprintf(out, "xform str trim %s\t%s\tok\n", virQuote(a), virQuote(strings.TrimSpace(a)))
			fmt.Fprintf(out, "xform str ucc %s\t%s\tok\n", virQuote(a), virQuote(tools.UpperCamelCase(a)))
			if o, err := compiler.ObjectReferenceFromString(a); err != nil {
				fmt.Fprintf(out, "xform str objref %s\terr\tok\n", virQuote(a))
			} else {
				fmt.Fprintf(out, "xform str objref %s\t%s %s\tok\n", virQuote(a), virQuote(o.Package), virQuote(o.Object))
			}
			if f, err := compiler.FieldReferenceFromString(a); err != nil {
				fmt.Fprintf(out, "xform str fieldref %s\terr\tok\n", virQuote(a))
			} else {
				fmt.Fprintf(out, "xform str fieldref %s\t%s %s %s\tok\n", virQuote(a), virQuote(f.Package), virQuote(f.Object), virQuote(f.Field))
			}
		}
		return nil
	})
}
