package main

// C07, pair sweep: for two inputs A, B of different packages (also the SAME file loaded under two
// package names, which maximises same-named generated objects), over all seven languages:
//   (1) run([A,B]) and run([B,A]) produce the same files;
//   (2) the files of A's package in run([A,B]) are the files of run([A]) (B is an input nothing
//       in A references), and symmetrically for B.
// Pairwise interactions between packages (bookkeeping keyed by bare object names that survives
// from one schema to the next, as in RemoveIntersections before its fix) show only for specific
// pairs, so the thorough tier sweeps every pair and the quick tier a seed-rotated subset after
// the pinned pairs.

import (
	"bufio"
	"fmt"
	"strings"
)

func c07PkgKeep(pkg string) func(string) bool {
	return func(p string) bool {
		return strings.Contains(p, "/"+pkg+"/") || strings.Contains(p, "/"+pkg+".")
	}
}

func init() {
	register("c07-pairs", func(args map[string]string, out *bufio.Writer) error {
		n := argInt(args, "n", 30)
		r := newRng(uint64(argInt(args, "seed", 1)))
		all := c07Testdata()
		clean := strings.NewReplacer("\n", " ", "\t", " ")
		byPkg := map[string]c07Input{}
		for _, in := range all {
			byPkg[in.pkg] = in
		}
		type pair struct{ a, b c07Input }
		var pairs []pair
		// pinned: the pairs on which the RemoveIntersections leak showed (fixed in /repo; a relapse is a violation)
		for _, pn := range [][2]string{{"js_anyof_object", "js_anyof_struct_field"}, {"js_oneof_struct_field", "js_anyof_object"}, {"js_oneof_object", "js_oneof_struct_field"}} {
			a, okA := byPkg[pn[0]]
			b, okB := byPkg[pn[1]]
			if okA && okB {
				pairs = append(pairs, pair{a, b})
			}
		}
		pinned := len(pairs)
		var rest []pair
		for i := 0; i < len(all); i++ {
			for j := i; j < len(all); j++ {
				a, b := all[i], all[j]
				if i == j {
					a.pkg, b.pkg = a.pkg+"_x", b.pkg+"_y"
				}
				rest = append(rest, pair{a, b})
			}
		}
		// seed-rotated order
		for i := len(rest) - 1; i > 0; i-- {
			j := r.intn(i + 1)
			rest[i], rest[j] = rest[j], rest[i]
		}
		if n > 0 && n < len(rest) {
			rest = rest[:n]
		}
		pairs = append(pairs, rest...)
		alone := map[string]map[string]string{}
		aloneErr := map[string]error{}
		runAlone := func(in c07Input, builders bool) (map[string]string, error) {
			k := fmt.Sprintf("%s|%s|%v", in.path, in.pkg, builders)
			if f, ok := alone[k]; ok {
				return f, aloneErr[k]
			}
			f, err := c07Run([]c07Input{in}, c07Langs, builders)
			alone[k], aloneErr[k] = f, err
			return f, err
		}
		for i, p := range pairs {
			builders := i >= pinned && r.chance(30)
			d := fmt.Sprintf("%s+%s builders=%v", p.a.pkg, p.b.pkg, builders)
			if i < pinned {
				d = "pinned " + d
			}
			fa, errA := runAlone(p.a, builders)
			fb, errB := runAlone(p.b, builders)
			if errA != nil || errB != nil {
				fmt.Fprintf(out, "-\tpair-skip %s\tok\n", clean.Replace(d))
				continue
			}
			ab, err1 := c07Run([]c07Input{p.a, p.b}, c07Langs, builders)
			ba, err2 := c07Run([]c07Input{p.b, p.a}, c07Langs, builders)
			verdict := "ok"
			switch {
			case err1 != nil && err2 != nil:
				verdict = "FAIL two inputs of different packages fail together while each succeeds alone: " + err1.Error()
			case err1 != nil:
				verdict = "FAIL fails in one order of the inputs only: " + err1.Error()
			case err2 != nil:
				verdict = "FAIL fails in one order of the inputs only: " + err2.Error()
			default:
				if df := c07Diff(ab, ba, func(string) bool { return true }); df != "" {
					verdict = "FAIL reordering inputs of different packages changes files: " + df
				} else if df := c07Diff(fa, ab, c07PkgKeep(p.a.pkg)); df != "" {
					verdict = "FAIL an unrelated input changes files of the other packages: " + df
				} else if df := c07Diff(fb, ab, c07PkgKeep(p.b.pkg)); df != "" {
					verdict = "FAIL an unrelated input changes files of the other packages: " + df
				}
			}
			fmt.Fprintf(out, "-\tpair %s\t%s\n", clean.Replace(d), clean.Replace(verdict))
		}
		return nil
	})
}
