package main

// C04: ordered JSON tree + grammar-aware mutations of JSON Schema / OpenAPI documents, text-level
// mutations of CUE, and raw byte mutations.  Everything is driven by the shared rng.

import (
	"bytes"
	"encoding/json"
	"fmt"
	"io"
	"sort"
	"strings"
)

// ---------- ordered JSON ----------

type c04JNode struct {
	kind string // obj | arr | str | num | bool | null
	keys []string
	vals []*c04JNode // obj: parallel to keys; arr: elements
	s    string      // str value / num literal
	b    bool
}

func c04JStr(s string) *c04JNode       { return &c04JNode{kind: "str", s: s} }
func c04JNum(s string) *c04JNode       { return &c04JNode{kind: "num", s: s} }
func c04JBool(b bool) *c04JNode        { return &c04JNode{kind: "bool", b: b} }
func c04JNull() *c04JNode              { return &c04JNode{kind: "null"} }
func c04JArr(v ...*c04JNode) *c04JNode { return &c04JNode{kind: "arr", vals: v} }
func c04JObj(kv ...any) *c04JNode {
	n := &c04JNode{kind: "obj"}
	for i := 0; i+1 < len(kv); i += 2 {
		n.keys = append(n.keys, kv[i].(string))
		n.vals = append(n.vals, kv[i+1].(*c04JNode))
	}
	return n
}

func (n *c04JNode) get(k string) *c04JNode {
	if n == nil || n.kind != "obj" {
		return nil
	}
	for i, kk := range n.keys {
		if kk == k {
			return n.vals[i]
		}
	}
	return nil
}

func (n *c04JNode) set(k string, v *c04JNode) {
	for i, kk := range n.keys {
		if kk == k {
			n.vals[i] = v
			return
		}
	}
	n.keys = append(n.keys, k)
	n.vals = append(n.vals, v)
}

func (n *c04JNode) del(k string) {
	for i, kk := range n.keys {
		if kk == k {
			n.keys = append(n.keys[:i:i], n.keys[i+1:]...)
			n.vals = append(n.vals[:i:i], n.vals[i+1:]...)
			return
		}
	}
}

func (n *c04JNode) clone() *c04JNode {
	if n == nil {
		return nil
	}
	c := &c04JNode{kind: n.kind, s: n.s, b: n.b}
	c.keys = append([]string{}, n.keys...)
	for _, v := range n.vals {
		c.vals = append(c.vals, v.clone())
	}
	return c
}

func c04JParse(data []byte) (*c04JNode, error) {
	dec := json.NewDecoder(bytes.NewReader(data))
	dec.UseNumber()
	n, err := c04JParseValue(dec)
	if err != nil {
		return nil, err
	}
	if _, err := dec.Token(); err != io.EOF {
		return nil, fmt.Errorf("trailing data")
	}
	return n, nil
}

func c04JParseValue(dec *json.Decoder) (*c04JNode, error) {
	tok, err := dec.Token()
	if err != nil {
		return nil, err
	}
	switch t := tok.(type) {
	case json.Delim:
		switch t {
		case '{':
			n := &c04JNode{kind: "obj"}
			for dec.More() {
				kt, err := dec.Token()
				if err != nil {
					return nil, err
				}
				v, err := c04JParseValue(dec)
				if err != nil {
					return nil, err
				}
				n.keys = append(n.keys, kt.(string))
				n.vals = append(n.vals, v)
			}
			_, err := dec.Token()
			return n, err
		case '[':
			n := &c04JNode{kind: "arr"}
			for dec.More() {
				v, err := c04JParseValue(dec)
				if err != nil {
					return nil, err
				}
				n.vals = append(n.vals, v)
			}
			_, err := dec.Token()
			return n, err
		}
		return nil, fmt.Errorf("unexpected delimiter")
	case string:
		return c04JStr(t), nil
	case json.Number:
		return c04JNum(t.String()), nil
	case bool:
		return c04JBool(t), nil
	case nil:
		return c04JNull(), nil
	}
	return nil, fmt.Errorf("unexpected token")
}

func (n *c04JNode) render(sb *strings.Builder) {
	switch n.kind {
	case "obj":
		sb.WriteByte('{')
		for i, k := range n.keys {
			if i > 0 {
				sb.WriteByte(',')
			}
			kb, _ := json.Marshal(k)
			sb.Write(kb)
			sb.WriteByte(':')
			n.vals[i].render(sb)
		}
		sb.WriteByte('}')
	case "arr":
		sb.WriteByte('[')
		for i, v := range n.vals {
			if i > 0 {
				sb.WriteByte(',')
			}
			v.render(sb)
		}
		sb.WriteByte(']')
	case "str":
		b, _ := json.Marshal(n.s)
		sb.Write(b)
	case "num":
		sb.WriteString(n.s)
	case "bool":
		if n.b {
			sb.WriteString("true")
		} else {
			sb.WriteString("false")
		}
	default:
		sb.WriteString("null")
	}
}

func (n *c04JNode) String() string {
	var sb strings.Builder
	n.render(&sb)
	return sb.String()
}

// every object node of the tree, with the key under which it hangs ("" at the root / in arrays)
type c04JSite struct {
	node   *c04JNode
	parent *c04JNode
	key    string
	idx    int
	depth  int
}

func c04JSites(root *c04JNode) []c04JSite {
	var out []c04JSite
	var walk func(n, parent *c04JNode, key string, idx, depth int)
	walk = func(n, parent *c04JNode, key string, idx, depth int) {
		out = append(out, c04JSite{n, parent, key, idx, depth})
		switch n.kind {
		case "obj":
			for i, v := range n.vals {
				walk(v, n, n.keys[i], i, depth+1)
			}
		case "arr":
			for i, v := range n.vals {
				walk(v, n, "", i, depth+1)
			}
		}
	}
	walk(root, nil, "", 0, 0)
	return out
}

func (s c04JSite) replace(v *c04JNode) {
	if s.parent == nil {
		*s.node = *v
		return
	}
	s.parent.vals[s.idx] = v
}

// ---------- schema-aware mutations ----------

var c04JSONTypes = []string{"string", "object", "array", "boolean", "integer", "number", "null", "any", "", "String"}

func c04WeirdValue(r *rng, depth int) *c04JNode {
	switch r.intn(16) {
	case 0:
		return c04JNull()
	case 1:
		return c04JBool(r.chance(50))
	case 2:
		return c04JNum(pick(r, []string{"0", "-1", "1", "3.5", "1e400", "-0", "9223372036854775808", "18446744073709551616", "1e-400", "0.1"}))
	case 3:
		return c04JStr(pick(r, []string{"", " ", "a", "-", "+", "-1", "0", "1a", "a b", "#", "#/", "$ref", "é", "\x00", "😀", "%l", "../x", "a.b.c"}))
	case 4:
		return c04JArr()
	case 5:
		return c04JObj()
	case 6:
		return c04JArr(c04JNull())
	case 7:
		return c04JObj("", c04JNull())
	case 8:
		if depth < 2 {
			return c04JArr(c04WeirdValue(r, depth+1), c04WeirdValue(r, depth+1))
		}
		return c04JArr(c04JStr("x"))
	case 9:
		if depth < 2 {
			return c04JObj(pick(r, []string{"type", "a", "", "$ref", "items"}), c04WeirdValue(r, depth+1))
		}
		return c04JObj("a", c04JNum("1"))
	case 10:
		return c04JObj("type", c04JStr(pick(r, c04JSONTypes)))
	case 11:
		return c04JObj("$ref", c04JStr(pick(r, []string{"#", "#/definitions/Nope", "#/components/schemas/Nope", "", "x.json#/a", "#/$defs/A"})))
	case 12:
		return c04JObj("enum", c04JArr(c04JStr("a"), c04JNum("1"), c04JNull(), c04JStr("")))
	case 13:
		return c04JObj("type", c04JArr(c04JStr("string"), c04JStr("null")))
	case 14:
		return c04JObj("type", c04JStr("array"))
	default:
		return c04JObj("type", c04JStr("object"), "additionalProperties", c04WeirdValue(r, depth+1))
	}
}

// names of the definitions of the document (JSON Schema definitions/$defs, OpenAPI components)
func c04DefsOf(root *c04JNode) (container *c04JNode, prefix string) {
	if d := root.get("definitions"); d != nil && d.kind == "obj" {
		return d, "#/definitions/"
	}
	if d := root.get("$defs"); d != nil && d.kind == "obj" {
		return d, "#/$defs/"
	}
	if c := root.get("components"); c != nil {
		if s := c.get("schemas"); s != nil && s.kind == "obj" {
			return s, "#/components/schemas/"
		}
	}
	return nil, ""
}

// one grammar-aware mutation; returns a short description
func c04MutateSchema(r *rng, root *c04JNode) string {
	sites := c04JSites(root)
	var objs []c04JSite
	for _, s := range sites {
		if s.node.kind == "obj" {
			objs = append(objs, s)
		}
	}
	if len(objs) == 0 {
		root.kind, root.keys, root.vals = "obj", nil, nil
		return "force-object"
	}
	o := pick(r, objs)
	n := o.node
	defs, prefix := c04DefsOf(root)
	someDef := func() string {
		if defs != nil && len(defs.keys) > 0 {
			return prefix + pick(r, defs.keys)
		}
		return "#"
	}
	switch r.intn(36) {
	case 34, 35: // a union of references to structs that share constant fields of any scalar type
		if defs != nil {
			cname := pick(r, []string{"apiVersion", "enabled", "kind", "type", "v"})
			ctype := pick(r, []string{"string", "integer", "boolean", "number"})
			mk := func(i int) *c04JNode {
				var cv *c04JNode
				switch ctype {
				case "string":
					cv = c04JStr(fmt.Sprintf("v%d", i))
				case "boolean":
					cv = c04JBool(i%2 == 0)
				case "number":
					cv = c04JNum(fmt.Sprintf("%d.5", i))
				default:
					cv = c04JNum(fmt.Sprintf("%d", i))
				}
				konst := c04JObj("type", c04JStr(ctype), "const", cv)
				if prefix == "#/components/schemas/" { // OpenAPI 3.0 has no const: a one-value enum / pattern
					if ctype == "string" {
						konst = c04JObj("type", c04JStr("string"), "pattern", c04JStr(fmt.Sprintf("^v%d$", i)))
					} else {
						konst = c04JObj("type", c04JStr(ctype), "enum", c04JArr(cv))
					}
				}
				props := c04JObj(cname, konst, "payload", c04JObj("type", c04JStr("string")))
				if r.chance(40) {
					props.set("kind", c04JObj("type", c04JStr("string"), "const", c04JStr(fmt.Sprintf("k%d", i)), "pattern", c04JStr(fmt.Sprintf("^k%d$", i))))
				}
				return c04JObj("type", c04JStr("object"), "required", c04JArr(c04JStr(cname)), "properties", props)
			}
			nb := 2 + r.intn(2)
			refs := c04JArr()
			for i := 0; i < nb; i++ {
				dn := fmt.Sprintf("Variant%d", i)
				defs.set(dn, mk(i))
				refs.vals = append(refs.vals, c04JObj("$ref", c04JStr(prefix+dn)))
			}
			u := c04JObj(pick(r, []string{"oneOf", "anyOf"}), refs)
			if prefix == "#/components/schemas/" && r.chance(30) {
				u.set("discriminator", c04JObj("propertyName", c04JStr(cname)))
			}
			if pr := n.get("properties"); pr != nil && pr.kind == "obj" {
				pr.set("variant", u)
			} else {
				defs.set("Variants", u)
				n.set("properties", c04JObj("variant", c04JObj("$ref", c04JStr(prefix+"Variants"))))
				n.set("type", c04JStr("object"))
			}
			return "union-of-struct-refs:" + cname + ":" + ctype
		}
	case 0: // delete a key
		if len(n.keys) > 0 {
			k := pick(r, n.keys)
			n.del(k)
			return "delete:" + k
		}
	case 1: // duplicate a key under another name
		if len(n.keys) > 0 {
			i := r.intn(len(n.keys))
			nk := pick(r, []string{n.keys[i] + "2", "", "a b", "-x", "1", "type", "Kind"})
			n.set(nk, n.vals[i].clone())
			return "dup:" + n.keys[i] + "->" + nk
		}
	case 2: // swap type
		t := pick(r, c04JSONTypes)
		n.set("type", c04JStr(t))
		return "type=" + t
	case 3: // type list
		n.set("type", c04JArr(c04JStr(pick(r, c04JSONTypes)), c04JStr(pick(r, c04JSONTypes))))
		return "type-list"
	case 4:
		n.del("type")
		return "drop-type"
	case 5:
		n.del("items")
		n.set("type", c04JStr("array"))
		return "array-without-items"
	case 6: // tuple items
		n.set("type", c04JStr("array"))
		n.set("items", c04JArr(c04JObj("type", c04JStr("string")), c04JObj("type", c04JStr("integer"))))
		return "tuple-items"
	case 7: // enum without type
		n.del("type")
		n.set("enum", c04JArr(c04JStr("a"), c04JStr("b")))
		return "enum-without-type"
	case 8: // odd enums
		vals := []*c04JNode{}
		for i := r.intn(4); i >= 0; i-- {
			vals = append(vals, c04WeirdValue(r, 2))
		}
		if r.chance(30) {
			vals = nil
		}
		n.set("enum", c04JArr(vals...))
		if r.chance(50) {
			n.set("type", c04JStr(pick(r, c04JSONTypes)))
		}
		return "weird-enum"
	case 9: // self / cyclic / dangling reference
		ref := pick(r, []string{"#", someDef(), prefix + "Nope", "#/properties/x", "nofile.json#/a"})
		if r.chance(50) {
			n.keys, n.vals = nil, nil
		}
		n.set("$ref", c04JStr(ref))
		return "ref=" + ref
	case 10: // alias cycle between two definitions
		if defs != nil && len(defs.keys) >= 2 {
			a, b := defs.keys[0], defs.keys[len(defs.keys)-1]
			defs.set(a, c04JObj("$ref", c04JStr(prefix+b)))
			defs.set(b, c04JObj("$ref", c04JStr(prefix+a)))
			return "alias-cycle:" + a + "," + b
		}
		if defs != nil && len(defs.keys) == 1 {
			a := defs.keys[0]
			defs.set(a, c04JObj("$ref", c04JStr(prefix+a)))
			return "alias-self:" + a
		}
	case 11: // discriminator on whatever this is
		d := c04JObj("propertyName", c04JStr(pick(r, []string{"kind", "type", "", "nope"})))
		if r.chance(60) {
			d.set("mapping", c04JObj("a", c04JStr(someDef()), "b", c04JStr(pick(r, []string{"Nope", "", "#/x", someDef()}))))
		}
		n.set("discriminator", d)
		if r.chance(50) {
			n.set(pick(r, []string{"oneOf", "anyOf"}), c04JArr(c04JObj("type", c04JStr("string")), c04JObj("$ref", c04JStr(someDef())), c04JObj("type", c04JStr("array"), "items", c04JObj("type", c04JStr("integer")))))
		}
		return "discriminator"
	case 12: // empty / odd property names
		p := n.get("properties")
		if p == nil || p.kind != "obj" {
			p = c04JObj()
			n.set("properties", p)
			n.set("type", c04JStr("object"))
		}
		k := pick(r, []string{"", " ", "-", "1", "a b", "+x", "type", "é", "$ref", "class", "func"})
		p.set(k, c04WeirdValue(r, 1))
		return "odd-property:" + k
	case 13: // empty / odd definition names
		if defs != nil {
			k := pick(r, []string{"", " ", "-", "1", "a b", "+x", "a/b", "a.b", "#", "é", "Class", "type"})
			defs.set(k, c04JObj("type", c04JStr("object"), "properties", c04JObj("f", c04JObj("type", c04JStr("string")))))
			if r.chance(60) {
				n.set("$ref", c04JStr(prefix+k))
			}
			return "odd-definition:" + k
		}
	case 14: // replace the node by a wrong-shaped value
		v := c04WeirdValue(r, 0)
		o.replace(v)
		return "replace@" + o.key
	case 15: // replace a random value below
		if len(n.keys) > 0 {
			i := r.intn(len(n.keys))
			n.vals[i] = c04WeirdValue(r, 0)
			return "replace-value:" + n.keys[i]
		}
	case 16:
		n.set("additionalProperties", pick(r, []*c04JNode{c04JBool(true), c04JBool(false), c04JObj(), c04JObj("type", c04JStr("string")), c04JNull(), c04JArr(), c04JStr("x"), c04JObj("$ref", c04JStr(someDef()))}))
		if r.chance(50) {
			n.del("properties")
		}
		n.set("type", c04JStr("object"))
		return "additionalProperties"
	case 17:
		n.set("const", c04WeirdValue(r, 1))
		if r.chance(50) {
			n.del("type")
		}
		return "const"
	case 18:
		n.set("default", c04WeirdValue(r, 1))
		return "default"
	case 19:
		k := pick(r, []string{"allOf", "oneOf", "anyOf"})
		var vals []*c04JNode
		for i := r.intn(3); i > 0; i-- {
			vals = append(vals, c04WeirdValue(r, 1))
		}
		n.set(k, c04JArr(vals...))
		return k + "-weird"
	case 20:
		k := pick(r, []string{"allOf", "oneOf", "anyOf"})
		n.set(k, c04JArr(c04JObj("$ref", c04JStr(someDef())), c04JObj("type", c04JStr("object"), "properties", c04JObj("kind", c04JObj("type", c04JStr("string"), "const", c04WeirdValue(r, 2))))))
		return k + "-refs"
	case 21:
		n.set("required", pick(r, []*c04JNode{c04JStr("a"), c04JArr(c04JNum("1")), c04JArr(c04JStr("nope")), c04JNull(), c04JObj(), c04JBool(true)}))
		return "required"
	case 22:
		n.set("nullable", pick(r, []*c04JNode{c04JBool(true), c04JStr("yes"), c04JNull()}))
		return "nullable"
	case 23:
		n.set("format", c04JStr(pick(r, []string{"date-time", "byte", "int32", "int64", "float", "double", "", "nope", "password", "date"})))
		return "format"
	case 24:
		k := pick(r, []string{"minimum", "maximum", "exclusiveMinimum", "exclusiveMaximum", "multipleOf", "minLength", "maxLength", "minItems", "maxItems"})
		n.set(k, pick(r, []*c04JNode{c04JNum("1e400"), c04JNum("-1"), c04JNum("0"), c04JNum("9223372036854775808"), c04JNum("1.5"), c04JStr("1"), c04JBool(true), c04JNull(), c04JNum("1e19")}))
		if r.chance(50) {
			n.del("type")
		}
		return "constraint:" + k
	case 25: // deep nesting
		d := 20 + r.intn(200)
		cur := c04JObj("type", c04JStr("string"))
		for i := 0; i < d; i++ {
			if r.chance(50) {
				cur = c04JObj("type", c04JStr("array"), "items", cur)
			} else {
				cur = c04JObj("type", c04JStr("object"), "properties", c04JObj("p", cur))
			}
		}
		n.set("properties", c04JObj("deep", cur))
		n.set("type", c04JStr("object"))
		return fmt.Sprintf("deep:%d", d)
	case 26:
		n.set("pattern", c04JStr(pick(r, []string{"^math$", "^$", "(", "^a|b$", "^\\d+$", "", "^[$", "^ü$"})))
		n.set("type", c04JStr("string"))
		return "pattern"
	case 27: // move a definition into place (inline) or swap two subtrees
		if len(objs) >= 2 {
			a, b := pick(r, objs), pick(r, objs)
			if a.parent != nil && b.parent != nil && a.depth <= 6 && b.depth <= 6 {
				a.replace(b.node.clone())
				return "graft"
			}
		}
	case 28: // root-level: drop / retarget the root reference, drop components
		k := pick(r, []string{"$ref", "definitions", "$defs", "components", "$schema", "paths", "info", "openapi", "type"})
		switch r.intn(3) {
		case 0:
			root.del(k)
			return "root-del:" + k
		case 1:
			root.set(k, c04WeirdValue(r, 0))
			return "root-weird:" + k
		default:
			root.set("$schema", c04JStr(pick(r, []string{"http://json-schema.org/draft-07/schema#", "http://json-schema.org/draft-04/schema#", "https://json-schema.org/draft/2019-09/schema", "https://json-schema.org/draft/2020-12/schema", "nope"})))
			return "root-draft"
		}
	case 29:
		n.set("patternProperties", c04JObj(pick(r, []string{"^a", "(", ""}), c04WeirdValue(r, 1)))
		if r.chance(50) {
			n.del("properties")
		}
		return "patternProperties"
	case 30:
		n.set("description", pick(r, []*c04JNode{c04JStr("a\n\nb\n"), c04JStr("*/ /* \"\"\" ''' \\"), c04JStr("{{ .X }}"), c04JNum("1"), c04JNull(), c04JStr("\t`x`\r\n")}))
		return "description"
	case 31: // property whose value is a bare reference to a scalar / enum / array definition
		if defs != nil {
			k := pick(r, []string{"Alias", "alias", "E"})
			defs.set(k, pick(r, []*c04JNode{c04JObj("type", c04JStr("string")), c04JObj("type", c04JStr("string"), "enum", c04JArr(c04JStr("a"), c04JStr(""))), c04JObj("type", c04JStr("array"), "items", c04JObj("$ref", c04JStr(someDef()))), c04JObj("$ref", c04JStr(someDef()))}))
			n.set("properties", c04JObj("al", c04JObj("$ref", c04JStr(prefix+k))))
			n.set("type", c04JStr("object"))
			return "alias-definition:" + k
		}
	case 32: // items oddities
		n.set("items", pick(r, []*c04JNode{c04JBool(true), c04JBool(false), c04JArr(), c04JNull(), c04JObj(), c04JStr("x"), c04JObj("$ref", c04JStr(someDef())), c04JArr(c04JObj())}))
		n.set("type", c04JStr("array"))
		return "items-weird"
	default:
		// two mutations at once
		return c04MutateSchema(r, root) + "+" + c04MutateSchema(r, root)
	}
	return "noop"
}

// ---------- CUE: text-level mutations ----------

var c04CueSnippets = []string{
	"string", "int", "int64", "uint8", "float64", "number", "bool", "bytes", "null", "_", "_|_", "{...}", "[...]", "[...string]", "[string]: _",
	"*\"a\" | \"b\"", "\"a\" | \"b\" | *\"c\"", "*1 | 2", "string | *null", "int & >0 & <10", ">=0", "<=1e400", "=~\"^a$\"", "!=\"\"",
	"#A", "#A & {x: 1}", "#A | #B", "[...#A]", "{[string]: #A}", "time.Time", "struct.MinFields(1)", "strings.MinRunes(1)", "list.MaxItems(3)",
	"\"\"", "1", "-1", "1.5", "true", "[1, \"a\"]", "{}", "[]", "{a: 1} | {b: 2}", "*{a: 1} | {b: 2}", "(string | int) & string",
	"close({a: int})", "#A.x", "x?: int", "x!: int", "...", "if true {y: 1}", "for k, v in {} {}", "let X = 1", "@cog(kind=\"x\")", "@cuetsy(kind=\"enum\",memberNames=\"a|b\")",
	"@cuetsy(kind=\"enum\")", "@cuetsy(kind=\"enum\",memberNames=\"\")", "@cuetsy(kind=\"type\")", "@cuetsy(kind=\"interface\")", "@grafanamaturity(NeedsExpertReview)",
}

func c04MutateCUE(r *rng, text string) (string, string) {
	lines := strings.Split(text, "\n")
	switch r.intn(12) {
	case 0:
		if len(lines) > 1 {
			i := r.intn(len(lines))
			lines = append(lines[:i:i], lines[i+1:]...)
			return strings.Join(lines, "\n"), "cue-del-line"
		}
	case 1:
		i := r.intn(len(lines))
		lines = append(lines[:i+1:i+1], append([]string{lines[i]}, lines[i+1:]...)...)
		return strings.Join(lines, "\n"), "cue-dup-line"
	case 2, 3, 4: // replace the right-hand side of a field
		var cands []int
		for i, l := range lines {
			if strings.Contains(l, ":") && !strings.HasPrefix(strings.TrimSpace(l), "//") {
				cands = append(cands, i)
			}
		}
		if len(cands) > 0 {
			i := pick(r, cands)
			l := lines[i]
			k := strings.Index(l, ":")
			sn := pick(r, c04CueSnippets)
			open := strings.Count(l, "{") - strings.Count(l, "}")
			lines[i] = l[:k+1] + " " + sn
			if open > 0 {
				lines[i] += " & {"
			}
			return strings.Join(lines, "\n"), "cue-rhs:" + sn
		}
	case 5: // append a definition
		sn := pick(r, c04CueSnippets)
		name := pick(r, []string{"#A", "#B", "A", "a", "#a", "_hidden", "#_h", "\"quoted name\"", "#A_b", "`x`", "#Kind"})
		return text + "\n" + name + ": " + sn + "\n", "cue-add-def:" + name + ":" + sn
	case 6: // self / mutual references
		return text + "\n" + pick(r, []string{"#A: #A\n", "#A: #B\n#B: #A\n", "#A: {next?: #A}\n", "#A: [...#A]\n", "#A: #A | string\n", "a: a\n", "#A: {x: #A.x}\n"}), "cue-self-ref"
	case 7: // token substitution
		toks := []string{"string", "int64", "int", "bool", "number", "float64", "uint32", "null", "...", "?", "*", "|", "&", "[", "{"}
		from := pick(r, toks)
		if strings.Contains(text, from) {
			to := pick(r, c04CueSnippets)
			return strings.Replace(text, from, to, 1+r.intn(2)), "cue-subst:" + from + "->" + to
		}
	case 8: // add a field with an attribute to the first struct
		if i := strings.Index(text, "{"); i >= 0 {
			sn := pick(r, c04CueSnippets)
			return text[:i+1] + "\n  zz: " + pick(r, c04CueSnippets) + " " + sn + "\n" + text[i+1:], "cue-insert-field"
		}
	case 9:
		return pick(r, []string{"", "package x\n", "x: y\n", "{", "import \"time\"\n", "import \"nope.io/x\"\nx: x.Y\n", "#A: string\n", "a: int\n"}) + text, "cue-prefix"
	case 10:
		return "import \"time\"\nimport \"strings\"\nimport \"list\"\nimport \"struct\"\n" + text + "\nzt: time.Time\nzs: strings.MinRunes(2) & strings.MaxRunes(3)\nzl: list.MinItems(1)\n", "cue-imports"
	}
	b, d := c04MutateBytes(r, []byte(text))
	return string(b), d
}

// ---------- raw bytes ----------

func c04MutateBytes(r *rng, data []byte) ([]byte, string) {
	out := append([]byte{}, data...)
	n := 1 + r.intn(4)
	desc := []string{}
	for i := 0; i < n; i++ {
		if len(out) == 0 {
			out = []byte(pick(r, []string{"{", "[", "null", "\"", "0", "{}", "[]", "\x00"}))
			desc = append(desc, "seed")
			continue
		}
		p := r.intn(len(out))
		switch r.intn(7) {
		case 0:
			out[p] ^= byte(1 << uint(r.intn(8)))
			desc = append(desc, "flip")
		case 1:
			out = append(out[:p:p], out[p+1:]...)
			desc = append(desc, "del")
		case 2:
			ins := pick(r, []string{"{", "}", "[", "]", ",", ":", "\"", "null", "0", "-", "\\", "\xff", "\x00", "\n", "1e999", "#", "$ref"})
			out = append(out[:p:p], append([]byte(ins), out[p:]...)...)
			desc = append(desc, "ins")
		case 3:
			out = out[:p]
			desc = append(desc, "trunc")
		case 4:
			q := r.intn(len(out))
			if p > q {
				p, q = q, p
			}
			out = append(out[:p:p], out[q:]...)
			desc = append(desc, "cut")
		case 5:
			q := r.intn(len(out))
			if p > q {
				p, q = q, p
			}
			if q-p < 4096 {
				out = append(out[:q:q], append(append([]byte{}, out[p:q]...), out[q:]...)...)
			}
			desc = append(desc, "repeat")
		default:
			out[p] = byte(r.intn(256))
			desc = append(desc, "set")
		}
	}
	sort.Strings(desc)
	return out, "bytes:" + strings.Join(desc, ",")
}
