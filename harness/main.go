// Command verifharness is the implementation side of /verif's correspondence checks.
// It is compiled into the cog module through `go build -overlay` (see /verif/check.py),
// so it imports cog's internal packages and is rebuilt from /repo's working tree on
// every run while /repo itself stays untouched.
package main

import (
	"bufio"
	"fmt"
	"os"
	"strconv"
)

type streamFn func(args map[string]string, out *bufio.Writer) error

var streams = map[string]streamFn{}

func register(name string, fn streamFn) { streams[name] = fn }

func argInt(args map[string]string, key string, def int) int {
	if v, ok := args[key]; ok {
		n, err := strconv.Atoi(v)
		if err == nil {
			return n
		}
	}
	return def
}

func main() {
	if len(os.Args) < 2 {
		fmt.Fprintln(os.Stderr, "usage: verifharness <stream> [key=value]...")
		os.Exit(2)
	}
	fn, ok := streams[os.Args[1]]
	if !ok {
		fmt.Fprintln(os.Stderr, "unknown stream", os.Args[1])
		os.Exit(2)
	}
	args := map[string]string{}
	for _, a := range os.Args[2:] {
		for i := 0; i < len(a); i++ {
			if a[i] == '=' {
				args[a[:i]] = a[i+1:]
				break
			}
		}
	}
	out := bufio.NewWriterSize(os.Stdout, 1<<20)
	err := fn(args, out)
	out.Flush()
	if err != nil {
		fmt.Fprintln(os.Stderr, "harness error:", err)
		os.Exit(3)
	}
}
