package main

// JV: an order-preserving JSON value with numbers kept as decimal text. It is the value type of
// the source grammar (defaults, constants), of the schema renderers (schemas are built as JV and
// printed) and of generated documents. See docs/LAB.md for the S-expression syntax.

import (
	"bytes"
	"encoding/json"
	"fmt"
	"io"
	"math/big"
	"sort"
	"strconv"
	"strings"
)

type JV struct {
	K byte   // 'z' null, 't' true, 'f' false, 'n' number, 's' string, 'a' array, 'o' object
	S string // number text or string value
	A []JV
	O []JKV
}

type JKV struct {
	K string
	V JV
}

func jNull() JV { return JV{K: 'z'} }
func jBool(b bool) JV {
	if b {
		return JV{K: 't'}
	}
	return JV{K: 'f'}
}
func jNumText(s string) JV { return JV{K: 'n', S: s} }
func jInt(i int64) JV      { return JV{K: 'n', S: strconv.FormatInt(i, 10)} }
func jFloat(f float64) JV  { return JV{K: 'n', S: strconv.FormatFloat(f, 'f', -1, 64)} }
func jStr(s string) JV     { return JV{K: 's', S: s} }
func jArr(xs ...JV) JV {
	if xs == nil {
		xs = []JV{}
	}
	return JV{K: 'a', A: xs}
}
func jObj(kvs ...JKV) JV {
	if kvs == nil {
		kvs = []JKV{}
	}
	return JV{K: 'o', O: kvs}
}
func kv(k string, v JV) JKV { return JKV{K: k, V: v} }

func (v JV) isNull() bool { return v.K == 'z' }

func (v *JV) set(k string, x JV) {
	for i := range v.O {
		if v.O[i].K == k {
			v.O[i].V = x
			return
		}
	}
	v.O = append(v.O, JKV{k, x})
}

func (v JV) get(k string) (JV, bool) {
	for _, e := range v.O {
		if e.K == k {
			return e.V, true
		}
	}
	return JV{}, false
}

func (v *JV) del(k string) {
	out := v.O[:0:0]
	for _, e := range v.O {
		if e.K != k {
			out = append(out, e)
		}
	}
	v.O = out
}

func (v JV) clone() JV {
	c := v
	if v.A != nil {
		c.A = make([]JV, len(v.A))
		for i := range v.A {
			c.A[i] = v.A[i].clone()
		}
	}
	if v.O != nil {
		c.O = make([]JKV, len(v.O))
		for i := range v.O {
			c.O[i] = JKV{v.O[i].K, v.O[i].V.clone()}
		}
	}
	return c
}

func (v JV) equal(w JV) bool { return v.json() == w.json() }

func jsonQuote(s string) string {
	var b bytes.Buffer
	enc := json.NewEncoder(&b)
	enc.SetEscapeHTML(false)
	_ = enc.Encode(s)
	return strings.TrimRight(b.String(), "\n")
}

func (v JV) write(b *strings.Builder, indent string, cur string) {
	switch v.K {
	case 'z':
		b.WriteString("null")
	case 't':
		b.WriteString("true")
	case 'f':
		b.WriteString("false")
	case 'n':
		b.WriteString(v.S)
	case 's':
		b.WriteString(jsonQuote(v.S))
	case 'a':
		if len(v.A) == 0 {
			b.WriteString("[]")
			return
		}
		b.WriteByte('[')
		for i, e := range v.A {
			if i > 0 {
				b.WriteByte(',')
			}
			if indent != "" {
				b.WriteString("\n" + cur + indent)
			}
			e.write(b, indent, cur+indent)
		}
		if indent != "" {
			b.WriteString("\n" + cur)
		}
		b.WriteByte(']')
	case 'o':
		if len(v.O) == 0 {
			b.WriteString("{}")
			return
		}
		b.WriteByte('{')
		for i, e := range v.O {
			if i > 0 {
				b.WriteByte(',')
			}
			if indent != "" {
				b.WriteString("\n" + cur + indent)
			}
			b.WriteString(jsonQuote(e.K))
			b.WriteByte(':')
			if indent != "" {
				b.WriteByte(' ')
			}
			e.V.write(b, indent, cur+indent)
		}
		if indent != "" {
			b.WriteString("\n" + cur)
		}
		b.WriteByte('}')
	default:
		b.WriteString("null")
	}
}

// json prints compact JSON (no spaces, no raw tabs/newlines), member order preserved.
func (v JV) json() string {
	var b strings.Builder
	v.write(&b, "", "")
	return b.String()
}

func (v JV) pretty() string {
	var b strings.Builder
	v.write(&b, "  ", "")
	return b.String()
}

// parseJV decodes JSON with an order-preserving token decoder; numbers stay text.
func parseJV(raw []byte) (JV, error) {
	dec := json.NewDecoder(bytes.NewReader(raw))
	dec.UseNumber()
	v, err := parseJVTok(dec)
	if err != nil {
		return JV{}, err
	}
	if _, err := dec.Token(); err != io.EOF {
		return JV{}, fmt.Errorf("trailing data after JSON value")
	}
	return v, nil
}

func parseJVTok(dec *json.Decoder) (JV, error) {
	tok, err := dec.Token()
	if err != nil {
		return JV{}, err
	}
	switch t := tok.(type) {
	case nil:
		return jNull(), nil
	case bool:
		return jBool(t), nil
	case json.Number:
		return jNumText(string(t)), nil
	case string:
		return jStr(t), nil
	case json.Delim:
		switch t {
		case '[':
			out := jArr()
			for dec.More() {
				e, err := parseJVTok(dec)
				if err != nil {
					return JV{}, err
				}
				out.A = append(out.A, e)
			}
			if _, err := dec.Token(); err != nil {
				return JV{}, err
			}
			return out, nil
		case '{':
			out := jObj()
			for dec.More() {
				kt, err := dec.Token()
				if err != nil {
					return JV{}, err
				}
				k, ok := kt.(string)
				if !ok {
					return JV{}, fmt.Errorf("object key is not a string")
				}
				e, err := parseJVTok(dec)
				if err != nil {
					return JV{}, err
				}
				out.O = append(out.O, JKV{k, e})
			}
			if _, err := dec.Token(); err != nil {
				return JV{}, err
			}
			return out, nil
		}
	}
	return JV{}, fmt.Errorf("unexpected token %v", tok)
}

func mustJV(s string) JV {
	v, err := parseJV([]byte(s))
	if err != nil {
		panic("mustJV: " + err.Error() + ": " + s)
	}
	return v
}

// ---- S-expression form: null true false (n "text") (s "str") (a V*) (o ("key" V)*) ----

func (v JV) sexp() string {
	switch v.K {
	case 'z':
		return "null"
	case 't':
		return "true"
	case 'f':
		return "false"
	case 'n':
		return "(n " + virQuote(v.S) + ")"
	case 's':
		return "(s " + virQuote(v.S) + ")"
	case 'a':
		parts := []string{"a"}
		for _, e := range v.A {
			parts = append(parts, e.sexp())
		}
		return "(" + strings.Join(parts, " ") + ")"
	case 'o':
		parts := []string{"o"}
		for _, e := range v.O {
			parts = append(parts, "("+virQuote(e.K)+" "+e.V.sexp()+")")
		}
		return "(" + strings.Join(parts, " ") + ")"
	}
	return "null"
}

// jsonToSexp converts JSON text to the S-expression form (member order and number text kept).
func jsonToSexp(raw []byte) string {
	v, err := parseJV(raw)
	if err != nil {
		return "(bad " + virQuote(err.Error()) + ")"
	}
	return v.sexp()
}

// sexpToJSON is the inverse of jsonToSexp (compact JSON).
func sexpToJSON(s string) (string, error) {
	p := &sexpParser{s: s}
	n, err := p.parse()
	if err != nil {
		return "", err
	}
	p.skip()
	if p.i != len(p.s) {
		return "", fmt.Errorf("trailing text at %d", p.i)
	}
	v, err := jvFromSexpNode(n)
	if err != nil {
		return "", err
	}
	return v.json(), nil
}

// generic S-expression reader (atoms, quoted strings with virQuote escapes, lists)
type sexpNode struct {
	atom  string
	str   bool // atom was a quoted string
	list  []*sexpNode
	isLst bool
}

type sexpParser struct {
	s string
	i int
}

func (p *sexpParser) skip() {
	for p.i < len(p.s) && (p.s[p.i] == ' ' || p.s[p.i] == '\n' || p.s[p.i] == '\t' || p.s[p.i] == '\r') {
		p.i++
	}
}

func (p *sexpParser) parse() (*sexpNode, error) {
	p.skip()
	if p.i >= len(p.s) {
		return nil, fmt.Errorf("unexpected end")
	}
	switch c := p.s[p.i]; {
	case c == '(':
		p.i++
		n := &sexpNode{isLst: true}
		for {
			p.skip()
			if p.i >= len(p.s) {
				return nil, fmt.Errorf("unclosed list")
			}
			if p.s[p.i] == ')' {
				p.i++
				return n, nil
			}
			e, err := p.parse()
			if err != nil {
				return nil, err
			}
			n.list = append(n.list, e)
		}
	case c == ')':
		return nil, fmt.Errorf("unexpected ) at %d", p.i)
	case c == '"':
		p.i++
		var b strings.Builder
		for {
			if p.i >= len(p.s) {
				return nil, fmt.Errorf("unclosed string")
			}
			ch := p.s[p.i]
			if ch == '"' {
				p.i++
				return &sexpNode{atom: b.String(), str: true}, nil
			}
			if ch == '\\' {
				if p.i+1 >= len(p.s) {
					return nil, fmt.Errorf("bad escape")
				}
				p.i++
				switch p.s[p.i] {
				case 'n':
					b.WriteByte('\n')
				case 't':
					b.WriteByte('\t')
				case 'r':
					b.WriteByte('\r')
				case '"':
					b.WriteByte('"')
				case '\\':
					b.WriteByte('\\')
				case 'x':
					if p.i+2 >= len(p.s) {
						return nil, fmt.Errorf("bad \\x escape")
					}
					n, err := strconv.ParseUint(p.s[p.i+1:p.i+3], 16, 8)
					if err != nil {
						return nil, err
					}
					b.WriteByte(byte(n))
					p.i += 2
				default:
					return nil, fmt.Errorf("bad escape \\%c", p.s[p.i])
				}
				p.i++
				continue
			}
			b.WriteByte(ch)
			p.i++
		}
	default:
		st := p.i
		for p.i < len(p.s) && !strings.ContainsRune(" \n\t\r()\"", rune(p.s[p.i])) {
			p.i++
		}
		return &sexpNode{atom: p.s[st:p.i]}, nil
	}
}

func parseSexp(s string) (*sexpNode, error) {
	p := &sexpParser{s: s}
	n, err := p.parse()
	if err != nil {
		return nil, err
	}
	p.skip()
	if p.i != len(p.s) {
		return nil, fmt.Errorf("trailing text at %d", p.i)
	}
	return n, nil
}

func (n *sexpNode) head() string {
	if n.isLst && len(n.list) > 0 && !n.list[0].isLst && !n.list[0].str {
		return n.list[0].atom
	}
	return ""
}

func jvFromSexpNode(n *sexpNode) (JV, error) {
	if !n.isLst {
		if n.str {
			return JV{}, fmt.Errorf("bare string is not a JSON value")
		}
		switch n.atom {
		case "null":
			return jNull(), nil
		case "true":
			return jBool(true), nil
		case "false":
			return jBool(false), nil
		}
		return JV{}, fmt.Errorf("unknown atom %q", n.atom)
	}
	switch n.head() {
	case "n":
		if len(n.list) != 2 || !n.list[1].str {
			return JV{}, fmt.Errorf("bad (n ...)")
		}
		return jNumText(n.list[1].atom), nil
	case "s":
		if len(n.list) != 2 || !n.list[1].str {
			return JV{}, fmt.Errorf("bad (s ...)")
		}
		return jStr(n.list[1].atom), nil
	case "a":
		out := jArr()
		for _, e := range n.list[1:] {
			v, err := jvFromSexpNode(e)
			if err != nil {
				return JV{}, err
			}
			out.A = append(out.A, v)
		}
		return out, nil
	case "o":
		out := jObj()
		for _, e := range n.list[1:] {
			if !e.isLst || len(e.list) != 2 || !e.list[0].str {
				return JV{}, fmt.Errorf("bad object member")
			}
			v, err := jvFromSexpNode(e.list[1])
			if err != nil {
				return JV{}, err
			}
			out.O = append(out.O, JKV{e.list[0].atom, v})
		}
		return out, nil
	}
	return JV{}, fmt.Errorf("unknown JSON S-expression head %q", n.head())
}

// ---- canonical JSON for comparisons ----

// canonNumber normalises a JSON number text: integers print as integers ("1.0", "1e2" → "1",
// "100"), other values as the exact shortest decimal expansion ("2.50" → "2.5"). Never goes
// through float64.
func canonNumber(text string) string {
	// guard against absurd exponents
	if i := strings.IndexAny(text, "eE"); i >= 0 {
		if e, err := strconv.Atoi(text[i+1:]); err != nil || e > 400 || e < -400 {
			return "num:" + text
		}
	}
	r, ok := new(big.Rat).SetString(text)
	if !ok {
		return "num:" + text
	}
	if r.IsInt() {
		return r.Num().String()
	}
	// finite decimal: denominator = 2^a 5^b; find the number of digits needed
	den := new(big.Int).Set(r.Denom())
	digits := 0
	two, five, zero := big.NewInt(2), big.NewInt(5), big.NewInt(0)
	m := new(big.Int)
	a, b := 0, 0
	for m.Mod(den, two).Cmp(zero) == 0 {
		den.Div(den, two)
		a++
	}
	for m.Mod(den, five).Cmp(zero) == 0 {
		den.Div(den, five)
		b++
	}
	digits = a
	if b > a {
		digits = b
	}
	s := r.FloatString(digits)
	if strings.Contains(s, ".") {
		s = strings.TrimRight(s, "0")
		s = strings.TrimSuffix(s, ".")
	}
	return s
}

func (v JV) canon(b *strings.Builder) {
	switch v.K {
	case 'n':
		b.WriteString(canonNumber(v.S))
	case 'a':
		b.WriteByte('[')
		for i, e := range v.A {
			if i > 0 {
				b.WriteByte(',')
			}
			e.canon(b)
		}
		b.WriteByte(']')
	case 'o':
		idx := make([]int, len(v.O))
		for i := range idx {
			idx[i] = i
		}
		sort.SliceStable(idx, func(i, j int) bool { return v.O[idx[i]].K < v.O[idx[j]].K })
		b.WriteByte('{')
		for n, i := range idx {
			if n > 0 {
				b.WriteByte(',')
			}
			b.WriteString(jsonQuote(v.O[i].K))
			b.WriteByte(':')
			v.O[i].V.canon(b)
		}
		b.WriteByte('}')
	default:
		v.write(b, "", "")
	}
}

// canonJSON: keys sorted (stable for duplicate keys), numbers normalised by canonNumber,
// strings re-quoted uniformly. Invalid JSON is returned as "!invalid:<text>".
func canonJSON(raw []byte) string {
	v, err := parseJV(raw)
	if err != nil {
		return "!invalid:" + string(raw)
	}
	var b strings.Builder
	v.canon(&b)
	return b.String()
}

// dropNulls removes object members whose value is null (used for "equal up to omission of
// explicit nulls" comparisons); array elements are kept.
func (v JV) dropNulls() JV {
	switch v.K {
	case 'a':
		out := jArr()
		for _, e := range v.A {
			out.A = append(out.A, e.dropNulls())
		}
		return out
	case 'o':
		out := jObj()
		for _, e := range v.O {
			if e.V.isNull() {
				continue
			}
			out.O = append(out.O, JKV{e.K, e.V.dropNulls()})
		}
		return out
	}
	return v
}

// toAny converts to encoding/json's generic representation; numbers become json.Number when
// useNumber is set, float64 otherwise.
func (v JV) toAny(useNumber bool) any {
	switch v.K {
	case 'z':
		return nil
	case 't':
		return true
	case 'f':
		return false
	case 'n':
		if useNumber {
			return json.Number(v.S)
		}
		f, _ := strconv.ParseFloat(v.S, 64)
		return f
	case 's':
		return v.S
	case 'a':
		out := make([]any, 0, len(v.A))
		for _, e := range v.A {
			out = append(out, e.toAny(useNumber))
		}
		return out
	case 'o':
		out := make(map[string]any, len(v.O))
		for _, e := range v.O {
			out[e.K] = e.V.toAny(useNumber)
		}
		return out
	}
	return nil
}

// canonJSONDropNulls: canonJSON after removing object members that are null ("equal up to
// omission of explicit nulls").
func canonJSONDropNulls(raw []byte) string {
	v, err := parseJV(raw)
	if err != nil {
		return "!invalid:" + string(raw)
	}
	var b strings.Builder
	v.dropNulls().canon(&b)
	return b.String()
}
