package main

import (
	"os"
	"strings"
)

func readLines(path string) []string {
	raw, err := os.ReadFile(path)
	if err != nil {
		return nil
	}
	out := []string{}
	for _, l := range strings.Split(string(raw), "\n") {
		if strings.TrimSpace(l) != "" {
			out = append(out, l)
		}
	}
	return out
}
