#!/bin/sh
# Offline setup: build the Lean model + driver and warm the Go build cache for the harness.
set -e
cd "$(dirname "$0")"
export PYTHONPATH="$PWD"
mkdir -p .work/bin evidence replays
python3 tools/regen.py || echo "WARNING: a fact extractor failed; the owning check reports it"
(cd lean && lake build Cog drv) || echo "WARNING: full lake build failed; each check builds the modules it needs"
python3 - <<'PY'
from verifkit.core import build_go
import sys
b, err = build_go("verifharness", "harness")
if b is None:
    sys.stderr.write(err)
    sys.exit(1)
PY
echo "setup ok"
