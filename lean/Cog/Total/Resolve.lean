/-
  C04 — the Go functions that recurse through references, and when they overflow the stack.

      ast.Schema.Resolve            (by bare object name inside one schema)
      ast.Schemas.ResolveToType     (by package + name across schemas; first schema of a package wins)

  Both are instances of one scheme (`RefSys`): look at the type; if it is a reference, look the
  object up; if it exists, continue with the object's type.  No visited set.  The models in
  Cog/IR/Basic.lean and Cog/Passes/Common.lean are fuelled; here it is proved that

    * the fuelled models are the generic scheme (`schemaResolve_eq`, `resolveToType_eq`);
    * `C04_resolve_terminates`: on a system without alias cycle, fuel `number of keys + 2` is never
      exhausted, and more fuel does not change the result (so the fuel is not observable);
    * `resolve_diverges_iff_alias_cycle`: a reference exhausts EVERY fuel (Go: stack overflow) iff
      the chain of bare-reference objects starting at it runs into a cycle;
    * alias-acyclicity is decidable (`aliasAcyclicB`), by running with fuel `number of keys + 1`.

  An "alias" is an object whose type is a bare reference (`A: ref B`).
-/
import Cog.IR.Basic
import Cog.Passes.Common
import Cog.Total.Follow
namespace Cog.Total
open Cog.IR
open Cog.OMap (rget)

/-! ### the generic scheme -/

structure RefSys (K : Type) where
  lookup : K → Option Ty
  keyOf : Ty → Option K

inductive Res where
  | exhausted
  | dangling (t : Ty)     -- the reference that names no object
  | found (t : Ty)        -- a type that is not a reference

namespace RefSys
variable {K : Type}

def resolve (R : RefSys K) : Nat → Ty → Res
  | 0, _ => .exhausted
  | f + 1, t =>
    match R.keyOf t with
    | none => .found t
    | some k =>
      match R.lookup k with
      | none => .dangling t
      | some t' => resolve R f t'

/-- successor on keys: the object exists and its type is again a reference -/
def next (R : RefSys K) (k : K) : Option K :=
  match R.lookup k with
  | none => none
  | some t => R.keyOf t

/-- the chain of aliases starting at key `k` runs into a cycle -/
def ReachesCycle (R : RefSys K) (k : K) : Prop :=
  ∃ (i p : Nat) (x : K), steps R.next i k = some x ∧ 0 < p ∧ steps R.next p x = some x

/-- resolution of a reference to key `k` with fuel `f + 1`, in terms of the key chain:
    exhausted iff the chain from `k` has at least `f` successors … -/
theorem resolve_ref_exhausted_of_follow (R : RefSys K) : ∀ (f : Nat) (t : Ty) (k : K),
    R.keyOf t = some k → follow R.next f k = none → resolve R f t = .exhausted
  | 0, _, _, _, _ => rfl
  | f + 1, t, k, hk, h => by
    simp only [resolve, hk]
    cases hl : R.lookup k with
    | none => simp [follow, next, hl] at h
    | some t' =>
      cases hk' : R.keyOf t' with
      | none => simp [follow, next, hl, hk'] at h
      | some k' =>
        have : follow R.next f k' = none := by simpa [follow, next, hl, hk'] using h
        exact resolve_ref_exhausted_of_follow R f t' k' hk' this

/-- … and conversely with one unit of slack (the final non-reference type costs one unit) -/
theorem follow_of_resolve_ref_exhausted (R : RefSys K) : ∀ (f : Nat) (t : Ty) (k : K),
    R.keyOf t = some k → resolve R (f + 1) t = .exhausted → follow R.next f k = none
  | 0, _, _, _, _ => rfl
  | f + 1, t, k, hk, h => by
    simp only [resolve, hk] at h
    cases hl : R.lookup k with
    | none => simp [hl] at h
    | some t' =>
      simp only [hl] at h
      cases hk' : R.keyOf t' with
      | none => simp [resolve, hk'] at h
      | some k' =>
        have := follow_of_resolve_ref_exhausted R f t' k' hk' (by simpa [resolve] using h)
        simp [follow, next, hl, hk', this]

theorem resolve_nonref (R : RefSys K) (f : Nat) (t : Ty) (h : R.keyOf t = none) :
    resolve R (f + 1) t = .found t := by simp [resolve, h]

/-- more fuel does not change a result -/
theorem resolve_mono (R : RefSys K) : ∀ (f k : Nat) (t : Ty),
    resolve R f t ≠ .exhausted → resolve R (f + k) t = resolve R f t
  | 0, _, _, h => absurd rfl h
  | f + 1, k, t, h => by
    have e : f + 1 + k = (f + k) + 1 := by omega
    rw [e]
    simp only [resolve] at h ⊢
    cases hk : R.keyOf t with
    | none => rfl
    | some key =>
      simp only [hk] at h ⊢
      cases hl : R.lookup key with
      | none => rfl
      | some t' =>
        simp only [hl] at h ⊢
        exact resolve_mono R f k t' h

variable [DecidableEq K]

/-- with the keys that name an object collected in `dom`: a reference that exhausts fuel
    `dom.length + 2` exhausts every fuel -/
theorem resolve_exhausts_all (R : RefSys K) (dom : List K)
    (hdom : ∀ k, (R.lookup k).isSome = true → k ∈ dom) (t : Ty)
    (h : resolve R (dom.length + 2) t = .exhausted) : ∀ f, resolve R f t = .exhausted := by
  cases hk : R.keyOf t with
  | none => simp [resolve, hk] at h
  | some k =>
    have hd : ∀ x, (R.next x).isSome = true → x ∈ dom := by
      intro x hx
      apply hdom
      cases hl : R.lookup x with
      | none => simp [next, hl] at hx
      | some _ => rfl
    have h1 := follow_of_resolve_ref_exhausted R (dom.length + 1) t k hk h
    have hall := follow_exhausts_all R.next dom hd k h1
    intro f
    exact resolve_ref_exhausted_of_follow R f t k hk (hall f)

/-- divergence (= exhaustion of every fuel) of a reference, characterised on the key chain -/
theorem resolve_diverges_iff (R : RefSys K) (dom : List K)
    (hdom : ∀ k, (R.lookup k).isSome = true → k ∈ dom) (t : Ty) (k : K) (hk : R.keyOf t = some k) :
    (∀ f, resolve R f t = .exhausted) ↔ R.ReachesCycle k := by
  have hd : ∀ x, (R.next x).isSome = true → x ∈ dom := by
    intro x hx
    apply hdom
    cases hl : R.lookup x with
    | none => simp [next, hl] at hx
    | some _ => rfl
  constructor
  · intro h
    have h1 := follow_of_resolve_ref_exhausted R (dom.length + 1) t k hk (h _)
    rw [follow_none_iff_steps] at h1
    exact exists_loop_of_long R.next dom hd k h1
  · rintro ⟨i, p, x, si, hp, hloop⟩ f
    apply resolve_ref_exhausted_of_follow R f t k hk
    rw [follow_none_iff_steps]
    exact steps_all_of_loop R.next si hp hloop f

/-- decidable: no key of `dom` starts a chain that runs into a cycle -/
def acyclicB (R : RefSys K) (dom : List K) : Bool :=
  dom.all fun k => (follow R.next (dom.length + 1) k).isSome

theorem acyclicB_iff (R : RefSys K) (dom : List K)
    (hdom : ∀ k, (R.lookup k).isSome = true → k ∈ dom) :
    acyclicB R dom = true ↔ ∀ k, ¬ R.ReachesCycle k := by
  have hd : ∀ x, (R.next x).isSome = true → x ∈ dom := by
    intro x hx
    apply hdom
    cases hl : R.lookup x with
    | none => simp [next, hl] at hx
    | some _ => rfl
  constructor
  · intro h k ⟨i, p, x, si, hp, hloop⟩
    have hall := steps_all_of_loop R.next si hp hloop
    -- k has a successor (the chain never ends), so k ∈ dom
    have hk : k ∈ dom := hd k (by
      have := hall 1
      cases hn : R.next k with
      | none => simp [steps, hn] at this
      | some _ => rfl)
    have := (List.all_eq_true.1 h) k hk
    have hnone : follow R.next (dom.length + 1) k = none := by
      rw [follow_none_iff_steps]; exact hall _
    simp [hnone] at this
  · intro h
    apply List.all_eq_true.2
    intro k _
    cases hf : follow R.next (dom.length + 1) k with
    | some _ => rfl
    | none =>
      exfalso
      rw [follow_none_iff_steps] at hf
      exact h k (exists_loop_of_long R.next dom hd k hf)

/-- **termination**: on an acyclic system no resolution exhausts fuel `dom.length + 2` -/
theorem resolve_terminates (R : RefSys K) (dom : List K)
    (hdom : ∀ k, (R.lookup k).isSome = true → k ∈ dom) (hac : acyclicB R dom = true)
    (t : Ty) (f : Nat) (hf : dom.length + 2 ≤ f) : resolve R f t ≠ .exhausted := by
  intro hex
  cases hk : R.keyOf t with
  | none =>
    obtain ⟨f', rfl⟩ : ∃ f', f = f' + 1 := ⟨f - 1, by omega⟩
    simp [resolve, hk] at hex
  | some k =>
    -- exhausted at f ≥ N+2 ⇒ exhausted at N+2 (otherwise monotone) ⇒ cycle
    have h2 : resolve R (dom.length + 2) t = .exhausted := by
      cases h : resolve R (dom.length + 2) t with
      | exhausted => rfl
      | dangling x =>
        obtain ⟨d, rfl⟩ : ∃ d, f = dom.length + 2 + d := ⟨f - (dom.length + 2), by omega⟩
        rw [resolve_mono R _ d t (by simp [h]), h] at hex
        cases hex
      | found x =>
        obtain ⟨d, rfl⟩ : ∃ d, f = dom.length + 2 + d := ⟨f - (dom.length + 2), by omega⟩
        rw [resolve_mono R _ d t (by simp [h]), h] at hex
        cases hex
    have hall := resolve_exhausts_all R dom hdom t h2
    have hcyc := (resolve_diverges_iff R dom hdom t k hk).1 hall
    exact ((acyclicB_iff R dom hdom).1 hac) k hcyc

end RefSys

/-! ### instance 1: `ast.Schema.Resolve` (one schema, bare names) -/

def refName : Ty → Option String
  | .ref _ n _ => some n
  | _ => none

def schemaSys (s : Schema) : RefSys String where
  lookup := fun n => (s.locateObject n).map (·.ty)
  keyOf := refName

def schemaKeys (s : Schema) : List String := s.objects.map (·.1)

theorem rget_isSome_mem {V : Type} (k : String) : ∀ (l : List (String × V)),
    (rget k l).isSome = true → k ∈ l.map (·.1)
  | [], h => by simp [rget] at h
  | (k', v) :: t, h => by
    by_cases hk : k' = k
    · simp [hk]
    · simp only [rget, hk, if_false] at h
      simp [rget_isSome_mem k t h]

theorem schemaSys_dom (s : Schema) :
    ∀ k, ((schemaSys s).lookup k).isSome = true → k ∈ schemaKeys s := by
  intro k h
  apply rget_isSome_mem k s.objects
  simp only [schemaSys, Schema.locateObject] at h
  cases hg : rget k s.objects with
  | none => simp [hg] at h
  | some _ => rfl

/-- the fuelled model of `Schema.Resolve` (Cog/Passes/Common.lean) is the generic scheme -/
theorem schemaResolve_eq (s : Schema) : ∀ (f : Nat) (t : Ty),
    Cog.Passes.Schema.resolve s f t =
      (match (schemaSys s).resolve f t with
       | .exhausted => .panic "stack-overflow"
       | .dangling _ => .ok none
       | .found r => .ok (some r))
  | 0, _ => rfl
  | f + 1, t => by
    cases t with
    | ref p n m =>
      have hk : (schemaSys s).keyOf (.ref p n m) = some n := rfl
      simp only [Cog.Passes.Schema.resolve, RefSys.resolve, hk]
      cases hl : s.locateObject n with
      | none =>
        have : (schemaSys s).lookup n = none := by simp [schemaSys, hl]
        simp [this]
      | some o =>
        have : (schemaSys s).lookup n = some o.ty := by simp [schemaSys, hl]
        simp only [this]
        exact schemaResolve_eq s f o.ty
    | scalar k v c m => simp [Cog.Passes.Schema.resolve, RefSys.resolve, show (schemaSys s).keyOf (.scalar k v c m) = none from rfl]
    | cref p n v m => simp [Cog.Passes.Schema.resolve, RefSys.resolve, show (schemaSys s).keyOf (.cref p n v m) = none from rfl]
    | array e m => simp [Cog.Passes.Schema.resolve, RefSys.resolve, show (schemaSys s).keyOf (.array e m) = none from rfl]
    | map i v m => simp [Cog.Passes.Schema.resolve, RefSys.resolve, show (schemaSys s).keyOf (.map i v m) = none from rfl]
    | struct fs g gi m => simp [Cog.Passes.Schema.resolve, RefSys.resolve, show (schemaSys s).keyOf (.struct fs g gi m) = none from rfl]
    | enum vs m => simp [Cog.Passes.Schema.resolve, RefSys.resolve, show (schemaSys s).keyOf (.enum vs m) = none from rfl]
    | disj bs i m => simp [Cog.Passes.Schema.resolve, RefSys.resolve, show (schemaSys s).keyOf (.disj bs i m) = none from rfl]
    | inter bs m => simp [Cog.Passes.Schema.resolve, RefSys.resolve, show (schemaSys s).keyOf (.inter bs m) = none from rfl]
    | slot v m => simp [Cog.Passes.Schema.resolve, RefSys.resolve, show (schemaSys s).keyOf (.slot v m) = none from rfl]
    | bad k m => simp [Cog.Passes.Schema.resolve, RefSys.resolve, show (schemaSys s).keyOf (.bad k m) = none from rfl]

def Schema.aliasAcyclicB (s : Schema) : Bool := (schemaSys s).acyclicB (schemaKeys s)

/-! ### instance 2: `ast.Schemas.ResolveToType` (all schemas, package + name) -/

def refKey2 : Ty → Option (String × String)
  | .ref p n _ => some (p, n)
  | _ => none

def schemasSys (ss : Schemas) : RefSys (String × String) where
  lookup := fun k => (Schemas.locateObject ss k.1 k.2).map (·.ty)
  keyOf := refKey2

def schemasKeys : Schemas → List (String × String)
  | [] => []
  | s :: rest => s.objects.map (fun ko => (s.pkg, ko.1)) ++ schemasKeys rest

theorem schemas_locate_mem : ∀ (ss : Schemas) (p n : String),
    (Schemas.locateObject ss p n).isSome = true → (p, n) ∈ schemasKeys ss
  | [], p, n, h => by simp [Schemas.locateObject, Schemas.locate] at h
  | s :: rest, p, n, h => by
    simp only [schemasKeys, List.mem_append]
    by_cases hp : s.pkg = p
    · left
      simp only [Schemas.locateObject, Schemas.locate, hp, if_true, Schema.locateObject] at h
      have := rget_isSome_mem n s.objects h
      simp only [List.mem_map] at this ⊢
      obtain ⟨ko, hko, hk⟩ := this
      exact ⟨ko, hko, by simp [hp, hk]⟩
    · right
      apply schemas_locate_mem rest p n
      simpa [Schemas.locateObject, Schemas.locate, hp] using h

theorem schemasSys_dom (ss : Schemas) :
    ∀ k, ((schemasSys ss).lookup k).isSome = true → k ∈ schemasKeys ss := by
  intro k h
  have : (Schemas.locateObject ss k.1 k.2).isSome = true := by
    simp only [schemasSys] at h
    cases hg : Schemas.locateObject ss k.1 k.2 with
    | none => simp [hg] at h
    | some _ => rfl
  exact schemas_locate_mem ss k.1 k.2 this

/-- the fuelled model of `Schemas.ResolveToType` (Cog/IR/Basic.lean) is the generic scheme -/
theorem resolveToType_eq (ss : Schemas) : ∀ (f : Nat) (t : Ty),
    Schemas.resolveToType ss f t =
      (match (schemasSys ss).resolve f t with
       | .exhausted => none
       | .dangling r => some r
       | .found r => some r)
  | 0, _ => rfl
  | f + 1, t => by
    cases t with
    | ref p n m =>
      have hk : (schemasSys ss).keyOf (.ref p n m) = some (p, n) := rfl
      simp only [Schemas.resolveToType, RefSys.resolve, hk]
      cases hl : Schemas.locateObject ss p n with
      | none =>
        have : (schemasSys ss).lookup (p, n) = none := by simp [schemasSys, hl]
        simp [this]
      | some o =>
        have : (schemasSys ss).lookup (p, n) = some o.ty := by simp [schemasSys, hl]
        simp only [this]
        exact resolveToType_eq ss f o.ty
    | scalar k v c m => simp [Schemas.resolveToType, RefSys.resolve, show (schemasSys ss).keyOf (.scalar k v c m) = none from rfl]
    | cref p n v m => simp [Schemas.resolveToType, RefSys.resolve, show (schemasSys ss).keyOf (.cref p n v m) = none from rfl]
    | array e m => simp [Schemas.resolveToType, RefSys.resolve, show (schemasSys ss).keyOf (.array e m) = none from rfl]
    | map i v m => simp [Schemas.resolveToType, RefSys.resolve, show (schemasSys ss).keyOf (.map i v m) = none from rfl]
    | struct fs g gi m => simp [Schemas.resolveToType, RefSys.resolve, show (schemasSys ss).keyOf (.struct fs g gi m) = none from rfl]
    | enum vs m => simp [Schemas.resolveToType, RefSys.resolve, show (schemasSys ss).keyOf (.enum vs m) = none from rfl]
    | disj bs i m => simp [Schemas.resolveToType, RefSys.resolve, show (schemasSys ss).keyOf (.disj bs i m) = none from rfl]
    | inter bs m => simp [Schemas.resolveToType, RefSys.resolve, show (schemasSys ss).keyOf (.inter bs m) = none from rfl]
    | slot v m => simp [Schemas.resolveToType, RefSys.resolve, show (schemasSys ss).keyOf (.slot v m) = none from rfl]
    | bad k m => simp [Schemas.resolveToType, RefSys.resolve, show (schemasSys ss).keyOf (.bad k m) = none from rfl]

def Schemas.aliasAcyclicB (ss : Schemas) : Bool := (schemasSys ss).acyclicB (schemasKeys ss)

end Cog.Total
