/-
  C04 — the compiler passes of the language chains cannot panic under stated decidable conditions.

  For every pass `p` of `Cog.Passes.PassId` (the passes occurring in the `CompilerPasses()` lists
  regenerated into `Cog.Gen.Chains`): `passCond p S = true → isPanic (p.run S) = false`.
  `passCond p` is `true` outright for the passes that have no partial operation; for the others it
  is the conjunction of the named side conditions of Cog/Total/Basic.lean — each conjunct is there
  because the Go code has an unchecked index / assertion / unbounded recursion at that spot, and
  Cog/Props/C04.lean refutes the unconditional statement with a witness per conjunct.
-/
import Cog.Total.Basic
import Cog.Passes.Chain
import Cog.NF.EnumNames
import Cog.OMap.Lemmas
namespace Cog.Total
open Cog.IR Cog.Passes

/-! ### passes without any partial operation -/

theorem anonymousStructsToNamed_total (S : Schemas) : isPanic (AnonymousStructsToNamed.run S) = false := rfl
theorem anonymousEnumToExplicitType_total (S : Schemas) : isPanic (AnonymousEnumToExplicitType.run S) = false := rfl
theorem renameNumericEnumValues_total (S : Schemas) : isPanic (RenameNumericEnumValues.run S) = false := rfl

theorem notRequiredFieldAsNullableType_total (S : Schemas) :
    isPanic (NotRequiredFieldAsNullableType.run S) = false := by
  apply visitSchemas_noPanic
  intro cur s _ _
  exact visitSchemaPure_noPanic _ s rfl (fun _ _ => rfl)

theorem disjunctionOfAnonymousStructsToExplicit_total (S : Schemas) :
    isPanic (DisjunctionOfAnonymousStructsToExplicit.run S) = false := by
  apply visitSchemas_noPanic
  intro cur s _ _
  exact visitSchemaSt_noPanic _ s (fun _ => rfl) (fun _ _ _ => rfl)

/-! ### resolution inside the current schema: enough fuel, no cycle ⇒ no overflow -/

theorem objectsSize_ge_length : ∀ os : Objects, os.length ≤ objectsSize os
  | [] => Nat.le_refl _
  | (_, o) :: rest => by
    have := objectsSize_ge_length rest
    simp only [objectsSize, List.length_cons]
    omega

theorem fuel_ge_of_mem : ∀ (cur : Schemas) (s : Schema), s ∈ cur → s.objects.length + 2 ≤ Schemas.fuel cur
  | [], _, h => by cases h
  | c :: rest, s, h => by
    simp only [Schemas.fuel]
    rcases List.mem_cons.1 h with rfl | h'
    · have := objectsSize_ge_length s.objects
      have h2 : 2 ≤ Schemas.fuel rest := by
        clear this h
        induction rest with
        | nil => simp [Schemas.fuel]
        | cons r rs ih => simp only [Schemas.fuel]; omega
      omega
    · have := fuel_ge_of_mem rest s h'
      omega

/-- the fuelled model of `Schema.Resolve` does not overflow on an alias-acyclic schema when the
    fuel is the one the pass models use (`Schemas.fuel` of any slice containing the schema) -/
theorem schemaResolve_noPanic (cur : Schemas) (s : Schema) (hs : s ∈ cur)
    (hac : Schema.aliasAcyclicB s = true) (t : Ty) :
    isPanic (Cog.Passes.Schema.resolve s (Schemas.fuel cur) t) = false := by
  rw [schemaResolve_eq]
  have hlen : (schemaKeys s).length + 2 ≤ Schemas.fuel cur := by
    have := fuel_ge_of_mem cur s hs
    simpa [schemaKeys] using this
  have := RefSys.resolve_terminates (schemaSys s) (schemaKeys s) (schemaSys_dom s) hac t _ hlen
  cases hr : (schemaSys s).resolve (Schemas.fuel cur) t with
  | exhausted => exact absurd hr this
  | dangling _ => rfl
  | found _ => rfl

theorem localAcyclic_mem {S : Schemas} (h : LocalAliasAcyclic S = true) {s : Schema} (hs : s ∈ S) :
    Schema.aliasAcyclicB s = true := by
  simp only [LocalAliasAcyclic, List.all_eq_true] at h
  exact h s hs

mutual
theorem allTy_true : ∀ t : Ty, allTy (fun _ => true) t = true
  | .scalar .. => by simp [allTy]
  | .ref .. => by simp [allTy]
  | .cref .. => by simp [allTy]
  | .array e _ => by simp [allTy, allTy_true e]
  | .map i v _ => by simp [allTy, allTy_true i, allTy_true v]
  | .struct fs g _ _ => by simp [allTy, allFields_true fs, allList_true g]
  | .enum .. => by simp [allTy]
  | .disj bs _ _ => by simp [allTy, allList_true bs]
  | .inter bs _ => by simp [allTy, allList_true bs]
  | .slot .. => by simp [allTy]
  | .bad .. => by simp [allTy]
theorem allList_true : ∀ ts : List Ty, allList (fun _ => true) ts = true
  | [] => by simp [allList]
  | t :: ts => by simp [allList, allTy_true t, allList_true ts]
theorem allFields_true : ∀ fs : List Field, allFields (fun _ => true) fs = true
  | [] => by simp [allFields]
  | f :: fs => by simp [allFields, allTy_true f.ty, allFields_true fs]
end

theorem allSchemas_true : ∀ S : Schemas, allSchemas (fun _ => true) S = true
  | [] => rfl
  | s :: ss => by simp [allSchemas, allTy_true, allSchemas_true ss]

/-! ### DisjunctionWithNullToOptional: unconditional since fix 30da046 (`null | null` is returned
    unchanged); before it `NonNullTypes()[0]` panicked -/

theorem disjunctionWithNullToOptionalPreFix_total (S : Schemas) (h : NoNullOnlyUnion S = true) :
    isPanic (DisjunctionWithNullToOptional.runPreFix S) = false := by
  apply runDisjPass_noPanic _ notNullOnlyNode S h
  intro cur s _ _ bs i m hp
  simp only [DisjunctionWithNullToOptional.hookPreFix]
  by_cases hc : (bs.length != 2 || !hasNullType bs) = true
  · simp [hc]
  · simp only [hc]
    cases hn : nonNullTypes bs with
    | cons t ts => rfl
    | nil =>
      exfalso
      simp only [notNullOnlyNode, hn] at hp
      simp at hc
      simp [hc.1, hc.2] at hp

theorem disjunctionWithNullToOptional_total (S : Schemas) :
    isPanic (DisjunctionWithNullToOptional.run S) = false := by
  apply runDisjPass_noPanic _ (fun _ => true) S (allSchemas_true S)
  intro cur s _ _ bs i m _
  simp only [DisjunctionWithNullToOptional.hook]
  split
  · rfl
  · split <;> rfl

/-! ### FlattenDisjunctions, UndiscriminatedDisjunctionToAny, DisjunctionToType:
    the only partial operation is the recursion of `Schema.Resolve` -/

theorem flatten_noPanic (s : Schema) (fuel : Nat)
    (hres : ∀ t, isPanic (Cog.Passes.Schema.resolve s fuel t) = false) :
    ∀ (bs : List Ty) (i : Nat) (acc : List String × List Ty),
      isPanic (FlattenDisjunctions.flatten s fuel bs i acc) = false
  | [], _, _ => rfl
  | b :: bs, i, acc => by
    simp only [FlattenDisjunctions.flatten]
    by_cases hb : b.isRef = true
    · simp only [hb, Bool.not_true, Bool.false_eq_true, if_false]
      have := hres b
      cases hr : Cog.Passes.Schema.resolve s fuel b with
      | panic p => rw [hr] at this; cases this
      | err e => rfl
      | ok o =>
        cases o with
        | none => exact flatten_noPanic s fuel hres bs _ _
        | some t => cases t <;> exact flatten_noPanic s fuel hres bs _ _
    · have hb' : b.isRef = false := by simpa using hb
      simp only [hb', Bool.not_false, if_true]
      exact flatten_noPanic s fuel hres bs _ _

theorem flattenDisjunctions_total (S : Schemas) (h : LocalAliasAcyclic S = true) :
    isPanic (FlattenDisjunctions.run S) = false := by
  apply runDisjPass_noPanic _ (fun _ => true) S (allSchemas_true S)
  intro cur s hs hc bs i m _
  simp only [FlattenDisjunctions.hook]
  have := flatten_noPanic s (Schemas.fuel cur)
    (schemaResolve_noPanic cur s hc (localAcyclic_mem h hs)) bs 0 ([], [])
  cases hr : FlattenDisjunctions.flatten s (Schemas.fuel cur) bs 0 ([], []) with
  | ok _ => rfl
  | err _ => rfl
  | panic _ => rw [hr] at this; cases this

theorem allScalarKind_noPanic (s : Schema) (fuel : Nat)
    (hres : ∀ t, isPanic (Cog.Passes.Schema.resolve s fuel t) = false) (k : String) :
    ∀ bs : List Ty, isPanic (UndiscriminatedDisjunctionToAny.allScalarKind s fuel k bs) = false
  | [] => rfl
  | b :: bs => by
    simp only [UndiscriminatedDisjunctionToAny.allScalarKind]
    have := hres b
    cases hr : Cog.Passes.Schema.resolve s fuel b with
    | panic p => rw [hr] at this; cases this
    | err e => rfl
    | ok o =>
      cases o with
      | none => rfl
      | some t =>
        cases t with
        | scalar k' _ _ _ =>
          by_cases hk : (k' != k) = true
          · simp [hk]
          · simp only [hk]
            exact allScalarKind_noPanic s fuel hres k bs
        | _ => rfl

theorem singleScalarKind_noPanic (s : Schema) (fuel : Nat)
    (hres : ∀ t, isPanic (Cog.Passes.Schema.resolve s fuel t) = false) :
    ∀ bs : List Ty, isPanic (UndiscriminatedDisjunctionToAny.singleScalarKind s fuel bs) = false
  | [] => rfl
  | b :: bs => by
    simp only [UndiscriminatedDisjunctionToAny.singleScalarKind]
    have := hres b
    cases hr : Cog.Passes.Schema.resolve s fuel b with
    | panic p => rw [hr] at this; cases this
    | err e => rfl
    | ok o =>
      cases o with
      | none => rfl
      | some t =>
        cases t with
        | scalar k _ _ _ =>
          have h2 := allScalarKind_noPanic s fuel hres k (b :: bs)
          cases ha : UndiscriminatedDisjunctionToAny.allScalarKind s fuel k (b :: bs) with
          | ok v => cases v <;> simp [ha]
          | err _ => simp [ha]
          | panic _ => rw [ha] at h2; cases h2
        | _ => rfl

theorem undiscriminatedDisjunctionToAny_total (S : Schemas) (h : LocalAliasAcyclic S = true) :
    isPanic (UndiscriminatedDisjunctionToAny.run S) = false := by
  apply runDisjPass_noPanic _ (fun _ => true) S (allSchemas_true S)
  intro cur s hs hc bs i m _
  simp only [UndiscriminatedDisjunctionToAny.hook]
  have := singleScalarKind_noPanic s (Schemas.fuel cur)
    (schemaResolve_noPanic cur s hc (localAcyclic_mem h hs)) bs
  cases hr : UndiscriminatedDisjunctionToAny.singleScalarKind s (Schemas.fuel cur) bs with
  | panic _ => rw [hr] at this; cases this
  | err _ => rfl
  | ok o =>
    cases o with
    | some _ => rfl
    | none =>
      simp only []
      split <;> (try rfl)
      split <;> rfl

theorem disjunctionToType_total (S : Schemas) (h : LocalAliasAcyclic S = true) :
    isPanic (DisjunctionToType.run S) = false := by
  apply visitSchemas_noPanic
  intro cur s hs hc
  obtain ⟨he, ho⟩ := allSchemas_mem _ S (allSchemas_true S) s hs
  have hh : ∀ bs i m n, (fun _ => true) (Ty.disj bs i m) = true →
      isPanic (DisjunctionToType.hook cur s bs i m n) = false := by
    intro bs i m n _
    simp only [DisjunctionToType.hook]
    have := singleScalarKind_noPanic s (Schemas.fuel cur)
      (schemaResolve_noPanic cur s hc (localAcyclic_mem h hs)) bs
    cases hr : UndiscriminatedDisjunctionToAny.singleScalarKind s (Schemas.fuel cur) bs with
    | panic _ => rw [hr] at this; cases this
    | err _ => rfl
    | ok o =>
      cases o with
      | some _ => rfl
      | none =>
        simp only []
        split
        · rfl
        · split
          · rfl
          · split <;> rfl
  exact visitSchemaSt_noPanic _ s (fun n => dvStTy_noPanic _ _ hh _ n he)
    (fun ko hko n => dvStTy_noPanic _ _ hh _ n (ho ko hko))

/-! ### PrefixEnumValues / SanitizeEnumMemberNames: `member.Type.Scalar` (since fix aceba4d the only
    partial operation left; `member.Value.(string)` and `member.Name[0]` are kept in the `…PreFix`
    member functions, total under `memberOkPreFix`) -/

/-- what the naming passes needed of a member before fix aceba4d -/
def memberOkPreFix (v : EnumVal) : Bool := memberScalar v && memberTyped v && memberNamed v

/-- since fix aceba4d only the member's scalar type is dereferenced (`member.Type.Scalar`): part of `wfIR` -/
def memberOk (v : EnumVal) : Bool := memberScalar v

def enumMembersOkNode : Ty → Bool
  | .enum vs _ => vs.all memberOk
  | _ => true

/-- every enum member has a scalar type, at every node (a conjunct of `wfIR`) -/
def EnumMembersOk (S : Schemas) : Bool := allSchemas enumMembersOkNode S

theorem prefix_memberName_noPanic (v : EnumVal) (h : memberOk v = true) :
    isPanic (PrefixEnumValues.memberName v) = false := by
  simp only [memberOk, memberScalar] at h
  have h1' : v.kind.startsWith "?" = false := by simpa using h
  simp only [PrefixEnumValues.memberName, h1', Bool.false_eq_true, if_false]
  split
  · rfl
  · split
    · rfl
    · split <;> rfl

theorem prefix_memberNamePreFix_noPanic (v : EnumVal) (h : memberOkPreFix v = true) :
    isPanic (PrefixEnumValues.memberNamePreFix v) = false := by
  simp only [memberOkPreFix, Bool.and_eq_true, memberScalar, memberTyped, memberNamed] at h
  obtain ⟨⟨h1, h2⟩, h3⟩ := h
  have h1' : v.kind.startsWith "?" = false := by simpa using h1
  simp only [PrefixEnumValues.memberNamePreFix, h1', Bool.false_eq_true, if_false]
  by_cases hk : (v.kind == "string") = true
  · simp only [hk, if_true] at h2 ⊢
    cases hv : v.value with
    | str s =>
      by_cases hs : (s == "") = true
      · simp [hs]
      · have hk2 : (v.kind != "int64") = true := by
          have : v.kind = "string" := by simpa using hk
          simp [this]
        simp [hs, hk2]
    | nil => simp [hv] at h2
    | bool _ => simp [hv] at h2
    | int _ _ => simp [hv] at h2
    | float _ _ => simp [hv] at h2
    | jnum _ => simp [hv] at h2
    | list _ => simp [hv] at h2
    | map _ => simp [hv] at h2
    | other _ _ => simp [hv] at h2
  · simp only [hk, Bool.false_eq_true, if_false]
    by_cases hk2 : (v.kind != "int64") = true
    · simp [hk2]
    · simp only [hk2, Bool.false_eq_true, if_false]
      cases hh : head0 v.name with
      | none => simp [hh] at h3
      | some c => by_cases hc : (c == '-') = true <;> simp [hc]

theorem prefix_processValues_noPanic (parent : String) : ∀ vs : List EnumVal,
    vs.all memberOk = true → isPanic (PrefixEnumValues.processValues parent vs) = false
  | [], _ => rfl
  | v :: vs, h => by
    simp only [List.all_cons, Bool.and_eq_true] at h
    have h1 := prefix_memberName_noPanic v h.1
    have h2 := prefix_processValues_noPanic parent vs h.2
    simp only [PrefixEnumValues.processValues]
    cases hm : PrefixEnumValues.memberName v with
    | panic _ => rw [hm] at h1; cases h1
    | err _ => rfl
    | ok n =>
      cases hp : PrefixEnumValues.processValues parent vs with
      | panic _ => rw [hp] at h2; cases h2
      | err _ => rfl
      | ok _ => rfl

theorem prefix_processObjects_noPanic : ∀ os : Objects,
    (∀ ko ∈ os, allTy enumMembersOkNode ko.2.ty = true) → isPanic (PrefixEnumValues.processObjects os) = false
  | [], _ => rfl
  | (k, o) :: rest, h => by
    have ho := h (k, o) (List.mem_cons_self ..)
    have hr := prefix_processObjects_noPanic rest (fun ko hko => h ko (List.mem_cons_of_mem _ hko))
    have h1 : isPanic (PrefixEnumValues.processObject o) = false := by
      simp only [PrefixEnumValues.processObject]
      cases ht : o.ty with
      | enum vs m =>
        have hvs : vs.all memberOk = true := by
          have := allTy_self _ _ ho
          simpa [ht, enumMembersOkNode] using this
        have := prefix_processValues_noPanic o.name vs hvs
        cases hp : PrefixEnumValues.processValues o.name vs with
        | panic _ => rw [hp] at this; cases this
        | err _ => simp [hp]
        | ok _ => simp [hp]
      | _ => rfl
    simp only [PrefixEnumValues.processObjects]
    cases hp : PrefixEnumValues.processObject o with
    | panic _ => rw [hp] at h1; cases h1
    | err _ => rfl
    | ok o' =>
      cases hq : PrefixEnumValues.processObjects rest with
      | panic _ => rw [hq] at hr; cases hr
      | err _ => rfl
      | ok _ => rfl

theorem prefixEnumValues_total (S : Schemas) (h : EnumMembersOk S = true) :
    isPanic (PrefixEnumValues.run S) = false := by
  apply mapM_noPanic
  intro s hs
  obtain ⟨_, ho⟩ := allSchemas_mem _ S h s hs
  have := prefix_processObjects_noPanic s.objects ho
  simp only [PrefixEnumValues.processSchema]
  cases hp : PrefixEnumValues.processObjects s.objects with
  | panic _ => rw [hp] at this; cases this
  | err _ => rfl
  | ok _ => rfl

theorem head0_ucc_negative (s : String) : ∃ c, head0 (ucc ("negative" ++ s)) = some c := by
  obtain ⟨r, hr⟩ := Cog.NF.ucc_negative_toList s
  exact ⟨'N', by simp [head0, hr]⟩

theorem sanitizeMember_noPanic (v : EnumVal) (h : memberOk v = true) :
    isPanic (SanitizeEnumMemberNames.sanitizeMember v) = false := by
  simp only [memberOk, memberScalar] at h
  have h1' : v.kind.startsWith "?" = false := by simpa using h
  simp only [SanitizeEnumMemberNames.sanitizeMember, h1', Bool.false_eq_true, if_false]
  rfl

theorem sanitizeMemberPreFix_noPanic (v : EnumVal) (h : memberOkPreFix v = true) :
    isPanic (SanitizeEnumMemberNames.sanitizeMemberPreFix v) = false := by
  simp only [memberOkPreFix, Bool.and_eq_true, memberScalar, memberTyped, memberNamed] at h
  obtain ⟨⟨h1, h2⟩, h3⟩ := h
  have h1' : v.kind.startsWith "?" = false := by simpa using h1
  -- the name is not empty
  have hne : (v.name == "") = false := by
    cases hh : head0 v.name with
    | none => simp [hh] at h3
    | some c =>
      by_cases he : v.name = ""
      · simp [he, head0] at hh
      · simpa using he
  simp only [SanitizeEnumMemberNames.sanitizeMemberPreFix, h1', Bool.false_eq_true, if_false, hne, Bool.and_false]
  cases hh : head0 v.name with
  | none => simp [hh] at h3
  | some c0 =>
    simp only []
    by_cases hc : (c0 == '-') = true
    · simp only [hc, if_true]
      obtain ⟨c1, hc1⟩ := head0_ucc_negative (tail1 v.name)
      simp only [hc1]
      rfl
    · simp only [hc, Bool.false_eq_true, if_false, hh]
      rfl

theorem sanitizeMembers_noPanic : ∀ vs : List EnumVal,
    vs.all memberOk = true → isPanic (SanitizeEnumMemberNames.sanitizeMembers vs) = false
  | [], _ => rfl
  | v :: vs, h => by
    simp only [List.all_cons, Bool.and_eq_true] at h
    have h1 := sanitizeMember_noPanic v h.1
    have h2 := sanitizeMembers_noPanic vs h.2
    simp only [SanitizeEnumMemberNames.sanitizeMembers]
    cases hm : SanitizeEnumMemberNames.sanitizeMember v with
    | panic _ => rw [hm] at h1; cases h1
    | err _ => rfl
    | ok n =>
      cases hp : SanitizeEnumMemberNames.sanitizeMembers vs with
      | panic _ => rw [hp] at h2; cases h2
      | err _ => rfl
      | ok _ => rfl

mutual
theorem sanitize_vTy_noPanic : ∀ t : Ty, allTy enumMembersOkNode t = true →
    isPanic (SanitizeEnumMemberNames.vTy t) = false
  | .scalar .. => fun _ => rfl
  | .ref .. => fun _ => rfl
  | .cref .. => fun _ => rfl
  | .slot .. => fun _ => rfl
  | .bad .. => fun _ => rfl
  | .enum vs m => fun h => by
    have hvs : vs.all memberOk = true := by simpa [allTy, enumMembersOkNode] using h
    have := sanitizeMembers_noPanic vs hvs
    simp only [SanitizeEnumMemberNames.vTy]
    cases hr : SanitizeEnumMemberNames.sanitizeMembers vs with
    | ok _ => rfl
    | err _ => rfl
    | panic _ => rw [hr] at this; cases this
  | .array e m => fun h => by
    simp only [allTy, Bool.and_eq_true] at h
    have := sanitize_vTy_noPanic e h.2
    simp only [SanitizeEnumMemberNames.vTy]
    cases hr : SanitizeEnumMemberNames.vTy e with
    | ok _ => rfl
    | err _ => rfl
    | panic _ => rw [hr] at this; cases this
  | .map i v m => fun h => by
    simp only [allTy, Bool.and_eq_true] at h
    have := sanitize_vTy_noPanic v h.2
    simp only [SanitizeEnumMemberNames.vTy]
    cases hr : SanitizeEnumMemberNames.vTy v with
    | ok _ => rfl
    | err _ => rfl
    | panic _ => rw [hr] at this; cases this
  | .struct fs g gi m => fun h => by
    simp only [allTy, Bool.and_eq_true] at h
    have := sanitize_vFields_noPanic fs h.1.2
    simp only [SanitizeEnumMemberNames.vTy]
    cases hr : SanitizeEnumMemberNames.vFields fs with
    | ok _ => rfl
    | err _ => rfl
    | panic _ => rw [hr] at this; cases this
  | .disj bs i m => fun h => by
    simp only [allTy, Bool.and_eq_true] at h
    have := sanitize_vList_noPanic bs h.2
    simp only [SanitizeEnumMemberNames.vTy]
    cases hr : SanitizeEnumMemberNames.vList bs with
    | ok _ => rfl
    | err _ => rfl
    | panic _ => rw [hr] at this; cases this
  | .inter bs m => fun h => by
    simp only [allTy, Bool.and_eq_true] at h
    have := sanitize_vList_noPanic bs h.2
    simp only [SanitizeEnumMemberNames.vTy]
    cases hr : SanitizeEnumMemberNames.vList bs with
    | ok _ => rfl
    | err _ => rfl
    | panic _ => rw [hr] at this; cases this
theorem sanitize_vList_noPanic : ∀ ts : List Ty, allList enumMembersOkNode ts = true →
    isPanic (SanitizeEnumMemberNames.vList ts) = false
  | [] => fun _ => rfl
  | t :: ts => fun h => by
    simp only [allList, Bool.and_eq_true] at h
    have h1 := sanitize_vTy_noPanic t h.1
    have h2 := sanitize_vList_noPanic ts h.2
    simp only [SanitizeEnumMemberNames.vList]
    cases hr : SanitizeEnumMemberNames.vTy t with
    | ok _ =>
      cases hr2 : SanitizeEnumMemberNames.vList ts with
      | ok _ => rfl
      | err _ => rfl
      | panic _ => rw [hr2] at h2; cases h2
    | err _ => rfl
    | panic _ => rw [hr] at h1; cases h1
theorem sanitize_vFields_noPanic : ∀ fs : List Field, allFields enumMembersOkNode fs = true →
    isPanic (SanitizeEnumMemberNames.vFields fs) = false
  | [] => fun _ => rfl
  | f :: fs => fun h => by
    simp only [allFields, Bool.and_eq_true] at h
    have h1 := sanitize_vTy_noPanic f.ty h.1
    have h2 := sanitize_vFields_noPanic fs h.2
    simp only [SanitizeEnumMemberNames.vFields]
    cases hr : SanitizeEnumMemberNames.vTy f.ty with
    | ok _ =>
      cases hr2 : SanitizeEnumMemberNames.vFields fs with
      | ok _ => rfl
      | err _ => rfl
      | panic _ => rw [hr2] at h2; cases h2
    | err _ => rfl
    | panic _ => rw [hr] at h1; cases h1
end

theorem sanitizeEnumMemberNames_total (S : Schemas) (h : EnumMembersOk S = true) :
    isPanic (SanitizeEnumMemberNames.run S) = false := by
  apply visitSchemas_noPanic
  intro cur s hs _
  obtain ⟨he, ho⟩ := allSchemas_mem _ S h s hs
  exact visitSchemaPure_noPanic _ s (sanitize_vTy_noPanic _ he) (fun ko hko => sanitize_vTy_noPanic _ (ho ko hko))

/-! ### RemoveIntersections: `Hints[implements_variant].(string)` -/

/-- an alias object carries no `implements_variant` hint, or a string -/
def variantHintOk (o : Obj) : Bool :=
  match o.ty with
  | .ref _ _ om =>
    (match Cog.OMap.rget "implements_variant" om.hints with
     | none => true
     | some (.str _) => true
     | some _ => false)
  | _ => true

def VariantHintsAreStrings (S : Schemas) : Bool := S.all fun s => s.objects.all fun ko => variantHintOk ko.2

def objsHintOk (objs : Objects) : Prop := ∀ k o, Cog.OMap.rget k objs = some o → variantHintOk o = true

theorem objsHintOk_of_all : ∀ objs : Objects, (objs.all fun ko => variantHintOk ko.2) = true → objsHintOk objs
  | [], _ => by intro k o h; simp [Cog.OMap.rget] at h
  | (k0, o0) :: rest, h => by
    simp only [List.all_cons, Bool.and_eq_true] at h
    intro k o hg
    simp only [Cog.OMap.rget] at hg
    by_cases hk : k0 = k
    · simp only [hk, if_true] at hg
      cases hg
      exact h.1
    · simp only [hk, if_false] at hg
      exact objsHintOk_of_all rest h.2 k o hg

theorem phaseAOne_spec (key : String) (objs : Objects) (share : List (String × String))
    (st : RemoveIntersections.St) (h : objsHintOk objs) :
    (∃ objs' share' st', RemoveIntersections.phaseAOne key objs share st = .ok (objs', share', st') ∧ objsHintOk objs') := by
  have keep : ∀ (o' : Obj), (∀ p n m, o'.ty ≠ .ref p n m) →
      objsHintOk (Cog.OMap.rset key o' objs) := by
    intro o' hnr k o'' hk
    rw [Cog.OMap.rget_rset] at hk
    by_cases hkk : key = k
    · subst hkk
      simp only [if_true] at hk
      cases hk
      unfold variantHintOk
      cases ht : o'.ty with
      | ref p n m => exact absurd ht (hnr p n m)
      | _ => rfl
    · simp only [hkk, if_false] at hk
      exact h k o'' hk
  unfold RemoveIntersections.phaseAOne
  cases hg : Cog.OMap.rget key objs with
  | none => exact ⟨objs, share, st, rfl, h⟩
  | some o =>
    have hok := h key o hg
    simp only []
    cases ht : o.ty with
    | ref p rname om =>
      simp only []
      cases hl : Cog.OMap.rget rname objs with
      | none => exact ⟨objs, share, st, rfl, h⟩
      | some located =>
        simp only []
        cases hlt : located.ty with
        | struct fs g gi lm =>
          simp only [variantHintOk, ht] at hok
          simp only []
          cases hv : Cog.OMap.rget "implements_variant" om.hints with
          | none =>
            exact ⟨_, _, _, rfl, keep _ (by intro p n m hc; simp at hc)⟩
          | some val =>
            cases val with
            | str v => exact ⟨_, _, _, rfl, keep _ (by intro p n m hc; simp at hc)⟩
            | nil => simp [hv] at hok
            | bool _ => simp [hv] at hok
            | int _ _ => simp [hv] at hok
            | float _ _ => simp [hv] at hok
            | jnum _ => simp [hv] at hok
            | list _ => simp [hv] at hok
            | map _ => simp [hv] at hok
            | other _ _ => simp [hv] at hok
        | _ => exact ⟨_, _, _, rfl, h⟩
    | _ => exact ⟨_, _, _, rfl, h⟩

theorem phaseA_noPanic : ∀ (keys : List String) (objs : Objects) (share : List (String × String))
    (st : RemoveIntersections.St), objsHintOk objs →
    isPanic (RemoveIntersections.phaseA keys objs share st) = false
  | [], _, _, _, _ => rfl
  | k :: ks, objs, share, st, h => by
    obtain ⟨objs', share', st', he, h'⟩ := phaseAOne_spec k objs share st h
    simp only [RemoveIntersections.phaseA, he]
    exact phaseA_noPanic ks objs' share' st' h'

theorem removeIntersections_runFrom_noPanic : ∀ (ss : Schemas) (st : RemoveIntersections.St),
    (ss.all fun s => s.objects.all fun ko => variantHintOk ko.2) = true →
    isPanic (RemoveIntersections.runFrom ss st) = false
  | [], _, _ => rfl
  | s :: rest, st, h => by
    simp only [List.all_cons, Bool.and_eq_true] at h
    have hA := phaseA_noPanic (s.objects.map (·.1)) s.objects [] {} (objsHintOk_of_all s.objects h.1)
    simp only [RemoveIntersections.runFrom, RemoveIntersections.processSchema]
    cases hp : RemoveIntersections.phaseA (s.objects.map (·.1)) s.objects [] {} with
    | panic _ => rw [hp] at hA; cases hA
    | err _ => rfl
    | ok r =>
      obtain ⟨objs, share, st'⟩ := r
      simp only []
      have hr := removeIntersections_runFrom_noPanic rest {} h.2
      cases hq : RemoveIntersections.runFrom rest {} with
      | panic _ => rw [hq] at hr; cases hr
      | err _ => rfl
      | ok _ => rfl

theorem removeIntersections_total (S : Schemas) (h : VariantHintsAreStrings S = true) :
    isPanic (RemoveIntersections.run S) = false :=
  removeIntersections_runFrom_noPanic S {} h

/-! ### InlineObjectsWithTypes: the alias chain is followed across schemas -/

theorem resolveOwner_none_iff (ss : Schemas) : ∀ (f : Nat) (t : Ty) (o : Option (String × String)),
    InlineObjectsWithTypes.resolveOwner ss f t o = none ↔ Schemas.resolveToType ss f t = none
  | 0, _, _ => by simp [InlineObjectsWithTypes.resolveOwner, Schemas.resolveToType]
  | f + 1, t, o => by
    cases t with
    | ref p n m =>
      simp only [InlineObjectsWithTypes.resolveOwner, Schemas.resolveToType]
      cases hl : Schemas.locateObject ss p n with
      | none => simp
      | some ob => exact resolveOwner_none_iff ss f ob.ty _
    | _ => simp [InlineObjectsWithTypes.resolveOwner, Schemas.resolveToType]

theorem schemasKeys_length : ∀ ss : Schemas, (schemasKeys ss).length + 2 ≤ Schemas.fuel ss
  | [] => by simp [schemasKeys, Schemas.fuel]
  | s :: rest => by
    have := schemasKeys_length rest
    have h2 := objectsSize_ge_length s.objects
    simp only [schemasKeys, Schemas.fuel, List.length_append, List.length_map]
    omega

/-- `Schemas.ResolveToType` does not overflow on a globally alias-acyclic schema set -/
theorem resolveToType_some (ss : Schemas) (hac : Schemas.aliasAcyclicB ss = true) (t : Ty) :
    Schemas.resolveToType ss (Schemas.fuel ss) t ≠ none := by
  rw [resolveToType_eq]
  have := RefSys.resolve_terminates (schemasSys ss) (schemasKeys ss) (schemasSys_dom ss) hac t _
    (schemasKeys_length ss)
  cases hr : (schemasSys ss).resolve (Schemas.fuel ss) t with
  | exhausted => exact absurd hr this
  | dangling _ => simp
  | found _ => simp

theorem inline_collectObjects_noPanic (ss : Schemas) (hac : Schemas.aliasAcyclicB ss = true)
    (kinds : List String) (pkg : String) : ∀ (os : Objects) (st : InlineObjectsWithTypes.Store),
    isPanic (InlineObjectsWithTypes.collectObjects ss kinds pkg os st) = false
  | [], _ => rfl
  | (k, o) :: rest, st => by
    simp only [InlineObjectsWithTypes.collectObjects]
    cases hr : InlineObjectsWithTypes.resolveOwner ss (Schemas.fuel ss) o.ty (some (pkg, k)) with
    | none =>
      exfalso
      exact resolveToType_some ss hac o.ty ((resolveOwner_none_iff ss _ _ _).1 hr)
    | some r =>
      obtain ⟨resolved, owner⟩ := r
      simp only []
      split
      · exact inline_collectObjects_noPanic ss hac kinds pkg rest st
      · exact inline_collectObjects_noPanic ss hac kinds pkg rest _

theorem inline_collect_noPanic (ss : Schemas) (hac : Schemas.aliasAcyclicB ss = true) (kinds : List String) :
    ∀ (l : Schemas) (st : InlineObjectsWithTypes.Store), isPanic (InlineObjectsWithTypes.collect ss kinds l st) = false
  | [], _ => rfl
  | s :: rest, st => by
    have h1 := inline_collectObjects_noPanic ss hac kinds s.pkg s.objects st
    simp only [InlineObjectsWithTypes.collect]
    cases hc : InlineObjectsWithTypes.collectObjects ss kinds s.pkg s.objects st with
    | panic _ => rw [hc] at h1; cases h1
    | err _ => rfl
    | ok st' => exact inline_collect_noPanic ss hac kinds rest st'

theorem inlineObjectsWithTypes_total (kinds : List String) (S : Schemas) (h : GlobalAliasAcyclic S = true) :
    isPanic (InlineObjectsWithTypes.run kinds S) = false := by
  have := inline_collect_noPanic S h kinds S []
  simp only [InlineObjectsWithTypes.run]
  cases hc : InlineObjectsWithTypes.collect S kinds S [] with
  | panic _ => rw [hc] at this; cases this
  | err _ => rfl
  | ok _ => rfl

/-! ### DisjunctionInferMapping: `def.Branches[0]`, `referredType.AsStruct()`, `Value.(string)`,
    `ReferenceValue.(string)`, and the recursion of `Schema.Resolve` -/

def isStrVal : Val → Bool | .str _ => true | _ => false

/-- a constant field is a string constant -/
def fieldConstOk (f : Field) : Bool :=
  match f.ty with
  | .scalar _ v _ _ => Val.isNil v || isStrVal v
  | .cref _ _ v _ => isStrVal v
  | _ => true

/-- the branch is dangling, or resolves (inside schema `s`) to a struct whose constants are strings -/
def inferBranchOk (s : Schema) (b : Ty) : Bool :=
  match (schemaSys s).resolve ((schemaKeys s).length + 2) b with
  | .found (.struct fs _ _ _) => fs.all fieldConstOk
  | .found _ => false
  | .dangling _ => true
  | .exhausted => false

/-- a union the pass acts on (references only, mapping not given) is not empty and all its
    branches are `inferBranchOk` -/
def inferNodeOk (s : Schema) : Ty → Bool
  | .disj bs info _ =>
    !hasOnlyRefs bs || (info.discriminator != "" && !info.mapping.isEmpty) ||
      (!bs.isEmpty && bs.all (inferBranchOk s))
  | _ => true

def InferMappingSafe (S : Schemas) : Bool := allSchemasS inferNodeOk S

theorem infer_collect_noPanic (s : Schema) (fuel : Nat)
    (hres : ∀ t, isPanic (Cog.Passes.Schema.resolve s fuel t) = false) :
    ∀ (bs : List Ty) (acc : List (String × List String)),
      isPanic (DisjunctionInferMapping.collect s fuel bs acc) = false
  | [], _ => rfl
  | b :: bs, acc => by
    cases b with
    | ref p name m =>
      simp only [DisjunctionInferMapping.collect]
      have := hres (.ref p name m)
      cases hr : Cog.Passes.Schema.resolve s fuel (.ref p name m) with
      | panic _ => rw [hr] at this; cases this
      | err _ => rfl
      | ok o =>
        cases o with
        | none => exact infer_collect_noPanic s fuel hres bs acc
        | some t => cases t <;> exact infer_collect_noPanic s fuel hres bs _
    | _ => exact infer_collect_noPanic s fuel hres bs acc

/-- with enough fuel the generic resolution gives the result it gives at fuel `keys + 2` -/
theorem schemaResolve_stable (cur : Schemas) (s : Schema) (hs : s ∈ cur)
    (hac : Schema.aliasAcyclicB s = true) (t : Ty) :
    (schemaSys s).resolve (Schemas.fuel cur) t = (schemaSys s).resolve ((schemaKeys s).length + 2) t := by
  have hlen : (schemaKeys s).length + 2 ≤ Schemas.fuel cur := by
    have := fuel_ge_of_mem cur s hs
    simpa [schemaKeys] using this
  obtain ⟨d, hd⟩ : ∃ d, Schemas.fuel cur = (schemaKeys s).length + 2 + d :=
    ⟨Schemas.fuel cur - ((schemaKeys s).length + 2), by omega⟩
  rw [hd]
  exact RefSys.resolve_mono _ _ d t
    (RefSys.resolve_terminates (schemaSys s) (schemaKeys s) (schemaSys_dom s) hac t _ (Nat.le_refl _))

theorem find_mem {α : Type} (p : α → Bool) : ∀ (l : List α) (a : α), l.find? p = some a → a ∈ l
  | [], _, h => by simp at h
  | x :: xs, a, h => by
    simp only [List.find?] at h
    by_cases hp : p x = true
    · simp only [hp] at h; cases h; exact List.mem_cons_self ..
    · have hp' : p x = false := by simpa using hp
      simp only [hp'] at h
      exact List.mem_cons_of_mem _ (find_mem p xs a h)

theorem infer_buildPreFix_noPanic (cur : Schemas) (s : Schema) (hs : s ∈ cur)
    (hac : Schema.aliasAcyclicB s = true) (disc : String) :
    ∀ (bs : List Ty) (acc : List (String × String)), hasOnlyRefs bs = true → bs.all (inferBranchOk s) = true →
      isPanic (DisjunctionInferMapping.buildPreFix s (Schemas.fuel cur) disc bs acc) = false
  | [], _, _, _ => rfl
  | b :: bs, acc, hrefs, hall => by
    simp only [hasOnlyRefs, Bool.and_eq_true] at hrefs
    simp only [List.all_cons, Bool.and_eq_true] at hall
    cases b with
    | ref p tname m =>
      have hb := hall.1
      simp only [inferBranchOk, ← schemaResolve_stable cur s hs hac] at hb
      simp only [DisjunctionInferMapping.buildPreFix]
      rw [schemaResolve_eq]
      cases hr : (schemaSys s).resolve (Schemas.fuel cur) (.ref p tname m) with
      | exhausted => simp [hr] at hb
      | dangling _ => rfl
      | found t =>
        simp only [hr] at hb ⊢
        cases t with
        | struct fs g gi sm =>
          simp only [] at hb ⊢
          cases hf : fs.find? (fun f => f.name == disc) with
          | none => rfl
          | some f =>
            have hfm := find_mem _ fs f hf
            have hfc : fieldConstOk f = true := (List.all_eq_true.1 hb) f hfm
            simp only []
            cases hft : f.ty with
            | scalar k v cs fm =>
              simp only [fieldConstOk, hft] at hfc
              simp only []
              by_cases hn : Val.isNil v = true
              · simp [hn]
              · simp only [hn, Bool.false_eq_true, if_false]
                cases v with
                | str sv => exact infer_buildPreFix_noPanic cur s hs hac disc bs _ hrefs.2 hall.2
                | nil => simp [Val.isNil] at hn
                | bool _ => simp [Val.isNil, isStrVal] at hfc
                | int _ _ => simp [Val.isNil, isStrVal] at hfc
                | float _ _ => simp [Val.isNil, isStrVal] at hfc
                | jnum _ => simp [Val.isNil, isStrVal] at hfc
                | list _ => simp [Val.isNil, isStrVal] at hfc
                | map _ => simp [Val.isNil, isStrVal] at hfc
                | other _ _ => simp [Val.isNil, isStrVal] at hfc
            | cref cp cn v cm =>
              simp only [fieldConstOk, hft] at hfc
              simp only []
              cases v with
              | str sv => exact infer_buildPreFix_noPanic cur s hs hac disc bs _ hrefs.2 hall.2
              | nil => simp [isStrVal] at hfc
              | bool _ => simp [isStrVal] at hfc
              | int _ _ => simp [isStrVal] at hfc
              | float _ _ => simp [isStrVal] at hfc
              | jnum _ => simp [isStrVal] at hfc
              | list _ => simp [isStrVal] at hfc
              | map _ => simp [isStrVal] at hfc
              | other _ _ => simp [isStrVal] at hfc
            | _ => rfl
        | _ => simp at hb
    | _ => simp [Ty.isRef] at hrefs

/-- before fixes 375123d / 146d1ec the pass needed `InferMappingSafe` (non-empty unions whose branches resolve
    to structs with string constants) on top of alias acyclicity -/
theorem disjunctionInferMappingPreFix_total (S : Schemas)
    (hac : LocalAliasAcyclic S = true) (hsafe : InferMappingSafe S = true) :
    isPanic (DisjunctionInferMapping.runPreFix S) = false := by
  apply runDisjPass_noPanicS _ inferNodeOk S hsafe
  intro cur s hs hc bs info m hp
  have hacs := localAcyclic_mem hac hs
  have hres := schemaResolve_noPanic cur s hc hacs
  simp only [DisjunctionInferMapping.hookWithPreFix]
  by_cases h1 : hasOnlyRefs bs = true
  · simp only [h1, Bool.not_true, Bool.false_eq_true, if_false]
    by_cases h2 : (info.discriminator != "" && !info.mapping.isEmpty) = true
    · simp [h2]
    · simp only [h2, Bool.false_eq_true, if_false]
      have hp' : (!bs.isEmpty && bs.all (inferBranchOk s)) = true := by
        simp only [inferNodeOk, h1, h2, Bool.not_true, Bool.false_or] at hp
        exact hp
      simp only [Bool.and_eq_true] at hp'
      -- the discriminator
      have hq : isPanic (DisjunctionInferMapping.qualifyingPreFix s (Schemas.fuel cur) bs) = false := by
        cases bs with
        | nil => simp at hp'
        | cons b0 rest =>
          simp only [DisjunctionInferMapping.qualifyingPreFix]
          have := infer_collect_noPanic s (Schemas.fuel cur) hres (b0 :: rest) []
          cases hcq : DisjunctionInferMapping.collect s (Schemas.fuel cur) (b0 :: rest) [] with
          | panic _ => rw [hcq] at this; cases this
          | err _ => rfl
          | ok _ => rfl
      have hb := fun disc => infer_buildPreFix_noPanic cur s hc hacs disc bs [] h1 hp'.2
      by_cases hd : (info.discriminator == "") = true
      · simp only [hd, if_true]
        cases hqq : DisjunctionInferMapping.qualifyingPreFix s (Schemas.fuel cur) bs with
        | panic _ => rw [hqq] at hq; cases hq
        | err _ => rfl
        | ok q =>
          simp only []
          split
          · rfl
          · split
            · rfl
            · have := hb (DisjunctionInferMapping.smallest q)
              cases hbb : DisjunctionInferMapping.buildPreFix s (Schemas.fuel cur) (DisjunctionInferMapping.smallest q) bs [] with
              | panic _ => rw [hbb] at this; cases this
              | err _ => rfl
              | ok r => cases r <;> rfl
      · simp only [hd, Bool.false_eq_true, if_false]
        have := hb info.discriminator
        split
        · rfl
        · split <;> simp_all
  · have h1' : hasOnlyRefs bs = false := by simpa using h1
    simp [h1']

theorem infer_build_noPanic (s : Schema) (fuel : Nat)
    (hres : ∀ t, isPanic (Cog.Passes.Schema.resolve s fuel t) = false) (disc : String) :
    ∀ (bs : List Ty) (acc : List (String × String)), hasOnlyRefs bs = true →
      isPanic (DisjunctionInferMapping.build s fuel disc bs acc) = false
  | [], _, _ => rfl
  | b :: bs, acc, hrefs => by
    simp only [hasOnlyRefs, Bool.and_eq_true] at hrefs
    cases b with
    | ref p tname m =>
      simp only [DisjunctionInferMapping.build]
      have := hres (.ref p tname m)
      cases hr : Cog.Passes.Schema.resolve s fuel (.ref p tname m) with
      | panic _ => rw [hr] at this; cases this
      | err _ => rfl
      | ok o =>
        cases o with
        | none => rfl
        | some t =>
          cases t with
          | struct fs g gi sm =>
            simp only []
            cases hf : fs.find? (fun f => f.name == disc) with
            | none => rfl
            | some f =>
              simp only []
              cases hft : f.ty with
              | scalar k v cs fm =>
                simp only []
                split
                · rfl
                · cases v <;> first | rfl | exact infer_build_noPanic s fuel hres disc bs _ hrefs.2
              | cref cp cn v cm =>
                simp only []
                cases v <;> first | rfl | exact infer_build_noPanic s fuel hres disc bs _ hrefs.2
              | _ => rfl
          | _ => rfl
    | _ => simp [Ty.isRef] at hrefs

/-- since fixes 375123d / 146d1ec the only partial operation left is the recursion of `Schema.Resolve` -/
theorem disjunctionInferMapping_total (pick : List String → String) (S : Schemas)
    (hac : LocalAliasAcyclic S = true) :
    isPanic (DisjunctionInferMapping.runWith pick S) = false := by
  apply runDisjPass_noPanic _ (fun _ => true) S (allSchemas_true S)
  intro cur s hs hc bs info m _
  have hacs := localAcyclic_mem hac hs
  have hres := schemaResolve_noPanic cur s hc hacs
  simp only [DisjunctionInferMapping.hookWith]
  by_cases h1 : hasOnlyRefs bs = true
  · simp only [h1, Bool.not_true, Bool.false_eq_true, if_false]
    by_cases h2 : (info.discriminator != "" && !info.mapping.isEmpty) = true
    · simp [h2]
    · simp only [h2, Bool.false_eq_true, if_false]
      have hq : isPanic (DisjunctionInferMapping.qualifying s (Schemas.fuel cur) bs) = false := by
        cases bs with
        | nil => rfl
        | cons b0 rest =>
          simp only [DisjunctionInferMapping.qualifying]
          have := infer_collect_noPanic s (Schemas.fuel cur) hres (b0 :: rest) []
          cases hcq : DisjunctionInferMapping.collect s (Schemas.fuel cur) (b0 :: rest) [] with
          | panic _ => rw [hcq] at this; cases this
          | err _ => rfl
          | ok _ => rfl
      have hb := fun disc => infer_build_noPanic s (Schemas.fuel cur) hres disc bs [] h1
      by_cases hd : (info.discriminator == "") = true
      · simp only [hd, if_true]
        cases hqq : DisjunctionInferMapping.qualifying s (Schemas.fuel cur) bs with
        | panic _ => rw [hqq] at hq; cases hq
        | err _ => rfl
        | ok q =>
          simp only []
          split
          · rfl
          · split
            · rfl
            · have := hb (pick q)
              cases hbb : DisjunctionInferMapping.build s (Schemas.fuel cur) (pick q) bs [] with
              | panic _ => rw [hbb] at this; cases this
              | err _ => rfl
              | ok r => cases r <;> rfl
      · simp only [hd, Bool.false_eq_true, if_false]
        have := hb info.discriminator
        split
        · rfl
        · split <;> simp_all
  · have h1' : hasOnlyRefs bs = false := by simpa using h1
    simp [h1']

/-! ### DisjunctionOfConstantsToEnum: `resolvesToConcreteScalarsOnly` recurses through references
    and unions without a visited set.  Proved total for the unions the pass is meant for: flat
    unions without reference branches (constants, scalars, enums, …). -/

def flatBranch (b : Ty) : Bool := !b.isRef && !b.isDisj

def flatUnionNode : Ty → Bool
  | .disj bs _ _ => bs.all flatBranch
  | _ => true

def UnionsFlatRefFree (S : Schemas) : Bool := allSchemas flatUnionNode S

theorem docte_enumMembers_noPanic : ∀ (vs : List EnumVal) (st : DisjunctionOfConstantsToEnum.St),
    vs.all memberScalar = true → isPanic (DisjunctionOfConstantsToEnum.enumMembers vs st) = false
  | [], _, _ => rfl
  | v :: vs, st, h => by
    simp only [List.all_cons, Bool.and_eq_true] at h
    have h1 : v.kind.startsWith "?" = false := by simpa [memberScalar] using h.1
    simp only [DisjunctionOfConstantsToEnum.enumMembers, h1, Bool.false_eq_true, if_false]
    split
    · rfl
    · exact docte_enumMembers_noPanic vs _ h.2

theorem resolveToType_nonref (ss : Schemas) (f : Nat) (t : Ty) (h : t.isRef = false) :
    Cog.Passes.resolveToType ss (f + 1) t = .ok t := by
  cases t <;> simp_all [Cog.Passes.resolveToType, Schemas.resolveToType, Ty.isRef]

/-- a flat, reference-free branch costs one unit of fuel -/
theorem docte_rc_flat (ss : Schemas) (rf f : Nat) (b : Ty) (st : DisjunctionOfConstantsToEnum.St)
    (hb : flatBranch b = true) (hm : enumMembersScalarNode b = true) :
    isPanic (DisjunctionOfConstantsToEnum.rc ss (rf + 1) (f + 1) b st) = false := by
  simp only [flatBranch, Bool.and_eq_true, Bool.not_eq_true'] at hb
  simp only [DisjunctionOfConstantsToEnum.rc, resolveToType_nonref ss rf b hb.1]
  cases b with
  | scalar k v cs m =>
    simp only []
    split
    · rfl
    · split <;> rfl
  | enum vs m => exact docte_enumMembers_noPanic vs st (by simpa [enumMembersScalarNode] using hm)
  | disj bs i m => simp [Ty.isDisj] at hb
  | _ => rfl

theorem docte_rcList_flat (ss : Schemas) (rf : Nat) : ∀ (bs : List Ty) (f : Nat) (st : DisjunctionOfConstantsToEnum.St),
    bs.all flatBranch = true → bs.all enumMembersScalarNode = true → bs.length + 1 ≤ f →
    isPanic (DisjunctionOfConstantsToEnum.rcList ss (rf + 1) f bs st) = false
  | [], f, st, _, _, hf => by
    obtain ⟨f', rfl⟩ : ∃ f', f = f' + 1 := ⟨f - 1, by omega⟩
    rfl
  | b :: bs, f, st, hfl, hm, hf => by
    simp only [List.all_cons, Bool.and_eq_true] at hfl hm
    simp only [List.length_cons] at hf
    obtain ⟨f', rfl⟩ : ∃ f', f = f' + 2 := ⟨f - 2, by omega⟩
    have h1 := docte_rc_flat ss rf f' b st hfl.1 hm.1
    simp only [DisjunctionOfConstantsToEnum.rcList]
    cases hr : DisjunctionOfConstantsToEnum.rc ss (rf + 1) (f' + 1) b st with
    | panic _ => rw [hr] at h1; cases h1
    | err _ => rfl
    | ok r =>
      obtain ⟨ok, st'⟩ := r
      cases ok with
      | false => rfl
      | true => exact docte_rcList_flat ss rf bs (f' + 1) st' hfl.2 hm.2 (by omega)

theorem sizeList_ge_length : ∀ ts : List Ty, ts.length ≤ Ty.sizeList ts
  | [] => Nat.le_refl _
  | t :: ts => by
    have := sizeList_ge_length ts
    have h1 : 1 ≤ Ty.size t := by cases t <;> simp [Ty.size] <;> omega
    simp only [Ty.sizeList, List.length_cons]
    omega

theorem fuel_ge_two : ∀ ss : Schemas, 2 ≤ Schemas.fuel ss
  | [] => by simp [Schemas.fuel]
  | s :: rest => by have := fuel_ge_two rest; simp only [Schemas.fuel]; omega

/-- the node predicate used below: flat union ∧ scalar enum members at the branches -/
def docteNode (t : Ty) : Bool :=
  flatUnionNode t && (match t with | .disj bs _ _ => bs.all enumMembersScalarNode | _ => true)

theorem disjunctionOfConstantsToEnum_total (S : Schemas) (h : allSchemas docteNode S = true) :
    isPanic (DisjunctionOfConstantsToEnum.run S) = false := by
  apply runDisjPass_noPanic _ docteNode S h
  intro cur s _ _ bs info m hp
  simp only [docteNode, flatUnionNode, Bool.and_eq_true] at hp
  simp only [DisjunctionOfConstantsToEnum.hook]
  split
  · rfl
  · have h2 := fuel_ge_two cur
    obtain ⟨g, hg⟩ : ∃ g, Schemas.fuel cur + Ty.sizeList bs + 2 = g + 2 := ⟨_, rfl⟩
    have hlen := sizeList_ge_length bs
    rw [hg]
    -- the union itself is not a reference: one unit, then the branches
    have hstep : DisjunctionOfConstantsToEnum.rc cur (g + 2) (g + 2) (.disj bs info m) {} =
        DisjunctionOfConstantsToEnum.rcList cur (g + 2) (g + 1) bs {} := by
      simp [DisjunctionOfConstantsToEnum.rc, Cog.Passes.resolveToType, Schemas.resolveToType]
    rw [hstep]
    have := docte_rcList_flat cur (g + 1) bs (g + 1) {} hp.1 hp.2 (by omega)
    cases hr : DisjunctionOfConstantsToEnum.rcList cur (g + 2) (g + 1) bs {} with
    | panic _ => rw [hr] at this; cases this
    | err _ => rfl
    | ok r => obtain ⟨ok, st⟩ := r; cases ok <;> rfl

/-! ### all passes, and chains -/

/-- the decidable side condition of each pass, on the pass's own input -/
def passCond : PassId → Schemas → Bool
  | .anonymousStructsToNamed, _ => true
  | .notRequiredFieldAsNullableType, _ => true
  | .disjunctionWithNullToOptional, _ => true
  | .disjunctionOfConstantsToEnum, S => allSchemas docteNode S
  | .anonymousEnumToExplicitType, _ => true
  | .prefixEnumValues, S => EnumMembersOk S
  | .flattenDisjunctions, S => LocalAliasAcyclic S
  | .disjunctionOfAnonymousStructsToExplicit, _ => true
  | .disjunctionInferMapping, S => LocalAliasAcyclic S
  | .undiscriminatedDisjunctionToAny, S => LocalAliasAcyclic S
  | .disjunctionToType, S => LocalAliasAcyclic S
  | .removeIntersections, S => VariantHintsAreStrings S
  | .sanitizeEnumMemberNames, S => EnumMembersOk S
  | .inlineObjectsWithTypes _, S => GlobalAliasAcyclic S
  | .renameNumericEnumValues, _ => true

theorem pass_total (p : PassId) (S : Schemas) (h : passCond p S = true) : isPanic (p.run S) = false := by
  cases p with
  | anonymousStructsToNamed => exact anonymousStructsToNamed_total S
  | notRequiredFieldAsNullableType => exact notRequiredFieldAsNullableType_total S
  | disjunctionWithNullToOptional => exact disjunctionWithNullToOptional_total S
  | disjunctionOfConstantsToEnum => exact disjunctionOfConstantsToEnum_total S h
  | anonymousEnumToExplicitType => exact anonymousEnumToExplicitType_total S
  | prefixEnumValues => exact prefixEnumValues_total S h
  | flattenDisjunctions => exact flattenDisjunctions_total S h
  | disjunctionOfAnonymousStructsToExplicit => exact disjunctionOfAnonymousStructsToExplicit_total S
  | disjunctionInferMapping => exact disjunctionInferMapping_total _ S h
  | undiscriminatedDisjunctionToAny => exact undiscriminatedDisjunctionToAny_total S h
  | disjunctionToType => exact disjunctionToType_total S h
  | removeIntersections => exact removeIntersections_total S h
  | sanitizeEnumMemberNames => exact sanitizeEnumMemberNames_total S h
  | inlineObjectsWithTypes kinds => exact inlineObjectsWithTypes_total kinds S h
  | renameNumericEnumValues => exact renameNumericEnumValues_total S

/-- the condition of a chain: every pass's condition holds on the IR it actually receives -/
def chainCond : List PassId → Schemas → Bool
  | [], _ => true
  | p :: ps, S =>
    passCond p S && (match p.run S with
      | .ok S' => chainCond ps S'
      | _ => true)

theorem chain_total : ∀ (ps : List PassId) (S : Schemas), chainCond ps S = true →
    isPanic (runChain ps S) = false
  | [], _, _ => rfl
  | p :: ps, S, h => by
    simp only [chainCond, Bool.and_eq_true] at h
    have hp := pass_total p S h.1
    simp only [runChain]
    cases hr : p.run S with
    | panic _ => rw [hr] at hp; cases hp
    | err _ => rfl
    | ok S' =>
      have h2 := h.2
      simp only [hr] at h2
      exact chain_total ps S' h2

/-- a chain can only panic in a pass whose condition fails on the IR that pass receives -/
theorem chain_panic_blames : ∀ (ps : List PassId) (S : Schemas), isPanic (runChain ps S) = true →
    ∃ (pre : List PassId) (p : PassId) (post : List PassId) (S1 : Schemas),
      ps = pre ++ p :: post ∧ runChain pre S = .ok S1 ∧ isPanic (p.run S1) = true ∧ passCond p S1 = false
  | [], _, h => by simp [runChain] at h
  | p :: ps, S, h => by
    simp only [runChain] at h
    cases hr : p.run S with
    | panic site =>
      refine ⟨[], p, ps, S, rfl, rfl, by simp [hr], ?_⟩
      cases hc : passCond p S with
      | false => rfl
      | true => have := pass_total p S hc; simp [hr] at this
    | err _ => simp [hr] at h
    | ok S' =>
      simp only [hr] at h
      obtain ⟨pre, q, post, S1, he, hrun, hpanic, hcond⟩ := chain_panic_blames ps S' h
      exact ⟨p :: pre, q, post, S1, by simp [he], by simp [runChain, hr, hrun], hpanic, hcond⟩

end Cog.Total
