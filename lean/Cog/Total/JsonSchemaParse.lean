/-
  C04 — model of the JSON Schema front-end (internal/jsonschema/generator.go) from the LIBRARY's
  in-memory value downwards.

  `JSchema` mirrors the fields of santhosh-tekuri/jsonschema/v5 `Schema` that the generator reads,
  with their degrees of freedom:
    * `Ref` is a pointer to another compiled schema: here the NAME of a definition (last segment of
      `Ref.Location`) looked up in `defs`; the generator follows it (`walkRef` → `declareDefinition`),
      protected by its `seen` set;
    * `Items` is `interface{}`: nil | `*Schema` | `[]*Schema` (tuple form, drafts ≤ 2019-09);
      `Items2020` is a `*Schema` or nil;
    * `AdditionalProperties` is `interface{}`: nil | bool | `*Schema` (`JAddl.other` stands for any
      other dynamic type: the generator's `.(*Schema)` assertion is unchecked; the library never
      stores one);
    * `OneOf` / `AnyOf` / `AllOf` / `Enum` / `Constant` / `Properties` are tested with `!= nil`;
    * `Types` is a `[]string` (absent = empty).
  Explicit panics (`fx = false` is the generator before /repo fix f0d68ac, `fx = true` the current one, in
  which the first site is an `err` return):
      "walkList: Items.(*Schema)"                   tuple-form `items`                     (fixed f0d68ac)
      "walkObject: AdditionalProperties.(*Schema)"  (only `JAddl.other`)
      "Constant[0]"                                 `Constant` non-nil but empty (typed string/bool/number)
  The traversal is fuelled (`err "fuel"` is not a panic): every call consumes one unit, so panic-freedom
  statements hold for every fuel; that the Go code terminates (each definition is declared once thanks
  to `seen`, everything else is structural) is argued, not proved, and exercised by the crash stream.

  Output IR as in OpenApiParse.lean: kinds, enum members, fields, branches, references; constraints,
  hints, defaults, comments abstracted.
-/
import Cog.Total.OpenApiParse
namespace Cog.Total.JsonSchema
open Cog.IR Cog.Passes Cog.Total
open Cog.Total.OpenApi (bind3 bind3_noPanic bind3_ok tyWf tyWf_iff listWf fieldsWf)
open Cog.Total (OpenApi.site)

structure JAttrs where
  ref : Option String := none
  types : List String := []
  enum : Option (List Val) := none
  constant : Option (List Val) := none
  hasOneOf : Bool := false
  hasAnyOf : Bool := false
  hasAllOf : Bool := false
  hasProps : Bool := false          -- `Properties != nil`
  hasPatternProps : Bool := false
  required : List String := []
  deriving Inhabited

mutual
inductive JSchema where
  | mk (a : JAttrs) (oneOf anyOf allOf : List JSchema) (props : List (String × JSchema))
       (addl : JAddl) (items : JItems) (items2020 : JItems)
inductive JItems where
  | none
  | one (s : JSchema)
  | tuple (ss : List JSchema)
inductive JAddl where
  | none
  | bool (b : Bool)
  | schema (s : JSchema)
  | other
end

structure St where
  seen : List String := []
  objects : List (String × Obj) := []

def anyTy : Ty := .scalar "any" .nil [] {}

/-- `walkScalarDisjunction` -/
def scalarBranches : List String → Outcome (List Ty)
  | [] => .ok []
  | t :: ts =>
    let k : Option String :=
      if t == "null" then some "null" else if t == "boolean" then some "bool"
      else if t == "string" then some "string" else if t == "number" then some "float64"
      else if t == "integer" then some "int64" else none
    match k with
    | none => .err "unexpected type in scalar disjunction"
    | some k => bind3 (scalarBranches ts) fun bs => .ok (.scalar k .nil [] {} :: bs)

/-- `walkEnum` -/
def walkEnum (vals : List Val) : Outcome Ty :=
  match vals with
  | [] => .err "enum with no values"
  | v0 :: _ =>
    let k := match v0 with | .str _ => "string" | _ => "int64"
    .ok (.enum (vals.map fun v => { name := fmtV v, value := v, kind := k }) {})

/-- `def.Scalar.Value = schema.Constant[0]` after `schema.Constant != nil` -/
def typedConstant (a : JAttrs) (kind : String) : Outcome Ty :=
  match a.constant with
  | none => .ok (.scalar kind .nil [] {})
  | some [] => .panic "Constant[0]"
  | some (v :: _) => .ok (.scalar kind v [] {})

/-- `walkUntypedConstant` (reached only when `len(schema.Constant) != 0`) -/
def untypedConstant (v : Val) : Outcome Ty :=
  match v with
  | .jnum _ => .ok (.scalar "int64" v [] {})
  | .bool _ => .ok (.scalar "bool" v [] {})
  | .str _ => .ok (.scalar "string" v [] {})
  | .nil => .ok (.scalar "null" .nil [] {})
  | _ => .err "unhandled constant type"

def lookupDef (defs : List (String × JSchema)) (name : String) : Option JSchema :=
  match defs with
  | [] => none
  | (n, s) :: rest => if n == name then some s else lookupDef rest name

def isNoneAddl : JAddl → Bool
  | .none => true
  | _ => false

def constantOk (a : JAttrs) : Bool :=
  match a.constant with
  | some [] => false
  | _ => true

mutual
/-- `walkDefinition` -/
def walk (fx : Bool) (pkg : String) (defs : List (String × JSchema)) : Nat → JSchema → St → Outcome (Ty × St)
  | 0, _, _ => .err "fuel"
  | fuel + 1, .mk a oneOf anyOf allOf props addl items items2020, st =>
    match a.ref with
    | some name =>
      -- walkRef → declareDefinition(name, schema.Ref)
      bind3 (declare fx pkg defs fuel name st) fun st' => .ok (.ref pkg name {}, st')
    | none =>
    if a.hasOneOf then
      (if oneOf.isEmpty then .err "oneOf with no branches"
       else bind3 (walkList fx pkg defs fuel oneOf st) fun r => .ok (.disj r.1 {} {}, r.2))
    else if a.hasAnyOf then
      (if anyOf.isEmpty then .err "anyOf with no branches"
       else bind3 (walkList fx pkg defs fuel anyOf st) fun r => .ok (.disj r.1 {} {}, r.2))
    else if a.hasAllOf then bind3 (walkList fx pkg defs fuel allOf st) fun r => .ok (.inter r.1 {}, r.2)
    else
    match a.enum with
    | some vals => bind3 (walkEnum vals) fun t => .ok (t, st)
    | none =>
    match a.types with
    | [] =>
      if a.hasProps || a.hasPatternProps || !(isNoneAddl addl) then walkObject fx pkg defs fuel a props addl st
      else
        (match a.constant with
         | some (v :: _) => bind3 (untypedConstant v) fun t => .ok (t, st)
         | _ => .ok (anyTy, st))
    | [t] =>
      if t == "null" then .ok (.scalar "null" .nil [] {}, st)
      else if t == "boolean" then bind3 (typedConstant a "bool") fun ty => .ok (ty, st)
      else if t == "string" then bind3 (typedConstant a "string") fun ty => .ok (ty, st)
      else if t == "object" then walkObject fx pkg defs fuel a props addl st
      else if t == "number" then bind3 (typedConstant a "float64") fun ty => .ok (ty, st)
      else if t == "integer" then bind3 (typedConstant a "int64") fun ty => .ok (ty, st)
      else if t == "array" then walkArr fx pkg defs fuel items items2020 st
      else .err "unexpected schema type"
    | ts => bind3 (scalarBranches ts) fun bs => .ok (.disj bs {} {}, st)
/-- `walkList` (the array case) -/
def walkArr (fx : Bool) (pkg : String) (defs : List (String × JSchema)) :
    Nat → JItems → JItems → St → Outcome (Ty × St)
  | 0, _, _, _ => .err "fuel"
  | fuel + 1, items, items2020, st =>
    match items2020 with
    | .one s2 => bind3 (walk fx pkg defs fuel s2 st) fun r => .ok (.array r.1 {}, r.2)
    | .tuple _ => .err "model: Items2020 is a single schema"
    | .none =>
      match items with
      | .none => .ok (.array anyTy {}, st)
      | .one s1 => bind3 (walk fx pkg defs fuel s1 st) fun r => .ok (.array r.1 {}, r.2)
      | .tuple _ => OpenApi.site fx "walkList: Items.(*Schema)"
/-- `walkObject` -/
def walkObject (fx : Bool) (pkg : String) (defs : List (String × JSchema)) :
    Nat → JAttrs → List (String × JSchema) → JAddl → St → Outcome (Ty × St)
  | 0, _, _, _, _ => .err "fuel"
  | fuel + 1, a, props, addl, st =>
    if props.isEmpty then
      match addl with
      | .none => .ok (anyTy, st)
      | .bool _ => .ok (anyTy, st)
      | .schema s => bind3 (walk fx pkg defs fuel s st) fun r => .ok (.map (.scalar "string" .nil [] {}) r.1 {}, r.2)
      | .other => .panic "walkObject: AdditionalProperties.(*Schema)"
    else bind3 (walkProps fx pkg defs fuel a.required props st) fun r => .ok (.struct r.1 [] none {}, r.2)
def walkList (fx : Bool) (pkg : String) (defs : List (String × JSchema)) :
    Nat → List JSchema → St → Outcome (List Ty × St)
  | 0, _, _ => .err "fuel"
  | _ + 1, [], st => .ok ([], st)
  | fuel + 1, s :: ss, st =>
    bind3 (walk fx pkg defs fuel s st) fun r =>
      bind3 (walkList fx pkg defs fuel ss r.2) fun rs => .ok (r.1 :: rs.1, rs.2)
def walkProps (fx : Bool) (pkg : String) (defs : List (String × JSchema)) :
    Nat → List String → List (String × JSchema) → St → Outcome (List Field × St)
  | 0, _, _, _ => .err "fuel"
  | _ + 1, _, [], st => .ok ([], st)
  | fuel + 1, required, (name, s) :: rest, st =>
    bind3 (walk fx pkg defs fuel s st) fun r =>
      bind3 (walkProps fx pkg defs fuel required rest r.2) fun rs =>
        .ok ({ name := name, ty := r.1, required := required.contains name } :: rs.1, rs.2)
/-- `declareDefinition` -/
def declare (fx : Bool) (pkg : String) (defs : List (String × JSchema)) : Nat → String → St → Outcome St
  | 0, _, _ => .err "fuel"
  | fuel + 1, name, st =>
    if st.seen.contains name then .ok st
    else
      match lookupDef defs name with
      | none => .err "model: reference to an unknown definition"
      | some target =>
        bind3 (walk fx pkg defs fuel target { st with seen := name :: st.seen }) fun r =>
          .ok { r.2 with objects := Cog.OMap.rset name { name := name, ty := r.1, selfPkg := pkg, selfName := name } r.2.objects }
end

/-- `GenerateAST`: the root is declared under the package name, or (root `$ref`) the referred
    definition under its own name -/
def generateASTv (fx : Bool) (pkg : String) (defs : List (String × JSchema)) (fuel : Nat) (root : JSchema) : Outcome Schema :=
  match root with
  | .mk a .. =>
    let name := a.ref.getD pkg
    let defs' := if a.ref.isSome then defs else (pkg, root) :: defs
    bind3 (declare fx pkg defs' fuel name {}) fun st =>
      .ok { pkg := pkg, entryPoint := name, entryPointType := .ref pkg name {}, objects := st.objects }

/-- the generator as it is now / before fix f0d68ac (tuple-form `items` was an unchecked assertion) -/
def generateAST := generateASTv true
def generateASTPreFix := generateASTv false

/-! ### what the library value must satisfy -/

mutual
def okJ (fx : Bool) : JSchema → Bool
  | .mk a oneOf anyOf allOf props addl items items2020 =>
    okJList fx oneOf && okJList fx anyOf && okJList fx allOf && okJProps fx props && okAddl fx addl && okItems fx items && okItems fx items2020
      && constantOk a
def okJList (fx : Bool) : List JSchema → Bool
  | [] => true
  | s :: ss => okJ fx s && okJList fx ss
def okJProps (fx : Bool) : List (String × JSchema) → Bool
  | [] => true
  | (_, s) :: rest => okJ fx s && okJProps fx rest
/-- the tuple form is harmless since fix f0d68ac (an error) -/
def okItems (fx : Bool) : JItems → Bool
  | .none => true
  | .one s => okJ fx s
  | .tuple _ => fx
def okAddl (fx : Bool) : JAddl → Bool
  | .none => true
  | .bool _ => true
  | .schema s => okJ fx s
  | .other => false
end

def okDefs (fx : Bool) : List (String × JSchema) → Bool
  | [] => true
  | (_, s) :: rest => okJ fx s && okDefs fx rest

theorem lookupDef_ok (fx : Bool) : ∀ (defs : List (String × JSchema)) (name : String) (s : JSchema),
    okDefs fx defs = true → lookupDef defs name = some s → okJ fx s = true
  | [], _, _, _, h => by simp [lookupDef] at h
  | (n, s0) :: rest, name, s, hd, h => by
    simp only [okDefs, Bool.and_eq_true] at hd
    simp only [lookupDef] at h
    split at h
    · cases h; exact hd.1
    · exact lookupDef_ok fx rest name s hd.2 h

theorem scalarBranches_noPanic : ∀ ts : List String, isPanic (scalarBranches ts) = false
  | [] => rfl
  | t :: ts => by
    simp only [scalarBranches]
    split
    · rfl
    · exact bind3_noPanic _ _ (scalarBranches_noPanic ts) (fun _ _ => rfl)

theorem walkEnum_noPanic (vals : List Val) : isPanic (walkEnum vals) = false := by
  cases vals <;> rfl

theorem typedConstant_noPanic (a : JAttrs) (kind : String) (h : constantOk a = true) :
    isPanic (typedConstant a kind) = false := by
  simp only [typedConstant]
  simp only [constantOk] at h
  cases hc : a.constant with
  | none => rfl
  | some l => cases l with
    | nil => simp [hc] at h
    | cons _ _ => rfl

theorem untypedConstant_noPanic (v : Val) : isPanic (untypedConstant v) = false := by
  cases v <;> rfl

/-- all five traversal functions at once, by induction on the fuel -/
theorem walk_all_noPanic (fx : Bool) (pkg : String) (defs : List (String × JSchema)) (hd : okDefs fx defs = true) :
    ∀ fuel : Nat,
      (∀ s st, okJ fx s = true → isPanic (walk fx pkg defs fuel s st) = false) ∧
      (∀ a props addl st, okJProps fx props = true → okAddl fx addl = true → isPanic (walkObject fx pkg defs fuel a props addl st) = false) ∧
      (∀ items items2020 st, okItems fx items = true → okItems fx items2020 = true → isPanic (walkArr fx pkg defs fuel items items2020 st) = false) ∧
      (∀ ss st, okJList fx ss = true → isPanic (walkList fx pkg defs fuel ss st) = false) ∧
      (∀ req ps st, okJProps fx ps = true → isPanic (walkProps fx pkg defs fuel req ps st) = false) ∧
      (∀ name st, isPanic (declare fx pkg defs fuel name st) = false)
  | 0 => ⟨fun _ _ _ => rfl, fun _ _ _ _ _ _ => rfl, fun _ _ _ _ _ => rfl, fun _ _ _ => rfl, fun _ _ _ _ => rfl, fun _ _ => rfl⟩
  | fuel + 1 => by
    obtain ⟨ihW, ihO, ihA, ihL, ihP, ihD⟩ := walk_all_noPanic fx pkg defs hd fuel
    refine ⟨?_, ?_, ?_, ?_, ?_, ?_⟩
    · -- walk
      intro s st hs
      cases s with
      | mk a oneOf anyOf allOf props addl items items2020 =>
        simp only [okJ, Bool.and_eq_true] at hs
        obtain ⟨⟨⟨⟨⟨⟨⟨h1, h2⟩, h3⟩, h4⟩, h5⟩, h6⟩, h7⟩, h8⟩ := hs
        cases hr : a.ref with
        | some name =>
          rw [walk]
          simp only [hr]
          exact bind3_noPanic _ _ (ihD name st) (fun _ _ => rfl)
        | none =>
          rw [walk]
          simp only [hr]
          split
          · split
            · rfl
            · exact bind3_noPanic _ _ (ihL oneOf st h1) (fun _ _ => rfl)
          · split
            · split
              · rfl
              · exact bind3_noPanic _ _ (ihL anyOf st h2) (fun _ _ => rfl)
            · split
              · exact bind3_noPanic _ _ (ihL allOf st h3) (fun _ _ => rfl)
              · cases he : a.enum with
                | some vals => exact bind3_noPanic _ _ (walkEnum_noPanic vals) (fun _ _ => rfl)
                | none =>
                  simp only []
                  cases ht : a.types with
                  | nil =>
                    simp only []
                    split
                    · exact ihO a props addl st h4 h5
                    · cases hc : a.constant with
                      | none => rfl
                      | some l => cases l with
                        | nil => rfl
                        | cons v _ => exact bind3_noPanic _ _ (untypedConstant_noPanic v) (fun _ _ => rfl)
                  | cons t ts =>
                    cases ts with
                    | cons t2 ts2 => exact bind3_noPanic _ _ (scalarBranches_noPanic _) (fun _ _ => rfl)
                    | nil =>
                      simp only []
                      split
                      · rfl
                      · split
                        · exact bind3_noPanic _ _ (typedConstant_noPanic a _ h8) (fun _ _ => rfl)
                        · split
                          · exact bind3_noPanic _ _ (typedConstant_noPanic a _ h8) (fun _ _ => rfl)
                          · split
                            · exact ihO a props addl st h4 h5
                            · split
                              · exact bind3_noPanic _ _ (typedConstant_noPanic a _ h8) (fun _ _ => rfl)
                              · split
                                · exact bind3_noPanic _ _ (typedConstant_noPanic a _ h8) (fun _ _ => rfl)
                                · split
                                  · exact ihA items items2020 st h6 h7
                                  · rfl
    · -- walkObject
      intro a props addl st hp ha
      simp only [walkObject]
      split
      · cases addl with
        | none => rfl
        | bool _ => rfl
        | schema s => exact bind3_noPanic _ _ (ihW s st (by simpa [okAddl] using ha)) (fun _ _ => rfl)
        | other => simp [okAddl] at ha
      · exact bind3_noPanic _ _ (ihP a.required props st hp) (fun _ _ => rfl)
    · -- walkArr
      intro items items2020 st h6 h7
      simp only [walkArr]
      cases items2020 with
      | one s2 => exact bind3_noPanic _ _ (ihW s2 st (by simpa [okItems] using h7)) (fun _ _ => rfl)
      | tuple _ => rfl
      | none =>
        cases items with
        | none => rfl
        | one s1 => exact bind3_noPanic _ _ (ihW s1 st (by simpa [okItems] using h6)) (fun _ _ => rfl)
        | tuple l =>
          have : fx = true := by simpa [okItems] using h6
          subst this; rfl
    · -- walkList
      intro ss st hs
      cases ss with
      | nil => rfl
      | cons s rest =>
        simp only [okJList, Bool.and_eq_true] at hs
        simp only [walkList]
        exact bind3_noPanic _ _ (ihW s st hs.1) (fun r _ => bind3_noPanic _ _ (ihL rest r.2 hs.2) (fun _ _ => rfl))
    · -- walkProps
      intro req ps st hp
      cases ps with
      | nil => rfl
      | cons p rest =>
        obtain ⟨name, s⟩ := p
        simp only [okJProps, Bool.and_eq_true] at hp
        simp only [walkProps]
        exact bind3_noPanic _ _ (ihW s st hp.1) (fun r _ => bind3_noPanic _ _ (ihP req rest r.2 hp.2) (fun _ _ => rfl))
    · -- declare
      intro name st
      simp only [declare]
      split
      · rfl
      · cases hl : lookupDef defs name with
        | none => rfl
        | some target =>
          exact bind3_noPanic _ _ (ihW target _ (lookupDef_ok fx defs name target hd hl)) (fun _ _ => rfl)

/-- the JSON Schema generator does not panic on library values satisfying `okJ` -/
theorem generateASTv_noPanic (fx : Bool) (pkg : String) (defs : List (String × JSchema)) (fuel : Nat) (root : JSchema)
    (hd : okDefs fx defs = true) (hr : okJ fx root = true) : isPanic (generateASTv fx pkg defs fuel root) = false := by
  cases root with
  | mk a oneOf anyOf allOf props addl items items2020 =>
    simp only [generateASTv]
    apply bind3_noPanic
    · split
      · exact (walk_all_noPanic fx pkg defs hd fuel).2.2.2.2.2 _ _
      · exact (walk_all_noPanic fx pkg _ (by simp [okDefs, hr, hd]) fuel).2.2.2.2.2 _ _
    · intro _ _; rfl

/-! ### what the generator guarantees about its output (`parse_wf`) -/

def objWf (ko : String × Obj) : Bool :=
  ko.1 == ko.2.name && Cog.NF.noBadTy ko.2.ty && allTy enumMembersScalarNode ko.2.ty

def stWf (st : St) : Bool := st.objects.all objWf

theorem rset_objWf (name : String) (o : Obj) (h : objWf (name, o) = true) : ∀ l : List (String × Obj),
    l.all objWf = true → (Cog.OMap.rset name o l).all objWf = true
  | [], _ => by simp [Cog.OMap.rset, h]
  | (k0, v0) :: t, hl => by
    simp only [List.all_cons, Bool.and_eq_true] at hl
    simp only [Cog.OMap.rset]
    split
    · simp [h, hl.2]
    · simp [hl.1, rset_objWf name o h t hl.2]

theorem scalarBranches_wf : ∀ (ts : List String) (bs : List Ty), scalarBranches ts = .ok bs → listWf bs = true
  | [], bs, h => by simp only [scalarBranches] at h; cases h; simp [listWf, Cog.NF.noBadList, allList]
  | t :: ts, bs, h => by
    simp only [scalarBranches] at h
    split at h
    · cases h
    · obtain ⟨bs', h1, h2⟩ := bind3_ok h
      cases h2
      have := scalarBranches_wf ts bs' h1
      simp only [listWf, Bool.and_eq_true] at this
      simp [listWf, Cog.NF.noBadList, Cog.NF.noBadTy, allList, allTy, enumMembersScalarNode, this.1, this.2]

theorem walkEnum_wf (vals : List Val) (t : Ty) (h : walkEnum vals = .ok t) : tyWf t = true := by
  cases vals with
  | nil => simp [walkEnum] at h
  | cons v0 rest =>
    simp only [walkEnum] at h
    cases h
    have hk : ((match v0 with | .str _ => "string" | _ => "int64") : String).startsWith "?" = false := by
      have a1 : "string".startsWith "?" = false := by decide +kernel
      have a2 : "int64".startsWith "?" = false := by decide +kernel
      cases v0 <;> simp only [a1, a2]
    simp [tyWf, Cog.NF.noBadTy, allTy, enumMembersScalarNode, memberScalar, hk]

theorem typedConstant_wf (a : JAttrs) (k : String) (t : Ty) (h : typedConstant a k = .ok t) : tyWf t = true := by
  simp only [typedConstant] at h
  cases hc : a.constant with
  | none => simp only [hc] at h; cases h; simp [tyWf, Cog.NF.noBadTy, allTy, enumMembersScalarNode]
  | some l => cases l with
    | nil => simp [hc] at h
    | cons _ _ => simp only [hc] at h; cases h; simp [tyWf, Cog.NF.noBadTy, allTy, enumMembersScalarNode]

theorem untypedConstant_wf (v : Val) (t : Ty) (h : untypedConstant v = .ok t) : tyWf t = true := by
  cases v <;> simp only [untypedConstant] at h <;> first | (cases h; simp [tyWf, Cog.NF.noBadTy, allTy, enumMembersScalarNode]) | cases h

theorem walk_all_wf (fx : Bool) (pkg : String) (defs : List (String × JSchema)) :
    ∀ fuel : Nat,
      (∀ s st r, stWf st = true → walk fx pkg defs fuel s st = .ok r → tyWf r.1 = true ∧ stWf r.2 = true) ∧
      (∀ a props addl st r, stWf st = true → walkObject fx pkg defs fuel a props addl st = .ok r → tyWf r.1 = true ∧ stWf r.2 = true) ∧
      (∀ items items2020 st r, stWf st = true → walkArr fx pkg defs fuel items items2020 st = .ok r → tyWf r.1 = true ∧ stWf r.2 = true) ∧
      (∀ ss st r, stWf st = true → walkList fx pkg defs fuel ss st = .ok r → listWf r.1 = true ∧ stWf r.2 = true) ∧
      (∀ req ps st r, stWf st = true → walkProps fx pkg defs fuel req ps st = .ok r → fieldsWf r.1 = true ∧ stWf r.2 = true) ∧
      (∀ name st st', stWf st = true → declare fx pkg defs fuel name st = .ok st' → stWf st' = true)
  | 0 => by
    refine ⟨?_, ?_, ?_, ?_, ?_, ?_⟩ <;> intros <;> simp_all [walk, walkObject, walkArr, walkList, walkProps, declare]
  | fuel + 1 => by
    obtain ⟨ihW, ihO, ihA, ihL, ihP, ihD⟩ := walk_all_wf fx pkg defs fuel
    have leaf : ∀ (k : String) (v : Val) (st : St), stWf st = true →
        tyWf (Ty.scalar k v [] {}) = true ∧ stWf st = true := by
      intro k v st h; exact ⟨by simp [tyWf, Cog.NF.noBadTy, allTy, enumMembersScalarNode], h⟩
    refine ⟨?_, ?_, ?_, ?_, ?_, ?_⟩
    · intro s st r hst h
      cases s with
      | mk a oneOf anyOf allOf props addl items items2020 =>
        cases hr : a.ref with
        | some name =>
          rw [walk] at h
          simp only [hr] at h
          obtain ⟨st', h1, h2⟩ := bind3_ok h
          cases h2
          exact ⟨by simp [tyWf, Cog.NF.noBadTy, allTy, enumMembersScalarNode], ihD name st st' hst h1⟩
        | none =>
          rw [walk] at h
          simp only [hr] at h
          have disjWf : ∀ (l : List JSchema) (r0 : List Ty × St), walkList fx pkg defs fuel l st = .ok r0 →
              tyWf (Ty.disj r0.1 {} {}) = true ∧ stWf r0.2 = true := by
            intro l r0 h0
            have := ihL l st r0 hst h0
            simp only [listWf, Bool.and_eq_true] at this
            exact ⟨by simp [tyWf, Cog.NF.noBadTy, allTy, enumMembersScalarNode, this.1.1, this.1.2], this.2⟩
          split at h
          · split at h
            · cases h
            · obtain ⟨r0, h1, h2⟩ := bind3_ok h; cases h2; exact disjWf _ r0 h1
          · split at h
            · split at h
              · cases h
              · obtain ⟨r0, h1, h2⟩ := bind3_ok h; cases h2; exact disjWf _ r0 h1
            · split at h
              · obtain ⟨r0, h1, h2⟩ := bind3_ok h
                cases h2
                have := ihL allOf st r0 hst h1
                simp only [listWf, Bool.and_eq_true] at this
                exact ⟨by simp [tyWf, Cog.NF.noBadTy, allTy, enumMembersScalarNode, this.1.1, this.1.2], this.2⟩
              · cases he : a.enum with
                | some vals =>
                  simp only [he] at h
                  obtain ⟨t, h1, h2⟩ := bind3_ok h
                  cases h2
                  exact ⟨walkEnum_wf vals t h1, hst⟩
                | none =>
                  simp only [he] at h
                  cases ht : a.types with
                  | nil =>
                    simp only [ht] at h
                    split at h
                    · exact ihO a props addl st r hst h
                    · cases hc : a.constant with
                      | none => simp only [hc] at h; cases h; exact leaf _ _ st hst
                      | some l => cases l with
                        | nil => simp only [hc] at h; cases h; exact leaf _ _ st hst
                        | cons v _ =>
                          simp only [hc] at h
                          obtain ⟨t, h1, h2⟩ := bind3_ok h
                          cases h2
                          exact ⟨untypedConstant_wf v t h1, hst⟩
                  | cons t ts =>
                    cases ts with
                    | cons t2 ts2 =>
                      simp only [ht] at h
                      obtain ⟨bs, h1, h2⟩ := bind3_ok h
                      cases h2
                      have := scalarBranches_wf _ bs h1
                      simp only [listWf, Bool.and_eq_true] at this
                      exact ⟨by simp [tyWf, Cog.NF.noBadTy, allTy, enumMembersScalarNode, this.1, this.2], hst⟩
                    | nil =>
                      simp only [ht] at h
                      have tc : ∀ k, ∀ r', (bind3 (typedConstant a k) fun ty => Outcome.ok (ty, st)) = .ok r' →
                          tyWf r'.1 = true ∧ stWf r'.2 = true := by
                        intro k r' h'
                        obtain ⟨ty, h1, h2⟩ := bind3_ok h'
                        cases h2
                        exact ⟨typedConstant_wf a k ty h1, hst⟩
                      split at h
                      · cases h; exact leaf _ _ st hst
                      · split at h
                        · exact tc _ r h
                        · split at h
                          · exact tc _ r h
                          · split at h
                            · exact ihO a props addl st r hst h
                            · split at h
                              · exact tc _ r h
                              · split at h
                                · exact tc _ r h
                                · split at h
                                  · exact ihA items items2020 st r hst h
                                  · cases h
    · intro a props addl st r hst h
      simp only [walkObject] at h
      split at h
      · cases addl with
        | none => simp only [] at h; cases h; exact leaf _ _ st hst
        | bool _ => simp only [] at h; cases h; exact leaf _ _ st hst
        | schema s =>
          simp only [] at h
          obtain ⟨r0, h1, h2⟩ := bind3_ok h
          cases h2
          have := ihW s st r0 hst h1
          have ht := (tyWf_iff r0.1).1 this.1
          exact ⟨by simp [tyWf, Cog.NF.noBadTy, allTy, enumMembersScalarNode, ht.1, ht.2], this.2⟩
        | other => simp only [] at h; cases h
      · obtain ⟨r0, h1, h2⟩ := bind3_ok h
        cases h2
        have := ihP a.required props st r0 hst h1
        simp only [fieldsWf, Bool.and_eq_true] at this
        exact ⟨by simp [tyWf, Cog.NF.noBadTy, Cog.NF.noBadList, allTy, allList, enumMembersScalarNode, this.1.1, this.1.2], this.2⟩
    · intro items items2020 st r hst h
      simp only [walkArr] at h
      have arr : ∀ (s : JSchema) (r' : Ty × St),
          (bind3 (walk fx pkg defs fuel s st) fun r0 => Outcome.ok (Ty.array r0.1 {}, r0.2)) = .ok r' →
          tyWf r'.1 = true ∧ stWf r'.2 = true := by
        intro s r' h'
        obtain ⟨r0, h1, h2⟩ := bind3_ok h'
        cases h2
        have := ihW s st r0 hst h1
        have ht := (tyWf_iff r0.1).1 this.1
        exact ⟨by simp [tyWf, Cog.NF.noBadTy, allTy, enumMembersScalarNode, ht.1, ht.2], this.2⟩
      cases items2020 with
      | one s2 => exact arr s2 r h
      | tuple _ => simp only [] at h; cases h
      | none =>
        cases items with
        | none =>
          simp only [] at h
          cases h
          exact ⟨by simp [tyWf, anyTy, Cog.NF.noBadTy, allTy, enumMembersScalarNode], hst⟩
        | one s1 => exact arr s1 r h
        | tuple _ => cases fx <;> simp [OpenApi.site] at h
    · intro ss st r hst h
      cases ss with
      | nil => simp only [walkList] at h; cases h; exact ⟨by simp [listWf, Cog.NF.noBadList, allList], hst⟩
      | cons s rest =>
        simp only [walkList] at h
        obtain ⟨r0, h1, h2⟩ := bind3_ok h
        obtain ⟨rs, h3, h4⟩ := bind3_ok h2
        cases h4
        have a1 := ihW s st r0 hst h1
        have a2 := ihL rest r0.2 rs a1.2 h3
        have ht := (tyWf_iff r0.1).1 a1.1
        simp only [listWf, Bool.and_eq_true] at a2
        exact ⟨by simp [listWf, Cog.NF.noBadList, allList, ht.1, ht.2, a2.1.1, a2.1.2], a2.2⟩
    · intro req ps st r hst h
      cases ps with
      | nil => simp only [walkProps] at h; cases h; exact ⟨by simp [fieldsWf, Cog.NF.noBadFields, allFields], hst⟩
      | cons p rest =>
        obtain ⟨name, s⟩ := p
        simp only [walkProps] at h
        obtain ⟨r0, h1, h2⟩ := bind3_ok h
        obtain ⟨rs, h3, h4⟩ := bind3_ok h2
        cases h4
        have a1 := ihW s st r0 hst h1
        have a2 := ihP req rest r0.2 rs a1.2 h3
        have ht := (tyWf_iff r0.1).1 a1.1
        simp only [fieldsWf, Bool.and_eq_true] at a2
        exact ⟨by simp [fieldsWf, Cog.NF.noBadFields, allFields, ht.1, ht.2, a2.1.1, a2.1.2], a2.2⟩
    · intro name st st' hst h
      simp only [declare] at h
      split at h
      · cases h; exact hst
      · cases hl : lookupDef defs name with
        | none => simp [hl] at h
        | some target =>
          simp only [hl] at h
          obtain ⟨r0, h1, h2⟩ := bind3_ok h
          cases h2
          have := ihW target { st with seen := name :: st.seen } r0 (by simpa [stWf] using hst) h1
          have ht := (tyWf_iff r0.1).1 this.1
          simp only [stWf] at this ⊢
          exact rset_objWf name _ (by simp [objWf, ht.1, ht.2]) _ this.2

theorem stWf_wfIR (pkg name : String) (st : St) (h : stWf st = true) :
    wfIR [{ pkg := pkg, entryPoint := name, entryPointType := .ref pkg name {}, objects := st.objects }] = true := by
  have h1 : Cog.NF.objectsWf st.objects = true := by
    simp only [stWf] at h
    generalize st.objects = os at h
    induction os with
    | nil => rfl
    | cons ko rest ih =>
      simp only [List.all_cons, Bool.and_eq_true, objWf] at h
      obtain ⟨k, o⟩ := ko
      simp [Cog.NF.objectsWf, h.1.1.1, h.1.1.2, ih h.2]
  have h2 : (st.objects.all fun ko => allTy enumMembersScalarNode ko.2.ty) = true := by
    simp only [stWf, List.all_eq_true, objWf, Bool.and_eq_true] at h
    simp only [List.all_eq_true]
    intro ko hko
    exact (h ko hko).2
  simp [wfIR, Cog.NF.wfIR, Cog.NF.eptOk, allSchemas, allTy, enumMembersScalarNode, h1, h2]

/-- **parse_wf (JSON Schema)**: whatever the generator returns is `wfIR` -/
theorem generateASTv_wf (fx : Bool) (pkg : String) (defs : List (String × JSchema)) (fuel : Nat) (root : JSchema) (s : Schema)
    (h : generateASTv fx pkg defs fuel root = .ok s) : wfIR [s] = true := by
  cases root with
  | mk a oneOf anyOf allOf props addl items items2020 =>
    simp only [generateASTv] at h
    obtain ⟨st, h1, h2⟩ := bind3_ok h
    cases h2
    exact stWf_wfIR pkg _ st ((walk_all_wf fx pkg _ fuel).2.2.2.2.2 _ _ st (by simp [stWf]) h1)

end Cog.Total.JsonSchema
