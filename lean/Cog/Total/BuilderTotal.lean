/-
  C04 — builder layer: `FromAST` and the veneer option actions that index `Assignments` / `Args`
  without a length check.

  * `FromAST`: totality under the decidable `Safe` of Cog/Builder/Safe.lean is the theorem of C16
    (`fromAST_ok_of_safe`); it is restated here in C04's vocabulary together with the two ways a
    front-end-reachable IR violates `Safe`: a dangling alias (`AsStruct()` panic) and an alias cycle
    (the model's `err "diverge"`: Go `FromAST` has no error result, the recursion of
    `ResolveToType` overflows the stack).
  * veneer option actions (Cog/Builder/Veneers.lean, literal transcription of
    internal/veneers/option/actions.go): `UnfoldBoolean`, `ArrayToAppend`, `MapToIndex`,
    `DisjunctionAsOptions`, `RenameArguments`, and the trivial ones, under `optShapeOk`.
    Options derived by `FromAST` satisfy `optShapeOk` (one argument, one assignment with a
    non-empty path); options written in YAML (`add_option`) need not — that is the recorded finding.
    NOT covered by a theorem: `StructFieldsAsArguments`, `StructFieldsAsOptions`, `AddAssignment`,
    the builder rules (`compose`, `merge_into`, `initialize`, `promote_options_to_constructor`,
    `properties`, …); they are exercised by the crash stream only.
-/
import Cog.Total.Basic
import Cog.Builder.Safe
import Cog.Builder.Veneers
namespace Cog.Total
open Cog.IR Cog.Builder

/-! ### FromAST -/

theorem fromAST_total_of_safe (ss : Schemas) (h : Safe ss = true) : isPanic (fromAST ss) = false := by
  obtain ⟨bs, hbs⟩ := fromAST_ok_of_safe ss h
  simp [hbs]

/-- `p.A = ref p.A` -/
def aliasSelfWitness : Schemas :=
  [{ pkg := "p", objects := [("A", { name := "A", ty := .ref "p" "A" {}, selfPkg := "p", selfName := "A" })] }]

/-! ### option actions -/

def tyNotBad : Ty → Bool
  | .bad .. => false
  | _ => true

/-- the shape the option actions take for granted -/
def optShapeOk (o : Opt) : Bool :=
  (match o.assignments with
   | [] => false
   | a0 :: _ =>
     (match a0.path.getLast? with
      | none => false
      | some last => tyNotBad last.ty)) &&
  (match o.dflt with
   | some [] => false
   | _ => true) &&
  o.args.all (fun a => tyNotBad a.ty)

theorem unfoldBoolean_total (t f : String) (o : Opt) (h : optShapeOk o = true) :
    isPanic (unfoldBooleanAction t f o) = false := by
  simp only [optShapeOk, Bool.and_eq_true] at h
  obtain ⟨⟨h1, h2⟩, _⟩ := h
  simp only [unfoldBooleanAction]
  cases ha : o.assignments with
  | nil => simp [ha] at h1
  | cons a0 rest =>
    simp only [ha] at h1
    simp only []
    cases hl : a0.path.getLast? with
    | none => simp [hl] at h1
    | some last =>
      simp only [hl] at h1
      simp only []
      split
      · rfl
      · cases hlt : last.ty with
        | scalar k v cs m =>
          simp only []
          split
          · rfl
          · cases hd : o.dflt with
            | none => rfl
            | some l =>
              cases l with
              | nil => simp [hd] at h2
              | cons v rest => cases v <;> (try rfl) <;> (rename_i b; cases b <;> rfl)
        | bad k m => simp [hlt, tyNotBad] at h1
        | _ => simp_all [kindIs, Ty.kind, unchanged]

theorem arrayToAppend_total (o : Opt) (h : optShapeOk o = true) :
    isPanic (arrayToAppendAction o) = false := by
  simp only [optShapeOk, Bool.and_eq_true] at h
  obtain ⟨⟨h1, _⟩, h3⟩ := h
  simp only [arrayToAppendAction]
  cases hargs : o.args with
  | nil => rfl
  | cons a rest =>
    cases rest with
    | cons _ _ => rfl
    | nil =>
      simp only []
      split
      · rfl
      · have hnb : tyNotBad a.ty = true := by
          have := h3
          simp only [hargs, List.all_cons, List.all_nil, Bool.and_true] at this
          exact this
        cases hat : a.ty with
        | array elem m =>
          simp only []
          cases ha : o.assignments with
          | nil => simp [ha] at h1
          | cons a0 r => cases hv : a0.value <;> rfl
        | bad k m => simp [hat, tyNotBad] at hnb
        | _ => simp_all [kindIs, Ty.kind, unchanged]

theorem mapToIndex_total (o : Opt) (h : optShapeOk o = true) :
    isPanic (mapToIndexAction o) = false := by
  simp only [optShapeOk, Bool.and_eq_true] at h
  obtain ⟨⟨h1, _⟩, h3⟩ := h
  simp only [mapToIndexAction]
  cases hargs : o.args with
  | nil => rfl
  | cons a rest =>
    cases rest with
    | cons _ _ => rfl
    | nil =>
      simp only []
      split
      · rfl
      · have hnb : tyNotBad a.ty = true := by
          have := h3
          simp only [hargs, List.all_cons, List.all_nil, Bool.and_true] at this
          exact this
        cases hat : a.ty with
        | map idx val m =>
          simp only []
          cases ha : o.assignments with
          | nil => simp [ha] at h1
          | cons a0 r => cases hv : a0.value <;> rfl
        | bad k m => simp [hat, tyNotBad] at hnb
        | _ => simp_all [kindIs, Ty.kind, unchanged]

theorem renameArguments_total (names : List String) (o : Opt) :
    isPanic (renameArgumentsAction names o) = false := by
  simp only [renameArgumentsAction]
  split <;> rfl

/-- `DisjunctionAsOptions` BEFORE fix 423e7f3 of /repo: the index is in range and the argument there is
    neither a union nor a reference (the two cases in which the action goes on to rewrite the option) -/
def disjunctionIndexOk (idx : Int) (o : Opt) : Bool :=
  o.args.isEmpty ||
    (0 ≤ idx && (match o.args[idx.toNat]? with
      | some target => !kindIs target.ty "disjunction" && !kindIs target.ty "ref"
      | none => false))

theorem disjunctionAsOptionsPreFix_total (idx : Int) (ss : Schemas) (o : Opt) (h : disjunctionIndexOk idx o = true) :
    isPanic (disjunctionAsOptionsActionPreFix idx ss o) = false := by
  simp only [disjunctionAsOptionsActionPreFix]
  split
  · rfl
  · rename_i hne
    have hne' : o.args.isEmpty = false := by simpa using hne
    simp only [disjunctionIndexOk, hne', Bool.false_or, Bool.and_eq_true, decide_eq_true_eq] at h
    have hlt : ¬ idx < 0 := by omega
    simp only [hlt, if_false]
    cases hg : o.args[idx.toNat]? with
    | none => simp [hg] at h
    | some target =>
      simp only [hg, Bool.and_eq_true, Bool.not_eq_true'] at h
      simp only [disjunctionOnTarget, h.2.1, h.2.2, Bool.false_eq_true, if_false]
      rfl

/-- since fix 423e7f3 an index outside the option's arguments returns the option unchanged: the only
    condition left is on the argument that IS selected (not a union / reference, whose rewriting is not
    under a theorem) -/
def disjunctionTargetOk (idx : Int) (o : Opt) : Bool :=
  idx < 0 || (match o.args[idx.toNat]? with
    | some target => !kindIs target.ty "disjunction" && !kindIs target.ty "ref"
    | none => true)

theorem disjunctionAsOptions_total (idx : Int) (ss : Schemas) (o : Opt) (h : disjunctionTargetOk idx o = true) :
    isPanic (disjunctionAsOptionsAction idx ss o) = false := by
  simp only [disjunctionAsOptionsAction]
  split
  · rfl
  · split
    · rfl
    · rename_i hge
      have hlt : (decide (idx < 0)) = false := by simpa using hge
      simp only [disjunctionTargetOk, hlt, Bool.false_or] at h
      cases hg : o.args[idx.toNat]? with
      | none => rfl
      | some target =>
        simp only [hg, Bool.and_eq_true, Bool.not_eq_true'] at h
        simp only [disjunctionOnTarget, h.1, h.2, Bool.false_eq_true, if_false]
        rfl

/-- an index outside the arguments never panics any more, whatever the option -/
theorem disjunctionAsOptions_out_of_range (idx : Int) (ss : Schemas) (o : Opt)
    (h : idx < 0 ∨ o.args.length ≤ idx.toNat) : isPanic (disjunctionAsOptionsAction idx ss o) = false := by
  apply disjunctionAsOptions_total
  simp only [disjunctionTargetOk, Bool.or_eq_true, decide_eq_true_eq]
  rcases h with h | h
  · exact Or.inl h
  · right
    have : o.args[idx.toNat]? = none := by simp [h]
    simp [this]

end Cog.Total
