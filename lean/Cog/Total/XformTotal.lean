/-
  C04 — the user-facing schema transformations (YAML `passes:`; models of Cog/Xform) cannot panic
  under stated decidable conditions on the IR they receive.

  The models have the shape `run = mkRun (fail? …) (apply …)`, so panic-freedom is
  `fail? ≠ some .panic`.  The Go partial operations behind `Failure.panic` are
    * the visitor / a hook dereferencing a nil kind pointer (`Ty.bad`)            → `NoBad`
    * constant_to_enum: unconditional since fix 637545e; before it `Value.(string)` on a string scalar holding a
      non-string → `ScalarConstantsTyped` (`constantToEnumPreFix_total`)
    * hint_object: since fix d683cb9 in /repo the nil `Hints` map is made first: total under `NoBad`
    * PrefixObjectNames: `Hints[disjunction_of_refs].(DisjunctionType)`           → `NoRawDisjunctionHint`
  `NoBad` is part of `wfIR`; the other three hold for every IR produced by a front-end (their
  constructors make the maps and put typed payloads) but NOT for types written in YAML `as:` —
  which is how the counterexamples of Cog/Props/C04.lean arise.
-/
import Cog.Total.Basic
import Cog.Xform.Yaml
namespace Cog.Total
open Cog.IR Cog.Xform
open Cog.NF (noBadTy noBadList noBadFields)

/-! ### conditions -/

/-- the entry point type is absent (the zero `Type{}`) or has no nil kind pointer -/
def eptFine (t : Ty) : Bool :=
  noBadTy t || (match t with | .bad k _ => k == "" | _ => false)

def NoBad (S : Schemas) : Bool :=
  S.all fun s => eptFine s.entryPointType && s.objects.all fun ko => noBadTy ko.2.ty

theorem objectsWf_noBad : ∀ os : Objects, Cog.NF.objectsWf os = true → (os.all fun ko => noBadTy ko.2.ty) = true
  | [], _ => rfl
  | (k, o) :: rest, h => by
    simp only [Cog.NF.objectsWf, Bool.and_eq_true] at h
    simp [h.1.2, objectsWf_noBad rest h.2]

theorem eptFine_of_eptOk (t : Ty) (h : Cog.NF.eptOk t = true) : eptFine t = true := by
  unfold Cog.NF.eptOk at h
  split at h
  · simp [eptFine, noBadTy]
  · simp [eptFine]
  · cases h

theorem nfWf_noBad : ∀ S : Schemas, Cog.NF.wfIR S = true → NoBad S = true
  | [], _ => rfl
  | s :: ss, h => by
    simp only [Cog.NF.wfIR, Bool.and_eq_true] at h
    have := nfWf_noBad ss h.2
    simp only [NoBad, List.all_cons, Bool.and_eq_true] at this ⊢
    exact ⟨⟨eptFine_of_eptOk _ h.1.1, objectsWf_noBad _ h.1.2⟩, this⟩

/-- `NoBad` is a consequence of `wfIR` -/
theorem noBad_of_wf (S : Schemas) (h : wfIR S = true) : NoBad S = true := by
  simp only [wfIR, Bool.and_eq_true] at h
  exact nfWf_noBad S h.1

def scalarConstantTyped (o : Obj) : Bool :=
  match o.ty with
  | .scalar k v _ _ => ConstantToEnum.isNilVal v || k != "string" || isStrConst v
  | _ => true
where isStrConst : Val → Bool | .str _ => true | _ => false

def ScalarConstantsTyped (S : Schemas) : Bool := S.all fun s => s.objects.all fun ko => scalarConstantTyped ko.2

def NoNilHints (S : Schemas) : Bool := S.all fun s => s.objects.all fun ko => !ko.2.ty.getMeta.hintsNil

def rawHintNode : Ty → Bool
  | .struct _ _ _ m => PrefixObjectNames.structOk m
  | _ => true

def NoRawDisjunctionHint (S : Schemas) : Bool := allSchemas rawHintNode S

theorem noBad_mem {S : Schemas} (h : NoBad S = true) {s : Schema} (hs : s ∈ S) :
    eptFine s.entryPointType = true ∧ ∀ ko ∈ s.objects, noBadTy ko.2.ty = true := by
  simp only [NoBad, List.all_eq_true, Bool.and_eq_true] at h
  exact h s hs

/-! ### the walk survives on types without nil kind pointers -/
mutual
theorem walkOk_of_noBad (hooked : List String) (structOk : Meta → Bool) :
    ∀ t : Ty, noBadTy t = true → allTy (fun t => match t with | .struct _ _ _ m => structOk m | _ => true) t = true →
      walkOk hooked structOk t = true
  | .scalar .., _, _ => by simp [walkOk]
  | .ref .., _, _ => by simp [walkOk]
  | .cref .., _, _ => by simp [walkOk]
  | .enum .., _, _ => by simp [walkOk]
  | .slot .., _, _ => by simp [walkOk]
  | .bad .., h, _ => by simp [noBadTy] at h
  | .array e _, h, ha => by
    simp only [noBadTy] at h
    simp only [allTy, Bool.and_eq_true] at ha
    simp [walkOk, walkOk_of_noBad hooked structOk e h ha.2]
  | .map i v _, h, ha => by
    simp only [noBadTy, Bool.and_eq_true] at h
    simp only [allTy, Bool.and_eq_true] at ha
    simp [walkOk, walkOk_of_noBad hooked structOk v h.2 ha.2]
  | .struct fs g gi m, h, ha => by
    simp only [noBadTy, Bool.and_eq_true] at h
    simp only [allTy, Bool.and_eq_true] at ha
    simp [walkOk, walkOkFields_of_noBad hooked structOk fs h.1 ha.1.2, ha.1.1]
  | .disj bs _ _, h, ha => by
    simp only [noBadTy] at h
    simp only [allTy, Bool.and_eq_true] at ha
    simp [walkOk, walkOkList_of_noBad hooked structOk bs h ha.2]
  | .inter bs _, h, ha => by
    simp only [noBadTy] at h
    simp only [allTy, Bool.and_eq_true] at ha
    simp [walkOk, walkOkList_of_noBad hooked structOk bs h ha.2]
theorem walkOkList_of_noBad (hooked : List String) (structOk : Meta → Bool) :
    ∀ ts : List Ty, noBadList ts = true → allList (fun t => match t with | .struct _ _ _ m => structOk m | _ => true) ts = true →
      walkOkList hooked structOk ts = true
  | [], _, _ => by simp [walkOkList]
  | t :: ts, h, ha => by
    simp only [noBadList, Bool.and_eq_true] at h
    simp only [allList, Bool.and_eq_true] at ha
    simp [walkOkList, walkOk_of_noBad hooked structOk t h.1 ha.1, walkOkList_of_noBad hooked structOk ts h.2 ha.2]
theorem walkOkFields_of_noBad (hooked : List String) (structOk : Meta → Bool) :
    ∀ fs : List Field, noBadFields fs = true → allFields (fun t => match t with | .struct _ _ _ m => structOk m | _ => true) fs = true →
      walkOkFields hooked structOk fs = true
  | [], _, _ => by simp [walkOkFields]
  | f :: fs, h, ha => by
    simp only [noBadFields, Bool.and_eq_true] at h
    simp only [allFields, Bool.and_eq_true] at ha
    simp [walkOkFields, walkOk_of_noBad hooked structOk f.ty h.1 ha.1, walkOkFields_of_noBad hooked structOk fs h.2 ha.2]
end

mutual
theorem allTy_structTrue : ∀ t : Ty, allTy (fun t => match t with | .struct _ _ _ m => (fun _ => true) m | _ => true) t = true
  | .scalar .. => by simp [allTy]
  | .ref .. => by simp [allTy]
  | .cref .. => by simp [allTy]
  | .array e _ => by simp [allTy, allTy_structTrue e]
  | .map i v _ => by simp [allTy, allTy_structTrue i, allTy_structTrue v]
  | .struct fs g _ _ => by simp [allTy, allFields_structTrue fs, allList_structTrue g]
  | .enum .. => by simp [allTy]
  | .disj bs _ _ => by simp [allTy, allList_structTrue bs]
  | .inter bs _ => by simp [allTy, allList_structTrue bs]
  | .slot .. => by simp [allTy]
  | .bad .. => by simp [allTy]
theorem allList_structTrue : ∀ ts : List Ty, allList (fun t => match t with | .struct _ _ _ m => (fun _ => true) m | _ => true) ts = true
  | [] => by simp [allList]
  | t :: ts => by simp [allList, allTy_structTrue t, allList_structTrue ts]
theorem allFields_structTrue : ∀ fs : List Field, allFields (fun t => match t with | .struct _ _ _ m => (fun _ => true) m | _ => true) fs = true
  | [] => by simp [allFields]
  | f :: fs => by simp [allFields, allTy_structTrue f.ty, allFields_structTrue fs]
end

theorem walkFail_none (hooked : List String) (t : Ty) (h : noBadTy t = true) : walkFail hooked t = none := by
  simp [walkFail, walkOk_of_noBad hooked (fun _ => true) t h (allTy_structTrue t)]

/-- the absent entry point type (`Type{}`: kind `""`) is not walked into by any visitor -/
theorem walkOk_ept (hooked : List String) (structOk : Meta → Bool) (hh : hooked.contains "" = false) (t : Ty)
    (h : eptFine t = true)
    (ha : noBadTy t = true → allTy (fun t => match t with | .struct _ _ _ m => structOk m | _ => true) t = true) :
    walkOk hooked structOk t = true := by
  simp only [eptFine, Bool.or_eq_true] at h
  rcases h with h | h
  · exact walkOk_of_noBad hooked structOk t h (ha h)
  · cases t with
    | bad k m =>
      have hk : k = "" := by simpa using h
      subst hk
      have hh' : ¬ "" ∈ hooked := by simpa using hh
      simp [walkOk, walkedKinds, hh']
    | _ => simp at h

theorem walkFail_none_ept (hooked : List String) (hh : hooked.contains "" = false) (t : Ty)
    (h : eptFine t = true) : walkFail hooked t = none := by
  simp [walkFail, walkOk_ept hooked (fun _ => true) hh t h (fun _ => allTy_structTrue t)]

/-! ### plumbing of `firstFail` / `visitSchemaFail` / `mkRun` -/

theorem firstFail_ne_panic {α : Type} (f : α → Option Failure) : ∀ l : List α,
    (∀ a ∈ l, f a ≠ some .panic) → firstFail f l ≠ some .panic
  | [], _ => by simp [firstFail]
  | a :: as, h => by
    simp only [firstFail]
    cases hf : f a with
    | some x =>
      have := h a (List.mem_cons_self ..)
      rw [hf] at this
      exact this
    | none => exact firstFail_ne_panic f as (fun x hx => h x (List.mem_cons_of_mem _ hx))

theorem visitSchemaFail_ne_panic (epFail : Ty → Option Failure) (objFail : Obj → Option Failure) (s : Schema)
    (he : epFail s.entryPointType ≠ some .panic) (ho : ∀ ko ∈ s.objects, objFail ko.2 ≠ some .panic) :
    visitSchemaFail epFail objFail s ≠ some .panic := by
  simp only [visitSchemaFail]
  cases h : epFail s.entryPointType with
  | some f => rw [h] at he; exact he
  | none => exact firstFail_ne_panic _ s.objects ho

theorem mkRun_noPanic (fail : Option Failure) (res : Schemas) (h : fail ≠ some .panic) :
    isPanic (mkRun fail res) = false := by
  cases fail with
  | none => rfl
  | some f => cases f with
    | err => rfl
    | panic => exact absurd rfl h

/-- the common case: a visitor whose hooks never fail, objects judged by `objFail` -/
theorem visitorFail_ne_panic (S : Schemas) (hb : NoBad S = true) (hooked : List String)
    (objFail : Obj → Option Failure)
    (ho : ∀ s ∈ S, ∀ ko ∈ s.objects, noBadTy ko.2.ty = true → objFail ko.2 ≠ some .panic)
    (hh : hooked.contains "" = false := by decide) :
    firstFail (visitSchemaFail (walkFail hooked) objFail) S ≠ some .panic := by
  apply firstFail_ne_panic
  intro s hs
  obtain ⟨he, hob⟩ := noBad_mem hb hs
  apply visitSchemaFail_ne_panic
  · rw [walkFail_none_ept hooked hh _ he]; simp
  · intro ko hko
    exact ho s hs ko hko (hob ko hko)

theorem notBadStruct_of_noBad {t : Ty} (h : noBadTy t = true) : ∀ k m, t ≠ .bad k m := by
  intro k m hc
  subst hc
  simp [noBadTy] at h

/-! ### duplicate_object reads the slice it is updating -/

def topNotBad (cur : Schemas) : Prop := ∀ s ∈ cur, ∀ ko ∈ s.objects, ∀ k m, ko.2.ty ≠ .bad k m

theorem rget_mem {V : Type} (k : String) : ∀ (l : List (String × V)) (v : V),
    Cog.OMap.rget k l = some v → ∃ k', (k', v) ∈ l
  | [], _, h => by simp [Cog.OMap.rget] at h
  | (k0, v0) :: t, v, h => by
    simp only [Cog.OMap.rget] at h
    by_cases hk : k0 = k
    · simp only [hk, if_true] at h
      cases h
      exact ⟨k0, List.mem_cons_self ..⟩
    · simp only [hk, if_false] at h
      obtain ⟨k', hm⟩ := rget_mem k t v h
      exact ⟨k', List.mem_cons_of_mem _ hm⟩

theorem locateObject_mem : ∀ (cur : Schemas) (p n : String) (o : Obj),
    Schemas.locateObject cur p n = some o → ∃ s ∈ cur, ∃ k, (k, o) ∈ s.objects
  | [], _, _, _, h => by simp [Schemas.locateObject, Schemas.locate] at h
  | s :: rest, p, n, o, h => by
    by_cases hp : s.pkg = p
    · simp only [Schemas.locateObject, Schemas.locate, hp, if_true, Schema.locateObject] at h
      obtain ⟨k, hk⟩ := rget_mem n s.objects o h
      exact ⟨s, List.mem_cons_self .., k, hk⟩
    · have : Schemas.locateObject rest p n = some o := by
        simpa [Schemas.locateObject, Schemas.locate, hp] using h
      obtain ⟨s', hs', k, hk⟩ := locateObject_mem rest p n o this
      exact ⟨s', List.mem_cons_of_mem _ hs', k, hk⟩

theorem rset_all {V : Type} (P : V → Prop) (k : String) (v : V) : ∀ l : List (String × V),
    (∀ kv ∈ l, P kv.2) → P v → ∀ kv ∈ Cog.OMap.rset k v l, P kv.2
  | [], _, hv => by
    intro kv hkv
    simp only [Cog.OMap.rset, List.mem_singleton] at hkv
    subst hkv
    exact hv
  | (k0, v0) :: t, hl, hv => by
    intro kv hkv
    simp only [Cog.OMap.rset] at hkv
    by_cases hk : k0 = k
    · simp only [hk, if_true, List.mem_cons] at hkv
      rcases hkv with rfl | hm
      · exact hv
      · exact hl kv (List.mem_cons_of_mem _ hm)
    · simp only [hk, if_false, List.mem_cons] at hkv
      rcases hkv with rfl | hm
      · exact hl _ (List.mem_cons_self ..)
      · exact rset_all P k v t (fun x hx => hl x (List.mem_cons_of_mem _ hx)) hv kv hm

theorem deepCopyTy_notBad (t : Ty) (h : ∀ k m, t ≠ .bad k m) : ∀ k m, deepCopyTy t ≠ .bad k m := by
  intro k m
  cases t with
  | bad k' m' => exact absurd rfl (h k' m')
  | _ => simp [deepCopyTy]

theorem duplicate_notBad (p : DuplicateObject.Params) (src : Obj) (h : ∀ k m, src.ty ≠ .bad k m) :
    ∀ k m, (DuplicateObject.duplicate p src).ty ≠ .bad k m := by
  intro k m
  have hd := deepCopyTy_notBad src.ty h
  simp only [DuplicateObject.duplicate, deepCopyObj]
  cases hc : deepCopyTy src.ty with
  | struct fs g gi sm =>
    simp only []
    split <;> simp [hc]
  | bad k' m' => exact absurd hc (hd k' m')
  | _ => simp [hc]

theorem duplicate_goFail_ne_panic (p : DuplicateObject.Params) : ∀ (rest done : Schemas),
    topNotBad (done ++ rest) → DuplicateObject.goFail p done rest ≠ some .panic
  | [], _, _ => by simp [DuplicateObject.goFail]
  | s :: rest, done, h => by
    simp only [DuplicateObject.goFail]
    have hsf : DuplicateObject.schemaFail p (done ++ s :: rest) s = none := by
      simp only [DuplicateObject.schemaFail]
      split
      · rfl
      · cases hl : Schemas.locateObject (done ++ s :: rest) p.object.pkg p.object.obj with
        | none => rfl
        | some src =>
          obtain ⟨s', hs', k, hk⟩ := locateObject_mem _ _ _ _ hl
          have hnb := h s' hs' (k, src) hk
          simp only []
          cases ht : src.ty with
          | bad k' m' => exact absurd ht (hnb k' m')
          | _ => rfl
    rw [hsf]
    simp only []
    have hnew : topNotBad ((done ++ [DuplicateObject.processSchema p (done ++ s :: rest) s]) ++ rest) := by
      intro s' hs' ko hko
      simp only [List.mem_append, List.mem_singleton] at hs'
      rcases hs' with (hd | rfl) | hr
      · exact h s' (by simp [hd]) ko hko
      · simp only [DuplicateObject.processSchema] at hko
        split at hko
        · exact h s (by simp) ko hko
        · cases hl : Schemas.locateObject (done ++ s :: rest) p.object.pkg p.object.obj with
          | none => simp only [hl] at hko; exact h s (by simp) ko hko
          | some src =>
            simp only [hl] at hko
            obtain ⟨s', hs', k, hk⟩ := locateObject_mem _ _ _ _ hl
            have hnb := h s' hs' (k, src) hk
            exact rset_all (fun o : Obj => ∀ k m, o.ty ≠ .bad k m) _ _ s.objects
              (fun kv hkv => h s (by simp) kv hkv) (duplicate_notBad p src hnb) ko hko
      · exact h s' (by simp [hr]) ko hko
    exact duplicate_goFail_ne_panic p rest _ hnew

theorem topNotBad_of_noBad (S : Schemas) (h : NoBad S = true) : topNotBad S := by
  intro s hs ko hko
  exact notBadStruct_of_noBad ((noBad_mem h hs).2 ko hko)

/-! ### every transformation -/

theorem typeNameOk_of_noBad : ∀ t : Ty, noBadTy t = true → typeNameOk t = true
  | .array e _, h => by
    simp only [noBadTy] at h
    simp [typeNameOk, typeNameOk_of_noBad e h]
  | .bad .., h => by simp [noBadTy] at h
  | .scalar .., _ => rfl
  | .ref .., _ => rfl
  | .cref .., _ => rfl
  | .map .., _ => rfl
  | .struct .., _ => rfl
  | .enum .., _ => rfl
  | .disj .., _ => rfl
  | .inter .., _ => rfl
  | .slot .., _ => rfl

theorem noBadFields_mem : ∀ (fs : List Field) (f : Field), noBadFields fs = true → f ∈ fs → noBadTy f.ty = true
  | [], _, _, h => by cases h
  | g :: gs, f, hb, h => by
    simp only [noBadFields, Bool.and_eq_true] at hb
    rcases List.mem_cons.1 h with rfl | h'
    · exact hb.1
    · exact noBadFields_mem gs f hb.2 h'

theorem firstMatchFail_ne_panic (p : RetypeField.Params) (o : Obj) (hp : typeNameOk p.as_ = true) :
    ∀ fs : List Field, noBadFields fs = true → RetypeField.firstMatchFail p o fs ≠ some .panic
  | [], _ => by simp [RetypeField.firstMatchFail]
  | f :: fs, hb => by
    simp only [noBadFields, Bool.and_eq_true] at hb
    simp only [RetypeField.firstMatchFail]
    split
    · simp [typeNameOk_of_noBad f.ty hb.1, hp]
    · exact firstMatchFail_ne_panic p o hp fs hb.2

def xfCond : Xf → Schemas → Bool
  | .retypeObject p, S => NoBad S && typeNameOk p.as_
  | .retypeField p, S => NoBad S && typeNameOk p.as_
  | .prefixObjectNames _, S => NoBad S && NoRawDisjunctionHint S
  | _, S => NoBad S

theorem objFail_badStruct_ne_panic (f : Obj → Option Failure)
    (hf : ∀ o, (∀ k m, o.ty ≠ .bad k m) → f o ≠ some .panic) (S : Schemas) (hb : NoBad S = true) :
    firstFail (visitSchemaFail (walkFail []) f) S ≠ some .panic :=
  visitorFail_ne_panic S hb [] f (fun _ _ ko _ hnb => hf ko.2 (notBadStruct_of_noBad hnb))

/-- before fix 637545e of /repo `constant_to_enum` asserted `Value.(string)`: total only when string
    scalars hold string constants (`ScalarConstantsTyped`); witness of the failure in Props/C04 -/
theorem constantToEnumPreFix_total (p : ConstantToEnum.Params) (S : Schemas)
    (h : (NoBad S && ScalarConstantsTyped S) = true) : isPanic (ConstantToEnum.runPreFix p S) = false := by
  simp only [Bool.and_eq_true] at h
  refine mkRun_noPanic _ _ (visitorFail_ne_panic S h.1 [] _ ?_)
  intro s hs ko hko hnb
  have hc : scalarConstantTyped ko.2 = true := by
    have := h.2
    simp only [ScalarConstantsTyped, List.all_eq_true] at this
    exact this s hs ko hko
  simp only [ConstantToEnum.objFailPreFix]
  split
  · cases ht : ko.2.ty with
    | bad k m => exact absurd ht (notBadStruct_of_noBad hnb k m)
    | scalar k v cs m =>
      simp only [scalarConstantTyped, ht, Bool.or_eq_true] at hc
      simp only []
      split
      · simp
      · rename_i hcond
        cases v with
        | str _ => simp
        | nil => simp [ConstantToEnum.isNilVal] at hcond
        | bool _ => rcases hc with (hc | hc) | hc <;> simp_all [ConstantToEnum.isNilVal, scalarConstantTyped.isStrConst]
        | int _ _ => rcases hc with (hc | hc) | hc <;> simp_all [ConstantToEnum.isNilVal, scalarConstantTyped.isStrConst]
        | float _ _ => rcases hc with (hc | hc) | hc <;> simp_all [ConstantToEnum.isNilVal, scalarConstantTyped.isStrConst]
        | jnum _ => rcases hc with (hc | hc) | hc <;> simp_all [ConstantToEnum.isNilVal, scalarConstantTyped.isStrConst]
        | list _ => rcases hc with (hc | hc) | hc <;> simp_all [ConstantToEnum.isNilVal, scalarConstantTyped.isStrConst]
        | map _ => rcases hc with (hc | hc) | hc <;> simp_all [ConstantToEnum.isNilVal, scalarConstantTyped.isStrConst]
        | other _ _ => rcases hc with (hc | hc) | hc <;> simp_all [ConstantToEnum.isNilVal, scalarConstantTyped.isStrConst]
    | _ => simp
  · simp

theorem xform_total (x : Xf) (S : Schemas) (h : xfCond x S = true) : isPanic (x.run S) = false := by
  cases x with
  | renameObject p =>
    exact mkRun_noPanic _ _ (visitorFail_ne_panic S h ["ref"] _
      (fun _ _ ko _ hnb => by rw [walkFail_none _ _ hnb]; simp))
  | «omit» p => rfl
  | omitFields p =>
    refine mkRun_noPanic _ _ (objFail_badStruct_ne_panic _ ?_ S h)
    intro o hnb
    simp only [OmitFields.objFail]
    cases ht : o.ty with
    | bad k m => exact absurd ht (hnb k m)
    | _ => simp
  | addFields p =>
    refine mkRun_noPanic _ _ (objFail_badStruct_ne_panic _ ?_ S h)
    intro o hnb
    simp only [AddFields.objFail]
    split
    · cases ht : o.ty with
      | bad k m => exact absurd ht (hnb k m)
      | _ => simp
    · simp
  | addObject p => rfl
  | duplicateObject p =>
    exact mkRun_noPanic _ _ (duplicate_goFail_ne_panic p S [] (by simpa using topNotBad_of_noBad S h))
  | retypeObject p =>
    simp only [xfCond, Bool.and_eq_true] at h
    refine mkRun_noPanic _ _ (visitorFail_ne_panic S h.1 [] _ ?_)
    intro _ _ ko _ hnb
    simp only [RetypeObject.objFail, typeNameOk_of_noBad _ hnb, h.2]
    simp
  | retypeField p =>
    simp only [xfCond, Bool.and_eq_true] at h
    refine mkRun_noPanic _ _ (visitorFail_ne_panic S h.1 [] _ ?_)
    intro _ _ ko _ hnb
    simp only [RetypeField.objFail]
    cases ht : ko.2.ty with
    | bad k m => exact absurd ht (notBadStruct_of_noBad hnb k m)
    | struct fs g gi m =>
      have : noBadFields fs = true := by
        rw [ht] at hnb
        simp only [noBadTy, Bool.and_eq_true] at hnb
        exact hnb.1
      exact firstMatchFail_ne_panic p ko.2 h.2 fs this
    | _ => simp
  | fieldsSetRequired p =>
    refine mkRun_noPanic _ _ (objFail_badStruct_ne_panic _ ?_ S h)
    intro o hnb
    simp only [FieldsSetRequired.objFail]
    cases ht : o.ty with
    | bad k m => exact absurd ht (hnb k m)
    | _ => simp
  | fieldsSetNotRequired p =>
    refine mkRun_noPanic _ _ (objFail_badStruct_ne_panic _ ?_ S h)
    intro o hnb
    simp only [FieldsSetRequired.objFail]
    cases ht : o.ty with
    | bad k m => exact absurd ht (hnb k m)
    | _ => simp
  | fieldsSetDefault p =>
    refine mkRun_noPanic _ _ (objFail_badStruct_ne_panic _ ?_ S h)
    intro o hnb
    simp only [FieldsSetDefault.objFail]
    cases ht : o.ty with
    | bad k m => exact absurd ht (hnb k m)
    | _ => simp
  | replaceReference p =>
    exact mkRun_noPanic _ _ (visitorFail_ne_panic S h ["ref"] _
      (fun _ _ ko _ hnb => by rw [walkFail_none _ _ hnb]; simp))
  | constantToEnum p =>
    refine mkRun_noPanic _ _ (objFail_badStruct_ne_panic _ ?_ S h)
    intro o hnb
    simp only [ConstantToEnum.objFail]
    cases ht : o.ty with
    | bad k m => exact absurd ht (hnb k m)
    | _ => simp
  | trimEnumValues =>
    exact mkRun_noPanic _ _ (visitorFail_ne_panic S h ["enum"] _
      (fun _ _ ko _ hnb => by rw [walkFail_none _ _ hnb]; simp))
  | hintObject p =>
    exact mkRun_noPanic _ _ (visitorFail_ne_panic S h [] _ (fun _ _ _ _ _ => by simp [HintObject.objFail]))
  | schemaSetIdentifier p => rfl
  | schemaSetEntryPoint p => rfl
  | prefixObjectNames p =>
    simp only [xfCond, Bool.and_eq_true] at h
    apply mkRun_noPanic
    simp only [PrefixObjectNames.fail?]
    split
    · simp
    · apply firstFail_ne_panic
      intro s hs
      obtain ⟨he, hob⟩ := noBad_mem h.1 hs
      obtain ⟨hre, hro⟩ := allSchemas_mem _ S h.2 s hs
      have e : rawHintNode = (fun t => match t with
          | .struct _ _ _ m => PrefixObjectNames.structOk m | _ => true) := by
        funext t; cases t <;> rfl
      have key : ∀ t, noBadTy t = true → allTy rawHintNode t = true → PrefixObjectNames.tyFail t ≠ some .panic := by
        intro t hnb hr
        have : walkOk ["ref", "constant_ref", "enum"] PrefixObjectNames.structOk t = true :=
          walkOk_of_noBad _ _ t hnb (by rw [← e]; exact hr)
        simp [PrefixObjectNames.tyFail, this]
      have keyE : PrefixObjectNames.tyFail s.entryPointType ≠ some .panic := by
        have : walkOk ["ref", "constant_ref", "enum"] PrefixObjectNames.structOk s.entryPointType = true :=
          walkOk_ept _ _ (by decide) _ he (fun _ => by rw [← e]; exact hre)
        simp [PrefixObjectNames.tyFail, this]
      exact visitSchemaFail_ne_panic _ _ s keyE (fun ko hko => key _ (hob ko hko) (hro ko hko))
  | appendCommentObjects p =>
    exact mkRun_noPanic _ _ (visitorFail_ne_panic S h [] _ (fun _ _ _ _ _ => by simp))
  | unspec => rfl

/-- a configuration file: every transformation's condition holds on the IR it receives -/
def xformsCond : List Xf → Schemas → Bool
  | [], _ => true
  | x :: xs, S =>
    xfCond x S && (match x.run S with
      | .ok S' => xformsCond xs S'
      | _ => true)

theorem xforms_total : ∀ (xs : List Xf) (S : Schemas), xformsCond xs S = true →
    isPanic (applyAll xs S) = false
  | [], _, _ => rfl
  | x :: xs, S, h => by
    simp only [xformsCond, Bool.and_eq_true] at h
    have hx := xform_total x S h.1
    simp only [applyAll]
    cases hr : x.run S with
    | panic _ => rw [hr] at hx; cases hx
    | err _ => rfl
    | ok S' =>
      have h2 := h.2
      simp only [hr] at h2
      exact xforms_total xs S' h2

end Cog.Total
