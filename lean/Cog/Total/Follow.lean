/-
  C04 — termination of recursion through references, abstractly.

  Go's `Resolve*` functions follow a partial successor function (`name ↦ name of the object it is a
  bare reference to`) until it is undefined.  There is no cycle check, so the recursion diverges
  (Go: stack overflow) exactly when the successor chain never ends.  The model uses fuel:

      follow next fuel a = none      -- fuel exhausted
                         = some r    -- r is the end of the chain (next r = none)

  Results (all for an arbitrary type with decidable equality):
    * `follow_mono`            more fuel never changes a result
    * `follow_none_iff_steps`  fuel `n` is exhausted iff the chain has at least `n` successors
    * `follow_exhausts_all`    if every element that has a successor lies in a finite list `dom`
                               and fuel `dom.length + 1` is exhausted, then EVERY fuel is exhausted
                               (pigeonhole: the chain revisits an element, hence it is periodic)
    * `follow_terminates_iff`  `(∃ fuel, follow … ≠ none) ↔ follow next (dom.length + 1) a ≠ none`
  Core Lean only.
-/
namespace Cog.Total

variable {α : Type}

def follow (next : α → Option α) : Nat → α → Option α
  | 0, _ => none
  | n + 1, a =>
    match next a with
    | none => some a
    | some b => follow next n b

/-- `steps next k a` = the `k`-th successor of `a`, if the chain is that long -/
def steps (next : α → Option α) : Nat → α → Option α
  | 0, a => some a
  | k + 1, a =>
    match next a with
    | none => none
    | some b => steps next k b

theorem follow_mono (next : α → Option α) : ∀ (n k : Nat) (a r : α),
    follow next n a = some r → follow next (n + k) a = some r
  | 0, _, _, _, h => by simp [follow] at h
  | n + 1, k, a, r, h => by
    have : n + 1 + k = (n + k) + 1 := by omega
    rw [this]
    cases hn : next a with
    | none => simpa [follow, hn] using h
    | some b =>
      simp only [follow, hn] at h ⊢
      exact follow_mono next n k b r h

theorem follow_none_iff_steps (next : α → Option α) : ∀ (n : Nat) (a : α),
    follow next n a = none ↔ (steps next n a).isSome = true
  | 0, a => by simp [follow, steps]
  | n + 1, a => by
    cases hn : next a with
    | none => simp [follow, steps, hn]
    | some b => simpa [follow, steps, hn] using follow_none_iff_steps next n b

theorem steps_add (next : α → Option α) : ∀ (i k : Nat) (a : α),
    steps next (i + k) a = (steps next i a).bind (steps next k)
  | 0, k, a => by simp [steps]
  | i + 1, k, a => by
    have : i + 1 + k = (i + k) + 1 := by omega
    rw [this]
    cases hn : next a with
    | none => simp [steps, hn]
    | some b => simpa [steps, hn] using steps_add next i k b

/-- prefix-closed: a chain with `i + k` successors has `i` successors -/
theorem steps_isSome_of_le (next : α → Option α) {n m : Nat} {a : α} (h : n ≤ m)
    (hm : (steps next m a).isSome = true) : (steps next n a).isSome = true := by
  obtain ⟨k, rfl⟩ : ∃ k, m = n + k := ⟨m - n, by omega⟩
  rw [steps_add] at hm
  cases hs : steps next n a with
  | none => simp [hs] at hm
  | some _ => rfl

/-- a loop: `p > 0` steps from `x` lead back to `x`; then every number of steps is defined -/
theorem steps_loop_all (next : α → Option α) {x : α} {p : Nat} (hp : 0 < p)
    (hl : steps next p x = some x) : ∀ n, (steps next n x).isSome = true := by
  have mult : ∀ m, steps next (m * p) x = some x := by
    intro m
    induction m with
    | zero => simp [steps]
    | succ m ih =>
      have : (m + 1) * p = m * p + p := by rw [Nat.succ_mul]
      rw [this, steps_add, ih]
      simpa using hl
  intro n
  have hle : n ≤ n * p := Nat.le_mul_of_pos_right n hp
  exact steps_isSome_of_le next hle (by rw [mult n]; rfl)

/-- the list of the first `n` elements of the chain (when it is that long) -/
def chainList (next : α → Option α) : Nat → α → List α
  | 0, _ => []
  | n + 1, a =>
    match next a with
    | none => [a]
    | some b => a :: chainList next n b

theorem chainList_length (next : α → Option α) : ∀ (n : Nat) (a : α),
    (steps next n a).isSome = true → (chainList next n a).length = n
  | 0, _, _ => rfl
  | n + 1, a, h => by
    cases hn : next a with
    | none => simp [steps, hn] at h
    | some b =>
      simp only [steps, hn] at h
      simp [chainList, hn, chainList_length next n b h]

theorem chainList_mem_succ (next : α → Option α) : ∀ (n : Nat) (a x : α),
    (steps next n a).isSome = true → x ∈ chainList next n a → (next x).isSome = true
  | 0, _, _, _, hx => by simp [chainList] at hx
  | n + 1, a, x, h, hx => by
    cases hn : next a with
    | none => simp [steps, hn] at h
    | some b =>
      simp only [steps, hn] at h
      simp only [chainList, hn, List.mem_cons] at hx
      rcases hx with rfl | hx
      · simp [hn]
      · exact chainList_mem_succ next n b x h hx

/-- an element of the chain list is reached by some number `i < n` of steps -/
theorem chainList_getElem (next : α → Option α) : ∀ (n : Nat) (a : α) (i : Nat)
    (_ : (steps next n a).isSome = true) (hi : i < (chainList next n a).length),
    steps next i a = some ((chainList next n a)[i])
  | 0, _, _, _, hi => by simp [chainList] at hi
  | n + 1, a, i, h, hi => by
    cases hn : next a with
    | none => simp [steps, hn] at h
    | some b =>
      simp only [steps, hn] at h
      cases i with
      | zero => simp [steps, chainList, hn]
      | succ i =>
        have hi' : i < (chainList next n b).length := by
          simpa [chainList, hn] using hi
        have := chainList_getElem next n b i h hi'
        simp [steps, hn, chainList, this]

/-- a list with a duplicate: two different positions hold the same element -/
theorem exists_dup_of_not_nodup [DecidableEq α] : ∀ (l : List α), ¬ l.Nodup →
    ∃ (i j : Nat) (hi : i < l.length) (hj : j < l.length), i < j ∧ l[i] = l[j]
  | [], h => absurd List.nodup_nil h
  | a :: t, h => by
    by_cases ha : a ∈ t
    · obtain ⟨k, hk, hkeq⟩ := List.getElem_of_mem ha
      exact ⟨0, k + 1, by simp, by simp; omega, by omega, by simp [hkeq]⟩
    · have ht : ¬ t.Nodup := fun hn => h (List.nodup_cons.2 ⟨ha, hn⟩)
      obtain ⟨i, j, hi, hj, hij, heq⟩ := exists_dup_of_not_nodup t ht
      exact ⟨i + 1, j + 1, by simp; omega, by simp; omega, by omega, by simpa using heq⟩

/-- pigeonhole on the chain: if everything that has a successor lies in `dom` and the chain from
    `a` has `dom.length + 1` successors, the chain runs into a loop -/
theorem exists_loop_of_long [DecidableEq α] (next : α → Option α) (dom : List α)
    (hdom : ∀ x, (next x).isSome = true → x ∈ dom) (a : α)
    (hlong : (steps next (dom.length + 1) a).isSome = true) :
    ∃ (i p : Nat) (x : α), steps next i a = some x ∧ 0 < p ∧ steps next p x = some x := by
  let N := dom.length + 1
  have hlen : (chainList next N a).length = N := chainList_length next N a hlong
  have hsub : chainList next N a ⊆ dom := fun x hx =>
    hdom x (chainList_mem_succ next N a x hlong hx)
  have hnd : ¬ (chainList next N a).Nodup := fun hn => by
    have := List.Nodup.length_le_of_subset hn hsub
    omega
  obtain ⟨i, j, hi, hj, hij, heq⟩ := exists_dup_of_not_nodup _ hnd
  obtain ⟨x, si, sj⟩ : ∃ x, steps next i a = some x ∧ steps next j a = some x :=
    ⟨_, chainList_getElem next N a i hlong hi, heq ▸ chainList_getElem next N a j hlong hj⟩
  -- j - i steps from the repeated element x lead back to x
  have hloop : steps next (j - i) x = some x := by
    have h2 : i + (j - i) = j := by omega
    have : steps next (i + (j - i)) a = some x := by rw [h2]; exact sj
    rw [steps_add, si] at this
    simpa using this
  exact ⟨i, j - i, x, si, by omega, hloop⟩

/-- a chain that runs into a loop never ends -/
theorem steps_all_of_loop (next : α → Option α) {a x : α} {i p : Nat}
    (si : steps next i a = some x) (hp : 0 < p) (hloop : steps next p x = some x) :
    ∀ n, (steps next n a).isSome = true := by
  have hall := steps_loop_all next hp hloop
  intro n
  by_cases hn : n ≤ i
  · exact steps_isSome_of_le next hn (by rw [si]; rfl)
  · have : n = i + (n - i) := by omega
    rw [this, steps_add, si]
    simpa using hall (n - i)

theorem steps_all_of_long [DecidableEq α] (next : α → Option α) (dom : List α)
    (hdom : ∀ x, (next x).isSome = true → x ∈ dom) (a : α)
    (hlong : (steps next (dom.length + 1) a).isSome = true) :
    ∀ n, (steps next n a).isSome = true := by
  obtain ⟨i, p, x, si, hp, hloop⟩ := exists_loop_of_long next dom hdom a hlong
  exact steps_all_of_loop next si hp hloop

/-- **a cycle exhausts every fuel** -/
theorem follow_exhausts_all [DecidableEq α] (next : α → Option α) (dom : List α)
    (hdom : ∀ x, (next x).isSome = true → x ∈ dom) (a : α)
    (h : follow next (dom.length + 1) a = none) : ∀ n, follow next n a = none := by
  intro n
  rw [follow_none_iff_steps] at h ⊢
  exact steps_all_of_long next dom hdom a h n

/-- **fuel `|dom| + 1` decides termination** -/
theorem follow_terminates_iff [DecidableEq α] (next : α → Option α) (dom : List α)
    (hdom : ∀ x, (next x).isSome = true → x ∈ dom) (a : α) :
    (∃ n r, follow next n a = some r) ↔ ∃ r, follow next (dom.length + 1) a = some r := by
  constructor
  · rintro ⟨n, r, hn⟩
    cases h : follow next (dom.length + 1) a with
    | some r' => exact ⟨r', rfl⟩
    | none =>
      have := follow_exhausts_all next dom hdom a h n
      rw [hn] at this
      cases this
  · rintro ⟨r, hr⟩
    exact ⟨_, r, hr⟩

/-- the result does not depend on the fuel once there is enough of it -/
theorem follow_eq_of_le (next : α → Option α) {n m : Nat} {a r : α} (h : n ≤ m)
    (hn : follow next n a = some r) : follow next m a = some r := by
  obtain ⟨k, rfl⟩ : ∃ k, m = n + k := ⟨m - n, by omega⟩
  exact follow_mono next n k a r hn

end Cog.Total
