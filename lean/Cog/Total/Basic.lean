/-
  C04 — vocabulary: `isPanic`, the generic "every node" predicate on types, the well-formedness
  predicate `wfIR` (what all three front-ends guarantee about the IR they emit), and the named
  decidable side conditions under which individual passes cannot panic (each one is the negation
  of a recorded finding).

  Core Lean only.
-/
import Cog.NF.WF
import Cog.Passes.Visitor
import Cog.Total.Resolve
namespace Cog.Total
open Cog.IR Cog.Passes

def isPanic {α : Type} : Outcome α → Bool
  | .panic _ => true
  | _ => false

@[simp] theorem isPanic_ok {α} (a : α) : isPanic (Outcome.ok a) = false := rfl
@[simp] theorem isPanic_err {α} (e : String) : isPanic (Outcome.err e : Outcome α) = false := rfl
@[simp] theorem isPanic_panic {α} (e : String) : isPanic (Outcome.panic e : Outcome α) = true := rfl

/-! ### `allTy p t`: `p` holds at `t` and at every node below it (every position: array element,
    map index AND value, struct fields, generated-disjunction payload, union and intersection
    branches) -/
mutual
def allTy (p : Ty → Bool) : Ty → Bool
  | .array e m => p (.array e m) && allTy p e
  | .map i v m => p (.map i v m) && allTy p i && allTy p v
  | .struct fs g gi m => p (.struct fs g gi m) && allFields p fs && allList p g
  | .disj bs i m => p (.disj bs i m) && allList p bs
  | .inter bs m => p (.inter bs m) && allList p bs
  | t => p t
def allList (p : Ty → Bool) : List Ty → Bool
  | [] => true
  | t :: ts => allTy p t && allList p ts
def allFields (p : Ty → Bool) : List Field → Bool
  | [] => true
  | f :: fs => allTy p f.ty && allFields p fs
end

theorem allTy_self (p : Ty → Bool) : ∀ t : Ty, allTy p t = true → p t = true
  | .scalar .. => by simp [allTy]
  | .ref .. => by simp [allTy]
  | .cref .. => by simp [allTy]
  | .array .. => by simp [allTy]; intro h _; exact h
  | .map .. => by simp [allTy]; intro h _ _; exact h
  | .struct .. => by simp [allTy]; intro h _ _; exact h
  | .enum .. => by simp [allTy]
  | .disj .. => by simp [allTy]; intro h _; exact h
  | .inter .. => by simp [allTy]; intro h _; exact h
  | .slot .. => by simp [allTy]
  | .bad .. => by simp [allTy]

/-- every object type and every entry point type -/
def allSchemas (p : Ty → Bool) : Schemas → Bool
  | [] => true
  | s :: ss => allTy p s.entryPointType && s.objects.all (fun ko => allTy p ko.2.ty) && allSchemas p ss

theorem allSchemas_mem (p : Ty → Bool) : ∀ (ss : Schemas), allSchemas p ss = true →
    ∀ s ∈ ss, allTy p s.entryPointType = true ∧ ∀ ko ∈ s.objects, allTy p ko.2.ty = true
  | [], _, s, hs => by cases hs
  | s0 :: rest, h, s, hs => by
    simp only [allSchemas, Bool.and_eq_true, List.all_eq_true] at h
    rcases List.mem_cons.1 hs with rfl | hs'
    · exact ⟨h.1.1, h.1.2⟩
    · exact allSchemas_mem p rest h.2 s hs'

/-! ### node predicates -/

/-- the member's `Type` is a scalar (VIR prints another kind as `?kind`) -/
def memberScalar (v : EnumVal) : Bool := !v.kind.startsWith "?"

def enumMembersScalarNode : Ty → Bool
  | .enum vs _ => vs.all memberScalar
  | _ => true

/-- a member declared `string` holds a Go `string` -/
def memberTyped (v : EnumVal) : Bool :=
  if v.kind == "string" then (match v.value with | .str _ => true | _ => false) else true

def enumValuesTypedNode : Ty → Bool
  | .enum vs _ => vs.all memberTyped
  | _ => true

/-- the member name has a first byte (Go `Name[0]` is in range) -/
def memberNamed (v : EnumVal) : Bool := (head0 v.name).isSome

def enumNamesNonEmptyNode : Ty → Bool
  | .enum vs _ => vs.all memberNamed
  | _ => true

/-- not the two-branch union `null | null` -/
def notNullOnlyNode : Ty → Bool
  | .disj bs _ _ => !(bs.length == 2 && hasNullType bs && (nonNullTypes bs).isEmpty)
  | _ => true

def disjNonEmptyNode : Ty → Bool
  | .disj bs _ _ => !bs.isEmpty
  | _ => true

/-! ### well-formedness -/

/-- What every front-end guarantees: objects are stored under their own name, no type has a nil
    kind pointer, the entry point type is absent or a reference, and every enum member's type is a
    scalar.  (Not guaranteed, and therefore NOT part of `wfIR`: non-empty enums, non-empty member
    names, member values of the declared scalar type, non-empty unions, resolvable references,
    absence of alias cycles.) -/
def wfIR (S : Schemas) : Bool := Cog.NF.wfIR S && allSchemas enumMembersScalarNode S

def EnumValuesTyped (S : Schemas) : Bool := allSchemas enumValuesTypedNode S
def EnumNamesNonEmpty (S : Schemas) : Bool := allSchemas enumNamesNonEmptyNode S
def NoNullOnlyUnion (S : Schemas) : Bool := allSchemas notNullOnlyNode S
def UnionsNonEmpty (S : Schemas) : Bool := allSchemas disjNonEmptyNode S

/-- no alias cycle inside any single schema (what `Schema.Resolve` walks) -/
def LocalAliasAcyclic (S : Schemas) : Bool := S.all Schema.aliasAcyclicB
/-- no alias cycle across schemas (what `Schemas.ResolveToType` walks) -/
def GlobalAliasAcyclic (S : Schemas) : Bool := Schemas.aliasAcyclicB S

/-! ### panic-freedom of the visitor frames -/

theorem visitSchemasFrom_noPanic (f : Schemas → Schema → Outcome Schema) :
    ∀ (rest done : Schemas), (∀ cur s, s ∈ rest → s ∈ cur → isPanic (f cur s) = false) →
      isPanic (visitSchemasFrom f done rest) = false
  | [], _, _ => rfl
  | s :: rest, done, h => by
    simp only [visitSchemasFrom]
    have hs := h (done ++ s :: rest) s (List.mem_cons_self ..) (by simp)
    cases hf : f (done ++ s :: rest) s with
    | ok s' =>
      exact visitSchemasFrom_noPanic f rest (done ++ [s'])
        (fun cur x hx hc => h cur x (List.mem_cons_of_mem _ hx) hc)
    | err e => rfl
    | panic p => rw [hf] at hs; cases hs

theorem visitSchemas_noPanic (f : Schemas → Schema → Outcome Schema) (ss : Schemas)
    (h : ∀ cur s, s ∈ ss → s ∈ cur → isPanic (f cur s) = false) : isPanic (visitSchemas f ss) = false :=
  visitSchemasFrom_noPanic f ss [] h

theorem visitObjectsPure_noPanic (v : Ty → Outcome Ty) : ∀ (objs acc : Objects),
    (∀ ko ∈ objs, isPanic (v ko.2.ty) = false) → isPanic (visitObjectsPure v objs acc) = false
  | [], _, _ => rfl
  | (k, o) :: rest, acc, h => by
    simp only [visitObjectsPure]
    have ho := h (k, o) (List.mem_cons_self ..)
    cases hv : v o.ty with
    | ok t => exact visitObjectsPure_noPanic v rest _ (fun ko hko => h ko (List.mem_cons_of_mem _ hko))
    | err e => rfl
    | panic p => simp [hv] at ho

theorem visitSchemaPure_noPanic (v : Ty → Outcome Ty) (s : Schema)
    (he : isPanic (v s.entryPointType) = false) (ho : ∀ ko ∈ s.objects, isPanic (v ko.2.ty) = false) :
    isPanic (visitSchemaPure v s) = false := by
  simp only [visitSchemaPure]
  cases hv : v s.entryPointType with
  | ok ept =>
    have := visitObjectsPure_noPanic v s.objects [] ho
    cases hvo : visitObjectsPure v s.objects [] with
    | ok _ => rfl
    | err _ => rfl
    | panic p => rw [hvo] at this; cases this
  | err e => rfl
  | panic p => rw [hv] at he; cases he

theorem visitObjectsSt_noPanic (v : Ty → NewObjs → Outcome (Ty × NewObjs)) : ∀ (objs acc : Objects) (n : NewObjs),
    (∀ ko ∈ objs, ∀ n, isPanic (v ko.2.ty n) = false) → isPanic (visitObjectsSt v objs acc n) = false
  | [], _, _, _ => rfl
  | (k, o) :: rest, acc, n, h => by
    simp only [visitObjectsSt]
    have ho := h (k, o) (List.mem_cons_self ..) n
    cases hv : v o.ty n with
    | ok r =>
      obtain ⟨t, n'⟩ := r
      exact visitObjectsSt_noPanic v rest _ n' (fun ko hko => h ko (List.mem_cons_of_mem _ hko))
    | err e => rfl
    | panic p => simp [hv] at ho

theorem visitSchemaSt_noPanic (v : Ty → NewObjs → Outcome (Ty × NewObjs)) (s : Schema)
    (he : ∀ n, isPanic (v s.entryPointType n) = false)
    (ho : ∀ ko ∈ s.objects, ∀ n, isPanic (v ko.2.ty n) = false) :
    isPanic (visitSchemaSt v s) = false := by
  simp only [visitSchemaSt]
  have he' := he []
  cases hv : v s.entryPointType [] with
  | ok r =>
    obtain ⟨ept, n⟩ := r
    have := visitObjectsSt_noPanic v s.objects [] n ho
    cases hvo : visitObjectsSt v s.objects [] n with
    | ok r2 => obtain ⟨_, _⟩ := r2; simp [hvo]
    | err _ => simp [hvo]
    | panic p => rw [hvo] at this; cases this
  | err e => rfl
  | panic p => rw [hv] at he'; cases he'

/-! ### the `OnDisjunction`-only visitor: no panic if the hook does not panic on any union node
    satisfying `p`, and `p` holds at every node -/
mutual
theorem dvTy_noPanic (hook : DisjHook) (p : Ty → Bool)
    (hh : ∀ bs i m, p (.disj bs i m) = true → isPanic (hook bs i m) = false) :
    ∀ t : Ty, allTy p t = true → isPanic (dvTy hook t) = false
  | .scalar .. => fun _ => rfl
  | .ref .. => fun _ => rfl
  | .cref .. => fun _ => rfl
  | .enum .. => fun _ => rfl
  | .slot .. => fun _ => rfl
  | .bad .. => fun _ => rfl
  | .array e m => fun h => by
    simp only [allTy, Bool.and_eq_true] at h
    have := dvTy_noPanic hook p hh e h.2
    simp only [dvTy]
    cases hr : dvTy hook e with
    | ok _ => rfl
    | err _ => rfl
    | panic _ => rw [hr] at this; cases this
  | .map i v m => fun h => by
    simp only [allTy, Bool.and_eq_true] at h
    have := dvTy_noPanic hook p hh v h.2
    simp only [dvTy]
    cases hr : dvTy hook v with
    | ok _ => rfl
    | err _ => rfl
    | panic _ => rw [hr] at this; cases this
  | .struct fs g gi m => fun h => by
    simp only [allTy, Bool.and_eq_true] at h
    have := dvFields_noPanic hook p hh fs h.1.2
    simp only [dvTy]
    cases hr : dvFields hook fs with
    | ok _ => rfl
    | err _ => rfl
    | panic _ => rw [hr] at this; cases this
  | .disj bs i m => fun h => by
    simp only [dvTy]
    exact hh bs i m (allTy_self p _ h)
  | .inter bs m => fun h => by
    simp only [allTy, Bool.and_eq_true] at h
    have := dvList_noPanic hook p hh bs h.2
    simp only [dvTy]
    cases hr : dvList hook bs with
    | ok _ => rfl
    | err _ => rfl
    | panic _ => rw [hr] at this; cases this
theorem dvList_noPanic (hook : DisjHook) (p : Ty → Bool)
    (hh : ∀ bs i m, p (.disj bs i m) = true → isPanic (hook bs i m) = false) :
    ∀ ts : List Ty, allList p ts = true → isPanic (dvList hook ts) = false
  | [] => fun _ => rfl
  | t :: ts => fun h => by
    simp only [allList, Bool.and_eq_true] at h
    have h1 := dvTy_noPanic hook p hh t h.1
    have h2 := dvList_noPanic hook p hh ts h.2
    simp only [dvList]
    cases hr : dvTy hook t with
    | ok _ =>
      cases hr2 : dvList hook ts with
      | ok _ => rfl
      | err _ => rfl
      | panic _ => rw [hr2] at h2; cases h2
    | err _ => rfl
    | panic _ => rw [hr] at h1; cases h1
theorem dvFields_noPanic (hook : DisjHook) (p : Ty → Bool)
    (hh : ∀ bs i m, p (.disj bs i m) = true → isPanic (hook bs i m) = false) :
    ∀ fs : List Field, allFields p fs = true → isPanic (dvFields hook fs) = false
  | [] => fun _ => rfl
  | f :: fs => fun h => by
    simp only [allFields, Bool.and_eq_true] at h
    have h1 := dvTy_noPanic hook p hh f.ty h.1
    have h2 := dvFields_noPanic hook p hh fs h.2
    simp only [dvFields]
    cases hr : dvTy hook f.ty with
    | ok _ =>
      cases hr2 : dvFields hook fs with
      | ok _ => rfl
      | err _ => rfl
      | panic _ => rw [hr2] at h2; cases h2
    | err _ => rfl
    | panic _ => rw [hr] at h1; cases h1
end

mutual
theorem dvStTy_noPanic (hook : DisjHookSt) (p : Ty → Bool)
    (hh : ∀ bs i m n, p (.disj bs i m) = true → isPanic (hook bs i m n) = false) :
    ∀ (t : Ty) (n : NewObjs), allTy p t = true → isPanic (dvStTy hook t n) = false
  | .scalar .., _ => fun _ => rfl
  | .ref .., _ => fun _ => rfl
  | .cref .., _ => fun _ => rfl
  | .enum .., _ => fun _ => rfl
  | .slot .., _ => fun _ => rfl
  | .bad .., _ => fun _ => rfl
  | .array e m, n => fun h => by
    simp only [allTy, Bool.and_eq_true] at h
    have := dvStTy_noPanic hook p hh e n h.2
    simp only [dvStTy]
    cases hr : dvStTy hook e n with
    | ok r => obtain ⟨_, _⟩ := r; simp [hr]
    | err _ => rfl
    | panic _ => rw [hr] at this; cases this
  | .map i v m, n => fun h => by
    simp only [allTy, Bool.and_eq_true] at h
    have := dvStTy_noPanic hook p hh v n h.2
    simp only [dvStTy]
    cases hr : dvStTy hook v n with
    | ok r => obtain ⟨_, _⟩ := r; simp [hr]
    | err _ => rfl
    | panic _ => rw [hr] at this; cases this
  | .struct fs g gi m, n => fun h => by
    simp only [allTy, Bool.and_eq_true] at h
    have := dvStFields_noPanic hook p hh fs n h.1.2
    simp only [dvStTy]
    cases hr : dvStFields hook fs n with
    | ok r => obtain ⟨_, _⟩ := r; simp [hr]
    | err _ => rfl
    | panic _ => rw [hr] at this; cases this
  | .disj bs i m, n => fun h => by
    simp only [dvStTy]
    exact hh bs i m n (allTy_self p _ h)
  | .inter bs m, n => fun h => by
    simp only [allTy, Bool.and_eq_true] at h
    have := dvStList_noPanic hook p hh bs n h.2
    simp only [dvStTy]
    cases hr : dvStList hook bs n with
    | ok r => obtain ⟨_, _⟩ := r; simp [hr]
    | err _ => rfl
    | panic _ => rw [hr] at this; cases this
theorem dvStList_noPanic (hook : DisjHookSt) (p : Ty → Bool)
    (hh : ∀ bs i m n, p (.disj bs i m) = true → isPanic (hook bs i m n) = false) :
    ∀ (ts : List Ty) (n : NewObjs), allList p ts = true → isPanic (dvStList hook ts n) = false
  | [], _ => fun _ => rfl
  | t :: ts, n => fun h => by
    simp only [allList, Bool.and_eq_true] at h
    have h1 := dvStTy_noPanic hook p hh t n h.1
    simp only [dvStList]
    cases hr : dvStTy hook t n with
    | ok r =>
      obtain ⟨t', n1⟩ := r
      have h2 := dvStList_noPanic hook p hh ts n1 h.2
      cases hr2 : dvStList hook ts n1 with
      | ok r2 => obtain ⟨_, _⟩ := r2; simp [hr2]
      | err _ => simp [hr2]
      | panic _ => rw [hr2] at h2; cases h2
    | err _ => rfl
    | panic _ => rw [hr] at h1; cases h1
theorem dvStFields_noPanic (hook : DisjHookSt) (p : Ty → Bool)
    (hh : ∀ bs i m n, p (.disj bs i m) = true → isPanic (hook bs i m n) = false) :
    ∀ (fs : List Field) (n : NewObjs), allFields p fs = true → isPanic (dvStFields hook fs n) = false
  | [], _ => fun _ => rfl
  | f :: fs, n => fun h => by
    simp only [allFields, Bool.and_eq_true] at h
    have h1 := dvStTy_noPanic hook p hh f.ty n h.1
    simp only [dvStFields]
    cases hr : dvStTy hook f.ty n with
    | ok r =>
      obtain ⟨t', n1⟩ := r
      have h2 := dvStFields_noPanic hook p hh fs n1 h.2
      cases hr2 : dvStFields hook fs n1 with
      | ok r2 => obtain ⟨_, _⟩ := r2; simp [hr2]
      | err _ => simp [hr2]
      | panic _ => rw [hr2] at h2; cases h2
    | err _ => rfl
    | panic _ => rw [hr] at h1; cases h1
end

/-- a pass made of one `OnDisjunction` hook -/
theorem runDisjPass_noPanic (hook : Schemas → Schema → DisjHook) (p : Ty → Bool) (ss : Schemas)
    (hall : allSchemas p ss = true)
    (hh : ∀ cur s, s ∈ ss → s ∈ cur → ∀ bs i m, p (.disj bs i m) = true → isPanic (hook cur s bs i m) = false) :
    isPanic (runDisjPass hook ss) = false := by
  apply visitSchemas_noPanic
  intro cur s hs hc
  obtain ⟨he, ho⟩ := allSchemas_mem p ss hall s hs
  exact visitSchemaPure_noPanic _ s (dvTy_noPanic _ p (hh cur s hs hc) _ he)
    (fun ko hko => dvTy_noPanic _ p (hh cur s hs hc) _ (ho ko hko))

/-! ### per-schema node predicates (the predicate may look objects up in the schema being visited) -/

def allSchemasS (p : Schema → Ty → Bool) (S : Schemas) : Bool :=
  S.all fun s => allTy (p s) s.entryPointType && s.objects.all (fun ko => allTy (p s) ko.2.ty)

theorem allSchemasS_mem (p : Schema → Ty → Bool) (S : Schemas) (h : allSchemasS p S = true) :
    ∀ s ∈ S, allTy (p s) s.entryPointType = true ∧ ∀ ko ∈ s.objects, allTy (p s) ko.2.ty = true := by
  intro s hs
  simp only [allSchemasS, List.all_eq_true, Bool.and_eq_true] at h
  exact h s hs

theorem runDisjPass_noPanicS (hook : Schemas → Schema → DisjHook) (p : Schema → Ty → Bool) (ss : Schemas)
    (hall : allSchemasS p ss = true)
    (hh : ∀ cur s, s ∈ ss → s ∈ cur → ∀ bs i m, p s (.disj bs i m) = true → isPanic (hook cur s bs i m) = false) :
    isPanic (runDisjPass hook ss) = false := by
  apply visitSchemas_noPanic
  intro cur s hs hc
  obtain ⟨he, ho⟩ := allSchemasS_mem p ss hall s hs
  exact visitSchemaPure_noPanic _ s (dvTy_noPanic _ (p s) (hh cur s hs hc) _ he)
    (fun ko hko => dvTy_noPanic _ (p s) (hh cur s hs hc) _ (ho ko hko))

theorem mapM_noPanic {α β : Type} (f : α → Outcome β) : ∀ l : List α,
    (∀ a ∈ l, isPanic (f a) = false) → isPanic (Outcome.mapM f l) = false
  | [], _ => rfl
  | a :: as, h => by
    have ha := h a (List.mem_cons_self ..)
    have hr := mapM_noPanic f as (fun x hx => h x (List.mem_cons_of_mem _ hx))
    simp only [Outcome.mapM]
    cases hf : f a with
    | ok b =>
      cases hm : Outcome.mapM f as with
      | ok bs => rfl
      | err e => rfl
      | panic p => rw [hm] at hr; cases hr
    | err e => rfl
    | panic p => rw [hf] at ha; cases ha

end Cog.Total
