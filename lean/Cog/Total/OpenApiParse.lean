/-
  C04 — model of the OpenAPI front-end (internal/openapi/generator.go + utils.go) from the
  LIBRARY's in-memory value downwards.

  `OSchema` / `ORef` mirror the fields of kin-openapi's `openapi3.Schema` / `openapi3.SchemaRef`
  that the generator reads, with their degrees of freedom:
    * `Type` is a `*Types` (`[]string`): absent, empty, one entry, several entries;
      `Type.Is(t)` = exactly one entry equal to `t`; `Type.Slice()[0]` indexes without a check;
    * `AllOf` / `AnyOf` / `OneOf` / `Enum` are tested with `!= nil`: an empty list is "present";
    * `Items`, `AdditionalProperties.Schema` (and list elements) are `*SchemaRef` and may be nil (`ORef.nilPtr`);
    * `SchemaRef.Value` is nil when the loader could not (or, for cyclic alias `$ref`s, did not)
      resolve the reference;
    * `SchemaRef.Ref` is "a reference" iff it is non-empty and contains `#` (`isRef`).
  Every Go operation that can panic is an explicit `Outcome.panic`:
      "walkEnum: Type.Slice()[0]"           enum without (or with empty) type
      "walkSchemaRef: nil SchemaRef"        `type: array` without `items`
      "walkDefinitions: nil Schema"         a SchemaRef whose Value is nil and whose Ref is not a `#` ref
      "schemaComments: nil Schema"          a component / property whose Value is nil
      "getConstraints: Type.Slice()[0]"     (proved unreachable: only called under `Type.Is(…)`)
  The recursion is structural on the library value (the generator never follows `Ref`: `walkRef`
  only names the target), so termination is Lean's own check; cyclic pointer graphs built by the
  loader for whole-file references are outside this tree model (trusted base).

  The output IR is modelled up to what well-formedness and panics depend on: kinds, enum members
  (name, value, scalar kind), struct fields, union/intersection branches, references.  Constraint
  arguments, hints, defaults and comments are abstracted (`Meta` default / `.nil`).
-/
import Cog.Total.Basic
namespace Cog.Total.OpenApi
open Cog.IR Cog.Passes Cog.Total

structure OAttrs where
  enum : Option (List Val) := none
  types : Option (List String) := none
  format : String := ""
  required : List String := []
  nullable : Bool := false
  hasMin : Bool := false
  hasMax : Bool := false
  hasMultipleOf : Bool := false
  discriminator : Option (String × List (String × String)) := none
  /-- `schema.AllOf != nil` etc.: an empty list is still "present" -/
  hasAllOf : Bool := false
  hasAnyOf : Bool := false
  hasOneOf : Bool := false
  deriving Inhabited

mutual
inductive OSchema where
  | mk (a : OAttrs) (allOf anyOf oneOf : List ORef) (props : List (String × ORef))
       (addl items : ORef)
/-- `*openapi3.SchemaRef`: a nil pointer, a reference whose `Value` is nil, or a reference /
    inline schema with its `Value` -/
inductive ORef where
  | nilPtr
  | unresolved (ref : String)
  | resolved (ref : String) (value : OSchema)
end

/-- `strings.ContainsAny(ref, "#")` with `ref != ""` -/
def isRef (ref : String) : Bool := ref != "" && ref.toList.contains '#'

/-- `Type.Is(t)` -/
def typeIs (a : OAttrs) (t : String) : Bool := a.types == some [t]

/-- `Type.Slice()[0]` -/
def typeHead (a : OAttrs) : Option String :=
  match a.types with
  | some (t :: _) => some t
  | _ => none

/-- `getEnumType` -/
def enumKind (t : String) : Option String :=
  if t == "string" then some "string"
  else if t == "number" then some "int32"
  else if t == "integer" then some "int64"
  else none

/-- `fmt.Sprintf(format, value)` for the member name: only emptiness matters downstream -/
def memberName (isString : Bool) (v : Val) : String :=
  if isString then (match v with | .str s => s | v => fmtV v) else "v" ++ fmtV v

/-- `getConstraints`: the index is evaluated only when a bound is present -/
def getConstraints (a : OAttrs) : Outcome (List Constraint) :=
  if a.hasMin || a.hasMax || a.hasMultipleOf then
    match typeHead a with
    | some _ => .ok []
    | none => .panic "getConstraints: Type.Slice()[0]"
  else .ok []

def scalarOf (kind : String) (a : OAttrs) : Outcome Ty :=
  match getConstraints a with
  | .ok cs => .ok (.scalar kind .nil cs { nullable := a.nullable })
  | .err e => .err e
  | .panic p => .panic p

def bind3 {α β : Type} (x : Outcome α) (f : α → Outcome β) : Outcome β :=
  match x with
  | .ok a => f a
  | .err e => .err e
  | .panic p => .panic p

def discr (a : OAttrs) : DisjInfo :=
  match a.discriminator with
  | some (n, m) => { discriminator := n, mapping := m }
  | none => {}

def isNilPtr : ORef → Bool
  | .nilPtr => true
  | _ => false

def valuePresent : ORef → Bool
  | .resolved .. => true
  | _ => false

mutual
/-- `walkSchemaRef` -/
def walkRef : ORef → Outcome Ty
  | .nilPtr => .panic "walkSchemaRef: nil SchemaRef"
  | .unresolved ref => if isRef ref then .ok (.ref "pkg" ref {}) else .panic "walkDefinitions: nil Schema"
  | .resolved ref s => if isRef ref then .ok (.ref "pkg" ref {}) else walkDefinitions s
/-- `walkDefinitions` -/
def walkDefinitions : OSchema → Outcome Ty
  | .mk a allOf anyOf oneOf props addl items =>
    if a.hasAllOf then bind3 (walkList allOf) fun ts => .ok (.inter ts {})
    else if a.hasAnyOf then bind3 (walkList anyOf) fun ts => .ok (.disj ts (discr a) {})
    else if a.hasOneOf then bind3 (walkList oneOf) fun ts => .ok (.disj ts (discr a) {})
    else
    match a.enum with
    | some vals =>
      -- walkEnum
      match typeHead a with
      | none => .panic "walkEnum: Type.Slice()[0]"
      | some t =>
        match enumKind t with
        | none => .err "only strings/numbers are supported"
        | some k => .ok (.enum (vals.map fun v => { name := memberName (typeIs a "string") v, value := v, kind := k }) {})
    | none =>
      if typeIs a "string" then scalarOf (if a.format == "byte" then "bytes" else "string") a
      else if typeIs a "object" then
        -- walkObject
        if props.isEmpty then
          (if isNilPtr addl then .ok (.scalar "any" .nil [] {})
           else bind3 (walkRef addl) fun vt => .ok (.map (.scalar "string" .nil [] {}) vt {}))
        else bind3 (walkProps a.required props) fun fs => .ok (.struct fs [] none {})
      else if typeIs a "array" then bind3 (walkRef items) fun et => .ok (.array et {})
      else if typeIs a "boolean" then .ok (.scalar "bool" .nil [] {})
      else if typeIs a "integer" then scalarOf (if a.format == "int32" then "int32" else "int64") a
      else if typeIs a "number" then scalarOf (if a.format == "double" then "float64" else "float32") a
      else .ok (.scalar "any" .nil [] {})
def walkList : List ORef → Outcome (List Ty)
  | [] => .ok []
  | r :: rs => bind3 (walkRef r) fun t => bind3 (walkList rs) fun ts => .ok (t :: ts)
/-- the property loop of `walkObject`: `schemaComments(schemaRef.Value)` dereferences `Value` -/
def walkProps (required : List String) : List (String × ORef) → Outcome (List Field)
  | [] => .ok []
  | (name, r) :: rest =>
    bind3 (walkRef r) fun t =>
      if !valuePresent r then .panic "schemaComments: nil Schema"
      else bind3 (walkProps required rest) fun fs =>
        .ok ({ name := name, ty := t, required := required.contains name } :: fs)
end

/-- `declareDefinition` over `oapi.Components.Schemas` (a Go map: the order is immaterial here) -/
def declare (pkg : String) : List (String × ORef) → Outcome (List (String × Obj))
  | [] => .ok []
  | (name, r) :: rest =>
    bind3 (walkRef r) fun t =>
      if !valuePresent r then .panic "schemaComments: nil Schema"
      else bind3 (declare pkg rest) fun os =>
        .ok ((name, { name := name, ty := t, selfPkg := pkg, selfName := name }) :: os)

/-- `GenerateAST` after validation (or with validation off): `none` = no `components` -/
def generateAST (pkg : String) (components : Option (List (String × ORef))) : Outcome Schema :=
  match components with
  | none => .ok { pkg := pkg }
  | some cs => bind3 (declare pkg cs) fun os => .ok { pkg := pkg, objects := os }

/-! ### what the library value must satisfy for the generator not to panic -/

mutual
def okRef : ORef → Bool
  | .nilPtr => false
  | .unresolved ref => isRef ref
  | .resolved ref s => isRef ref || okSchema s
def okSchema : OSchema → Bool
  | .mk a allOf anyOf oneOf props addl items =>
    if a.hasAllOf then okList allOf
    else if a.hasAnyOf then okList anyOf
    else if a.hasOneOf then okList oneOf
    else
    match a.enum with
    | some _ => (typeHead a).isSome
    | none =>
      if typeIs a "string" then true
      else if typeIs a "object" then
        (if props.isEmpty then (isNilPtr addl || okRef addl) else okProps props)
      else if typeIs a "array" then okRef items
      else true
def okList : List ORef → Bool
  | [] => true
  | r :: rs => okRef r && okList rs
def okProps : List (String × ORef) → Bool
  | [] => true
  | (_, r) :: rest => okRef r && valuePresent r && okProps rest
end

def okComponents : List (String × ORef) → Bool
  | [] => true
  | (_, r) :: rest => okRef r && valuePresent r && okComponents rest

theorem bind3_noPanic {α β : Type} (x : Outcome α) (f : α → Outcome β) (hx : isPanic x = false)
    (hf : ∀ a, x = .ok a → isPanic (f a) = false) : isPanic (bind3 x f) = false := by
  cases x with
  | ok a => exact hf a rfl
  | err _ => rfl
  | panic _ => cases hx

theorem typeIs_head {a : OAttrs} {t : String} (h : typeIs a t = true) : typeHead a = some t := by
  simp only [typeIs, beq_iff_eq] at h
  simp [typeHead, h]

/-- `getConstraints` is only called where `Type.Is(…)` holds, so its index is in range -/
theorem scalarOf_noPanic (kind : String) (a : OAttrs) (t : String) (h : typeIs a t = true) :
    isPanic (scalarOf kind a) = false := by
  have hc : getConstraints a = .ok [] := by simp [getConstraints, typeIs_head h]
  simp [scalarOf, hc]

mutual
theorem walkRef_noPanic : ∀ r : ORef, okRef r = true → isPanic (walkRef r) = false
  | .nilPtr => fun h => by simp [okRef] at h
  | .unresolved ref => fun h => by
    simp only [okRef] at h
    simp [walkRef, h]
  | .resolved ref s => fun h => by
    simp only [walkRef]
    by_cases hr : isRef ref = true
    · simp [hr]
    · simp only [hr, Bool.false_eq_true, if_false]
      simp only [okRef, hr, Bool.false_or] at h
      exact walkDefinitions_noPanic s h
theorem walkDefinitions_noPanic : ∀ s : OSchema, okSchema s = true → isPanic (walkDefinitions s) = false
  | .mk a allOf anyOf oneOf props addl items => fun h => by
    simp only [walkDefinitions]
    simp only [okSchema] at h
    by_cases ha1 : a.hasAllOf = true
    · simp only [ha1, if_true] at h ⊢
      exact bind3_noPanic _ _ (walkList_noPanic allOf h) (fun _ _ => rfl)
    simp only [ha1, Bool.false_eq_true, if_false] at h ⊢
    by_cases ha2 : a.hasAnyOf = true
    · simp only [ha2, if_true] at h ⊢
      exact bind3_noPanic _ _ (walkList_noPanic anyOf h) (fun _ _ => rfl)
    simp only [ha2, Bool.false_eq_true, if_false] at h ⊢
    by_cases ha3 : a.hasOneOf = true
    · simp only [ha3, if_true] at h ⊢
      exact bind3_noPanic _ _ (walkList_noPanic oneOf h) (fun _ _ => rfl)
    simp only [ha3, Bool.false_eq_true, if_false] at h ⊢
    cases he : a.enum with
    | some vals =>
      simp only [he] at h ⊢
      cases hth : typeHead a with
      | none => simp [hth] at h
      | some t => simp only []; split <;> rfl
    | none =>
      simp only [he] at h ⊢
      by_cases h1 : typeIs a "string" = true
      · simp only [h1, if_true]; exact scalarOf_noPanic _ a _ h1
      · simp only [h1, Bool.false_eq_true, if_false] at h ⊢
        by_cases h2 : typeIs a "object" = true
        · simp only [h2, if_true] at h ⊢
          by_cases hp : props.isEmpty = true
          · simp only [hp, if_true] at h ⊢
            by_cases hn : isNilPtr addl = true
            · simp [hn]
            · simp only [hn, Bool.false_eq_true, if_false, Bool.false_or] at h ⊢
              exact bind3_noPanic _ _ (walkRef_noPanic addl h) (fun _ _ => rfl)
          · simp only [hp, Bool.false_eq_true, if_false] at h ⊢
            exact bind3_noPanic _ _ (walkProps_noPanic a.required props h) (fun _ _ => rfl)
        · simp only [h2, Bool.false_eq_true, if_false] at h ⊢
          by_cases h3 : typeIs a "array" = true
          · simp only [h3, if_true] at h ⊢
            exact bind3_noPanic _ _ (walkRef_noPanic items h) (fun _ _ => rfl)
          · simp only [h3, Bool.false_eq_true, if_false]
            by_cases h4 : typeIs a "boolean" = true
            · simp [h4]
            · simp only [h4, Bool.false_eq_true, if_false]
              by_cases h5 : typeIs a "integer" = true
              · simp only [h5, if_true]; exact scalarOf_noPanic _ a _ h5
              · simp only [h5, Bool.false_eq_true, if_false]
                by_cases h6 : typeIs a "number" = true
                · simp only [h6, if_true]; exact scalarOf_noPanic _ a _ h6
                · simp [h6]
theorem walkList_noPanic : ∀ rs : List ORef, okList rs = true → isPanic (walkList rs) = false
  | [] => fun _ => rfl
  | r :: rs => fun h => by
    simp only [okList, Bool.and_eq_true] at h
    simp only [walkList]
    exact bind3_noPanic _ _ (walkRef_noPanic r h.1)
      (fun _ _ => bind3_noPanic _ _ (walkList_noPanic rs h.2) (fun _ _ => rfl))
theorem walkProps_noPanic (required : List String) : ∀ ps : List (String × ORef), okProps ps = true →
    isPanic (walkProps required ps) = false
  | [] => fun _ => rfl
  | (name, r) :: rest => fun h => by
    simp only [okProps, Bool.and_eq_true] at h
    simp only [walkProps]
    apply bind3_noPanic _ _ (walkRef_noPanic r h.1.1)
    intro t _
    simp only [h.1.2, Bool.not_true, Bool.false_eq_true, if_false]
    exact bind3_noPanic _ _ (walkProps_noPanic required rest h.2) (fun _ _ => rfl)
end

theorem declare_noPanic (pkg : String) : ∀ cs : List (String × ORef), okComponents cs = true →
    isPanic (declare pkg cs) = false
  | [], _ => rfl
  | (name, r) :: rest, h => by
    simp only [okComponents, Bool.and_eq_true] at h
    simp only [declare]
    apply bind3_noPanic _ _ (walkRef_noPanic r h.1.1)
    intro t _
    simp only [h.1.2, Bool.not_true, Bool.false_eq_true, if_false]
    exact bind3_noPanic _ _ (declare_noPanic pkg rest h.2) (fun _ _ => rfl)

/-- the OpenAPI generator does not panic on library values satisfying `okComponents` -/
theorem generateAST_noPanic (pkg : String) (cs : Option (List (String × ORef)))
    (h : ∀ l, cs = some l → okComponents l = true) : isPanic (generateAST pkg cs) = false := by
  cases cs with
  | none => rfl
  | some l => exact bind3_noPanic _ _ (declare_noPanic pkg l (h l rfl)) (fun _ _ => rfl)

/-! ### what the generator guarantees about its output (`parse_wf`) -/

def tyWf (t : Ty) : Bool := Cog.NF.noBadTy t && allTy enumMembersScalarNode t

theorem enumKind_scalar {t k : String} (h : enumKind t = some k) : k.startsWith "?" = false := by
  simp only [enumKind] at h
  split at h
  · cases h; decide +kernel
  · split at h
    · cases h; decide +kernel
    · split at h
      · cases h; decide +kernel
      · cases h

theorem bind3_ok {α β : Type} {x : Outcome α} {f : α → Outcome β} {b : β} (h : bind3 x f = .ok b) :
    ∃ a, x = .ok a ∧ f a = .ok b := by
  cases x with
  | ok a => exact ⟨a, rfl, h⟩
  | err _ => cases h
  | panic _ => cases h

theorem scalarOf_wf {kind : String} {a : OAttrs} {t : Ty} (h : scalarOf kind a = .ok t) : tyWf t = true := by
  simp only [scalarOf] at h
  cases hc : getConstraints a with
  | ok cs => simp only [hc] at h; cases h; simp [tyWf, Cog.NF.noBadTy, allTy, enumMembersScalarNode]
  | err _ => simp [hc] at h
  | panic _ => simp [hc] at h

def listWf (ts : List Ty) : Bool := Cog.NF.noBadList ts && allList enumMembersScalarNode ts
def fieldsWf (fs : List Field) : Bool := Cog.NF.noBadFields fs && allFields enumMembersScalarNode fs

theorem tyWf_iff (t : Ty) : tyWf t = true ↔ Cog.NF.noBadTy t = true ∧ allTy enumMembersScalarNode t = true := by
  simp [tyWf]

mutual
theorem walkRef_wf : ∀ (r : ORef) (t : Ty), walkRef r = .ok t → tyWf t = true
  | .nilPtr => fun t h => by simp [walkRef] at h
  | .unresolved ref => fun t h => by
    simp only [walkRef] at h
    split at h
    · cases h; simp [tyWf, Cog.NF.noBadTy, allTy, enumMembersScalarNode]
    · cases h
  | .resolved ref s => fun t h => by
    simp only [walkRef] at h
    split at h
    · cases h; simp [tyWf, Cog.NF.noBadTy, allTy, enumMembersScalarNode]
    · exact walkDefinitions_wf s t h
theorem walkDefinitions_wf : ∀ (s : OSchema) (t : Ty), walkDefinitions s = .ok t → tyWf t = true
  | .mk a allOf anyOf oneOf props addl items => fun t h => by
    simp only [walkDefinitions] at h
    split at h
    · obtain ⟨ts, h1, h2⟩ := bind3_ok h
      cases h2
      have := walkList_wf allOf ts h1
      simp only [listWf, Bool.and_eq_true] at this
      simp [tyWf, Cog.NF.noBadTy, allTy, enumMembersScalarNode, this.1, this.2]
    · split at h
      · obtain ⟨ts, h1, h2⟩ := bind3_ok h
        cases h2
        have := walkList_wf anyOf ts h1
        simp only [listWf, Bool.and_eq_true] at this
        simp [tyWf, Cog.NF.noBadTy, allTy, enumMembersScalarNode, this.1, this.2]
      · split at h
        · obtain ⟨ts, h1, h2⟩ := bind3_ok h
          cases h2
          have := walkList_wf oneOf ts h1
          simp only [listWf, Bool.and_eq_true] at this
          simp [tyWf, Cog.NF.noBadTy, allTy, enumMembersScalarNode, this.1, this.2]
        · cases he : a.enum with
          | some vals =>
            simp only [he] at h
            cases hth : typeHead a with
            | none => simp [hth] at h
            | some tn =>
              simp only [hth] at h
              cases hek : enumKind tn with
              | none => simp [hek] at h
              | some k =>
                simp only [hek] at h
                cases h
                have hk := enumKind_scalar hek
                simp [tyWf, Cog.NF.noBadTy, allTy, enumMembersScalarNode, memberScalar, hk]
          | none =>
            simp only [he] at h
            split at h
            · exact scalarOf_wf h
            · split at h
              · split at h
                · split at h
                  · cases h; simp [tyWf, Cog.NF.noBadTy, allTy, enumMembersScalarNode]
                  · obtain ⟨vt, h1, h2⟩ := bind3_ok h
                    cases h2
                    have := (tyWf_iff vt).1 (walkRef_wf addl vt h1)
                    simp [tyWf, Cog.NF.noBadTy, allTy, enumMembersScalarNode, this.1, this.2]
                · obtain ⟨fs, h1, h2⟩ := bind3_ok h
                  cases h2
                  have := walkProps_wf a.required props fs h1
                  simp only [fieldsWf, Bool.and_eq_true] at this
                  simp [tyWf, Cog.NF.noBadTy, Cog.NF.noBadList, allTy, allList, enumMembersScalarNode, this.1, this.2]
              · split at h
                · obtain ⟨et, h1, h2⟩ := bind3_ok h
                  cases h2
                  have := (tyWf_iff et).1 (walkRef_wf items et h1)
                  simp [tyWf, Cog.NF.noBadTy, allTy, enumMembersScalarNode, this.1, this.2]
                · split at h
                  · cases h; simp [tyWf, Cog.NF.noBadTy, allTy, enumMembersScalarNode]
                  · split at h
                    · exact scalarOf_wf h
                    · split at h
                      · exact scalarOf_wf h
                      · cases h; simp [tyWf, Cog.NF.noBadTy, allTy, enumMembersScalarNode]
theorem walkList_wf : ∀ (rs : List ORef) (ts : List Ty), walkList rs = .ok ts → listWf ts = true
  | [] => fun ts h => by simp only [walkList] at h; cases h; simp [listWf, Cog.NF.noBadList, allList]
  | r :: rs => fun ts h => by
    simp only [walkList] at h
    obtain ⟨t, h1, h2⟩ := bind3_ok h
    obtain ⟨ts', h3, h4⟩ := bind3_ok h2
    cases h4
    have ht := (tyWf_iff t).1 (walkRef_wf r t h1)
    have hts := walkList_wf rs ts' h3
    simp only [listWf, Bool.and_eq_true] at hts
    simp [listWf, Cog.NF.noBadList, allList, ht.1, ht.2, hts.1, hts.2]
theorem walkProps_wf (required : List String) : ∀ (ps : List (String × ORef)) (fs : List Field),
    walkProps required ps = .ok fs → fieldsWf fs = true
  | [] => fun fs h => by simp only [walkProps] at h; cases h; simp [fieldsWf, Cog.NF.noBadFields, allFields]
  | (name, r) :: rest => fun fs h => by
    simp only [walkProps] at h
    obtain ⟨t, h1, h2⟩ := bind3_ok h
    split at h2
    · cases h2
    · obtain ⟨fs', h3, h4⟩ := bind3_ok h2
      cases h4
      have ht := (tyWf_iff t).1 (walkRef_wf r t h1)
      have hfs := walkProps_wf required rest fs' h3
      simp only [fieldsWf, Bool.and_eq_true] at hfs
      simp [fieldsWf, Cog.NF.noBadFields, allFields, ht.1, ht.2, hfs.1, hfs.2]
end

/-- objects of the generated schema: keyed by their name, types well-formed -/
theorem declare_wf (pkg : String) : ∀ (cs : List (String × ORef)) (os : List (String × Obj)),
    declare pkg cs = .ok os → Cog.NF.objectsWf os = true ∧ (os.all fun ko => allTy enumMembersScalarNode ko.2.ty) = true
  | [], os, h => by simp only [declare] at h; cases h; simp [Cog.NF.objectsWf]
  | (name, r) :: rest, os, h => by
    simp only [declare] at h
    obtain ⟨t, h1, h2⟩ := bind3_ok h
    split at h2
    · cases h2
    · obtain ⟨os', h3, h4⟩ := bind3_ok h2
      cases h4
      have ht := (tyWf_iff t).1 (walkRef_wf r t h1)
      have hos := declare_wf pkg rest os' h3
      simp [Cog.NF.objectsWf, ht.1, ht.2, hos.1, hos.2]

/-- **parse_wf (OpenAPI)**: whatever the generator returns is `wfIR` -/
theorem generateAST_wf (pkg : String) (cs : Option (List (String × ORef))) (s : Schema)
    (h : generateAST pkg cs = .ok s) : wfIR [s] = true := by
  cases cs with
  | none =>
    simp only [generateAST] at h
    cases h
    simp [wfIR, Cog.NF.wfIR, Cog.NF.eptOk, Cog.NF.objectsWf, allSchemas, allTy, enumMembersScalarNode]
  | some l =>
    simp only [generateAST] at h
    obtain ⟨os, h1, h2⟩ := bind3_ok h
    cases h2
    have := declare_wf pkg l os h1
    simp [wfIR, Cog.NF.wfIR, Cog.NF.eptOk, allSchemas, allTy, enumMembersScalarNode, this.1, this.2]

end Cog.Total.OpenApi
