/-
  C04 — model of the OpenAPI front-end (internal/openapi/generator.go + utils.go) from the
  LIBRARY's in-memory value downwards.

  `OSchema` / `ORef` mirror the fields of kin-openapi's `openapi3.Schema` / `openapi3.SchemaRef`
  that the generator reads, with their degrees of freedom:
    * `Type` is a `*Types` (`[]string`): absent, empty, one entry, several entries;
      `Type.Is(t)` = exactly one entry equal to `t`; `Type.Slice()[0]` indexes without a check;
    * `AllOf` / `AnyOf` / `OneOf` / `Enum` are tested with `!= nil`: an empty list is "present";
    * `Items`, `AdditionalProperties.Schema` (and list elements) are `*SchemaRef` and may be nil (`ORef.nilPtr`);
    * `SchemaRef.Value` is nil when the loader could not (or, for cyclic alias `$ref`s, did not)
      resolve the reference;
    * `SchemaRef.Ref` is "a reference" iff it is non-empty and contains `#` (`isRef`).
  Every Go operation that can panic is an explicit `Outcome.panic`.  The model has two versions,
  selected by `fx : Bool`: `fx = false` is the generator BEFORE the /repo fixes 70c59a6, 4e6f2a6,
  ca4fdd6, fd9167a (kept so that the former defects stay checked statements), `fx = true` the current
  one.  fd9167a added two `err` returns that are not panic sites of the front-end itself (`enum: []`
  and `oneOf: []` / `anyOf: []` produced an empty enum / union on which later stages panicked):
  `walk*_nonEmpty` below proves that the current generator never emits an empty enum or union.
  In the current version the first four sites below are `err` returns:
      "walkEnum: Type.Slice()[0]"           enum without (or with empty) type          (fixed 70c59a6)
      "walkSchemaRef: nil SchemaRef"        `type: array` without `items`              (fixed 4e6f2a6)
      "walkDefinitions: nil Schema"         a SchemaRef whose Value is nil, Ref not `#` (fixed ca4fdd6)
      "schemaComments: nil Schema"          a component / property whose Value is nil   (fixed ca4fdd6)
      "walkSchemaRef: nil SchemaRef"        a nil `*SchemaRef` as a LIST ELEMENT or map value: still a nil
                                            dereference, but the loader rejects such documents
      "getConstraints: Type.Slice()[0]"     (proved unreachable: only called under `Type.Is(…)`)
  The recursion is structural on the library value (the generator never follows `Ref`: `walkRef`
  only names the target), so termination is Lean's own check; cyclic pointer graphs built by the
  loader for whole-file references are outside this tree model (trusted base).

  The output IR is modelled up to what well-formedness and panics depend on: kinds, enum members
  (name, value, scalar kind), struct fields, union/intersection branches, references.  Constraint
  arguments, hints, defaults and comments are abstracted (`Meta` default / `.nil`).
-/
import Cog.Total.Basic
namespace Cog.Total.OpenApi
open Cog.IR Cog.Passes Cog.Total

structure OAttrs where
  enum : Option (List Val) := none
  types : Option (List String) := none
  format : String := ""
  required : List String := []
  nullable : Bool := false
  hasMin : Bool := false
  hasMax : Bool := false
  hasMultipleOf : Bool := false
  discriminator : Option (String × List (String × String)) := none
  /-- `schema.AllOf != nil` etc.: an empty list is still "present" -/
  hasAllOf : Bool := false
  hasAnyOf : Bool := false
  hasOneOf : Bool := false
  deriving Inhabited

mutual
inductive OSchema where
  | mk (a : OAttrs) (allOf anyOf oneOf : List ORef) (props : List (String × ORef))
       (addl items : ORef)
/-- `*openapi3.SchemaRef`: a nil pointer, a reference whose `Value` is nil, or a reference /
    inline schema with its `Value` -/
inductive ORef where
  | nilPtr
  | unresolved (ref : String)
  | resolved (ref : String) (value : OSchema)
end

/-- `strings.ContainsAny(ref, "#")` with `ref != ""` -/
def isRef (ref : String) : Bool := ref != "" && ref.toList.contains '#'

/-- `Type.Is(t)` -/
def typeIs (a : OAttrs) (t : String) : Bool := a.types == some [t]

/-- `Type.Slice()[0]` -/
def typeHead (a : OAttrs) : Option String :=
  match a.types with
  | some (t :: _) => some t
  | _ => none

/-- `getEnumType` -/
def enumKind (t : String) : Option String :=
  if t == "string" then some "string"
  else if t == "number" then some "int32"
  else if t == "integer" then some "int64"
  else none

/-- `fmt.Sprintf(format, value)` for the member name: only emptiness matters downstream -/
def memberName (isString : Bool) (v : Val) : String :=
  if isString then (match v with | .str s => s | v => fmtV v) else "v" ++ fmtV v

/-- `getConstraints`: the index is evaluated only when a bound is present -/
def getConstraints (a : OAttrs) : Outcome (List Constraint) :=
  if a.hasMin || a.hasMax || a.hasMultipleOf then
    match typeHead a with
    | some _ => .ok []
    | none => .panic "getConstraints: Type.Slice()[0]"
  else .ok []

def scalarOf (kind : String) (a : OAttrs) : Outcome Ty :=
  match getConstraints a with
  | .ok cs => .ok (.scalar kind .nil cs { nullable := a.nullable })
  | .err e => .err e
  | .panic p => .panic p

def bind3 {α β : Type} (x : Outcome α) (f : α → Outcome β) : Outcome β :=
  match x with
  | .ok a => f a
  | .err e => .err e
  | .panic p => .panic p

def discr (a : OAttrs) : DisjInfo :=
  match a.discriminator with
  | some (n, m) => { discriminator := n, mapping := m }
  | none => {}

def isNilPtr : ORef → Bool
  | .nilPtr => true
  | _ => false

def valuePresent : ORef → Bool
  | .resolved .. => true
  | _ => false

/-- a site that panicked before its fix and returns an error since -/
def site {α : Type} (fx : Bool) (what : String) : Outcome α := if fx then .err what else .panic what

mutual
/-- `walkSchemaRef` -/
def walkRef (fx : Bool) : ORef → Outcome Ty
  | .nilPtr => .panic "walkSchemaRef: nil SchemaRef"
  | .unresolved ref => if isRef ref then .ok (.ref "pkg" ref {}) else site fx "walkDefinitions: nil Schema"
  | .resolved ref s => if isRef ref then .ok (.ref "pkg" ref {}) else walkDefinitions fx s
/-- `walkDefinitions` -/
def walkDefinitions (fx : Bool) : OSchema → Outcome Ty
  | .mk a allOf anyOf oneOf props addl items =>
    if a.hasAllOf then bind3 (walkList fx allOf) fun ts => .ok (.inter ts {})
    else if a.hasAnyOf then
      -- walkDisjunctions: since fd9167a a present but empty list is an error
      (if fx && anyOf.isEmpty then .err "oneOf/anyOf with no branches"
       else bind3 (walkList fx anyOf) fun ts => .ok (.disj ts (discr a) {}))
    else if a.hasOneOf then
      (if fx && oneOf.isEmpty then .err "oneOf/anyOf with no branches"
       else bind3 (walkList fx oneOf) fun ts => .ok (.disj ts (discr a) {}))
    else
    match a.enum with
    | some vals =>
      -- walkEnum (since fd9167a: `enum: []` is an error, after the type check of 70c59a6)
      match typeHead a with
      | none => site fx "walkEnum: Type.Slice()[0]"
      | some t =>
        if fx && vals.isEmpty then .err "enum with no values" else
        match enumKind t with
        | none => .err "only strings/numbers are supported"
        | some k => .ok (.enum (vals.map fun v => { name := memberName (typeIs a "string") v, value := v, kind := k }) {})
    | none =>
      if typeIs a "string" then scalarOf (if a.format == "byte" then "bytes" else "string") a
      else if typeIs a "object" then
        -- walkObject
        if props.isEmpty then
          (if isNilPtr addl then .ok (.scalar "any" .nil [] {})
           else bind3 (walkRef fx addl) fun vt => .ok (.map (.scalar "string" .nil [] {}) vt {}))
        else bind3 (walkProps fx a.required props) fun fs => .ok (.struct fs [] none {})
      else if typeIs a "array" then
        -- walkArray: since 4e6f2a6 a nil `Items` is an error before `walkSchemaRef` is reached
        (if fx && isNilPtr items then .err "array without items"
         else bind3 (walkRef fx items) fun et => .ok (.array et {}))
      else if typeIs a "boolean" then .ok (.scalar "bool" .nil [] {})
      else if typeIs a "integer" then scalarOf (if a.format == "int32" then "int32" else "int64") a
      else if typeIs a "number" then scalarOf (if a.format == "double" then "float64" else "float32") a
      else .ok (.scalar "any" .nil [] {})
def walkList (fx : Bool) : List ORef → Outcome (List Ty)
  | [] => .ok []
  | r :: rs => bind3 (walkRef fx r) fun t => bind3 (walkList fx rs) fun ts => .ok (t :: ts)
/-- the property loop of `walkObject`: `schemaComments(schemaRef.Value)` dereferences `Value` -/
def walkProps (fx : Bool) (required : List String) : List (String × ORef) → Outcome (List Field)
  | [] => .ok []
  | (name, r) :: rest =>
    bind3 (walkRef fx r) fun t =>
      if !fx && !valuePresent r then .panic "schemaComments: nil Schema"
      else bind3 (walkProps fx required rest) fun fs =>
        .ok ({ name := name, ty := t, required := required.contains name } :: fs)
end

/-- `declareDefinition` over `oapi.Components.Schemas` (a Go map: the order is immaterial here) -/
def declare (fx : Bool) (pkg : String) : List (String × ORef) → Outcome (List (String × Obj))
  | [] => .ok []
  | (name, r) :: rest =>
    bind3 (walkRef fx r) fun t =>
      if !fx && !valuePresent r then .panic "schemaComments: nil Schema"
      else bind3 (declare fx pkg rest) fun os =>
        .ok ((name, { name := name, ty := t, selfPkg := pkg, selfName := name }) :: os)

/-- `GenerateAST` after validation (or with validation off): `none` = no `components` -/
def generateASTv (fx : Bool) (pkg : String) (components : Option (List (String × ORef))) : Outcome Schema :=
  match components with
  | none => .ok { pkg := pkg }
  | some cs => bind3 (declare fx pkg cs) fun os => .ok { pkg := pkg, objects := os }

/-- the generator as it is now -/
def generateAST := generateASTv true
/-- the generator before fixes 70c59a6 / 4e6f2a6 / ca4fdd6 -/
def generateASTPreFix := generateASTv false

/-! ### what the library value must satisfy for the generator not to panic -/

mutual
def okRef (fx : Bool) : ORef → Bool
  | .nilPtr => false
  | .unresolved ref => fx || isRef ref
  | .resolved ref s => isRef ref || okSchema fx s
def okSchema (fx : Bool) : OSchema → Bool
  | .mk a allOf anyOf oneOf props addl items =>
    if a.hasAllOf then okList fx allOf
    else if a.hasAnyOf then okList fx anyOf
    else if a.hasOneOf then okList fx oneOf
    else
    match a.enum with
    | some _ => fx || (typeHead a).isSome
    | none =>
      if typeIs a "string" then true
      else if typeIs a "object" then
        (if props.isEmpty then (isNilPtr addl || okRef fx addl) else okProps fx props)
      else if typeIs a "array" then (fx && isNilPtr items) || okRef fx items
      else true
def okList (fx : Bool) : List ORef → Bool
  | [] => true
  | r :: rs => okRef fx r && okList fx rs
def okProps (fx : Bool) : List (String × ORef) → Bool
  | [] => true
  | (_, r) :: rest => okRef fx r && (fx || valuePresent r) && okProps fx rest
end

def okComponents (fx : Bool) : List (String × ORef) → Bool
  | [] => true
  | (_, r) :: rest => okRef fx r && (fx || valuePresent r) && okComponents fx rest

theorem bind3_noPanic {α β : Type} (x : Outcome α) (f : α → Outcome β) (hx : isPanic x = false)
    (hf : ∀ a, x = .ok a → isPanic (f a) = false) : isPanic (bind3 x f) = false := by
  cases x with
  | ok a => exact hf a rfl
  | err _ => rfl
  | panic _ => cases hx

theorem typeIs_head {a : OAttrs} {t : String} (h : typeIs a t = true) : typeHead a = some t := by
  simp only [typeIs, beq_iff_eq] at h
  simp [typeHead, h]

/-- `getConstraints` is only called where `Type.Is(…)` holds, so its index is in range -/
theorem scalarOf_noPanic (kind : String) (a : OAttrs) (t : String) (h : typeIs a t = true) :
    isPanic (scalarOf kind a) = false := by
  have hc : getConstraints a = .ok [] := by simp [getConstraints, typeIs_head h]
  simp [scalarOf, hc]

theorem site_noPanic {α : Type} (what : String) : isPanic (site true what : Outcome α) = false := rfl

mutual
theorem walkRef_noPanic (fx : Bool) : ∀ r : ORef, okRef fx r = true → isPanic (walkRef fx r) = false
  | .nilPtr => fun h => by simp [okRef] at h
  | .unresolved ref => fun h => by
    simp only [okRef, Bool.or_eq_true] at h
    simp only [walkRef]
    by_cases hr : isRef ref = true
    · simp [hr]
    · simp only [hr, Bool.false_eq_true, if_false]
      rcases h with h | h
      · subst h; rfl
      · exact absurd h hr
  | .resolved ref s => fun h => by
    simp only [walkRef]
    by_cases hr : isRef ref = true
    · simp [hr]
    · simp only [hr, Bool.false_eq_true, if_false]
      simp only [okRef, hr, Bool.false_or] at h
      exact walkDefinitions_noPanic fx s h
theorem walkDefinitions_noPanic (fx : Bool) : ∀ s : OSchema, okSchema fx s = true → isPanic (walkDefinitions fx s) = false
  | .mk a allOf anyOf oneOf props addl items => fun h => by
    simp only [walkDefinitions]
    simp only [okSchema] at h
    by_cases ha1 : a.hasAllOf = true
    · simp only [ha1, if_true] at h ⊢
      exact bind3_noPanic _ _ (walkList_noPanic fx allOf h) (fun _ _ => rfl)
    simp only [ha1, Bool.false_eq_true, if_false] at h ⊢
    by_cases ha2 : a.hasAnyOf = true
    · simp only [ha2, if_true] at h ⊢
      split
      · rfl
      · exact bind3_noPanic _ _ (walkList_noPanic fx anyOf h) (fun _ _ => rfl)
    simp only [ha2, Bool.false_eq_true, if_false] at h ⊢
    by_cases ha3 : a.hasOneOf = true
    · simp only [ha3, if_true] at h ⊢
      split
      · rfl
      · exact bind3_noPanic _ _ (walkList_noPanic fx oneOf h) (fun _ _ => rfl)
    simp only [ha3, Bool.false_eq_true, if_false] at h ⊢
    cases he : a.enum with
    | some vals =>
      simp only [he, Bool.or_eq_true] at h ⊢
      cases hth : typeHead a with
      | none =>
        rcases h with h | h
        · subst h; rfl
        · simp [hth] at h
      | some t =>
        simp only []
        split
        · rfl
        · split <;> rfl
    | none =>
      simp only [he] at h ⊢
      by_cases h1 : typeIs a "string" = true
      · simp only [h1, if_true]; exact scalarOf_noPanic _ a _ h1
      · simp only [h1, Bool.false_eq_true, if_false] at h ⊢
        by_cases h2 : typeIs a "object" = true
        · simp only [h2, if_true] at h ⊢
          by_cases hp : props.isEmpty = true
          · simp only [hp, if_true] at h ⊢
            by_cases hn : isNilPtr addl = true
            · simp [hn]
            · simp only [hn, Bool.false_eq_true, if_false, Bool.false_or] at h ⊢
              exact bind3_noPanic _ _ (walkRef_noPanic fx addl h) (fun _ _ => rfl)
          · simp only [hp, Bool.false_eq_true, if_false] at h ⊢
            exact bind3_noPanic _ _ (walkProps_noPanic fx a.required props h) (fun _ _ => rfl)
        · simp only [h2, Bool.false_eq_true, if_false] at h ⊢
          by_cases h3 : typeIs a "array" = true
          · simp only [h3, if_true, Bool.or_eq_true] at h ⊢
            by_cases hg : (fx && isNilPtr items) = true
            · simp [hg]
            · simp only [hg, Bool.false_eq_true, if_false]
              rcases h with h | h
              · exact absurd h hg
              · exact bind3_noPanic _ _ (walkRef_noPanic fx items h) (fun _ _ => rfl)
          · simp only [h3, Bool.false_eq_true, if_false]
            by_cases h4 : typeIs a "boolean" = true
            · simp [h4]
            · simp only [h4, Bool.false_eq_true, if_false]
              by_cases h5 : typeIs a "integer" = true
              · simp only [h5, if_true]; exact scalarOf_noPanic _ a _ h5
              · simp only [h5, Bool.false_eq_true, if_false]
                by_cases h6 : typeIs a "number" = true
                · simp only [h6, if_true]; exact scalarOf_noPanic _ a _ h6
                · simp [h6]
theorem walkList_noPanic (fx : Bool) : ∀ rs : List ORef, okList fx rs = true → isPanic (walkList fx rs) = false
  | [] => fun _ => rfl
  | r :: rs => fun h => by
    simp only [okList, Bool.and_eq_true] at h
    simp only [walkList]
    exact bind3_noPanic _ _ (walkRef_noPanic fx r h.1)
      (fun _ _ => bind3_noPanic _ _ (walkList_noPanic fx rs h.2) (fun _ _ => rfl))
theorem walkProps_noPanic (fx : Bool) (required : List String) : ∀ ps : List (String × ORef), okProps fx ps = true →
    isPanic (walkProps fx required ps) = false
  | [] => fun _ => rfl
  | (name, r) :: rest => fun h => by
    simp only [okProps, Bool.and_eq_true, Bool.or_eq_true] at h
    simp only [walkProps]
    apply bind3_noPanic _ _ (walkRef_noPanic fx r h.1.1)
    intro t _
    have hg : (!fx && !valuePresent r) = false := by
      rcases h.1.2 with h2 | h2 <;> simp [h2]
    simp only [hg, Bool.false_eq_true, if_false]
    exact bind3_noPanic _ _ (walkProps_noPanic fx required rest h.2) (fun _ _ => rfl)
end

theorem declare_noPanic (fx : Bool) (pkg : String) : ∀ cs : List (String × ORef), okComponents fx cs = true →
    isPanic (declare fx pkg cs) = false
  | [], _ => rfl
  | (name, r) :: rest, h => by
    simp only [okComponents, Bool.and_eq_true, Bool.or_eq_true] at h
    simp only [declare]
    apply bind3_noPanic _ _ (walkRef_noPanic fx r h.1.1)
    intro t _
    have hg : (!fx && !valuePresent r) = false := by
      rcases h.1.2 with h2 | h2 <;> simp [h2]
    simp only [hg, Bool.false_eq_true, if_false]
    exact bind3_noPanic _ _ (declare_noPanic fx pkg rest h.2) (fun _ _ => rfl)

/-- the OpenAPI generator does not panic on library values satisfying `okComponents` -/
theorem generateASTv_noPanic (fx : Bool) (pkg : String) (cs : Option (List (String × ORef)))
    (h : ∀ l, cs = some l → okComponents fx l = true) : isPanic (generateASTv fx pkg cs) = false := by
  cases cs with
  | none => rfl
  | some l => exact bind3_noPanic _ _ (declare_noPanic fx pkg l (h l rfl)) (fun _ _ => rfl)

/-! ### what the generator guarantees about its output (`parse_wf`) -/

def tyWf (t : Ty) : Bool := Cog.NF.noBadTy t && allTy enumMembersScalarNode t

theorem enumKind_scalar {t k : String} (h : enumKind t = some k) : k.startsWith "?" = false := by
  simp only [enumKind] at h
  split at h
  · cases h; decide +kernel
  · split at h
    · cases h; decide +kernel
    · split at h
      · cases h; decide +kernel
      · cases h

theorem bind3_ok {α β : Type} {x : Outcome α} {f : α → Outcome β} {b : β} (h : bind3 x f = .ok b) :
    ∃ a, x = .ok a ∧ f a = .ok b := by
  cases x with
  | ok a => exact ⟨a, rfl, h⟩
  | err _ => cases h
  | panic _ => cases h

theorem scalarOf_wf {kind : String} {a : OAttrs} {t : Ty} (h : scalarOf kind a = .ok t) : tyWf t = true := by
  simp only [scalarOf] at h
  cases hc : getConstraints a with
  | ok cs => simp only [hc] at h; cases h; simp [tyWf, Cog.NF.noBadTy, allTy, enumMembersScalarNode]
  | err _ => simp [hc] at h
  | panic _ => simp [hc] at h

def listWf (ts : List Ty) : Bool := Cog.NF.noBadList ts && allList enumMembersScalarNode ts
def fieldsWf (fs : List Field) : Bool := Cog.NF.noBadFields fs && allFields enumMembersScalarNode fs

theorem tyWf_iff (t : Ty) : tyWf t = true ↔ Cog.NF.noBadTy t = true ∧ allTy enumMembersScalarNode t = true := by
  simp [tyWf]

mutual
theorem walkRef_wf (fx : Bool) : ∀ (r : ORef) (t : Ty), walkRef fx r = .ok t → tyWf t = true
  | .nilPtr => fun t h => by simp [walkRef] at h
  | .unresolved ref => fun t h => by
    simp only [walkRef] at h
    split at h
    · cases h; simp [tyWf, Cog.NF.noBadTy, allTy, enumMembersScalarNode]
    · cases fx <;> simp [site] at h
  | .resolved ref s => fun t h => by
    simp only [walkRef] at h
    split at h
    · cases h; simp [tyWf, Cog.NF.noBadTy, allTy, enumMembersScalarNode]
    · exact walkDefinitions_wf fx s t h
theorem walkDefinitions_wf (fx : Bool) : ∀ (s : OSchema) (t : Ty), walkDefinitions fx s = .ok t → tyWf t = true
  | .mk a allOf anyOf oneOf props addl items => fun t h => by
    simp only [walkDefinitions] at h
    split at h
    · obtain ⟨ts, h1, h2⟩ := bind3_ok h
      cases h2
      have := walkList_wf fx allOf ts h1
      simp only [listWf, Bool.and_eq_true] at this
      simp [tyWf, Cog.NF.noBadTy, allTy, enumMembersScalarNode, this.1, this.2]
    · split at h
      · split at h
        · cases h
        · obtain ⟨ts, h1, h2⟩ := bind3_ok h
          cases h2
          have := walkList_wf fx anyOf ts h1
          simp only [listWf, Bool.and_eq_true] at this
          simp [tyWf, Cog.NF.noBadTy, allTy, enumMembersScalarNode, this.1, this.2]
      · split at h
        · split at h
          · cases h
          · obtain ⟨ts, h1, h2⟩ := bind3_ok h
            cases h2
            have := walkList_wf fx oneOf ts h1
            simp only [listWf, Bool.and_eq_true] at this
            simp [tyWf, Cog.NF.noBadTy, allTy, enumMembersScalarNode, this.1, this.2]
        · cases he : a.enum with
          | some vals =>
            simp only [he] at h
            cases hth : typeHead a with
            | none => cases fx <;> simp [hth, site] at h
            | some tn =>
              simp only [hth] at h
              split at h
              · cases h
              · cases hek : enumKind tn with
                | none => simp [hek] at h
                | some k =>
                  simp only [hek] at h
                  cases h
                  have hk := enumKind_scalar hek
                  simp [tyWf, Cog.NF.noBadTy, allTy, enumMembersScalarNode, memberScalar, hk]
          | none =>
            simp only [he] at h
            split at h
            · exact scalarOf_wf h
            · split at h
              · split at h
                · split at h
                  · cases h; simp [tyWf, Cog.NF.noBadTy, allTy, enumMembersScalarNode]
                  · obtain ⟨vt, h1, h2⟩ := bind3_ok h
                    cases h2
                    have := (tyWf_iff vt).1 (walkRef_wf fx addl vt h1)
                    simp [tyWf, Cog.NF.noBadTy, allTy, enumMembersScalarNode, this.1, this.2]
                · obtain ⟨fs, h1, h2⟩ := bind3_ok h
                  cases h2
                  have := walkProps_wf fx a.required props fs h1
                  simp only [fieldsWf, Bool.and_eq_true] at this
                  simp [tyWf, Cog.NF.noBadTy, Cog.NF.noBadList, allTy, allList, enumMembersScalarNode, this.1, this.2]
              · split at h
                · split at h
                  · cases h
                  · obtain ⟨et, h1, h2⟩ := bind3_ok h
                    cases h2
                    have := (tyWf_iff et).1 (walkRef_wf fx items et h1)
                    simp [tyWf, Cog.NF.noBadTy, allTy, enumMembersScalarNode, this.1, this.2]
                · split at h
                  · cases h; simp [tyWf, Cog.NF.noBadTy, allTy, enumMembersScalarNode]
                  · split at h
                    · exact scalarOf_wf h
                    · split at h
                      · exact scalarOf_wf h
                      · cases h; simp [tyWf, Cog.NF.noBadTy, allTy, enumMembersScalarNode]
theorem walkList_wf (fx : Bool) : ∀ (rs : List ORef) (ts : List Ty), walkList fx rs = .ok ts → listWf ts = true
  | [] => fun ts h => by simp only [walkList] at h; cases h; simp [listWf, Cog.NF.noBadList, allList]
  | r :: rs => fun ts h => by
    simp only [walkList] at h
    obtain ⟨t, h1, h2⟩ := bind3_ok h
    obtain ⟨ts', h3, h4⟩ := bind3_ok h2
    cases h4
    have ht := (tyWf_iff t).1 (walkRef_wf fx r t h1)
    have hts := walkList_wf fx rs ts' h3
    simp only [listWf, Bool.and_eq_true] at hts
    simp [listWf, Cog.NF.noBadList, allList, ht.1, ht.2, hts.1, hts.2]
theorem walkProps_wf (fx : Bool) (required : List String) : ∀ (ps : List (String × ORef)) (fs : List Field),
    walkProps fx required ps = .ok fs → fieldsWf fs = true
  | [] => fun fs h => by simp only [walkProps] at h; cases h; simp [fieldsWf, Cog.NF.noBadFields, allFields]
  | (name, r) :: rest => fun fs h => by
    simp only [walkProps] at h
    obtain ⟨t, h1, h2⟩ := bind3_ok h
    split at h2
    · cases h2
    · obtain ⟨fs', h3, h4⟩ := bind3_ok h2
      cases h4
      have ht := (tyWf_iff t).1 (walkRef_wf fx r t h1)
      have hfs := walkProps_wf fx required rest fs' h3
      simp only [fieldsWf, Bool.and_eq_true] at hfs
      simp [fieldsWf, Cog.NF.noBadFields, allFields, ht.1, ht.2, hfs.1, hfs.2]
end

/-- objects of the generated schema: keyed by their name, types well-formed -/
theorem declare_wf (fx : Bool) (pkg : String) : ∀ (cs : List (String × ORef)) (os : List (String × Obj)),
    declare fx pkg cs = .ok os → Cog.NF.objectsWf os = true ∧ (os.all fun ko => allTy enumMembersScalarNode ko.2.ty) = true
  | [], os, h => by simp only [declare] at h; cases h; simp [Cog.NF.objectsWf]
  | (name, r) :: rest, os, h => by
    simp only [declare] at h
    obtain ⟨t, h1, h2⟩ := bind3_ok h
    split at h2
    · cases h2
    · obtain ⟨os', h3, h4⟩ := bind3_ok h2
      cases h4
      have ht := (tyWf_iff t).1 (walkRef_wf fx r t h1)
      have hos := declare_wf fx pkg rest os' h3
      simp [Cog.NF.objectsWf, ht.1, ht.2, hos.1, hos.2]

/-- **parse_wf (OpenAPI)**: whatever the generator returns is `wfIR` -/
theorem generateASTv_wf (fx : Bool) (pkg : String) (cs : Option (List (String × ORef))) (s : Schema)
    (h : generateASTv fx pkg cs = .ok s) : wfIR [s] = true := by
  cases cs with
  | none =>
    simp only [generateASTv] at h
    cases h
    simp [wfIR, Cog.NF.wfIR, Cog.NF.eptOk, Cog.NF.objectsWf, allSchemas, allTy, enumMembersScalarNode]
  | some l =>
    simp only [generateASTv] at h
    obtain ⟨os, h1, h2⟩ := bind3_ok h
    cases h2
    have := declare_wf fx pkg l os h1
    simp [wfIR, Cog.NF.wfIR, Cog.NF.eptOk, allSchemas, allTy, enumMembersScalarNode, this.1, this.2]

/-! ### since fd9167a: no empty enum, no empty union in the output -/

def nonEmptyNode : Ty → Bool
  | .enum vs _ => !vs.isEmpty
  | .disj bs _ _ => !bs.isEmpty
  | _ => true

theorem scalarOf_nonEmpty {kind : String} {a : OAttrs} {t : Ty} (h : scalarOf kind a = .ok t) :
    allTy nonEmptyNode t = true := by
  simp only [scalarOf] at h
  cases hc : getConstraints a with
  | ok cs => simp only [hc] at h; cases h; simp [allTy, nonEmptyNode]
  | err _ => simp [hc] at h
  | panic _ => simp [hc] at h

theorem walkList_length : ∀ (rs : List ORef) (ts : List Ty), walkList true rs = .ok ts → ts.length = rs.length
  | [], ts, h => by simp only [walkList] at h; cases h; rfl
  | r :: rs, ts, h => by
    simp only [walkList] at h
    obtain ⟨t, _, h2⟩ := bind3_ok h
    obtain ⟨ts', h3, h4⟩ := bind3_ok h2
    cases h4
    simp [walkList_length rs ts' h3]

mutual
theorem walkRef_nonEmpty : ∀ (r : ORef) (t : Ty), walkRef true r = .ok t → allTy nonEmptyNode t = true
  | .nilPtr => fun t h => by simp [walkRef] at h
  | .unresolved ref => fun t h => by
    simp only [walkRef] at h
    split at h
    · cases h; simp [allTy, nonEmptyNode]
    · simp [site] at h
  | .resolved ref s => fun t h => by
    simp only [walkRef] at h
    split at h
    · cases h; simp [allTy, nonEmptyNode]
    · exact walkDefinitions_nonEmpty s t h
theorem walkDefinitions_nonEmpty : ∀ (s : OSchema) (t : Ty), walkDefinitions true s = .ok t → allTy nonEmptyNode t = true
  | .mk a allOf anyOf oneOf props addl items => fun t h => by
    simp only [walkDefinitions] at h
    split at h
    · obtain ⟨ts, h1, h2⟩ := bind3_ok h
      cases h2
      simp [allTy, nonEmptyNode, walkList_nonEmpty allOf ts h1]
    · split at h
      · split at h
        · cases h
        · rename_i hne
          obtain ⟨ts, h1, h2⟩ := bind3_ok h
          cases h2
          have hl := walkList_length anyOf ts h1
          have : ts.isEmpty = false := by
            cases ts with
            | nil => cases anyOf with
              | nil => simp at hne
              | cons _ _ => simp at hl
            | cons _ _ => rfl
          simp [allTy, nonEmptyNode, this, walkList_nonEmpty anyOf ts h1]
      · split at h
        · split at h
          · cases h
          · rename_i hne
            obtain ⟨ts, h1, h2⟩ := bind3_ok h
            cases h2
            have hl := walkList_length oneOf ts h1
            have : ts.isEmpty = false := by
              cases ts with
              | nil => cases oneOf with
                | nil => simp at hne
                | cons _ _ => simp at hl
              | cons _ _ => rfl
            simp [allTy, nonEmptyNode, this, walkList_nonEmpty oneOf ts h1]
        · cases he : a.enum with
          | some vals =>
            simp only [he] at h
            cases hth : typeHead a with
            | none => simp [hth, site] at h
            | some tn =>
              simp only [hth] at h
              split at h
              · cases h
              · rename_i hne
                cases hek : enumKind tn with
                | none => simp [hek] at h
                | some k =>
                  simp only [hek] at h
                  cases h
                  cases vals with
                  | nil => simp at hne
                  | cons _ _ => simp [allTy, nonEmptyNode]
          | none =>
            simp only [he] at h
            split at h
            · exact scalarOf_nonEmpty h
            · split at h
              · split at h
                · split at h
                  · cases h; simp [allTy, nonEmptyNode]
                  · obtain ⟨vt, h1, h2⟩ := bind3_ok h
                    cases h2
                    simp [allTy, nonEmptyNode, walkRef_nonEmpty addl vt h1]
                · obtain ⟨fs, h1, h2⟩ := bind3_ok h
                  cases h2
                  simp [allTy, allList, nonEmptyNode, walkProps_nonEmpty a.required props fs h1]
              · split at h
                · split at h
                  · cases h
                  · obtain ⟨et, h1, h2⟩ := bind3_ok h
                    cases h2
                    simp [allTy, nonEmptyNode, walkRef_nonEmpty items et h1]
                · split at h
                  · cases h; simp [allTy, nonEmptyNode]
                  · split at h
                    · exact scalarOf_nonEmpty h
                    · split at h
                      · exact scalarOf_nonEmpty h
                      · cases h; simp [allTy, nonEmptyNode]
theorem walkList_nonEmpty : ∀ (rs : List ORef) (ts : List Ty), walkList true rs = .ok ts → allList nonEmptyNode ts = true
  | [] => fun ts h => by simp only [walkList] at h; cases h; simp [allList]
  | r :: rs => fun ts h => by
    simp only [walkList] at h
    obtain ⟨t, h1, h2⟩ := bind3_ok h
    obtain ⟨ts', h3, h4⟩ := bind3_ok h2
    cases h4
    simp [allList, walkRef_nonEmpty r t h1, walkList_nonEmpty rs ts' h3]
theorem walkProps_nonEmpty (required : List String) : ∀ (ps : List (String × ORef)) (fs : List Field),
    walkProps true required ps = .ok fs → allFields nonEmptyNode fs = true
  | [] => fun fs h => by simp only [walkProps] at h; cases h; simp [allFields]
  | (name, r) :: rest => fun fs h => by
    simp only [walkProps] at h
    obtain ⟨t, h1, h2⟩ := bind3_ok h
    split at h2
    · cases h2
    · obtain ⟨fs', h3, h4⟩ := bind3_ok h2
      cases h4
      simp [allFields, walkRef_nonEmpty r t h1, walkProps_nonEmpty required rest fs' h3]
end

theorem declare_nonEmpty (pkg : String) : ∀ (cs : List (String × ORef)) (os : List (String × Obj)),
    declare true pkg cs = .ok os → (os.all fun ko => allTy nonEmptyNode ko.2.ty) = true
  | [], os, h => by simp only [declare] at h; cases h; simp
  | (name, r) :: rest, os, h => by
    simp only [declare] at h
    obtain ⟨t, h1, h2⟩ := bind3_ok h
    split at h2
    · cases h2
    · obtain ⟨os', h3, h4⟩ := bind3_ok h2
      cases h4
      simp [walkRef_nonEmpty r t h1, declare_nonEmpty pkg rest os' h3]

/-- the current generator never returns an empty enum or an empty union (fix fd9167a); before it
    `enum: []` and `oneOf: []` went through (`generateASTPreFix`, see the witnesses in Props/C04) -/
theorem generateAST_nonEmpty (pkg : String) (cs : Option (List (String × ORef))) (s : Schema)
    (h : generateASTv true pkg cs = .ok s) : allSchemas nonEmptyNode [s] = true := by
  cases cs with
  | none =>
    simp only [generateASTv] at h
    cases h
    simp [allSchemas, allTy, nonEmptyNode]
  | some l =>
    simp only [generateASTv] at h
    obtain ⟨os, h1, h2⟩ := bind3_ok h
    cases h2
    have := declare_nonEmpty pkg l os h1
    simp [allSchemas, allTy, nonEmptyNode, this]

end Cog.Total.OpenApi
