/-
  C04 — `partial_ops_accounted`: every row of the table REGENERATED from the cog sources by
  /verif/extract/xpartial (`Cog.Gen.PartialOps.ops`: unchecked type assertions, `As*()` calls,
  kind-pointer dereferences, index / slice expressions, map writes, ranges over pointer slices,
  recursion — per function, with the syntactic guard found) is an entry of the committed, reviewed
  list `Cog.Total.Reviewed.entries` with the same
      (file, function, kind, guard, multiplicity, expression text),
  which records why the operation is harmless, or which panic site of a Lean model / which recorded
  finding it is.

  A new unchecked operation in any function of the extracted packages, a second copy of an existing
  one, or the removal of a syntactic guard changes a row; it then has no reviewed entry and the
  equation below no longer holds (the build of this module fails: the obligation is broken).  Rows
  that disappear from the sources do not matter (the reviewed list may hold more than the table);
  line numbers are not part of a row, so moving code does not matter either.

  How it is checked: verifkit/gen_c04.py writes, next to the table, the POSITION in the reviewed list of
  every row (`Cog.Gen.PartialOpsCert`, a certificate — an out-of-range position when there is none).
  The kernel then only has to compare string LITERALS for identity (`rfl`), which is immediate, instead
  of deciding string equality by evaluation (≈ 0.5 s per comparison in the kernel of Lean 4.33).
-/
import Cog.Gen.PartialOps
import Cog.Gen.PartialOpsCert
import Cog.Total.Reviewed
namespace Cog.Total
open Cog.Gen.PartialOps (Op ops)

abbrev Row := String × String × String × String × Nat × String

def opRow (o : Op) : Row := (o.file, o.func, o.kind, o.guard, o.n, o.expr)
def entryRow (e : Reviewed.Entry) : Row := (e.file, e.func, e.kind, e.guard, e.n, e.expr)

def cert : List Nat := Cog.Gen.PartialOpsCert.certs.flatten

set_option maxRecDepth 200000 in
/-- the certificate is right: row `i` of the table is the reviewed entry at position `cert[i]` -/
theorem cert_ok : ops.map (fun o => some (opRow o)) = cert.map (fun j => (Reviewed.entries[j]?).map entryRow) := by
  rfl

theorem table_ok : Cog.Gen.PartialOps.ok = true := by rfl

theorem map_eq_mem {α β γ : Type} (f : α → γ) (g : β → γ) : ∀ (l : List α) (m : List β),
    l.map f = m.map g → ∀ a ∈ l, ∃ b ∈ m, f a = g b
  | [], _, _, a, ha => by cases ha
  | x :: xs, [], h, _, _ => by simp at h
  | x :: xs, y :: ys, h, a, ha => by
    simp only [List.map_cons, List.cons.injEq] at h
    rcases List.mem_cons.1 ha with rfl | ha'
    · exact ⟨y, List.mem_cons_self .., h.1⟩
    · obtain ⟨b, hb, hfb⟩ := map_eq_mem f g xs ys h.2 a ha'
      exact ⟨b, List.mem_cons_of_mem _ hb, hfb⟩

/-- **every partial operation of the extracted packages is a reviewed entry** -/
theorem partial_ops_accounted :
    Cog.Gen.PartialOps.ok = true ∧ ∀ op ∈ ops, ∃ e ∈ Reviewed.entries, entryRow e = opRow op := by
  refine ⟨table_ok, fun op hop => ?_⟩
  obtain ⟨j, _, hj⟩ := map_eq_mem _ _ ops cert cert_ok op hop
  cases he : Reviewed.entries[j]? with
  | none => simp [he] at hj
  | some e =>
    simp only [he, Option.map_some, Option.some.injEq] at hj
    exact ⟨e, List.mem_of_getElem? he, hj.symm⟩

end Cog.Total
