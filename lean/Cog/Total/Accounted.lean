/-
  C04 — `partial_ops_accounted`: every row of the table REGENERATED from /repo by
  /verif/extract/xpartial (`Cog.Gen.PartialOps.ops`) is listed in the reviewed list
  (`Cog.Total.Reviewed.entries`) under the same key
      file|function|kind|guard|multiplicity|expression text .
  A new unchecked assertion / index / dereference / map write / recursion in any function of the
  extracted packages, a second copy of an existing one, or the removal of a syntactic guard changes
  a key and makes the `decide` below fail; rows that disappear from /repo do not (the reviewed list
  may hold more than the table).  Both lists are sorted the same way, so the check is a linear
  subsequence test, lifted to membership by `isSubseq_mem`.
-/
import Cog.Gen.PartialOps
import Cog.Total.Reviewed
namespace Cog.Total
open Cog.Gen.PartialOps (Op ops)

def natStr (n : Nat) : String := String.ofList (Nat.toDigits 10 n)

def opKey (o : Op) : String :=
  o.file ++ "|" ++ o.func ++ "|" ++ o.kind ++ "|" ++ o.guard ++ "|" ++ natStr o.n ++ "|" ++ o.expr

/-- `a` is a subsequence of `b` (greedy matching) -/
def isSubseq : List String → List String → Bool
  | [], _ => true
  | _ :: _, [] => false
  | a :: as, b :: bs => if a == b then isSubseq as bs else isSubseq (a :: as) bs

theorem isSubseq_mem : ∀ (a b : List String), isSubseq a b = true → ∀ x ∈ a, x ∈ b
  | [], _, _, x, hx => by cases hx
  | _ :: _, [], h, _, _ => by simp [isSubseq] at h
  | a :: as, b :: bs, h, x, hx => by
    simp only [isSubseq] at h
    by_cases hab : (a == b) = true
    · simp only [hab, if_true] at h
      have hab' : a = b := by simpa using hab
      rcases List.mem_cons.1 hx with rfl | hx'
      · simp [hab']
      · exact List.mem_cons_of_mem _ (isSubseq_mem as bs h x hx')
    · simp only [hab, Bool.false_eq_true, if_false] at h
      exact List.mem_cons_of_mem _ (isSubseq_mem (a :: as) bs h x hx)

def reviewedKeys : List String := Reviewed.entries.map (·.key)

/-- the decidable core, evaluated by the kernel on the regenerated table -/
def accountedB : Bool := Cog.Gen.PartialOps.ok && isSubseq (ops.map opKey) reviewedKeys

theorem accounted_of_table (h : accountedB = true) :
    Cog.Gen.PartialOps.ok = true ∧ ∀ op ∈ ops, ∃ e ∈ Reviewed.entries, e.key = opKey op := by
  simp only [accountedB, Bool.and_eq_true] at h
  refine ⟨h.1, fun op hop => ?_⟩
  have hm : opKey op ∈ reviewedKeys :=
    isSubseq_mem _ _ h.2 (opKey op) (List.mem_map.2 ⟨op, hop, rfl⟩)
  obtain ⟨e, he, hk⟩ := List.mem_map.1 hm
  exact ⟨e, he, hk⟩

end Cog.Total
