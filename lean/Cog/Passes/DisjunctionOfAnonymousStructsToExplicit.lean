/-
  Model of internal/ast/compiler/disjunctions_of_anonymous_to_explicit.go.
  `OnDisjunction` hook: struct branches are visited (`visitor.VisitType`) and then turned into
  objects registered with `RegisterNewObject` (appended after the visited objects, not visited
  themselves in this pass); NON-struct branches are not visited at all.  A disjunction with exactly
  one scalar and one struct branch is left alone (and not visited).
-/
import Cog.Passes.Visitor
namespace Cog.Passes.DisjunctionOfAnonymousStructsToExplicit
open Cog.IR Cog.Passes

/-- `generateBranchName` -/
def branchNameFields : List Field → Option String
  | [] => none
  | f :: fs =>
    match f.ty with
    | .scalar _ v _ _ => if Val.isNil v then branchNameFields fs else some (ucc f.name ++ ucc (fmtV v))
    | _ => branchNameFields fs

def generateBranchName (fs : List Field) (i : Nat) : String :=
  match branchNameFields fs with
  | some n => n
  | none => "Branch" ++ toString i

def countKinds : List Ty → Nat × Nat
  | [] => (0, 0)
  | b :: bs =>
    let r := countKinds bs
    if b.isScalar then (r.1 + 1, r.2) else if b.isStruct then (r.1, r.2 + 1) else r

mutual
def vTy (pkg : String) : Ty → NewObjs → Ty × NewObjs
  | .array e m, n =>
    let r := vTy pkg e n
    (.array r.1 m, r.2)
  | .map i v m, n =>
    let r := vTy pkg v n
    (.map i r.1 m, r.2)
  | .struct fs g gi m, n =>
    let r := vFields pkg fs n
    (.struct r.1 g gi m, r.2)
  | .disj bs info m, n =>
    let c := countKinds bs
    if c.1 == 1 && c.2 == 1 then (.disj bs info m, n)
    else
      let r := hookBranches pkg bs 0 n
      (.disj r.1 info m, r.2)
  | .inter bs m, n =>
    let r := vList pkg bs n
    (.inter r.1 m, r.2)
  | t, n => (t, n)
def vList (pkg : String) : List Ty → NewObjs → List Ty × NewObjs
  | [], n => ([], n)
  | t :: ts, n =>
    let r := vTy pkg t n
    let rs := vList pkg ts r.2
    (r.1 :: rs.1, rs.2)
def vFields (pkg : String) : List Field → NewObjs → List Field × NewObjs
  | [], n => ([], n)
  | f :: fs, n =>
    let r := vTy pkg f.ty n
    let rs := vFields pkg fs r.2
    ({ f with ty := r.1 } :: rs.1, rs.2)
/-- the loop over the branches of a disjunction being made explicit -/
def hookBranches (pkg : String) : List Ty → Nat → NewObjs → List Ty × NewObjs
  | [], _, n => ([], n)
  | b :: bs, i, n =>
    match b with
    | .struct fs g gi m =>
      let name := generateBranchName fs i
      let r := vFields pkg fs n
      let n1 := registerNew (newObject pkg name (.struct r.1 g gi m)) r.2
      let rs := hookBranches pkg bs (i + 1) n1
      (.ref pkg name {} :: rs.1, rs.2)
    | _ =>
      let rs := hookBranches pkg bs (i + 1) n
      (b :: rs.1, rs.2)
end

def run (ss : Schemas) : Outcome Schemas :=
  visitSchemas (fun _ s => visitSchemaSt (fun t n => .ok (vTy s.pkg t n)) s) ss

end Cog.Passes.DisjunctionOfAnonymousStructsToExplicit
