/-
  The two traversals shared by the visitor-based passes that install ONLY an `OnDisjunction` hook
  (visitor.go): default recursion into array element, map VALUE (the index type is not walked),
  struct fields, intersection branches; at a disjunction the hook is called INSTEAD of the default
  recursion, so unless the hook itself recurses the branches are not visited.

  `dv`   : hook without state         (DisjunctionWithNullToOptional, DisjunctionOfConstantsToEnum,
                                       FlattenDisjunctions, DisjunctionInferMapping,
                                       UndiscriminatedDisjunctionToAny)
  `dvSt` : hook threading the registry of `RegisterNewObject`          (DisjunctionToType)
-/
import Cog.Passes.Common
namespace Cog.Passes
open Cog.IR

abbrev DisjHook := List Ty → DisjInfo → Meta → Outcome Ty

mutual
def dvTy (hook : DisjHook) : Ty → Outcome Ty
  | .array e m =>
    match dvTy hook e with
    | .ok e' => .ok (.array e' m)
    | .err x => .err x
    | .panic x => .panic x
  | .map i v m =>
    match dvTy hook v with
    | .ok v' => .ok (.map i v' m)
    | .err x => .err x
    | .panic x => .panic x
  | .struct fs g gi m =>
    match dvFields hook fs with
    | .ok fs' => .ok (.struct fs' g gi m)
    | .err x => .err x
    | .panic x => .panic x
  | .disj bs i m => hook bs i m
  | .inter bs m =>
    match dvList hook bs with
    | .ok bs' => .ok (.inter bs' m)
    | .err x => .err x
    | .panic x => .panic x
  | t => .ok t
def dvList (hook : DisjHook) : List Ty → Outcome (List Ty)
  | [] => .ok []
  | t :: ts =>
    match dvTy hook t with
    | .ok t' =>
      match dvList hook ts with
      | .ok ts' => .ok (t' :: ts')
      | .err x => .err x
      | .panic x => .panic x
    | .err x => .err x
    | .panic x => .panic x
def dvFields (hook : DisjHook) : List Field → Outcome (List Field)
  | [] => .ok []
  | f :: fs =>
    match dvTy hook f.ty with
    | .ok t' =>
      match dvFields hook fs with
      | .ok fs' => .ok ({ f with ty := t' } :: fs')
      | .err x => .err x
      | .panic x => .panic x
    | .err x => .err x
    | .panic x => .panic x
end

/-- a pass made of one `OnDisjunction` hook that may look at the schema being visited and at the
    partially updated `schemas` slice -/
def runDisjPass (hook : Schemas → Schema → DisjHook) (ss : Schemas) : Outcome Schemas :=
  visitSchemas (fun cur s => visitSchemaPure (dvTy (hook cur s)) s) ss

abbrev DisjHookSt := List Ty → DisjInfo → Meta → NewObjs → Outcome (Ty × NewObjs)

mutual
def dvStTy (hook : DisjHookSt) : Ty → NewObjs → Outcome (Ty × NewObjs)
  | .array e m, n =>
    match dvStTy hook e n with
    | .ok (e', n') => .ok (.array e' m, n')
    | .err x => .err x
    | .panic x => .panic x
  | .map i v m, n =>
    match dvStTy hook v n with
    | .ok (v', n') => .ok (.map i v' m, n')
    | .err x => .err x
    | .panic x => .panic x
  | .struct fs g gi m, n =>
    match dvStFields hook fs n with
    | .ok (fs', n') => .ok (.struct fs' g gi m, n')
    | .err x => .err x
    | .panic x => .panic x
  | .disj bs i m, n => hook bs i m n
  | .inter bs m, n =>
    match dvStList hook bs n with
    | .ok (bs', n') => .ok (.inter bs' m, n')
    | .err x => .err x
    | .panic x => .panic x
  | t, n => .ok (t, n)
def dvStList (hook : DisjHookSt) : List Ty → NewObjs → Outcome (List Ty × NewObjs)
  | [], n => .ok ([], n)
  | t :: ts, n =>
    match dvStTy hook t n with
    | .ok (t', n1) =>
      match dvStList hook ts n1 with
      | .ok (ts', n2) => .ok (t' :: ts', n2)
      | .err x => .err x
      | .panic x => .panic x
    | .err x => .err x
    | .panic x => .panic x
def dvStFields (hook : DisjHookSt) : List Field → NewObjs → Outcome (List Field × NewObjs)
  | [], n => .ok ([], n)
  | f :: fs, n =>
    match dvStTy hook f.ty n with
    | .ok (t', n1) =>
      match dvStFields hook fs n1 with
      | .ok (fs', n2) => .ok ({ f with ty := t' } :: fs', n2)
      | .err x => .err x
      | .panic x => .panic x
    | .err x => .err x
    | .panic x => .panic x
end

end Cog.Passes
