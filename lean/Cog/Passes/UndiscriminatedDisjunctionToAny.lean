/-
  Model of internal/ast/compiler/undiscriminated_disjunctions_to_any.go.
  `OnDisjunction` hook, no recursion into branches.
-/
import Cog.Passes.Visitor
namespace Cog.Passes.UndiscriminatedDisjunctionToAny
open Cog.IR Cog.Passes

/-- all branches resolve (inside the current schema, by bare name) to scalars of kind `k` -/
def allScalarKind (s : Schema) (fuel : Nat) (k : String) : List Ty → Outcome Bool
  | [] => .ok true
  | b :: bs =>
    match Schema.resolve s fuel b with
    | .panic p => .panic p
    | .err e => .err e
    | .ok (some (.scalar k' _ _ _)) => if k' != k then .ok false else allScalarKind s fuel k bs
    | .ok _ => .ok false

/-- `hasOnlySingleTypeScalars` (also used by DisjunctionToType); returns the scalar kind -/
def singleScalarKind (s : Schema) (fuel : Nat) : List Ty → Outcome (Option String)
  | [] => .ok none
  | b :: bs =>
    match Schema.resolve s fuel b with
    | .panic p => .panic p
    | .err e => .err e
    | .ok (some (.scalar k _ _ _)) =>
      match allScalarKind s fuel k (b :: bs) with
      | .ok true => .ok (some k)
      | .ok false => .ok none
      | .err e => .err e
      | .panic p => .panic p
    | .ok _ => .ok none

def hook (cur : Schemas) (s : Schema) : DisjHook := fun bs info m =>
  match singleScalarKind s (Schemas.fuel cur) bs with
  | .panic p => .panic p
  | .err e => .err e
  | .ok (some _) => .ok (.disj bs info m)
  | .ok none =>
    if hasOnlyScalarOrArrayOrMap bs then .ok (.disj bs info m)
    else if hasOnlyRefs bs && (info.discriminator == "" || info.mapping.isEmpty) then
      .ok (.scalar "any" .nil [] {})
    else .ok (.disj bs info m)

def run (ss : Schemas) : Outcome Schemas := runDisjPass hook ss

end Cog.Passes.UndiscriminatedDisjunctionToAny
