/-
  Model of internal/ast/compiler/inline_objects_with_types.go (PHP chain).

  (1) every object whose type resolves (through references, across schemas) to one of
      `InlineTypes`, constants excepted, is recorded: `objectsToInline[selfRef] = resolved type`.
      The recorded value is NOT a copy: it shares the kind pointers of the object that ends the
      alias chain (its `owner`).
  (2) the visitor (default recursion, `OnRef` hook) replaces every reference to a recorded object
      by a DEEP COPY OF THE RECORDED VALUE AS IT IS AT THAT MOMENT, and does not visit the copy.
      Because the default recursion assigns visited children in place, the recorded value of an
      owner that has already been visited has its own references inlined, the recorded value of an
      owner not yet visited has not — the result depends on the declaration order — and while the
      owner itself is being visited the recorded value is the partially updated tree (`ctx`
      rebuilds it around the position being visited).
  (3) recorded objects are dropped.

  The nullability / default / hints of the replaced reference are lost (the copy keeps those of the
  recorded type).
-/
import Cog.Passes.Common
namespace Cog.Passes.InlineObjectsWithTypes
open Cog.IR Cog.Passes
open Cog.OMap (rget rset)

structure Entry where
  ownerPkg : String
  ownerName : String
  ty : Ty

abbrev Store := List (String × Entry)

/-- follow an alias chain, returning the resolved type together with the (package, map key) of the
    object that holds it (`none`: the start type itself) -/
def resolveOwner (ss : Schemas) : Nat → Ty → Option (String × String) → Option (Ty × Option (String × String))
  | 0, _, _ => none
  | fuel + 1, t, owner =>
    match t with
    | .ref pkg name _ =>
      match Schemas.locateObject ss pkg name with
      | some o => resolveOwner ss fuel o.ty (some (pkg, name))
      | none => some (t, owner)
    | _ => some (t, owner)

def collectObjects (ss : Schemas) (kinds : List String) (pkg : String) : Objects → Store → Outcome Store
  | [], st => .ok st
  | (k, o) :: rest, st =>
    match resolveOwner ss (Schemas.fuel ss) o.ty (some (pkg, k)) with
    | none => .panic "stack-overflow"
    | some (resolved, owner) =>
      if !kinds.contains resolved.kind || isConcreteScalar o.ty then collectObjects ss kinds pkg rest st
      else
        let ow := owner.getD (pkg, k)
        collectObjects ss kinds pkg rest (rset (refKey o.selfPkg o.selfName) { ownerPkg := ow.1, ownerName := ow.2, ty := resolved } st)

def collect (ss : Schemas) (kinds : List String) : Schemas → Store → Outcome Store
  | [], st => .ok st
  | s :: rest, st =>
    match collectObjects ss kinds s.pkg s.objects st with
    | .ok st' => collect ss kinds rest st'
    | .err e => .err e
    | .panic p => .panic p

/-- `cur`: the (package, key) of the object being visited -/
def lookupRef (st : Store) (cur : Option (String × String)) (whole : Ty) (pkg name : String) (m : Meta) : Ty :=
  match rget (refKey pkg name) st with
  | none => .ref pkg name m
  | some ent => if cur == some (ent.ownerPkg, ent.ownerName) then whole else ent.ty

mutual
def vTy (st : Store) (cur : Option (String × String)) (ctx : Ty → Ty) : Ty → Ty
  | .ref p n m => lookupRef st cur (ctx (.ref p n m)) p n m
  | .array e m => .array (vTy st cur (fun x => ctx (.array x m)) e) m
  | .map i v m => .map i (vTy st cur (fun x => ctx (.map i x m)) v) m
  | .struct fs g gi m => .struct (vFields st cur (fun fs' => ctx (.struct fs' g gi m)) [] fs) g gi m
  | .disj bs i m => .disj (vList st cur (fun bs' => ctx (.disj bs' i m)) [] bs) i m
  | .inter bs m => .inter (vList st cur (fun bs' => ctx (.inter bs' m)) [] bs) m
  | t => t
def vList (st : Store) (cur : Option (String × String)) (ctx : List Ty → Ty) (pre : List Ty) : List Ty → List Ty
  | [] => []
  | t :: ts =>
    let t' := vTy st cur (fun x => ctx (pre ++ x :: ts)) t
    t' :: vList st cur ctx (pre ++ [t']) ts
def vFields (st : Store) (cur : Option (String × String)) (ctx : List Field → Ty) (pre : List Field) : List Field → List Field
  | [] => []
  | f :: fs =>
    let t' := vTy st cur (fun x => ctx (pre ++ { f with ty := x } :: fs)) f.ty
    { f with ty := t' } :: vFields st cur ctx (pre ++ [{ f with ty := t' }]) fs
end

/-- after an owner has been visited, every recorded value it owns is the visited type -/
def updateOwner (pkg key : String) (t : Ty) : Store → Store
  | [] => []
  | (k, e) :: rest =>
    (k, if e.ownerPkg = pkg ∧ e.ownerName = key then { e with ty := t } else e) :: updateOwner pkg key t rest

def visitObjects (pkg : String) : Objects → Objects → Store → Objects × Store
  | [], acc, st => (acc, st)
  | (k, o) :: rest, acc, st =>
    let t := vTy st (some (pkg, k)) id o.ty
    visitObjects pkg rest (rset o.name { o with ty := t } acc) (updateOwner pkg k t st)

def visitAll : Schemas → Store → Schemas × Store
  | [], st => ([], st)
  | s :: rest, st =>
    let ept := vTy st none id s.entryPointType
    let r := visitObjects s.pkg s.objects [] st
    let rs := visitAll rest r.2
    ({ s with entryPointType := ept, objects := r.1 } :: rs.1, rs.2)

def dropInlined (st : Store) (s : Schema) : Schema :=
  { s with objects := s.objects.filter fun (_, o) => (rget (refKey o.selfPkg o.selfName) st).isNone }

def run (kinds : List String) (ss : Schemas) : Outcome Schemas :=
  match collect ss kinds ss [] with
  | .err e => .err e
  | .panic p => .panic p
  | .ok st =>
    let r := visitAll ss st
    .ok (r.1.map (dropInlined r.2))

end Cog.Passes.InlineObjectsWithTypes
