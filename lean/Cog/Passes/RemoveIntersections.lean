/-
  Model of internal/ast/compiler/remove_intersections.go (Java chain).  Despite its name the pass
  never looks at intersections: it (A) replaces every object that is a bare reference to a struct
  object by a struct with the SAME field slice (`ast.NewStruct(located.Fields...)` shares the
  backing array) and schedules the referred object for removal; remembers objects that are bare
  references to an array object; (B) rewrites, in every struct OBJECT (top-level fields only), the
  fields that refer to a removed / array-alias object — the replacement field is built with
  `ast.NewStructField`, i.e. NOT required, not nullable, comments of the alias object; (C) removes
  the scheduled objects.

  In-place mutation that is observable and therefore modelled:
  * `objectsToRemove` / `arraysToFix` are Go maps keyed by bare names; since the /repo fix
    "RemoveIntersections bookkeeping leaked from one schema into the next" they are cleared at the
    start of every schema (`runFrom` restarts from the empty state; the former behaviour — state
    threaded through the schemas — is kept as `runLeaky` with a witness in Props/C07);
  * phase (A) writes into `schema.Objects` while iterating, so a later alias of an alias sees the
    already-replaced struct;
  * phase (B) mutates the shared field slice: every object sharing it sees the rewrite, and is
    rewritten again when its own turn comes (`share` maps an object key to the key owning its
    field slice).
-/
import Cog.Passes.Common
namespace Cog.Passes.RemoveIntersections
open Cog.IR Cog.Passes
open Cog.OMap (rget rset rdel)

structure St where
  toRemove : List (String × Obj) := []     -- objectsToRemove
  arrays : List (String × Obj) := []       -- arraysToFix

def root (share : List (String × String)) (k : String) : String := (rget k share).getD k

/-- phase A on one key -/
def phaseAOne (key : String) (objs : Objects) (share : List (String × String)) (st : St) :
    Outcome (Objects × List (String × String) × St) :=
  match rget key objs with
  | none => .ok (objs, share, st)
  | some o =>
    match o.ty with
    | .ref _ rname om =>
      match rget rname objs with
      | none => .ok (objs, share, st)
      | some located =>
        match located.ty with
        | .struct fs g gi lm =>
          let variant : Outcome (List (String × Val)) :=
            match rget "implements_variant" om.hints with
            | none => .ok []
            | some (.str v) => .ok [("implements_variant", .str v)]
            | some _ => .panic "RemoveIntersections: Hints[implements_variant].(string)"
          match variant with
          | .panic p => .panic p
          | .err e => .err e
          | .ok h0 =>
            let newTy : Ty := .struct fs g gi { nullable := false, dflt := .nil, hints := mapSetAll lm.hints h0 }
            .ok (rset key { o with ty := newTy } objs, rset key (root share rname) share,
                 { st with toRemove := rset located.name o st.toRemove })
        | .array .. =>
          .ok (objs, share, { toRemove := rset o.name o st.toRemove, arrays := rset o.name located st.arrays })
        | _ => .ok (objs, share, st)
    | _ => .ok (objs, share, st)

def phaseA : List String → Objects → List (String × String) → St → Outcome (Objects × List (String × String) × St)
  | [], objs, share, st => .ok (objs, share, st)
  | k :: ks, objs, share, st =>
    match phaseAOne k objs share st with
    | .ok (objs', share', st') => phaseA ks objs' share' st'
    | .err e => .err e
    | .panic p => .panic p

/-- `processStruct` on the field slice -/
def fixFields (st : St) : List Field → List Field
  | [] => []
  | f :: fs =>
    let f' : Field :=
      match f.ty with
      | .ref _ n m =>
        let f1 : Field := match rget n st.toRemove with
          | some obj => { name := f.name, ty := .ref obj.selfPkg obj.selfName {}, required := false, comments := obj.comments }
          | none => f
        let f2 : Field := match rget n st.arrays with
          | some obj =>
            match obj.ty with
            | .array e _ => { name := f.name, ty := .array e {}, required := false, comments := obj.comments }
            | _ => f1
          | none => f1
        { f2 with ty := f2.ty.setMeta { f2.ty.getMeta with hints := mapSetAll m.hints f2.ty.getMeta.hints } }
      | _ => f
    f' :: fixFields st fs

def writeShared (share : List (String × String)) (r : String) (fs' : List Field) : Objects → Objects
  | [] => []
  | (k, o) :: rest =>
    let o' := if root share k = r then
        match o.ty with
        | .struct _ g gi m => { o with ty := .struct fs' g gi m }
        | _ => o
      else o
    (k, o') :: writeShared share r fs' rest

def phaseB (share : List (String × String)) (st : St) : List String → Objects → Objects
  | [], objs => objs
  | k :: ks, objs =>
    match rget k objs with
    | some o =>
      match o.ty with
      | .struct fs _ _ _ => phaseB share st ks (writeShared share (root share k) (fixFields st fs) objs)
      | _ => phaseB share st ks objs
    | none => phaseB share st ks objs

def processSchema (s : Schema) (st : St) : Outcome (Schema × St) :=
  let keys := s.objects.map (·.1)
  match phaseA keys s.objects [] st with
  | .err e => .err e
  | .panic p => .panic p
  | .ok (objs, share, st') =>
    let objs' := phaseB share st' keys objs
    let objs'' := st'.toRemove.foldl (fun acc (k, _) => rdel k acc) objs'
    .ok ({ s with objects := objs'' }, st')

/-- the pass before the fix: the bookkeeping survives from one schema to the next -/
def runLeakyFrom : Schemas → St → Outcome Schemas
  | [], _ => .ok []
  | s :: rest, st =>
    match processSchema s st with
    | .err e => .err e
    | .panic p => .panic p
    | .ok (s', st') =>
      match runLeakyFrom rest st' with
      | .ok rest' => .ok (s' :: rest')
      | .err e => .err e
      | .panic p => .panic p

def runLeaky (ss : Schemas) : Outcome Schemas := runLeakyFrom ss {}

/-- current tree: `clear(...)` at the start of `processSchema` -/
def runFrom : Schemas → St → Outcome Schemas
  | [], _ => .ok []
  | s :: rest, _ =>
    match processSchema s {} with
    | .err e => .err e
    | .panic p => .panic p
    | .ok (s', _) =>
      match runFrom rest {} with
      | .ok rest' => .ok (s' :: rest')
      | .err e => .err e
      | .panic p => .panic p

def run (ss : Schemas) : Outcome Schemas := runFrom ss {}

end Cog.Passes.RemoveIntersections
