/-
  Model of internal/ast/compiler/not_required_as_nullable.go.
  Visitor with `OnStructField` only; the hook itself calls `visitor.VisitType` on the field type,
  so the default recursion (array element, map VALUE, struct fields, disjunction and intersection
  branches) reaches every field at those positions.
-/
import Cog.Passes.Common
namespace Cog.Passes.NotRequiredFieldAsNullableType
open Cog.IR Cog.Passes

def fixField (f : Field) (t : Ty) : Field :=
  if !f.required && !t.getMeta.nullable then { f with ty := setNullable true t } else { f with ty := t }

mutual
def vTy : Ty → Ty
  | .array e m => .array (vTy e) m
  | .map i v m => .map i (vTy v) m
  | .struct fs g gi m => .struct (vFields fs) g gi m
  | .disj bs i m => .disj (vList bs) i m
  | .inter bs m => .inter (vList bs) m
  | t => t
def vList : List Ty → List Ty
  | [] => []
  | t :: ts => vTy t :: vList ts
def vFields : List Field → List Field
  | [] => []
  | f :: fs => fixField f (vTy f.ty) :: vFields fs
end

def run (ss : Schemas) : Outcome Schemas :=
  visitSchemas (fun _ s => visitSchemaPure (fun t => .ok (vTy t)) s) ss

end Cog.Passes.NotRequiredFieldAsNullableType
