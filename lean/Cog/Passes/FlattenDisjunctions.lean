/-
  Model of internal/ast/compiler/flatten_disjunctions.go.
  `OnDisjunction` hook, no recursion into branches.  Quirks kept:
  * branches are de-duplicated by a NAME (`ast.TypeName`, `branch_<i>` for structs,
    `concrete_<name>_<value>` for constants): two different maps / enums / arrays of the same
    element name collapse into the first;
  * a reference is resolved with `schema.Resolve`, i.e. by bare name inside the CURRENT schema
    (the package of the reference is ignored); an unresolvable reference branch is DROPPED;
  * the inner loop tests `branch.IsStruct()` on the OUTER branch (always a reference there), so
    inner struct branches are named `Struct` and collapse as well;
  * only one level is flattened per pass (the referred object is read as it was before the pass).

  NOT modelled (tree model): the branches copied out of the referred object's union keep sharing
  their kind pointers (`*ArrayType`, `*MapType`, …) with that object.  A LATER pass of the same chain
  that assigns visited children in place below union branches (only InlineObjectsWithTypes, PHP chain)
  then changes both objects at once.  `sharesMutable` tells when a run of this pass creates such
  sharing on a branch that has children and mentions a reference; the chain driver reports those
  inputs as `shared` instead of claiming an output for them (see Chain.lean, checks/c06.py).
-/
import Cog.Passes.Visitor
namespace Cog.Passes.FlattenDisjunctions
open Cog.IR Cog.Passes

/-- `addBranch`: `seen` is `branchMap` -/
def addBranch (name : String) (t : Ty) (acc : List String × List Ty) : List String × List Ty :=
  if acc.1.contains name then acc else (acc.1 ++ [name], acc.2 ++ [t])

def addInner : List Ty → List String × List Ty → List String × List Ty
  | [], acc => acc
  | rb :: rbs, acc => addInner rbs (addBranch (typeName rb) rb acc)

def branchName (i : Nat) (b : Ty) : String :=
  let n0 := typeName b
  let n1 := if b.isStruct then "branch_" ++ toString i else n0
  match b with
  | .scalar _ v _ _ => if Val.isNil v then n1 else "concrete_" ++ n1 ++ "_" ++ fmtV v
  | _ => n1

def flatten (s : Schema) (fuel : Nat) : List Ty → Nat → List String × List Ty → Outcome (List Ty)
  | [], _, acc => .ok acc.2
  | b :: bs, i, acc =>
    let name := branchName i b
    if !b.isRef then flatten s fuel bs (i + 1) (addBranch name b acc)
    else match Schema.resolve s fuel b with
      | .panic p => .panic p
      | .err e => .err e
      | .ok none => flatten s fuel bs (i + 1) acc
      | .ok (some (.disj rbs _ _)) => flatten s fuel bs (i + 1) (addInner rbs acc)
      | .ok (some _) => flatten s fuel bs (i + 1) (addBranch name b acc)

def hook (cur : Schemas) (s : Schema) : DisjHook := fun bs info m =>
  match flatten s (Schemas.fuel cur) bs 0 ([], []) with
  | .ok bs' => .ok (.disj bs' info m)
  | .err e => .err e
  | .panic p => .panic p

def run (ss : Schemas) : Outcome Schemas := runDisjPass hook ss

/-- a branch with children (its kind pointer is what stays shared) that mentions a reference -/
def mutableInner (b : Ty) : Bool :=
  (b.isArray || b.isMap || b.isStruct || b.isDisj || (match b with | .inter .. => true | _ => false)) && !(Ty.refs b).isEmpty

def probeBranches (s : Schema) (fuel : Nat) : List Ty → Bool
  | [] => false
  | b :: bs =>
    (b.isRef && (match Schema.resolve s fuel b with
      | .ok (some (.disj rbs _ _)) => rbs.any mutableInner
      | _ => false)) || probeBranches s fuel bs

/-- does this run of the pass copy, into some visited union, a branch of another object's union that
    has children and mentions a reference? -/
def sharesMutable (ss : Schemas) : Bool :=
  let probe : Schemas → Schema → DisjHook := fun cur s bs info m =>
    if probeBranches s (Schemas.fuel cur) bs then .err "shared" else .ok (.disj bs info m)
  match runDisjPass probe ss with
  | .err "shared" => true
  | _ => false

end Cog.Passes.FlattenDisjunctions
