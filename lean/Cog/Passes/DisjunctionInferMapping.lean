/-
  Model of internal/ast/compiler/disjunctions_infer_mapping.go.
  `OnDisjunction` hook on disjunctions made of references only, no recursion into branches.
  * `inferDiscriminatorField` examines the candidate field names of the first branch in SORTED order
    (`sort.Strings`) and takes the first one present in every branch: the alphabetically smallest
    qualifying name (`smallest`).  The choice is kept as a parameter `pick` of `hookWith` only
    because the preservation lemmas do not depend on it.
  * partial operations: none left that a refs-only union can reach (`branch.AsRef()` is only
    called on references).  /repo fixes 375123d and 146d1ec turned the former panics into plain
    failures of the inference: a union without branches has no discriminator candidate, a branch that
    does not resolve to a struct or a discriminator value that is not a string makes the mapping
    inference fail.  The former behaviour is kept as `qualifyingPreFix` / `buildPreFix` /
    `hookWithPreFix` / `runPreFix`.
  * on a failed mapping inference the discriminator inferred so far STAYS (it was written through
    the `*DisjunctionType` pointer).
-/
import Cog.Passes.Visitor
namespace Cog.Passes.DisjunctionInferMapping
open Cog.IR Cog.Passes
open Cog.OMap (rget rset)

/-- candidate fields of one struct: concrete string scalars and constant references
    (`candidates[typeName]`, a Go map: one entry per field name) -/
def structCandidates : List Field → List String
  | [] => []
  | f :: fs =>
    let rest := structCandidates fs
    let ok := match f.ty with
      | .scalar k v _ _ => !Val.isNil v && k == "string"
      | .cref .. => true
      | _ => false
    if ok && !rest.contains f.name then f.name :: rest else rest

/-- `candidates`: type name ↦ candidate field names (later branch with the same bare type name
    overwrites) -/
def collect (s : Schema) (fuel : Nat) : List Ty → List (String × List String) → Outcome (List (String × List String))
  | [], acc => .ok acc
  | b :: bs, acc =>
    match b with
    | .ref _ name _ =>
      match Schema.resolve s fuel b with
      | .panic p => .panic p
      | .err e => .err e
      | .ok (some (.struct fs _ _ _)) => collect s fuel bs (rset name (structCandidates fs) acc)
      | .ok _ => collect s fuel bs acc
    | _ => collect s fuel bs acc

/-- the qualifying names: fields of `candidates[someType]` present in every entry -/
def qualifying (s : Schema) (fuel : Nat) (bs : List Ty) : Outcome (List String) :=
  match bs with
  | [] => .ok []                       -- no branch: ("", false) (fix 146d1ec)
  | b0 :: _ =>
    match collect s fuel bs [] with
    | .panic p => .panic p
    | .err e => .err e
    | .ok cands =>
      let some0 := match b0 with | .ref _ n _ => n | _ => ""
      let mine := (rget some0 cands).getD []
      .ok (mine.filter fun f => cands.all fun (_, fs) => fs.contains f)

/-- before fix 146d1ec: `def.Branches[0]` panicked on a union without branches -/
def qualifyingPreFix (s : Schema) (fuel : Nat) (bs : List Ty) : Outcome (List String) :=
  match bs with
  | [] => .panic "DisjunctionInferMapping: def.Branches[0]"
  | b0 :: _ =>
    match collect s fuel bs [] with
    | .panic p => .panic p
    | .err e => .err e
    | .ok cands =>
      let some0 := match b0 with | .ref _ n _ => n | _ => ""
      let mine := (rget some0 cands).getD []
      .ok (mine.filter fun f => cands.all fun (_, fs) => fs.contains f)

def smallest : List String → String
  | [] => ""
  | x :: xs => xs.foldl (fun a b => if b < a then b else a) x

inductive Built where
  | mapping (m : List (String × String))
  | failed

/-- `buildDiscriminatorMapping` (discriminator non-empty) -/
def build (s : Schema) (fuel : Nat) (disc : String) : List Ty → List (String × String) → Outcome Built
  | [], acc => .ok (.mapping acc)
  | b :: bs, acc =>
    match b with
    | .ref _ tname _ =>
      match Schema.resolve s fuel b with
      | .panic p => .panic p
      | .err e => .err e
      | .ok none => .ok .failed
      | .ok (some (.struct fs _ _ _)) =>
        match fs.find? (fun f => f.name == disc) with
        | none => .ok .failed
        | some f =>
          match f.ty with
          | .scalar _ v _ _ =>
            if Val.isNil v then .ok .failed
            else match v with
              | .str sv => build s fuel disc bs (mapSet sv tname acc)
              | _ => .ok .failed         -- "does not hold a string" (fix 375123d)
          | .cref _ _ v _ =>
            match v with
            | .str sv => build s fuel disc bs (mapSet sv tname acc)
            | _ => .ok .failed           -- "does not hold a string" (fix 375123d)
          | _ => .ok .failed
      | .ok (some _) => .ok .failed    -- "discriminated branch … is not a struct" (fix 375123d)
    | _ => .panic "DisjunctionInferMapping: branch.AsRef()"

/-- `buildDiscriminatorMapping` before fix 375123d: `AsStruct()` on a non-struct branch and the
    `.(string)` assertions panicked -/
def buildPreFix (s : Schema) (fuel : Nat) (disc : String) : List Ty → List (String × String) → Outcome Built
  | [], acc => .ok (.mapping acc)
  | b :: bs, acc =>
    match b with
    | .ref _ tname _ =>
      match Schema.resolve s fuel b with
      | .panic p => .panic p
      | .err e => .err e
      | .ok none => .ok .failed
      | .ok (some (.struct fs _ _ _)) =>
        match fs.find? (fun f => f.name == disc) with
        | none => .ok .failed
        | some f =>
          match f.ty with
          | .scalar _ v _ _ =>
            if Val.isNil v then .ok .failed
            else match v with
              | .str sv => buildPreFix s fuel disc bs (mapSet sv tname acc)
              | _ => .panic "DisjunctionInferMapping: Value.(string)"
          | .cref _ _ v _ =>
            match v with
            | .str sv => buildPreFix s fuel disc bs (mapSet sv tname acc)
            | _ => .panic "DisjunctionInferMapping: ReferenceValue.(string)"
          | _ => .ok .failed
      | .ok (some _) => .panic "DisjunctionInferMapping: referredType.AsStruct()"
    | _ => .panic "DisjunctionInferMapping: branch.AsRef()"

def hookWith (pick : List String → String) (cur : Schemas) (s : Schema) : DisjHook := fun bs info m =>
  if !hasOnlyRefs bs then .ok (.disj bs info m)
  else if info.discriminator != "" && !info.mapping.isEmpty then .ok (.disj bs info m)
  else
    let fuel := Schemas.fuel cur
    let discO : Outcome String :=
      if info.discriminator == "" then
        match qualifying s fuel bs with
        | .ok q => .ok (pick q)
        | .err e => .err e
        | .panic p => .panic p
      else .ok info.discriminator
    match discO with
    | .err e => .err e
    | .panic p => .panic p
    | .ok disc =>
      if !info.mapping.isEmpty then .ok (.disj bs { info with discriminator := disc } m)
      else if disc == "" then .ok (.disj bs { info with discriminator := disc } m)
      else match build s fuel disc bs [] with
        | .panic p => .panic p
        | .err e => .err e
        | .ok .failed => .ok (.disj bs { info with discriminator := disc } m)
        | .ok (.mapping mp) => .ok (.disj bs { discriminator := disc, mapping := mp } m)

/-- the hook before fixes 375123d / 146d1ec -/
def hookWithPreFix (pick : List String → String) (cur : Schemas) (s : Schema) : DisjHook := fun bs info m =>
  if !hasOnlyRefs bs then .ok (.disj bs info m)
  else if info.discriminator != "" && !info.mapping.isEmpty then .ok (.disj bs info m)
  else
    let fuel := Schemas.fuel cur
    let discO : Outcome String :=
      if info.discriminator == "" then
        match qualifyingPreFix s fuel bs with
        | .ok q => .ok (pick q)
        | .err e => .err e
        | .panic p => .panic p
      else .ok info.discriminator
    match discO with
    | .err e => .err e
    | .panic p => .panic p
    | .ok disc =>
      if !info.mapping.isEmpty then .ok (.disj bs { info with discriminator := disc } m)
      else if disc == "" then .ok (.disj bs { info with discriminator := disc } m)
      else match buildPreFix s fuel disc bs [] with
        | .panic p => .panic p
        | .err e => .err e
        | .ok .failed => .ok (.disj bs { info with discriminator := disc } m)
        | .ok (.mapping mp) => .ok (.disj bs { discriminator := disc, mapping := mp } m)

def runWith (pick : List String → String) (ss : Schemas) : Outcome Schemas :=
  runDisjPass (hookWith pick) ss

def run (ss : Schemas) : Outcome Schemas := runWith smallest ss

def runPreFix (ss : Schemas) : Outcome Schemas := runDisjPass (hookWithPreFix smallest) ss

end Cog.Passes.DisjunctionInferMapping
