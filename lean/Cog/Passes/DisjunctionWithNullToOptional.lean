/-
  Model of internal/ast/compiler/disjunctions_with_null_to_optional.go.
  `OnDisjunction` REPLACES the default recursion: the branches of a disjunction are never visited,
  neither when the disjunction is rewritten nor when it is left alone (see Visitor.lean).
  `NonNullTypes()[0]` panics on `null | null`.
-/
import Cog.Passes.Visitor
namespace Cog.Passes.DisjunctionWithNullToOptional
open Cog.IR Cog.Passes

def hook : DisjHook := fun bs info m =>
  if bs.length != 2 || !hasNullType bs then .ok (.disj bs info m)
  else match nonNullTypes bs with
    | [] => .panic "DisjunctionWithNullToOptional: NonNullTypes()[0]"
    | t :: _ => .ok (setNullable true t)

def run (ss : Schemas) : Outcome Schemas := runDisjPass (fun _ _ => hook) ss

end Cog.Passes.DisjunctionWithNullToOptional
