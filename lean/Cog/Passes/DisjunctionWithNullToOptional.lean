/-
  Model of internal/ast/compiler/disjunctions_with_null_to_optional.go.
  `OnDisjunction` REPLACES the default recursion: the branches of a disjunction are never visited,
  neither when the disjunction is rewritten nor when it is left alone (see Visitor.lean).
  `null | null` is returned unchanged (before /repo fix 30da046 `NonNullTypes()[0]` panicked:
  `hookPreFix`).
-/
import Cog.Passes.Visitor
namespace Cog.Passes.DisjunctionWithNullToOptional
open Cog.IR Cog.Passes

def hook : DisjHook := fun bs info m =>
  if bs.length != 2 || !hasNullType bs then .ok (.disj bs info m)
  else match nonNullTypes bs with
    | [] => .ok (.disj bs info m)          -- `null | null`: returned unchanged (fix 30da046)
    | t :: _ => .ok (setNullable true t)

/-- the hook before fix 30da046: `NonNullTypes()[0]` panicked on `null | null` -/
def hookPreFix : DisjHook := fun bs info m =>
  if bs.length != 2 || !hasNullType bs then .ok (.disj bs info m)
  else match nonNullTypes bs with
    | [] => .panic "DisjunctionWithNullToOptional: NonNullTypes()[0]"
    | t :: _ => .ok (setNullable true t)

def runPreFix (ss : Schemas) : Outcome Schemas := runDisjPass (fun _ _ => hookPreFix) ss

def run (ss : Schemas) : Outcome Schemas := runDisjPass (fun _ _ => hook) ss

end Cog.Passes.DisjunctionWithNullToOptional
