/-
  Model of internal/ast/compiler/anonymous_enum.go.
  Own traversal: array element, map INDEX and value, struct fields, disjunction and intersection
  branches.  Every enum met below an object becomes an object `<suggested name>`; inside a struct
  the suggestion is `UpperCamelCase(<object name>) + UpperCamelCase(<field name>)` whatever the
  nesting depth (nested structs pass the OBJECT name down), so two same-named fields at different
  depths produce the same object name and the later one overwrites the earlier (`Objects.Set`).
  The new object is created in the package of `object.SelfRef`, the reference to it uses
  `schema.Package`.
-/
import Cog.Passes.Common
namespace Cog.Passes.AnonymousEnumToExplicitType
open Cog.IR Cog.Passes

def renameMembers : List EnumVal → List EnumVal
  | [] => []
  | v :: vs => { v with name := ucc v.name } :: renameMembers vs

mutual
/-- `processType pkg currentObjectName suggestedEnumName def` (`cur` = `pass.currentPackage`) -/
def processType (cur pkg objName : String) : String → Ty → List Obj → Ty × List Obj
  | sug, .array e m, acc =>
    let r := processType cur pkg objName sug e acc
    (.array r.1 m, r.2)
  | sug, .map i v m, acc =>
    let ri := processType cur pkg objName sug i acc
    let rv := processType cur pkg objName sug v ri.2
    (.map ri.1 rv.1 m, rv.2)
  | _, .struct fs g gi m, acc =>
    let r := processFields cur pkg objName fs acc
    (.struct r.1 g gi m, r.2)
  | sug, .enum vs m, acc =>
    let name := ucc sug
    (.ref cur name { nullable := m.nullable, dflt := .nil, hints := [] },
      acc ++ [newObject pkg name (.enum (renameMembers vs) {})])
  | sug, .disj bs info m, acc =>
    let r := processList cur pkg objName sug bs acc
    (.disj r.1 info m, r.2)
  | sug, .inter bs m, acc =>
    let r := processList cur pkg objName sug bs acc
    (.inter r.1 m, r.2)
  | _, t, acc => (t, acc)
def processList (cur pkg objName : String) : String → List Ty → List Obj → List Ty × List Obj
  | _, [], acc => ([], acc)
  | sug, t :: ts, acc =>
    let r := processType cur pkg objName sug t acc
    let rs := processList cur pkg objName sug ts r.2
    (r.1 :: rs.1, rs.2)
def processFields (cur pkg objName : String) : List Field → List Obj → List Field × List Obj
  | [], acc => ([], acc)
  | f :: fs, acc =>
    let r := processType cur pkg objName (ucc objName ++ ucc f.name) f.ty acc
    let rs := processFields cur pkg objName fs r.2
    ({ f with ty := r.1 } :: rs.1, rs.2)
end

def processObject (cur : String) (o : Obj) (acc : List Obj) : Obj × List Obj :=
  if o.ty.isEnum then (o, acc)
  else
    let r := processType cur o.selfPkg o.name (ucc o.name ++ "Enum") o.ty acc
    ({ o with ty := r.1 }, r.2)

def processObjects (cur : String) : Objects → List Obj → Objects × List Obj
  | [], acc => ([], acc)
  | (k, o) :: rest, acc =>
    let r := processObject cur o acc
    let rs := processObjects cur rest r.2
    ((k, r.1) :: rs.1, rs.2)

def processSchema (s : Schema) : Schema :=
  let r := processObjects s.pkg s.objects []
  { s with objects := addObjects r.2 r.1 }

def run (ss : Schemas) : Outcome Schemas := .ok (ss.map processSchema)

end Cog.Passes.AnonymousEnumToExplicitType
