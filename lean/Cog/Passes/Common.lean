/-
  Definitions shared by the compiler-pass models (core Lean only): the `ast` helpers the passes
  call (`TypeName`, `IsNull`, `Types.HasOnlyRefs`, `Schema.Resolve`, …), the frame of
  `Visitor.VisitSchemas` / `VisitSchema`, and the registry of objects created through
  `Visitor.RegisterNewObject`.

  Conventions
  * A pass model is `def <Pass>.run : Schemas → Outcome Schemas`.  `Outcome.err` is a Go `error`
    return, `Outcome.panic "<site>"` a Go run-time panic (index `[0]`, failed type assertion,
    `As*()` on another kind) or a Go stack overflow (`"stack-overflow"`: recursion through
    references is fuelled; fuel `Schemas.fuel` is larger than any non-cyclic chain).
  * The models are specified on IRs without `Ty.bad` nodes (nil kind pointers); `Ty.bad` is passed
    through unchanged.  `DeepCopy` is the identity on values.
  * Hints are the key-sorted association list of `Meta.hints`; the two struct hints holding a
    `DisjunctionType` are the `gen`/`genInfo` components of `Ty.struct` (see IR/Types.lean).
-/
import Cog.IR.Basic
import Cog.Passes.Str
namespace Cog.Passes
open Cog.IR
open Cog.OMap (rget rset rdel)

/-! ### Outcome plumbing -/

@[simp] theorem Outcome.bind_ok {α β} (a : α) (f : α → Outcome β) : (Outcome.ok a >>= f) = f a := rfl
@[simp] theorem Outcome.bind_err {α β} (e : String) (f : α → Outcome β) : ((Outcome.err e : Outcome α) >>= f) = .err e := rfl
@[simp] theorem Outcome.bind_panic {α β} (e : String) (f : α → Outcome β) : ((Outcome.panic e : Outcome α) >>= f) = .panic e := rfl
@[simp] theorem Outcome.pure_eq {α} (a : α) : (pure a : Outcome α) = .ok a := rfl

theorem Outcome.bind_eq_ok {α β} {x : Outcome α} {f : α → Outcome β} {b : β} :
    (x >>= f) = .ok b ↔ ∃ a, x = .ok a ∧ f a = .ok b := by
  cases x <;> simp

def Outcome.mapM {α β} (f : α → Outcome β) : List α → Outcome (List β)
  | [] => .ok []
  | a :: as => do
    let b ← f a
    let bs ← Outcome.mapM f as
    pure (b :: bs)

/-! ### sizes (fuel for the recursions through references) -/

mutual
def Ty.size : Ty → Nat
  | .array e _ => Ty.size e + 1
  | .map i v _ => Ty.size i + Ty.size v + 1
  | .struct fs g _ _ => Ty.sizeFields fs + Ty.sizeList g + 1
  | .disj bs _ _ => Ty.sizeList bs + 1
  | .inter bs _ => Ty.sizeList bs + 1
  | _ => 1
def Ty.sizeList : List Ty → Nat
  | [] => 0
  | t :: ts => Ty.size t + Ty.sizeList ts
def Ty.sizeFields : List Field → Nat
  | [] => 0
  | f :: fs => Ty.size f.ty + Ty.sizeFields fs
end

def objectsSize : List (String × Obj) → Nat
  | [] => 0
  | (_, o) :: os => Ty.size o.ty + 1 + objectsSize os

def Schemas.fuel : Schemas → Nat
  | [] => 2
  | s :: ss => objectsSize s.objects + Schemas.fuel ss

/-! ### `ast.Type` helpers -/

def isNull : Ty → Bool
  | .scalar "null" _ _ _ => true
  | _ => false

def isConcreteScalar : Ty → Bool
  | .scalar _ v _ _ => !Val.isNil v
  | _ => false

def isNumericKind (k : String) : Bool :=
  k == "float32" || k == "float64" || k == "uint8" || k == "uint16" || k == "uint32" || k == "uint64"
    || k == "int8" || k == "int16" || k == "int32" || k == "int64"

/-- `ast.TypeName` -/
def typeName : Ty → String
  | .ref _ n _ => ucc n
  | .scalar k _ _ _ => ucc k
  | .array e _ => "ArrayOf" ++ typeName e
  | t => ucc t.kind

def hasOnlyScalarOrArrayOrMap : List Ty → Bool
  | [] => true
  | t :: ts => (t.isArray || t.isMap || t.isScalar) && hasOnlyScalarOrArrayOrMap ts

def hasOnlyRefs : List Ty → Bool
  | [] => true
  | t :: ts => t.isRef && hasOnlyRefs ts

def hasNullType : List Ty → Bool
  | [] => false
  | t :: ts => isNull t || hasNullType ts

def nonNullTypes : List Ty → List Ty
  | [] => []
  | t :: ts => if isNull t then nonNullTypes ts else t :: nonNullTypes ts

def setNullable (b : Bool) (t : Ty) : Ty := t.setMeta { t.getMeta with nullable := b }

/-- key-sorted Go `map[string]V` write -/
def mapSet {V} (k : String) (v : V) : List (String × V) → List (String × V)
  | [] => [(k, v)]
  | (k', v') :: rest =>
    if k = k' then (k, v) :: rest
    else if k < k' then (k, v) :: (k', v') :: rest
    else (k', v') :: mapSet k v rest

def mapSetAll {V} (src : List (String × V)) (dst : List (String × V)) : List (String × V) :=
  src.foldl (fun acc (k, v) => mapSet k v acc) dst

/-- `ref.String()` -/
def refKey (pkg name : String) : String := pkg ++ "." ++ name

/-- `ast.NewObject(pkg, name, t)` -/
def newObject (pkg name : String) (t : Ty) : Obj :=
  { name := name, comments := [], ty := t, selfPkg := pkg, selfName := name }

/-- `schema.AddObjects(objs...)`: `Objects.Set(object.Name, object)` one by one -/
def addObjects (objs : List Obj) (m : Objects) : Objects :=
  objs.foldl (fun acc o => rset o.name o acc) m

/-! ### resolution inside one schema: `Schema.Resolve` (by bare name, package ignored) -/

/-- `Schema.Resolve`: `.ok none` is `found = false`; fuel exhaustion is a Go stack overflow -/
def Schema.resolve (s : Schema) : Nat → Ty → Outcome (Option Ty)
  | 0, _ => .panic "stack-overflow"
  | fuel + 1, t =>
    match t with
    | .ref _ name _ =>
      match s.locateObject name with
      | some o => Schema.resolve s fuel o.ty
      | none => .ok none
    | _ => .ok (some t)

/-- `Schemas.ResolveToType` with the stack overflow made explicit -/
def resolveToType (ss : Schemas) (fuel : Nat) (t : Ty) : Outcome Ty :=
  match Schemas.resolveToType ss fuel t with
  | some r => .ok r
  | none => .panic "stack-overflow"

/-! ### the visitor frame -/

/-- registry of `Visitor.RegisterNewObject`: ordered map keyed by `SelfRef.String()` -/
abbrev NewObjs := List (String × Obj)

def registerNew (o : Obj) (n : NewObjs) : NewObjs := rset (refKey o.selfPkg o.selfName) o n
def hasNew (pkg name : String) (n : NewObjs) : Bool := (rget (refKey pkg name) n).isSome

/-- the deferred `newObjects.Iterate(newSchema.AddObject)` of `VisitSchema` -/
def flushNew (n : NewObjs) (m : Objects) : Objects := addObjects (n.map (·.2)) m

/-- `VisitSchemas`: schemas are visited in order and `schemas[i]` is overwritten as soon as it is
    visited; `f` receives that partially updated slice (what a pass that kept `pass.schemas =
    schemas` sees) and the schema to visit. -/
def visitSchemasFrom (f : Schemas → Schema → Outcome Schema) (done : Schemas) : Schemas → Outcome Schemas
  | [] => .ok done
  | s :: rest =>
    match f (done ++ s :: rest) s with
    | .ok s' => visitSchemasFrom f (done ++ [s']) rest
    | .err e => .err e
    | .panic p => .panic p

def visitSchemas (f : Schemas → Schema → Outcome Schema) (ss : Schemas) : Outcome Schemas :=
  visitSchemasFrom f [] ss

/-- default `VisitSchema` for a visitor without state: entry point type first, then every object
    in order, `newSchema.AddObject(obj)` -/
def visitObjectsPure (v : Ty → Outcome Ty) : Objects → Objects → Outcome Objects
  | [], acc => .ok acc
  | (_, o) :: rest, acc =>
    match v o.ty with
    | .ok t => visitObjectsPure v rest (rset o.name { o with ty := t } acc)
    | .err e => .err e
    | .panic p => .panic p

def visitSchemaPure (v : Ty → Outcome Ty) (s : Schema) : Outcome Schema :=
  match v s.entryPointType with
  | .ok ept =>
    match visitObjectsPure v s.objects [] with
    | .ok objs => .ok { s with entryPointType := ept, objects := objs }
    | .err e => .err e
    | .panic p => .panic p
  | .err _ => .err "could not process entrypoint type"
  | .panic p => .panic p

/-- the same frame for a visitor threading the registry of new objects -/
def visitObjectsSt (v : Ty → NewObjs → Outcome (Ty × NewObjs)) : Objects → Objects → NewObjs → Outcome (Objects × NewObjs)
  | [], acc, n => .ok (acc, n)
  | (_, o) :: rest, acc, n =>
    match v o.ty n with
    | .ok (t, n') => visitObjectsSt v rest (rset o.name { o with ty := t } acc) n'
    | .err e => .err e
    | .panic p => .panic p

def visitSchemaSt (v : Ty → NewObjs → Outcome (Ty × NewObjs)) (s : Schema) : Outcome Schema :=
  match v s.entryPointType [] with
  | .ok (ept, n) =>
    match visitObjectsSt v s.objects [] n with
    | .ok (objs, n') => .ok { s with entryPointType := ept, objects := flushNew n' objs }
    | .err e => .err e
    | .panic p => .panic p
  | .err _ => .err "could not process entrypoint type"
  | .panic p => .panic p

/-- `Objects.Map(f)` for passes that do not use the visitor -/
def mapObjects (f : Obj → Obj) (m : Objects) : Objects := m.map fun (k, o) => (k, f o)

end Cog.Passes
