/-
  Model of internal/ast/compiler/sanitize_enum_member_names.go (PHP chain).
  Visitor with `OnEnum` only: every enum at a visited position (array element, map VALUE, struct
  fields, disjunction and intersection branches, object top level).  Since /repo fix aceba4d an
  empty name no longer panics (`member.Name[0]`): it is returned unchanged, unless the member is the
  empty string constant, renamed `None` first.  `sanitizeMemberPreFix` keeps the old behaviour.
-/
import Cog.Passes.Common
namespace Cog.Passes.SanitizeEnumMemberNames
open Cog.IR Cog.Passes

/-- `sanitizeEnumMember` (tree after fix aceba4d: `member.Value == ""` without assertion,
    `strings.HasPrefix` instead of `member.Name[0]`: an empty name is returned as it is) -/
def sanitizeMember (v : EnumVal) : Outcome EnumVal :=
  if v.kind.startsWith "?" then .panic "SanitizeEnumMemberNames: member.Type.Scalar"
  else
    let n0 := if v.kind == "string" && v.name == "" && (match v.value with | .str s => s == "" | _ => false) then "None" else v.name
    let n1 := if head0 n0 == some '-' then ucc ("negative" ++ tail1 n0) else n0
    let n2 := if head0 n1 == some '+' then ucc ("positive" ++ tail1 n1) else n1
    .ok { v with name := n2 }

/-- `sanitizeEnumMember` before fix aceba4d -/
def sanitizeMemberPreFix (v : EnumVal) : Outcome EnumVal :=
  if v.kind.startsWith "?" then .panic "SanitizeEnumMemberNames: member.Type.Scalar"
  else
    let n0 : Outcome String :=
      if v.kind == "string" && v.name == "" then
        match v.value with
        | .str s => .ok (if s == "" then "None" else v.name)
        | _ => .panic "SanitizeEnumMemberNames: member.Value.(string)"
      else .ok v.name
    match n0 with
    | .panic p => .panic p
    | .err e => .err e
    | .ok n0 =>
      match head0 n0 with
      | none => .panic "SanitizeEnumMemberNames: member.Name[0]"
      | some c0 =>
        let n1 := if c0 == '-' then ucc ("negative" ++ tail1 n0) else n0
        match head0 n1 with
        | none => .panic "SanitizeEnumMemberNames: member.Name[0]"
        | some c1 =>
          let n2 := if c1 == '+' then ucc ("positive" ++ tail1 n1) else n1
          .ok { v with name := n2 }

def sanitizeMembers : List EnumVal → Outcome (List EnumVal)
  | [] => .ok []
  | v :: vs =>
    match sanitizeMember v with
    | .ok v' =>
      match sanitizeMembers vs with
      | .ok vs' => .ok (v' :: vs')
      | .err e => .err e
      | .panic p => .panic p
    | .err e => .err e
    | .panic p => .panic p

mutual
def vTy : Ty → Outcome Ty
  | .array e m =>
    match vTy e with
    | .ok e' => .ok (.array e' m)
    | .err x => .err x
    | .panic x => .panic x
  | .map i v m =>
    match vTy v with
    | .ok v' => .ok (.map i v' m)
    | .err x => .err x
    | .panic x => .panic x
  | .struct fs g gi m =>
    match vFields fs with
    | .ok fs' => .ok (.struct fs' g gi m)
    | .err x => .err x
    | .panic x => .panic x
  | .disj bs i m =>
    match vList bs with
    | .ok bs' => .ok (.disj bs' i m)
    | .err x => .err x
    | .panic x => .panic x
  | .inter bs m =>
    match vList bs with
    | .ok bs' => .ok (.inter bs' m)
    | .err x => .err x
    | .panic x => .panic x
  | .enum vs m =>
    match sanitizeMembers vs with
    | .ok vs' => .ok (.enum vs' m)
    | .err x => .err x
    | .panic x => .panic x
  | t => .ok t
def vList : List Ty → Outcome (List Ty)
  | [] => .ok []
  | t :: ts =>
    match vTy t with
    | .ok t' =>
      match vList ts with
      | .ok ts' => .ok (t' :: ts')
      | .err x => .err x
      | .panic x => .panic x
    | .err x => .err x
    | .panic x => .panic x
def vFields : List Field → Outcome (List Field)
  | [] => .ok []
  | f :: fs =>
    match vTy f.ty with
    | .ok t' =>
      match vFields fs with
      | .ok fs' => .ok ({ f with ty := t' } :: fs')
      | .err x => .err x
      | .panic x => .panic x
    | .err x => .err x
    | .panic x => .panic x
end

def run (ss : Schemas) : Outcome Schemas :=
  visitSchemas (fun _ s => visitSchemaPure vTy s) ss

end Cog.Passes.SanitizeEnumMemberNames
