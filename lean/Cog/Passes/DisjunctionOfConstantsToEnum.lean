/-
  Model of internal/ast/compiler/disjunction_of_constants_to_enum.go.
  `OnDisjunction` hook, no recursion into branches.  References are followed through
  `pass.schemas.ResolveToType`, where `pass.schemas` is the slice `VisitSchemas` overwrites while
  it goes: schemas before the current one are seen AFTER the pass, the current and later ones as
  they were before.  `resolvesToConcreteScalarsOnly` recurses through references without any
  cycle check (`X = ref X | "a"` overflows the Go stack): fuelled here.
-/
import Cog.Passes.Visitor
namespace Cog.Passes.DisjunctionOfConstantsToEnum
open Cog.IR Cog.Passes

structure St where
  cand : Option String := none        -- scalarKindCandidate
  members : List EnumVal := []        -- identifiedMembers

/-- `isScalarValidEnumMember` (sets the candidate on the first accepted kind) -/
def validMember (kind : String) (st : St) : Bool × St :=
  if !(kind == "string" || isNumericKind kind) then (false, st)
  else
    let st' := match st.cand with | none => { st with cand := some kind } | some _ => st
    (st'.cand == some kind, st')

/-- members of a resolved enum: `*member.Type.Scalar` is a nil dereference for a non-scalar
    member type (VIR kind `?…`) -/
def enumMembers : List EnumVal → St → Outcome (Bool × St)
  | [], st => .ok (true, st)
  | v :: vs, st =>
    if v.kind.startsWith "?" then .panic "DisjunctionOfConstantsToEnum: member.Type.Scalar"
    else
      let r := validMember v.kind st
      if !r.1 then .ok (false, r.2)
      else enumMembers vs { r.2 with members := r.2.members ++ [v] }

mutual
/-- `resolvesToConcreteScalarsOnly` -/
def rc (ss : Schemas) (rfuel : Nat) : Nat → Ty → St → Outcome (Bool × St)
  | 0, _, _ => .panic "stack-overflow"
  | fuel + 1, t, st =>
    match resolveToType ss rfuel t with
    | .err e => .err e
    | .panic p => .panic p
    | .ok resolved =>
      match resolved with
      | .scalar kind value _ _ =>
        if Val.isNil value then .ok (false, st)
        else
          let r := validMember kind st
          if r.1 then
            .ok (true, { r.2 with members := r.2.members ++
              [{ name := (match value with | .str s => s | v => fmtV v), value := value, kind := (r.2.cand.getD kind) }] })
          else .ok (false, r.2)
      | .disj bs _ _ => rcList ss rfuel fuel bs st
      | .enum vs _ => enumMembers vs st
      | _ => .ok (false, st)
def rcList (ss : Schemas) (rfuel : Nat) : Nat → List Ty → St → Outcome (Bool × St)
  | 0, _, _ => .panic "stack-overflow"
  | _ + 1, [], st => .ok (true, st)
  | fuel + 1, b :: bs, st =>
    match rc ss rfuel fuel b st with
    | .ok (true, st') => rcList ss rfuel fuel bs st'
    | .ok (false, st') => .ok (false, st')
    | .err e => .err e
    | .panic p => .panic p
end

def hook (cur : Schemas) : DisjHook := fun bs info m =>
  if bs.length < 2 then .ok (.disj bs info m)
  else
    let fuel := Schemas.fuel cur + Ty.sizeList bs + 2
    match rc cur fuel fuel (.disj bs info m) {} with
    | .ok (true, st) => .ok (.enum st.members { nullable := m.nullable, dflt := m.dflt, hints := [] })
    | .ok (false, _) => .ok (.disj bs info m)
    | .err e => .err e
    | .panic p => .panic p

def run (ss : Schemas) : Outcome Schemas := runDisjPass (fun cur _ => hook cur) ss

end Cog.Passes.DisjunctionOfConstantsToEnum
