/-
  The partial operations removed from the pass models by the /repo fixes aceba4d, 30da046, 375123d
  and 146d1ec, each with the input on which the former model (`…PreFix`) panics and the current one
  does not.  checks/c06.py replays the same inputs on the real passes (must not panic any more).
-/
import Cog.Passes.Chain
namespace Cog.Passes.PreFix
open Cog.IR Cog.Passes

def isPanic {α} : Outcome α → Bool | .panic _ => true | _ => false
def isOk {α} : Outcome α → Bool | .ok _ => true | _ => false

def obj (name : String) (t : Ty) : String × Obj := (name, { name := name, ty := t, selfPkg := "p", selfName := name })
def schemas (objs : List (String × Obj)) : Schemas := [{ pkg := "p", objects := objs }]
def str : Ty := .scalar "string" .nil [] {}

/-- int64 member with an empty name: `member.Name[0]` -/
def emptyIntName : EnumVal := { name := "", value := .int "i64" 1, kind := "int64" }
/-- string member whose value is not a string: `member.Value.(string)` -/
def nonStringValue : EnumVal := { name := "", value := .int "i64" 1, kind := "string" }

theorem prefixEnum_emptyName : isPanic (PrefixEnumValues.memberNamePreFix emptyIntName) = true ∧
    isOk (PrefixEnumValues.memberName emptyIntName) = true := by constructor <;> decide +kernel
theorem prefixEnum_nonStringValue : isPanic (PrefixEnumValues.memberNamePreFix nonStringValue) = true ∧
    isOk (PrefixEnumValues.memberName nonStringValue) = true := by constructor <;> decide +kernel
theorem sanitize_emptyName : isPanic (SanitizeEnumMemberNames.sanitizeMemberPreFix emptyIntName) = true ∧
    isOk (SanitizeEnumMemberNames.sanitizeMember emptyIntName) = true := by constructor <;> decide +kernel
theorem sanitize_nonStringValue : isPanic (SanitizeEnumMemberNames.sanitizeMemberPreFix nonStringValue) = true ∧
    isOk (SanitizeEnumMemberNames.sanitizeMember nonStringValue) = true := by constructor <;> decide +kernel

/-- `A = null | null`: `NonNullTypes()[0]` -/
def nullNull : Schemas := schemas [obj "A" (.disj [.scalar "null" .nil [] {}, .scalar "null" .nil [] {}] {} {})]
theorem nullToOptional_nullNull : isPanic (DisjunctionWithNullToOptional.runPreFix nullNull) = true ∧
    isOk (DisjunctionWithNullToOptional.run nullNull) = true := by constructor <;> decide

/-- `U = A | B` with discriminator `kind`, `A = string`: `referredType.AsStruct()` -/
def nonStructBranch : Schemas := schemas [obj "A" str, obj "B" str,
  obj "U" (.disj [.ref "p" "A" {}, .ref "p" "B" {}] { discriminator := "kind" } {})]
/-- `A = {kind: 1}`: `Value.(string)` -/
def nonStringDiscriminator : Schemas := schemas [
  obj "A" (.struct [{ name := "kind", ty := .scalar "int64" (.int "i64" 1) [] {}, required := true }] [] none {}),
  obj "U" (.disj [.ref "p" "A" {}] { discriminator := "kind" } {})]
/-- a union without branches: `def.Branches[0]` -/
def noBranches : Schemas := schemas [obj "U" (.disj [] {} {})]

theorem inferMapping_nonStructBranch : isPanic (DisjunctionInferMapping.runPreFix nonStructBranch) = true ∧
    isOk (DisjunctionInferMapping.run nonStructBranch) = true := by constructor <;> decide
theorem inferMapping_nonStringDiscriminator : isPanic (DisjunctionInferMapping.runPreFix nonStringDiscriminator) = true ∧
    isOk (DisjunctionInferMapping.run nonStringDiscriminator) = true := by constructor <;> decide
theorem inferMapping_noBranches : isPanic (DisjunctionInferMapping.runPreFix noBranches) = true ∧
    isOk (DisjunctionInferMapping.run noBranches) = true := by constructor <;> decide

/-- pass name ↦ input on which the pass used to panic (replayed on the real pass: must be `ok`) -/
def formerPanics : List (String × Schemas) := [
  ("PrefixEnumValues", schemas [obj "E" (.enum [emptyIntName] {})]),
  ("PrefixEnumValues", schemas [obj "E" (.enum [nonStringValue] {})]),
  ("SanitizeEnumMemberNames", schemas [obj "E" (.enum [emptyIntName] {})]),
  ("SanitizeEnumMemberNames", schemas [obj "E" (.enum [nonStringValue] {})]),
  ("DisjunctionWithNullToOptional", nullNull),
  ("DisjunctionInferMapping", nonStructBranch),
  ("DisjunctionInferMapping", nonStringDiscriminator),
  ("DisjunctionInferMapping", noBranches)]

end Cog.Passes.PreFix
