/-
  Model of internal/ast/compiler/prefix_enum_values.go.
  Only objects whose type is an enum are touched (anonymous enums elsewhere are not).
  Partial operation left: `member.Type.Scalar` (nil for a non-scalar member type).  The former
  `member.Value.(string)` / `member.Name[0]` panics were removed by /repo fix aceba4d
  (`memberNamePreFix` keeps the old behaviour).
-/
import Cog.Passes.Common
namespace Cog.Passes.PrefixEnumValues
open Cog.IR Cog.Passes

/-- Go `member.Value == ""` on an `any`: true only for the string "" (no type assertion) -/
def isEmptyStrVal : Val → Bool
  | .str s => s == ""
  | _ => false

/-- `strings.HasPrefix(s, "-")` / `"+"` -/
def hasSign (c : Char) (s : String) : Bool := head0 s == some c

/-- `enumMemberNameFromValue` (tree after fix aceba4d: the value is compared, not asserted, and the
    sign is tested with `strings.HasPrefix`, so an empty name is camel-cased like any other) -/
def memberName (v : EnumVal) : Outcome String :=
  if v.kind.startsWith "?" then .panic "PrefixEnumValues: member.Type.Scalar"
  else if v.kind == "string" && isEmptyStrVal v.value then .ok "None"
  else if v.kind != "int64" then .ok (ucc v.name)
  else if hasSign '-' v.name then .ok (ucc ("negative" ++ tail1 v.name))
  else .ok (ucc v.name)

/-- `enumMemberNameFromValue` as it was before fix aceba4d: `member.Value.(string)` and
    `member.Name[0]` could panic -/
def memberNamePreFix (v : EnumVal) : Outcome String :=
  if v.kind.startsWith "?" then .panic "PrefixEnumValues: member.Type.Scalar"
  else
    let isEmptyStr : Outcome Bool :=
      if v.kind == "string" then
        match v.value with
        | .str s => .ok (s == "")
        | _ => .panic "PrefixEnumValues: member.Value.(string)"
      else .ok false
    match isEmptyStr with
    | .panic p => .panic p
    | .err e => .err e
    | .ok true => .ok "None"
    | .ok false =>
      if v.kind != "int64" then .ok (ucc v.name)
      else match head0 v.name with
        | none => .panic "PrefixEnumValues: member.Name[0]"
        | some c => if c == '-' then .ok (ucc ("negative" ++ tail1 v.name)) else .ok (ucc v.name)

def processValues (parent : String) : List EnumVal → Outcome (List EnumVal)
  | [] => .ok []
  | v :: vs =>
    match memberName v with
    | .ok n =>
      match processValues parent vs with
      | .ok vs' => .ok ({ v with name := ucc parent ++ n } :: vs')
      | .err e => .err e
      | .panic p => .panic p
    | .err e => .err e
    | .panic p => .panic p

def processObject (o : Obj) : Outcome Obj :=
  match o.ty with
  | .enum vs m =>
    match processValues o.name vs with
    | .ok vs' => .ok { o with ty := .enum vs' m }
    | .err e => .err e
    | .panic p => .panic p
  | _ => .ok o

def processObjects : Objects → Outcome Objects
  | [] => .ok []
  | (k, o) :: rest =>
    match processObject o with
    | .ok o' =>
      match processObjects rest with
      | .ok rest' => .ok ((k, o') :: rest')
      | .err e => .err e
      | .panic p => .panic p
    | .err e => .err e
    | .panic p => .panic p

def processSchema (s : Schema) : Outcome Schema :=
  match processObjects s.objects with
  | .ok os => .ok { s with objects := os }
  | .err e => .err e
  | .panic p => .panic p

def run (ss : Schemas) : Outcome Schemas := Outcome.mapM processSchema ss

end Cog.Passes.PrefixEnumValues
