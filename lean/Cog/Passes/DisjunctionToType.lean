/-
  Model of internal/ast/compiler/disjunctions.go (DisjunctionToType).
  `OnDisjunction` hook threading the registry of new objects; the branches are copied into the
  fields of the generated struct WITHOUT being visited, and the generated object is registered
  with `RegisterNewObject`, so it is not visited either: a disjunction nested below a branch
  (`string | [](int64 | bool)`) survives inside the generated struct.
-/
import Cog.Passes.Visitor
import Cog.Passes.UndiscriminatedDisjunctionToAny
namespace Cog.Passes.DisjunctionToType
open Cog.IR Cog.Passes

/-- `disjunctionTypeName`: `strings.Join(TypeName(branch)…, "Or")` -/
def disjunctionTypeName : List Ty → String
  | [] => ""
  | [b] => typeName b
  | b :: bs => typeName b ++ "Or" ++ disjunctionTypeName bs

def branchFields : List Ty → List Field
  | [] => []
  | b :: bs =>
    if isNull b then branchFields bs
    else
      let pb := setNullable true b
      { name := typeName pb, ty := pb, required := false, comments := [] } :: branchFields bs

def hook (cur : Schemas) (s : Schema) : DisjHookSt := fun bs info m n =>
  match UndiscriminatedDisjunctionToAny.singleScalarKind s (Schemas.fuel cur) bs with
  | .panic p => .panic p
  | .err e => .err e
  | .ok (some k) => .ok (.scalar k .nil [] { nullable := false, dflt := m.dflt, hints := [] }, n)
  | .ok none =>
    let name := disjunctionTypeName bs
    let ref : Ty := .ref s.pkg name { nullable := m.nullable || hasNullType bs, dflt := .nil, hints := m.hints }
    if hasNew s.pkg name n then .ok (ref, n)
    else
      let scal := hasOnlyScalarOrArrayOrMap bs
      let refs := hasOnlyRefs bs
      if refs && info.discriminator == "" then .err "discriminator not set"
      else if refs && info.mapping.isEmpty then .err "discriminator mapping not set"
      else
        let gi : Option (String × DisjInfo) :=
          if scal then some ("disjunction_of_scalars", info)
          else if refs then some ("disjunction_of_refs", info) else none
        let st : Ty := .struct (branchFields bs) (if gi.isSome then bs else []) gi
          { nullable := false, dflt := .nil, hints := m.hints }
        .ok (ref, registerNew (newObject s.pkg name st) n)

def run (ss : Schemas) : Outcome Schemas :=
  visitSchemas (fun cur s => visitSchemaSt (dvStTy (hook cur s)) s) ss

end Cog.Passes.DisjunctionToType
