/-
  The compiler passes occurring in the five `CompilerPasses()` chains of property C06, as a closed
  enumeration; `PassId.run` dispatches to the model of each pass, `runChain` is
  `compiler.Passes.Process` (sequential composition, first error/panic wins; the initial
  `schemas.DeepCopy()` is the identity on values).

  The per-language lists are NOT here: they are regenerated from /repo into `Cog.Gen.Chains`.
  A pass constructor unknown to this file makes the generated file fail to compile.
-/
import Cog.Passes.AnonymousStructsToNamed
import Cog.Passes.NotRequiredFieldAsNullableType
import Cog.Passes.DisjunctionWithNullToOptional
import Cog.Passes.DisjunctionOfConstantsToEnum
import Cog.Passes.AnonymousEnumToExplicitType
import Cog.Passes.PrefixEnumValues
import Cog.Passes.FlattenDisjunctions
import Cog.Passes.DisjunctionOfAnonymousStructsToExplicit
import Cog.Passes.DisjunctionInferMapping
import Cog.Passes.UndiscriminatedDisjunctionToAny
import Cog.Passes.DisjunctionToType
import Cog.Passes.RemoveIntersections
import Cog.Passes.SanitizeEnumMemberNames
import Cog.Passes.InlineObjectsWithTypes
import Cog.Passes.RenameNumericEnumValues
namespace Cog.Passes
open Cog.IR

inductive PassId where
  | anonymousStructsToNamed
  | notRequiredFieldAsNullableType
  | disjunctionWithNullToOptional
  | disjunctionOfConstantsToEnum
  | anonymousEnumToExplicitType
  | prefixEnumValues
  | flattenDisjunctions
  | disjunctionOfAnonymousStructsToExplicit
  | disjunctionInferMapping
  | undiscriminatedDisjunctionToAny
  | disjunctionToType
  | removeIntersections
  | sanitizeEnumMemberNames
  | inlineObjectsWithTypes (kinds : List String)
  | renameNumericEnumValues
  deriving DecidableEq, Repr

def PassId.run : PassId → Schemas → Outcome Schemas
  | .anonymousStructsToNamed => AnonymousStructsToNamed.run
  | .notRequiredFieldAsNullableType => NotRequiredFieldAsNullableType.run
  | .disjunctionWithNullToOptional => DisjunctionWithNullToOptional.run
  | .disjunctionOfConstantsToEnum => DisjunctionOfConstantsToEnum.run
  | .anonymousEnumToExplicitType => AnonymousEnumToExplicitType.run
  | .prefixEnumValues => PrefixEnumValues.run
  | .flattenDisjunctions => FlattenDisjunctions.run
  | .disjunctionOfAnonymousStructsToExplicit => DisjunctionOfAnonymousStructsToExplicit.run
  | .disjunctionInferMapping => DisjunctionInferMapping.run
  | .undiscriminatedDisjunctionToAny => UndiscriminatedDisjunctionToAny.run
  | .disjunctionToType => DisjunctionToType.run
  | .removeIntersections => RemoveIntersections.run
  | .sanitizeEnumMemberNames => SanitizeEnumMemberNames.run
  | .inlineObjectsWithTypes kinds => InlineObjectsWithTypes.run kinds
  | .renameNumericEnumValues => RenameNumericEnumValues.run

/-- the Go type name of the pass (driver protocol; `InlineObjectsWithTypes:k1,k2`) -/
def PassId.ofName (s : String) : Option PassId :=
  match s.splitOn ":" with
  | ["AnonymousStructsToNamed"] => some .anonymousStructsToNamed
  | ["NotRequiredFieldAsNullableType"] => some .notRequiredFieldAsNullableType
  | ["DisjunctionWithNullToOptional"] => some .disjunctionWithNullToOptional
  | ["DisjunctionOfConstantsToEnum"] => some .disjunctionOfConstantsToEnum
  | ["AnonymousEnumToExplicitType"] => some .anonymousEnumToExplicitType
  | ["PrefixEnumValues"] => some .prefixEnumValues
  | ["FlattenDisjunctions"] => some .flattenDisjunctions
  | ["DisjunctionOfAnonymousStructsToExplicit"] => some .disjunctionOfAnonymousStructsToExplicit
  | ["DisjunctionInferMapping"] => some .disjunctionInferMapping
  | ["UndiscriminatedDisjunctionToAny"] => some .undiscriminatedDisjunctionToAny
  | ["DisjunctionToType"] => some .disjunctionToType
  | ["RemoveIntersections"] => some .removeIntersections
  | ["SanitizeEnumMemberNames"] => some .sanitizeEnumMemberNames
  | ["InlineObjectsWithTypes"] => some (.inlineObjectsWithTypes [])
  | ["InlineObjectsWithTypes", ks] => some (.inlineObjectsWithTypes (ks.splitOn ","))
  | ["RenameNumericEnumValues"] => some .renameNumericEnumValues
  | _ => none

/-- `compiler.Passes.Process` -/
def runChain : List PassId → Schemas → Outcome Schemas
  | [], ss => .ok ss
  | p :: ps, ss =>
    match p.run ss with
    | .ok ss' => runChain ps ss'
    | .err e => .err e
    | .panic x => .panic x

def isInline : PassId → Bool
  | .inlineObjectsWithTypes _ => true
  | _ => false

/-- limit of the tree model (see FlattenDisjunctions.lean): FlattenDisjunctions leaves kind pointers
    shared between two objects and a later InlineObjectsWithTypes of the same chain mutates them in
    place.  On such inputs the model does not claim an output. -/
def chainShared : List PassId → Schemas → Bool
  | [], _ => false
  | p :: ps, ss =>
    (p == .flattenDisjunctions && ps.any isInline && FlattenDisjunctions.sharesMutable ss) ||
    (match p.run ss with
     | .ok ss' => chainShared ps ss'
     | _ => false)

end Cog.Passes
