/-
  Model of internal/ast/compiler/anonymous_structs_to_named.go (literal transcription).

  Own traversal (not the visitor): array element, map INDEX and value, disjunction branches and
  struct fields are walked; intersection branches are not.  A struct met below an object becomes a
  new object named after the path; new objects are appended with `schema.AddObjects`, i.e.
  `Objects.Set(name, …)`: a generated name equal to an existing object's name overwrites it.
-/
import Cog.Passes.Common
namespace Cog.Passes.AnonymousStructsToNamed
open Cog.IR Cog.Passes
open Cog.OMap (rget rset)

mutual
/-- `processType`; the accumulator is `pass.newObjects` -/
def processType (pkg parent : String) : Ty → List Obj → Ty × List Obj
  | .array e m, acc =>
    let r := processType pkg parent e acc
    (.array r.1 m, r.2)
  | .map i v m, acc =>
    let ri := processType pkg parent i acc
    let rv := processType pkg parent v ri.2
    (.map ri.1 rv.1 m, rv.2)
  | .disj bs info m, acc =>
    let r := processList pkg parent bs acc
    (.disj r.1 info m, r.2)
  | .struct fs g gi m, acc =>
    -- processStruct: objectDef := def.DeepCopy(); objectDef.Nullable = false
    let r := processFields pkg parent fs acc
    let obj := newObject pkg parent (.struct r.1 g gi { m with nullable := false })
    (.ref pkg parent { nullable := m.nullable, dflt := m.dflt, hints := [] }, r.2 ++ [obj])
  | t, acc => (t, acc)
def processList (pkg parent : String) : List Ty → List Obj → List Ty × List Obj
  | [], acc => ([], acc)
  | t :: ts, acc =>
    let r := processType pkg parent t acc
    let rs := processList pkg parent ts r.2
    (r.1 :: rs.1, rs.2)
def processFields (pkg parent : String) : List Field → List Obj → List Field × List Obj
  | [], acc => ([], acc)
  | f :: fs, acc =>
    let r := processType pkg (parent ++ ucc f.name) f.ty acc
    let rs := processFields pkg parent fs r.2
    ({ f with ty := r.1 } :: rs.1, rs.2)
end

def processObject (o : Obj) (acc : List Obj) : Obj × List Obj :=
  let pkg := o.selfPkg
  let parent := ucc pkg ++ ucc o.name
  match o.ty with
  | .array .. | .map .. | .disj .. =>
    let r := processType pkg parent o.ty acc
    ({ o with ty := r.1 }, r.2)
  | .struct fs g gi m =>
    let r := processFields pkg parent fs acc
    ({ o with ty := .struct r.1 g gi m }, r.2)
  | _ => (o, acc)

def processObjects : Objects → List Obj → Objects × List Obj
  | [], acc => ([], acc)
  | (k, o) :: rest, acc =>
    let r := processObject o acc
    let rs := processObjects rest r.2
    ((k, r.1) :: rs.1, rs.2)

def processSchema (s : Schema) : Schema :=
  let r := processObjects s.objects []
  { s with objects := addObjects r.2 r.1 }

def run (ss : Schemas) : Outcome Schemas := .ok (ss.map processSchema)

end Cog.Passes.AnonymousStructsToNamed
