/-
  String helpers used by the compiler passes (core Lean only).

  * `ucc`      models `tools.UpperCamelCase` on ASCII input (non-ASCII runes are replaced by the
               regexp like any other non `[a-zA-Z0-9 ]` rune, which this model reproduces; the
               behaviour of x/text's title-caser is then only exercised on ASCII letters, digits
               and blanks).  Tied to the code by the `c06-ucc` correspondence stream.
  * `fmtV`     models `fmt.Sprintf("%v", any)` on the dynamic values the IR can hold.
  * `atoiOk`   models `strconv.Atoi(s)` succeeding.
  * `head0`    models the Go byte index `s[0]` (none = index out of range, a panic).
-/
import Cog.IR.Types
namespace Cog.Passes
open Cog.IR

def isAlnumSp (c : Char) : Bool := c.isAlphanum || c == ' '

/-- `regexp "[^a-zA-Z0-9 ]+"` replaced by one blank -/
def squash : List Char → Bool → List Char
  | [], _ => []
  | c :: cs, inRun =>
    if isAlnumSp c then c :: squash cs false
    else if inRun then squash cs true else ' ' :: squash cs true

/-- `cases.Title(AmericanEnglish, NoLower)` on `[a-zA-Z0-9 ]*`: the first letter of every
    blank-separated word is upper-cased, nothing else changes -/
def titleWords : List Char → Bool → List Char
  | [], _ => []
  | c :: cs, seen =>
    if c == ' ' then c :: titleWords cs false
    else if c.isAlpha then (if seen then c else c.toUpper) :: titleWords cs true
    else c :: titleWords cs seen

def upperFirst : List Char → List Char
  | [] => []
  | c :: cs => c.toLower.toUpper :: cs

def uccChars (cs : List Char) : List Char :=
  upperFirst ((titleWords (squash cs false) false).filter (· != ' '))

/-- `tools.UpperCamelCase` -/
def ucc (s : String) : String := String.ofList (uccChars s.toList)

/-- `tools.CleanupNames`: drop every rune outside `[a-zA-Z0-9 ]` -/
def cleanupNames (s : String) : String := String.ofList (s.toList.filter isAlnumSp)

/-- Go `s[0]` on a string (byte index; equal to the first char for ASCII) -/
def head0 (s : String) : Option Char := s.toList.head?

/-- Go `s[1:]` when `s[0]` is a one-byte char -/
def tail1 (s : String) : String := String.ofList s.toList.tail

def digitsVal : List Char → Nat → Option Nat
  | [], acc => some acc
  | c :: cs, acc => if c.isDigit then digitsVal cs (acc * 10 + (c.toNat - 48)) else none

/-- `_, err := strconv.Atoi(s); err == nil` (64-bit int) -/
def atoiOk (s : String) : Bool :=
  match s.toList with
  | [] => false
  | '-' :: ds => !ds.isEmpty && (match digitsVal ds 0 with | some n => n ≤ 9223372036854775808 | none => false)
  | '+' :: ds => !ds.isEmpty && (match digitsVal ds 0 with | some n => n ≤ 9223372036854775807 | none => false)
  | ds => (match digitsVal ds 0 with | some n => n ≤ 9223372036854775807 | none => false)

def Val.isNil : Val → Bool | .nil => true | _ => false

mutual
/-- `fmt.Sprintf("%v", v)` -/
def fmtV : Val → String
  | .nil => "<nil>"
  | .bool b => if b then "true" else "false"
  | .int _ n => toString n
  | .float _ r => r
  | .jnum s => s
  | .str s => s
  | .list xs => "[" ++ fmtVList xs ++ "]"
  | .map kvs => "map[" ++ fmtVMap kvs ++ "]"
  | .other _ r => r
def fmtVList : List Val → String
  | [] => ""
  | [x] => fmtV x
  | x :: xs => fmtV x ++ " " ++ fmtVList xs
def fmtVMap : List (String × Val) → String
  | [] => ""
  | [(k, v)] => k ++ ":" ++ fmtV v
  | (k, v) :: kvs => k ++ ":" ++ fmtV v ++ " " ++ fmtVMap kvs
end

/-- Go `v.(string)`: `none` is the failed (panicking) assertion -/
def Val.asStr : Val → Option String | .str s => some s | _ => none

end Cog.Passes
