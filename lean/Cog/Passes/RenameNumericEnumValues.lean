/-
  Model of internal/ast/compiler/rename_numeric_enum_values.go (Python, TypeScript chains).
  Only objects whose type is an enum; a member is renamed iff `strconv.Atoi(name)` succeeds
  (so the name is non-empty and `name[0]` is safe).
-/
import Cog.Passes.Common
namespace Cog.Passes.RenameNumericEnumValues
open Cog.IR Cog.Passes

def renameMember (v : EnumVal) : EnumVal :=
  if !atoiOk v.name then v
  else if head0 v.name == some '-' then { v with name := ucc ("negative" ++ tail1 v.name) }
  else { v with name := "N" ++ ucc v.name }

def renameMembers : List EnumVal → List EnumVal
  | [] => []
  | v :: vs => renameMember v :: renameMembers vs

def processObject (o : Obj) : Obj :=
  match o.ty with
  | .enum vs m => { o with ty := .enum (renameMembers vs) m }
  | _ => o

def processSchema (s : Schema) : Schema := { s with objects := mapObjects processObject s.objects }

def run (ss : Schemas) : Outcome Schemas := .ok (ss.map processSchema)

end Cog.Passes.RenameNumericEnumValues
