/-
  Every method body of internal/orderedmap/map.go, as TRANSLATED by /verif/extract/xomap into the
  generated module `Cog.Gen.OMapSrc` (regenerated from /repo on every run), computes exactly the
  hand-written model function of `Model.lean`: for ALL receivers, arguments and function
  parameters.  The generated bodies are closed terms, so `exec` unfolds on them; loops are handled
  by one invariant rule (`loop_inv`, induction over the order list) instantiated per method.

  When map.go changes, `Cog.Gen.OMapSrc` changes and these proofs are re-checked by the kernel; if
  a body no longer means the model function the build breaks (checks/c19.py then searches for a
  concrete failing op sequence with the correspondence streams).
-/
import Cog.Gen.OMapSrc
set_option linter.unusedSimpArgs false
set_option linter.unusedSectionVars false
set_option linter.unusedVariables false
namespace Cog.OMap.Src
open Cog.OMap Cog.Gen.OMapSrc
variable {K V : Type} [DecidableEq K] [Inhabited V]

/-- `exec` of `s` from `st` terminates without panic in a result satisfying `Q`. -/
def triple (funs : Funs K V) (st : St K V) (s : Stmt) (Q : Ctl K V × St K V → Prop) : Prop :=
  ∃ r, exec funs s st = some r ∧ Q r

theorem triple_seq {funs : Funs K V} {st a b Q}
    (h : triple funs st a (fun r => r.1 = .normal ∧ triple funs r.2 b Q)) :
    triple funs st (.seq a b) Q := by
  obtain ⟨⟨c, s⟩, h1, h2, r, h3, h4⟩ := h
  simp only at h2; subst h2
  exact ⟨r, by simp only [exec, h1]; exact h3, h4⟩

theorem triple_seq' {funs : Funs K V} {st a b Q}
    (h : match exec funs a st with
         | some (.normal, st') => triple funs st' b Q
         | _ => False) :
    triple funs st (.seq a b) Q := by
  apply triple_seq
  split at h
  · rename_i st' he; exact ⟨_, he, rfl, h⟩
  · exact h.elim

theorem triple_atom {funs : Funs K V} {st s Q}
    (h : match exec funs s st with
         | some r => Q r
         | none => False) :
    triple funs st s Q := by
  split at h
  · rename_i r he; exact ⟨r, he, h⟩
  · exact h.elim

theorem loop_inv (body : St K V → Option (Ctl K V × St K V)) (x : String)
    (I : List K → St K V → Prop)
    (step : ∀ done a s, I done s →
      ∃ r, body (s.set x (.k a)) = some r ∧ (r.1 = .normal ∨ r.1 = .cont) ∧ I (done ++ [a]) r.2) :
    ∀ (l done : List K) (s : St K V), I done s →
      ∃ s', loop body x l s = some (.normal, s') ∧ I (done ++ l) s' := by
  intro l
  induction l with
  | nil => intro done s h; exact ⟨s, rfl, by simpa using h⟩
  | cons a l ih =>
    intro done s h
    obtain ⟨⟨c, s1⟩, h1, h2, h3⟩ := step done a s h
    obtain ⟨s', h4, h5⟩ := ih (done ++ [a]) s1 h3
    refine ⟨s', ?_, by simpa using h5⟩
    simp only [loop, h1]
    rcases h2 with h2 | h2 <;> simp only at h2 <;> subst h2 <;> exact h4

theorem triple_for {funs : Funs K V} {st x e body Q} (I : List K → St K V → Prop) (l : List K)
    (he : eval funs e st = some (.ks l)) (h0 : I [] st)
    (step : ∀ done a s, I done s →
      triple funs (s.set x (.k a)) body (fun r => (r.1 = .normal ∨ r.1 = .cont) ∧ I (done ++ [a]) r.2))
    (post : ∀ s, I l s → Q (.normal, s)) :
    triple funs st (.forRange x e body) Q := by
  obtain ⟨s', h1, h2⟩ := loop_inv (fun s => exec funs body s) x I step l [] st h0
  exact ⟨(.normal, s'), by simp only [exec, he]; exact h1, post s' (by simpa using h2)⟩

def outcome : Ctl K V × St K V → Option (OMap K V × Val K V × List (String × Val K V × Val K V))
  | (.ret v, st) => some (st.recv, v, st.trace)
  | (.normal, st) => some (st.recv, .unit, st.trace)
  | _ => none

theorem call_of_triple {funs : Funs K V} {body ps m args res}
    (h : triple funs (init m ps args) body (fun r => outcome r = some res)) :
    call funs body ps m args = some res := by
  obtain ⟨⟨c, s⟩, h1, h2⟩ := h
  simp only [call, h1]
  cases c <;> simp_all [outcome]

/-! ### loop-free bodies -/

theorem src_set (funs : Funs K V) (m : OMap K V) (k : K) (v : V) :
    call funs setBody setParams m [.k k, .v v] = some (m.set k v, .unit, []) := by
  cases h : rget k m.records <;>
    simp [call, setBody, setParams, exec, eval, init, bind, upd, St.set, OMap.set, h, evalAppend]

theorem src_get (funs : Funs K V) (m : OMap K V) (k : K) :
    call funs getBody getParams m [.k k] = some (m, .v (m.get k), []) := by
  simp [call, getBody, getParams, exec, eval, init, bind, upd, St.set, OMap.get, evalIndex]

theorem src_has (funs : Funs K V) (m : OMap K V) (k : K) :
    call funs hasBody hasParams m [.k k] = some (m, .b (m.has k), []) := by
  simp [call, hasBody, hasParams, exec, eval, init, bind, upd, St.set, OMap.has]

theorem src_len (funs : Funs K V) (m : OMap K V) :
    call funs lenBody lenParams m [] = some (m, .n m.len, []) := by
  simp [call, lenBody, lenParams, exec, eval, init, bind, upd, St.set, OMap.len, evalLen]

theorem src_at (funs : Funs K V) (m : OMap K V) (i : Int) :
    call funs atBody atParams m [.n i] =
      if i < 0 then none else (m.at? i.toNat).map (fun v => (m, .v v, [])) := by
  simp only [call, atBody, atParams, exec, eval, init, bind, upd, St.set, OMap.at?, evalIndex]
  by_cases hi : i < 0
  · simp [hi, evalIndex]
  · cases h : m.order[i.toNat]? <;> simp [hi, h, evalIndex, OMap.get]

theorem src_sort (funs : Funs K V) (m : OMap K V) (less : K → K → Bool)
    (hf : ∀ a b, funs "p0" (.k a) (.k b) = some (.b (less a b))) :
    call funs sortBody sortParams m [.unit] = some (m.sort less, .unit, []) := by
  have : lessOf funs "p0" = less := by
    funext a b; simp only [lessOf, hf]; cases less a b <;> rfl
  simp [call, sortBody, sortParams, exec, init, bind, OMap.sort, this]

/-! ### bodies with one loop -/

theorem src_remove (funs : Funs K V) (m : OMap K V) (k : K) :
    call funs removeBody removeParams m [.k k] = some (m.remove k, .unit, []) := by
  apply call_of_triple
  unfold removeBody
  apply triple_seq'; simp [exec, eval, init, bind, upd, removeParams, St.set]
  apply triple_seq'; simp [exec, eval, init, bind, upd, removeParams, St.set, evalLen]
  apply triple_seq
  apply triple_for (I := fun done s => s.recv = ⟨rdel k m.records, m.order⟩ ∧ s.trace = [] ∧
    s.env "p0" = some (.k k) ∧ s.env "x0" = some (.ks (done.filter (fun e => !decide (e = k))))) (l := m.order)
  · simp [eval]
  · simp [upd]
  · intro done a s ⟨h1, h2, h3, h4⟩
    apply triple_atom
    by_cases hak : a = k <;>
      simp [exec, eval, upd, St.set, evalEq, evalAppend, h1, h2, h3, h4, hak, List.filter_append]
  · intro s ⟨h1, h2, h3, h4⟩
    refine ⟨rfl, ?_⟩
    apply triple_atom
    simp [exec, eval, h1, h2, h3, h4, outcome, OMap.remove]

theorem src_iterate (funs : Funs K V) (m : OMap K V) :
    call funs iterateBody iterateParams m [.unit] =
      some (m, .unit, m.iterate.map (fun kv => ("p0", .k kv.1, .v kv.2))) := by
  apply call_of_triple
  unfold iterateBody
  apply triple_for (I := fun done s => s.recv = m ∧
    s.trace = done.map (fun a => ("p0", Val.k a, Val.v (m.get a)))) (l := m.order)
  · simp [eval, init]
  · simp [init]
  · intro done a s ⟨h1, h2⟩
    apply triple_atom
    simp [exec, eval, upd, St.set, evalIndex, h1, h2, OMap.get]
  · intro s ⟨h1, h2⟩
    simp [outcome, h1, h2, OMap.iterate, List.map_map, Function.comp_def]

theorem src_map (funs : Funs K V) (m : OMap K V) (f : K → V → V)
    (hf : ∀ a b, funs "p0" (.k a) (.v b) = some (.v (f a b))) :
    call funs mapBody mapParams m [.unit] = some (m, .om (m.mapVals f), []) := by
  apply call_of_triple
  unfold mapBody
  apply triple_seq'; simp [exec, eval, init, bind, upd, mapParams, St.set]
  apply triple_seq
  apply triple_for (I := fun done s => s.recv = m ∧ s.trace = [] ∧
    s.env "x0" = some (.om (done.foldl (fun acc a => acc.set a (f a (m.get a))) OMap.empty))) (l := m.order)
  · simp [eval]
  · simp [upd]
  · intro done a s ⟨h1, h2, h3⟩
    apply triple_atom
    simp [exec, eval, upd, St.set, evalIndex, callee2, hf, h1, h2, h3, OMap.get, List.foldl_append]
  · intro s ⟨h1, h2, h3⟩
    refine ⟨rfl, ?_⟩
    apply triple_atom
    simp [exec, eval, h1, h2, h3, outcome, OMap.mapVals]

theorem src_filter (funs : Funs K V) (m : OMap K V) (p : K → V → Bool)
    (hf : ∀ a b, funs "p0" (.k a) (.v b) = some (.b (p a b))) :
    call funs filterBody filterParams m [.unit] = some (m, .om (m.filter p), []) := by
  apply call_of_triple
  unfold filterBody
  apply triple_seq'; simp [exec, eval, init, bind, upd, filterParams, St.set]
  apply triple_seq
  apply triple_for (I := fun done s => s.recv = m ∧ s.trace = [] ∧
    s.env "x0" = some (.om (done.foldl
      (fun acc a => if p a (m.get a) then acc.set a (m.get a) else acc) OMap.empty))) (l := m.order)
  · simp [eval]
  · simp [upd]
  · intro done a s ⟨h1, h2, h3⟩
    apply triple_atom
    have hget : (rget a m.records).getD default = m.get a := rfl
    cases hp : p a (m.get a) <;>
      simp [exec, eval, upd, St.set, evalIndex, callee2, hf, h1, h2, h3, List.foldl_append, hget, hp]
  · intro s ⟨h1, h2, h3⟩
    refine ⟨rfl, ?_⟩
    apply triple_atom
    simp [exec, eval, h1, h2, h3, outcome, OMap.filter]

theorem src_values (funs : Funs K V) (m : OMap K V) :
    call funs valuesBody valuesParams m [] = some (m, .vs m.values, []) := by
  apply call_of_triple
  unfold valuesBody
  apply triple_seq'; simp [exec, eval, init, bind, upd, valuesParams, St.set, callee0, OMap.len]
  apply triple_seq
  apply triple_for (I := fun done s => s.recv = m ∧ s.trace = [] ∧
    s.env "x0" = some (.vs (done.map (fun a => m.get a)))) (l := m.order)
  · simp [eval]
  · simp [upd]
  · intro done a s ⟨h1, h2, h3⟩
    apply triple_atom
    simp [exec, eval, upd, St.set, evalIndex, evalAppend, h1, h2, h3, OMap.get]
  · intro s ⟨h1, h2, h3⟩
    refine ⟨rfl, ?_⟩
    apply triple_atom
    simp [exec, eval, h1, h2, h3, outcome, OMap.values]

end Cog.OMap.Src
