/-
  Reference specification for C19: "a map that remembers first-insertion order" is an
  association list `List (K × V)` with unique keys, oldest key first.
-/
import Cog.OMap.Model
namespace Cog.OMap

variable {K V : Type} [DecidableEq K]

abbrev Ref (K V : Type) := List (K × V)

namespace Ref

def keys (r : Ref K V) : List K := r.map (·.1)

def get [Inhabited V] (r : Ref K V) (k : K) : V := (rget k r).getD default
def has (r : Ref K V) (k : K) : Bool := (rget k r).isSome

/-- overwrite keeps the position; a new key goes last -/
def set (r : Ref K V) (k : K) (v : V) : Ref K V := rset k v r

/-- removal preserves the relative order of the rest -/
def remove (r : Ref K V) (k : K) : Ref K V := r.filter (fun e => !decide (e.1 = k))

def mapVals (r : Ref K V) (f : K → V → V) : Ref K V := r.map (fun e => (e.1, f e.1 e.2))
def filter (r : Ref K V) (p : K → V → Bool) : Ref K V := List.filter (fun e => p e.1 e.2) r
def sort (r : Ref K V) (less : K → K → Bool) : Ref K V :=
  r.mergeSort (fun a b => !less b.1 a.1)
def unmarshal (r : Ref K V) (doc : List (K × V)) : Ref K V :=
  doc.foldl (fun acc kv => set acc kv.1 kv.2) r

def step [Inhabited V] (r : Ref K V) : Op K V → Ref K V × Obs K V
  | .set k v => (set r k v, .unit)
  | .get k => (r, .val (get r k))
  | .has k => (r, .bool (has r k))
  | .remove k => (remove r k, .unit)
  | .len => (r, .nat r.length)
  | .iterate => (r, .pairs r)
  | .values => (r, .vals (r.map (·.2)))
  | .at i => (r, match r[i]? with | some e => .val e.2 | none => .panic)
  | .mapVals f => (mapVals r f, .unit)
  | .filter p => (filter r p, .unit)
  | .sort less => (sort r less, .unit)
  | .marshal => (r, .pairs r)
  | .unmarshal doc => (unmarshal r doc, .unit)

def run [Inhabited V] (r : Ref K V) : List (Op K V) → Ref K V × List (Obs K V)
  | [] => (r, [])
  | op :: ops =>
    let (r', o) := step r op
    let (r'', os) := run r' ops
    (r'', o :: os)

end Ref
end Cog.OMap
