/-
  Helper lemmas for C19 (refinement of the ordered map to an association list).
-/
import Cog.OMap.Spec
namespace Cog.OMap

variable {K V : Type} [DecidableEq K]

/-! ### the Go map primitives -/

@[simp] theorem rget_nil (k : K) : rget k ([] : List (K × V)) = none := rfl

theorem rget_rset (k k' : K) (v : V) (l : List (K × V)) :
    rget k' (rset k v l) = if k = k' then some v else rget k' l := by
  induction l with
  | nil => simp [rset, rget]
  | cons e t ih =>
    obtain ⟨a, b⟩ := e
    by_cases h : a = k
    · subst h; by_cases h2 : a = k' <;> simp [rset, rget, h2]
    · by_cases h2 : a = k'
      · subst h2; simp [rset, rget, h]; intro h3; exact absurd h3.symm h
      · simp [rset, rget, h, h2, ih]

theorem rget_rdel (k k' : K) (l : List (K × V)) :
    rget k' (rdel k l) = if k = k' then none else rget k' l := by
  induction l with
  | nil => simp [rdel, rget]
  | cons e t ih =>
    obtain ⟨a, b⟩ := e
    by_cases h : a = k
    · subst h
      by_cases h2 : a = k'
      · subst h2; simp [rdel, ih]
      · simp [rdel, rget, h2, ih]
    · by_cases h2 : a = k'
      · subst h2
        have : ¬ k = a := fun h3 => h h3.symm
        simp [rdel, rget, h, this]
      · simp [rdel, rget, h, h2, ih]

/-! ### invariant and abstraction -/

def Inv (m : OMap K V) : Prop :=
  m.order.Nodup ∧ ∀ k, k ∈ m.order ↔ (rget k m.records).isSome = true

def abs [Inhabited V] (m : OMap K V) : Ref K V := m.order.map (fun k => (k, m.get k))

theorem inv_empty : Inv (OMap.empty : OMap K V) := by
  constructor
  · simp [OMap.empty]
  · intro k; simp [OMap.empty]

@[simp] theorem abs_empty [Inhabited V] : abs (OMap.empty : OMap K V) = [] := rfl

/-- looking a key up in `l.map (x ↦ (x, g x))` -/
theorem rget_map_self (g : K → V) (k : K) (l : List K) :
    rget k (l.map (fun x => (x, g x))) = if k ∈ l then some (g k) else none := by
  induction l with
  | nil => simp
  | cons a t ih =>
    by_cases h : a = k
    · subst h; simp [rget]
    · have : ¬ k = a := fun h3 => h h3.symm
      simp [rget, h, ih, this]

theorem rget_abs [Inhabited V] (m : OMap K V) (h : Inv m) (k : K) :
    rget k (abs m) = rget k m.records := by
  unfold abs
  rw [rget_map_self]
  by_cases hk : k ∈ m.order
  · have := (h.2 k).1 hk
    simp only [hk, if_true, OMap.get]
    cases hr : rget k m.records with
    | none => simp [hr] at this
    | some v => simp
  · have : ¬ (rget k m.records).isSome = true := fun c => hk ((h.2 k).2 c)
    simp only [hk, if_false]
    cases hr : rget k m.records with
    | none => rfl
    | some v => simp [hr] at this

theorem keys_abs [Inhabited V] (m : OMap K V) : Ref.keys (abs m) = m.order := by
  simp [Ref.keys, abs, List.map_map, Function.comp_def]

/-! ### `rset` on lists of the shape `l.map (x ↦ (x, g x))` -/

theorem rset_map_notin (g : K → V) (k : K) (v : V) (l : List K) (h : k ∉ l) :
    rset k v (l.map (fun x => (x, g x))) = l.map (fun x => (x, g x)) ++ [(k, v)] := by
  induction l with
  | nil => simp [rset]
  | cons a t ih =>
    have h1 : ¬ a = k := fun c => h (by simp [c])
    have h2 : k ∉ t := fun c => h (by simp [c])
    simp [rset, h1, ih h2]

theorem rset_map_in (g : K → V) (k : K) (v : V) (l : List K) (h : k ∈ l) (nd : l.Nodup) :
    rset k v (l.map (fun x => (x, g x))) = l.map (fun x => (x, if x = k then v else g x)) := by
  induction l with
  | nil => simp at h
  | cons a t ih =>
    have ndt : t.Nodup := (List.nodup_cons.1 nd).2
    have ant : a ∉ t := (List.nodup_cons.1 nd).1
    by_cases h1 : a = k
    · subst h1
      simp only [List.map_cons, rset, if_true]
      congr 1
      apply List.map_congr_left
      intro x hx
      have : ¬ x = a := fun c => ant (c ▸ hx)
      simp [this]
    · have h2 : k ∈ t := by
        cases List.mem_cons.1 h with
        | inl c => exact absurd c.symm h1
        | inr c => exact c
      simp [rset, h1, ih h2 ndt]

/-! ### `set` refines `Ref.set` and keeps the invariant -/

theorem inv_set (m : OMap K V) (h : Inv m) (k : K) (v : V) : Inv (m.set k v) := by
  unfold OMap.set
  cases hr : rget k m.records with
  | some w =>
    refine ⟨h.1, ?_⟩
    intro k'
    simp only [rget_rset]
    by_cases e : k = k'
    · subst e; simp; exact (h.2 k).2 (by simp [hr])
    · simp [e]; exact h.2 k'
  | none =>
    have hk : k ∉ m.order := fun c => by
      have := (h.2 k).1 c; simp [hr] at this
    refine ⟨?_, ?_⟩
    · simp only
      rw [List.nodup_append]
      refine ⟨h.1, by simp, ?_⟩
      intro a ha b hb
      simp at hb; subst hb
      intro c; subst c; exact hk ha
    · intro k'
      simp only [rget_rset, List.mem_append, List.mem_singleton]
      by_cases e : k = k'
      · subst e; simp
      · have e' : ¬ k' = k := fun c => e c.symm
        simp [e, e']; exact h.2 k'

theorem get_set [Inhabited V] (m : OMap K V) (k k' : K) (v : V) :
    (m.set k v).get k' = if k = k' then v else m.get k' := by
  unfold OMap.set OMap.get
  cases hr : rget k m.records <;> simp only [rget_rset] <;> by_cases e : k = k' <;> simp [e]

theorem abs_set [Inhabited V] (m : OMap K V) (h : Inv m) (k : K) (v : V) :
    abs (m.set k v) = Ref.set (abs m) k v := by
  unfold Ref.set
  cases hr : rget k m.records with
  | some w =>
    have hk : k ∈ m.order := (h.2 k).2 (by simp [hr])
    have ho : (m.set k v).order = m.order := by simp [OMap.set, hr]
    unfold abs
    rw [ho, rset_map_in _ k v _ hk h.1]
    apply List.map_congr_left
    intro x _
    rw [get_set]
    by_cases e : k = x
    · subst e; simp
    · have : ¬ x = k := fun c => e c.symm
      simp [e, this]
  | none =>
    have hk : k ∉ m.order := fun c => by
      have := (h.2 k).1 c; simp [hr] at this
    have ho : (m.set k v).order = m.order ++ [k] := by simp [OMap.set, hr]
    unfold abs
    rw [ho, rset_map_notin _ k v _ hk, List.map_append]
    congr 1
    · apply List.map_congr_left
      intro x hx
      rw [get_set]
      have : ¬ k = x := fun c => hk (c ▸ hx)
      simp [this]
    · simp [get_set]

/-! ### folds of optional `set`s (Map, Filter, UnmarshalJSON all have this shape) -/

def setOpt (m : OMap K V) : Option (K × V) → OMap K V
  | some (k, v) => m.set k v
  | none => m

def Ref.setOpt (r : Ref K V) : Option (K × V) → Ref K V
  | some (k, v) => Ref.set r k v
  | none => r

theorem fold_setOpt [Inhabited V] {α : Type} (h : α → Option (K × V)) (l : List α)
    (m : OMap K V) (hm : Inv m) :
    Inv (l.foldl (fun acc x => setOpt acc (h x)) m) ∧
    abs (l.foldl (fun acc x => setOpt acc (h x)) m)
      = l.foldl (fun r x => Ref.setOpt r (h x)) (abs m) := by
  induction l generalizing m with
  | nil => exact ⟨hm, rfl⟩
  | cons a t ih =>
    simp only [List.foldl_cons]
    cases ha : h a with
    | none => simpa [setOpt, Ref.setOpt] using ih m hm
    | some kv =>
      obtain ⟨k, v⟩ := kv
      have := ih (m.set k v) (inv_set m hm k v)
      simp only [setOpt, Ref.setOpt]
      rw [← abs_set m hm k v]
      exact this

theorem rset_notin_keys (k : K) (v : V) (r : Ref K V) (h : k ∉ Ref.keys r) :
    rset k v r = r ++ [(k, v)] := by
  induction r with
  | nil => rfl
  | cons e t ih =>
    obtain ⟨a, b⟩ := e
    have h1 : ¬ a = k := fun c => h (by simp [Ref.keys, c])
    have h2 : k ∉ Ref.keys t := fun c => h (by simp [Ref.keys] at c ⊢; exact Or.inr c)
    simp [rset, h1, ih h2]

/-- folding optional sets of *fresh, distinct* keys appends them in order -/
theorem fold_ref_setOpt_fresh (h : K → Option (K × V)) (hk : ∀ x kv, h x = some kv → kv.1 = x)
    (l : List K) (nd : l.Nodup) (r : Ref K V) (hd : ∀ x ∈ l, x ∉ Ref.keys r) :
    l.foldl (fun r x => Ref.setOpt r (h x)) r = r ++ l.filterMap h := by
  induction l generalizing r with
  | nil => simp
  | cons a t ih =>
    have ndt : t.Nodup := (List.nodup_cons.1 nd).2
    have ant : a ∉ t := (List.nodup_cons.1 nd).1
    simp only [List.foldl_cons]
    cases ha : h a with
    | none =>
      simp only [Ref.setOpt, List.filterMap_cons, ha]
      exact ih ndt r (fun x hx => hd x (by simp [hx]))
    | some kv =>
      obtain ⟨k, v⟩ := kv
      have hka : k = a := hk a (k, v) ha
      subst hka
      have hnot : k ∉ Ref.keys r := hd k (by simp)
      have e1 : Ref.setOpt r (some (k, v)) = r ++ [(k, v)] := by
        simp only [Ref.setOpt, Ref.set]; exact rset_notin_keys k v r hnot
      simp only [List.filterMap_cons, ha]
      rw [e1, ih ndt]
      · simp
      · intro x hx
        have hx' := hd x (by simp [hx])
        simp only [Ref.keys, List.map_append, List.mem_append, List.map_cons, List.map_nil,
          List.mem_singleton, not_or] at hx' ⊢
        refine ⟨hx', ?_⟩
        intro c; subst c; exact ant hx

end Cog.OMap
