/-
  Per-operation refinement lemmas for C19.
-/
import Cog.OMap.Lemmas
set_option linter.unusedSectionVars false
set_option linter.unusedSimpArgs false
namespace Cog.OMap

variable {K V : Type} [DecidableEq K] [Inhabited V]

theorem get_refines (m : OMap K V) (h : Inv m) (k : K) : m.get k = Ref.get (abs m) k := by
  simp [OMap.get, Ref.get, rget_abs m h]

theorem has_refines (m : OMap K V) (h : Inv m) (k : K) : m.has k = Ref.has (abs m) k := by
  simp [OMap.has, Ref.has, rget_abs m h]

theorem len_refines (m : OMap K V) : m.len = (abs m).length := by
  simp [OMap.len, abs]

theorem values_refines (m : OMap K V) : m.values = (abs m).map (·.2) := by
  simp [OMap.values, abs, List.map_map, Function.comp_def]

theorem at_refines (m : OMap K V) (i : Nat) :
    m.at? i = (match (abs m)[i]? with | some e => some e.2 | none => none) := by
  unfold OMap.at? abs
  rw [List.getElem?_map]
  cases m.order[i]? <;> simp

/-! remove -/

theorem inv_remove (m : OMap K V) (h : Inv m) (k : K) : Inv (m.remove k) := by
  refine ⟨?_, ?_⟩
  · exact h.1.sublist List.filter_sublist
  · intro k'
    simp only [OMap.remove, List.mem_filter, rget_rdel]
    by_cases e : k = k'
    · subst e; simp
    · have e' : ¬ k' = k := fun c => e c.symm
      simp [e, e']; exact h.2 k'

theorem get_remove (m : OMap K V) (k k' : K) (e : ¬ k' = k) :
    (m.remove k).get k' = m.get k' := by
  have : ¬ k = k' := fun c => e c.symm
  simp [OMap.get, OMap.remove, rget_rdel, this]

theorem abs_remove (m : OMap K V) (k : K) : abs (m.remove k) = Ref.remove (abs m) k := by
  unfold abs Ref.remove
  rw [List.filter_map]
  have : (m.remove k).order = m.order.filter (fun e => !decide (e = k)) := rfl
  rw [this]
  apply List.map_congr_left
  intro x hx
  have hx' : ¬ x = k := by simpa using (List.mem_filter.1 hx).2
  rw [get_remove m k x hx']

/-! Map / Filter / UnmarshalJSON as folds of optional sets -/

theorem mapVals_eq (m : OMap K V) (f : K → V → V) :
    m.mapVals f = m.order.foldl (fun acc k => setOpt acc (some (k, f k (m.get k)))) OMap.empty := rfl

theorem filter_eq (m : OMap K V) (p : K → V → Bool) :
    m.filter p = m.order.foldl
      (fun acc k => setOpt acc (if p k (m.get k) then some (k, m.get k) else none)) OMap.empty := by
  unfold OMap.filter
  congr 1
  funext acc k
  by_cases h : p k (m.get k) <;> simp [h, setOpt]

theorem unmarshal_eq (m : OMap K V) (doc : List (K × V)) :
    m.unmarshal doc = doc.foldl (fun acc kv => setOpt acc (some kv)) m := rfl

theorem inv_mapVals (m : OMap K V) (f : K → V → V) : Inv (m.mapVals f) := by
  rw [mapVals_eq]; exact (fold_setOpt _ _ _ inv_empty).1

theorem abs_mapVals (m : OMap K V) (h : Inv m) (f : K → V → V) :
    abs (m.mapVals f) = Ref.mapVals (abs m) f := by
  rw [mapVals_eq, (fold_setOpt _ _ _ inv_empty).2, abs_empty,
    fold_ref_setOpt_fresh (fun k => some (k, f k (m.get k))) (by intro x kv e; cases e; rfl)
      m.order h.1 [] (by simp [Ref.keys])]
  simp [Ref.mapVals, abs, List.map_map, Function.comp_def]

theorem inv_filter (m : OMap K V) (p : K → V → Bool) : Inv (m.filter p) := by
  rw [filter_eq]; exact (fold_setOpt _ _ _ inv_empty).1

theorem abs_filter (m : OMap K V) (h : Inv m) (p : K → V → Bool) :
    abs (m.filter p) = Ref.filter (abs m) p := by
  rw [filter_eq, (fold_setOpt _ _ _ inv_empty).2, abs_empty,
    fold_ref_setOpt_fresh (fun k => if p k (m.get k) then some (k, m.get k) else none)
      (by intro x kv e; by_cases c : p x (m.get x) <;> simp [c] at e; subst e; rfl)
      m.order h.1 [] (by simp [Ref.keys])]
  simp only [List.nil_append, Ref.filter, abs]
  rw [List.filter_map]
  induction m.order with
  | nil => rfl
  | cons a t ih =>
    by_cases c : p a (m.get a) <;> simp [List.filterMap_cons, List.filter_cons, c, ih]

theorem inv_unmarshal (m : OMap K V) (h : Inv m) (doc : List (K × V)) : Inv (m.unmarshal doc) := by
  rw [unmarshal_eq]; exact (fold_setOpt _ _ _ h).1

theorem abs_unmarshal (m : OMap K V) (h : Inv m) (doc : List (K × V)) :
    abs (m.unmarshal doc) = Ref.unmarshal (abs m) doc := by
  rw [unmarshal_eq, (fold_setOpt _ _ _ h).2]
  unfold Ref.unmarshal
  congr 1

/-! Sort -/

theorem inv_sort (m : OMap K V) (h : Inv m) (less : K → K → Bool) : Inv (m.sort less) := by
  refine ⟨?_, ?_⟩
  · exact (List.Perm.nodup_iff (List.mergeSort_perm _ _)).2 h.1
  · intro k; simp only [OMap.sort, List.mem_mergeSort]; exact h.2 k

theorem abs_sort (m : OMap K V) (less : K → K → Bool) :
    abs (m.sort less) = Ref.sort (abs m) less := by
  unfold abs Ref.sort
  have hg : (m.sort less).get = m.get := rfl
  rw [hg]
  exact List.map_mergeSort (f := fun k => (k, m.get k)) (by intros; rfl)

end Cog.OMap
