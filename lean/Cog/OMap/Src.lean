/-
  Mini-language for the method bodies of /repo/internal/orderedmap/map.go and its Go semantics.

  The translator /verif/extract/xomap (go/ast, purely syntactic) turns each method body into a
  closed term of `Stmt` (generated module `Cog.Gen.OMapSrc`, regenerated from /repo on every run).
  This file gives those terms their meaning (`eval`, `exec`); `Cog/OMap/SrcEquiv.lean` proves
  that each translated body computes exactly the hand-written model function of `Model.lean`.

  Trusted here (the semantics of the Go fragment):
  * map index / comma-ok / assignment / delete on `records` are `rget / rset / rdel`;
    an absent key reads as the zero value (`default`);
  * a slice index out of range and `make` with a negative capacity panic (`none`);
  * `for _, x := range e` evaluates `e` once; `continue` ends the iteration, `return` the method;
  * `sort.SliceStable(order, func(i, j) { return f(order[i], order[j]) })` is the stable merge
    sort of the model (`List.mergeSort (fun a b => !f b a)`) -- a library call either way;
  * calls of methods of the same type (`newMap.Set`, `orderedMap.Len`) mean the MODEL's `set` /
    `len` (assume-guarantee: `Set` and `Len` call no method and are themselves proved equal to
    the model); the local holding `New()` is not aliased;
  * function-valued parameters are pure (`funs`); a call for effect is appended to the trace.
-/
import Cog.OMap.Model
namespace Cog.OMap.Src
open Cog.OMap

inductive Expr where
  | var (x : String)
  | self
  | recvRecords
  | recvOrder
  | index (a i : Expr)
  | len (a : Expr)
  | eq (a b : Expr)
  | ne (a b : Expr)
  | not (a : Expr)
  | sub (a b : Expr)
  | lit (n : Int)
  | call2 (f : String) (a b : Expr)
  | append1 (s x : Expr)
  | makeSlice (elemIsKey : Bool) (cap : Expr)
  | newMap
  | mcall0 (recv : Expr) (name : String)

inductive Stmt where
  | skip
  | seq (a b : Stmt)
  | assign (x : String) (e : Expr)
  | commaOk (x : String) (m k : Expr)
  | setOrder (e : Expr)
  | recordsSet (k v : Expr)
  | recordsDel (k : Expr)
  | ifThen (c : Expr) (body : Stmt)
  | forRange (x : String) (e : Expr) (body : Stmt)
  | continue_
  | ret (e : Expr)
  | retUnit
  | callStmt (f : String) (a b : Expr)
  | mcallStmt (recvVar : String) (name : String) (a b : Expr)
  | sortStableOrderBy (f : String)

inductive Val (K V : Type) where
  | k (x : K)
  | v (x : V)
  | b (x : Bool)
  | n (x : Int)
  | ks (l : List K)
  | vs (l : List V)
  | recs (l : List (K × V))
  | om (m : OMap K V)
  | unit

abbrev Env (K V : Type) := String → Option (Val K V)

def upd {K V : Type} (env : Env K V) (x : String) (v : Val K V) : Env K V :=
  fun y => if y = x then some v else env y

structure St (K V : Type) where
  recv : OMap K V
  env : Env K V
  trace : List (String × Val K V × Val K V)

def St.set {K V : Type} (st : St K V) (x : String) (v : Val K V) : St K V :=
  { st with env := upd st.env x v }

inductive Ctl (K V : Type) where
  | normal
  | cont
  | ret (v : Val K V)

/-- the function-valued arguments of a method (`callback`, `lessFunc`) -/
abbrev Funs (K V : Type) := String → Val K V → Val K V → Option (Val K V)

variable {K V : Type} [DecidableEq K] [Inhabited V]

/-- `orderedMap.Len()`: the model's `len` (assume-guarantee, see the header). -/
def callee0 (name : String) (m : OMap K V) : Option (Val K V) :=
  if name = "Len" then some (.n m.len) else none

/-- `newMap.Set(k, v)`: the model's `set`. -/
def callee2 (name : String) (m : OMap K V) : Val K V → Val K V → Option (OMap K V)
  | .k key, .v val => if name = "Set" then some (m.set key val) else none
  | _, _ => none

def lessOf (funs : Funs K V) (f : String) (a b : K) : Bool :=
  match funs f (.k a) (.k b) with
  | some (.b true) => true
  | _ => false

def evalIndex : Val K V → Val K V → Option (Val K V)
  | .recs r, .k key => some (.v ((rget key r).getD default))
  | .ks l, .n i => if i < 0 then none else (l[i.toNat]?).map .k
  | .vs l, .n i => if i < 0 then none else (l[i.toNat]?).map .v
  | _, _ => none

def evalLen : Val K V → Option (Val K V)
  | .ks l => some (.n l.length)
  | .vs l => some (.n l.length)
  | _ => none

def evalEq : Val K V → Val K V → Option Bool
  | .k a, .k b => some (decide (a = b))
  | .n a, .n b => some (decide (a = b))
  | .b a, .b b => some (decide (a = b))
  | _, _ => none

def evalAppend : Val K V → Val K V → Option (Val K V)
  | .ks l, .k x => some (.ks (l ++ [x]))
  | .vs l, .v x => some (.vs (l ++ [x]))
  | _, _ => none

def eval (funs : Funs K V) : Expr → St K V → Option (Val K V)
  | .var x, st => st.env x
  | .self, st => some (.om st.recv)
  | .recvRecords, st => some (.recs st.recv.records)
  | .recvOrder, st => some (.ks st.recv.order)
  | .index a i, st =>
    match eval funs a st, eval funs i st with
    | some va, some vi => evalIndex va vi
    | _, _ => none
  | .len a, st =>
    match eval funs a st with
    | some va => evalLen va
    | none => none
  | .eq a b, st =>
    match eval funs a st, eval funs b st with
    | some va, some vb => (evalEq va vb).map .b
    | _, _ => none
  | .ne a b, st =>
    match eval funs a st, eval funs b st with
    | some va, some vb => (evalEq va vb).map (fun r => .b (!r))
    | _, _ => none
  | .not a, st =>
    match eval funs a st with
    | some (.b r) => some (.b (!r))
    | _ => none
  | .sub a b, st =>
    match eval funs a st, eval funs b st with
    | some (.n x), some (.n y) => some (.n (x - y))
    | _, _ => none
  | .lit n, _ => some (.n n)
  | .call2 f a b, st =>
    match eval funs a st, eval funs b st with
    | some va, some vb => funs f va vb
    | _, _ => none
  | .append1 s x, st =>
    match eval funs s st, eval funs x st with
    | some vs, some vx => evalAppend vs vx
    | _, _ => none
  | .makeSlice isKey cap, st =>
    match eval funs cap st with
    | some (.n c) => if c < 0 then none else some (if isKey then .ks [] else .vs [])
    | _ => none
  | .newMap, _ => some (.om OMap.empty)
  | .mcall0 r name, st =>
    match eval funs r st with
    | some (.om m) => callee0 name m
    | _ => none

/-- `for _, x := range l { body }` -/
def loop (body : St K V → Option (Ctl K V × St K V)) (x : String) :
    List K → St K V → Option (Ctl K V × St K V)
  | [], st => some (.normal, st)
  | a :: l, st =>
    match body (st.set x (.k a)) with
    | some (.ret v, st') => some (.ret v, st')
    | some (_, st') => loop body x l st'
    | none => none

def exec (funs : Funs K V) : Stmt → St K V → Option (Ctl K V × St K V)
  | .skip, st => some (.normal, st)
  | .seq a b, st =>
    match exec funs a st with
    | some (.normal, st') => exec funs b st'
    | r => r
  | .assign x e, st =>
    match eval funs e st with
    | some v => some (.normal, st.set x v)
    | none => none
  | .commaOk x m k, st =>
    match eval funs m st, eval funs k st with
    | some (.recs r), some (.k key) => some (.normal, st.set x (.b (rget key r).isSome))
    | _, _ => none
  | .setOrder e, st =>
    match eval funs e st with
    | some (.ks l) => some (.normal, { st with recv := { st.recv with order := l } })
    | _ => none
  | .recordsSet k v, st =>
    match eval funs k st, eval funs v st with
    | some (.k key), some (.v val) =>
      some (.normal, { st with recv := { st.recv with records := rset key val st.recv.records } })
    | _, _ => none
  | .recordsDel k, st =>
    match eval funs k st with
    | some (.k key) =>
      some (.normal, { st with recv := { st.recv with records := rdel key st.recv.records } })
    | _ => none
  | .ifThen c body, st =>
    match eval funs c st with
    | some (.b true) => exec funs body st
    | some (.b false) => some (.normal, st)
    | _ => none
  | .forRange x e body, st =>
    match eval funs e st with
    | some (.ks l) => loop (fun s => exec funs body s) x l st
    | _ => none
  | .continue_, st => some (.cont, st)
  | .ret e, st =>
    match eval funs e st with
    | some v => some (.ret v, st)
    | none => none
  | .retUnit, st => some (.ret .unit, st)
  | .callStmt f a b, st =>
    match eval funs a st, eval funs b st with
    | some va, some vb => some (.normal, { st with trace := st.trace ++ [(f, va, vb)] })
    | _, _ => none
  | .mcallStmt x name a b, st =>
    match st.env x, eval funs a st, eval funs b st with
    | some (.om m), some va, some vb =>
      match callee2 name m va vb with
      | some m' => some (.normal, st.set x (.om m'))
      | none => none
    | _, _, _ => none
  | .sortStableOrderBy f, st =>
    some (.normal, { st with recv := { st.recv with
      order := st.recv.order.mergeSort (fun a b => !lessOf funs f b a) } })

/-- positional binding of the arguments to the (canonical) parameter names -/
def bind : List String → List (Val K V) → Env K V
  | x :: xs, v :: vs => upd (bind xs vs) x v
  | _, _ => fun _ => none

/-- the state in which a method body starts -/
def init (m : OMap K V) (params : List String) (args : List (Val K V)) : St K V :=
  { recv := m, env := bind params args, trace := [] }

/-- Outcome of a method call: receiver afterwards, returned value (`unit` when the body falls off
    its end), trace of effect calls; `none` = panic. -/
def call (funs : Funs K V) (body : Stmt) (params : List String) (m : OMap K V)
    (args : List (Val K V)) : Option (OMap K V × Val K V × List (String × Val K V × Val K V)) :=
  match exec funs body (init m params args) with
  | some (.ret v, st) => some (st.recv, v, st.trace)
  | some (.normal, st) => some (st.recv, .unit, st.trace)
  | _ => none

end Cog.OMap.Src
