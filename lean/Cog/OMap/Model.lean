/-
  Model of /repo/internal/orderedmap/map.go  (hand-written; tied to the code (1) by the
  theorems of Cog/OMap/SrcEquiv.lean: the method bodies of the CURRENT map.go, translated by
  /verif/extract/xomap into Cog.Gen.OMapSrc on every run, compute exactly these functions;
  (2) by the correspondence streams `omap-*` of the harness, see /verif/DESIGN.md, C19).

  `records` is the Go `map[K]V` (only ever consulted by key, so an association list
  with unique keys, accessed exclusively through `rget/rset/rdel`), `order` is the
  `[]K` slice.  Every method of map.go is transcribed literally.
-/
namespace Cog.OMap

variable {K V : Type} [DecidableEq K]

/-- `m[k]` with the comma-ok form. -/
def rget (k : K) : List (K × V) → Option V
  | [] => none
  | (k', v) :: t => if k' = k then some v else rget k t

/-- `m[k] = v`. -/
def rset (k : K) (v : V) : List (K × V) → List (K × V)
  | [] => [(k, v)]
  | (k', v') :: t => if k' = k then (k, v) :: t else (k', v') :: rset k v t

/-- `delete(m, k)`. -/
def rdel (k : K) : List (K × V) → List (K × V)
  | [] => []
  | (k', v') :: t => if k' = k then rdel k t else (k', v') :: rdel k t

structure OMap (K V : Type) where
  records : List (K × V)
  order   : List K

/-- `New()`. -/
def OMap.empty : OMap K V := ⟨[], []⟩

/-- `Set`: append to `order` only when the key is not yet in `records`. -/
def OMap.set (m : OMap K V) (k : K) (v : V) : OMap K V :=
  match rget k m.records with
  | some _ => { m with records := rset k v m.records }
  | none   => { records := rset k v m.records, order := m.order ++ [k] }

/-- `Get`: Go returns the zero value for an absent key. -/
def OMap.get [Inhabited V] (m : OMap K V) (k : K) : V := (rget k m.records).getD default

def OMap.has (m : OMap K V) (k : K) : Bool := (rget k m.records).isSome

/-- `Remove` (after the fix `make([]K, 0, len(order))`: total). -/
def OMap.remove (m : OMap K V) (k : K) : OMap K V :=
  { records := rdel k m.records, order := m.order.filter (fun e => !decide (e = k)) }

/-- `Remove` as it was before the fix: `make([]K, 0, len(order)-1)` panics on an empty
    order.  Kept so that the witness of the former defect stays a checked statement. -/
def OMap.removePreFix (m : OMap K V) (k : K) : Option (OMap K V) :=
  if m.order.length = 0 then none else some (m.remove k)

def OMap.len (m : OMap K V) : Nat := m.order.length

/-- `At(i)`: `order[i]` panics (none) when out of range. -/
def OMap.at? [Inhabited V] (m : OMap K V) (i : Nat) : Option V :=
  match m.order[i]? with
  | some k => some (m.get k)
  | none => none

/-- `Iterate`: the sequence of callback invocations. -/
def OMap.iterate [Inhabited V] (m : OMap K V) : List (K × V) :=
  m.order.map (fun k => (k, m.get k))

def OMap.values [Inhabited V] (m : OMap K V) : List V :=
  m.order.map (fun k => m.get k)

/-- `Map`: a new map built by `Set` in `order`. -/
def OMap.mapVals [Inhabited V] (m : OMap K V) (f : K → V → V) : OMap K V :=
  m.order.foldl (fun acc k => acc.set k (f k (m.get k))) OMap.empty

/-- `Filter`. -/
def OMap.filter [Inhabited V] (m : OMap K V) (p : K → V → Bool) : OMap K V :=
  m.order.foldl (fun acc k => if p k (m.get k) then acc.set k (m.get k) else acc) OMap.empty

/-- `Sort(less)`: `sort.SliceStable`. A stable sort under `less` keeps `a` before `b`
    unless `less b a`; for a strict weak order the result is unique, which is all the
    Go documentation promises. -/
def OMap.sort (m : OMap K V) (less : K → K → Bool) : OMap K V :=
  { m with order := m.order.mergeSort (fun a b => !less b a) }

/-- `MarshalJSON`: members in `order` (the bytes are produced by encoding/json). -/
def OMap.marshal [Inhabited V] (m : OMap K V) : List (K × V) := m.iterate

/-- `UnmarshalJSON` into the receiver: `Set` per member, in document order. -/
def OMap.unmarshal (m : OMap K V) (doc : List (K × V)) : OMap K V :=
  doc.foldl (fun acc kv => acc.set kv.1 kv.2) m

/-- `FromMap`: keys sorted ascending, then `Set`.  The Go map argument is given as its
    entry list in *any* order (`entries`), `le` is `≤` on keys. -/
def OMap.fromMap (entries : List (K × V)) (le : K → K → Bool) : OMap K V :=
  (entries.mergeSort (fun a b => le a.1 b.1)).foldl (fun acc kv => acc.set kv.1 kv.2) OMap.empty

/-! ### operation language (what the harness drives) -/

inductive Op (K V : Type) where
  | set (k : K) (v : V)
  | get (k : K)
  | has (k : K)
  | remove (k : K)
  | len
  | iterate
  | values
  | at (i : Nat)
  | mapVals (f : K → V → V)
  | filter (p : K → V → Bool)
  | sort (less : K → K → Bool)
  | marshal
  | unmarshal (doc : List (K × V))

inductive Obs (K V : Type) where
  | unit
  | val (v : V)
  | bool (b : Bool)
  | nat (n : Nat)
  | pairs (l : List (K × V))
  | vals (l : List V)
  | panic

def OMap.step [Inhabited V] (m : OMap K V) : Op K V → OMap K V × Obs K V
  | .set k v => (m.set k v, .unit)
  | .get k => (m, .val (m.get k))
  | .has k => (m, .bool (m.has k))
  | .remove k => (m.remove k, .unit)
  | .len => (m, .nat m.len)
  | .iterate => (m, .pairs m.iterate)
  | .values => (m, .vals m.values)
  | .at i => (m, match m.at? i with | some v => .val v | none => .panic)
  | .mapVals f => (m.mapVals f, .unit)
  | .filter p => (m.filter p, .unit)
  | .sort less => (m.sort less, .unit)
  | .marshal => (m, .pairs m.marshal)
  | .unmarshal doc => (m.unmarshal doc, .unit)

def OMap.run [Inhabited V] (m : OMap K V) : List (Op K V) → OMap K V × List (Obs K V)
  | [] => (m, [])
  | op :: ops =>
    let (m', o) := m.step op
    let (m'', os) := OMap.run m' ops
    (m'', o :: os)

end Cog.OMap
