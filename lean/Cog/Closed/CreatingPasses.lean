/-
  The remaining object-creating passes of the Go chain keep `Closed` ("created ⊆ registered"):
  AnonymousEnumToExplicitType (collects new objects, `AddObjects`),
  DisjunctionOfAnonymousStructsToExplicit and DisjunctionToType (`RegisterNewObject`).
  Over the pass models of lean/Cog/Passes (C06).
-/
import Cog.Closed.FrameSt
namespace Cog.Closed
open Cog Cog.IR Cog.Passes
open Cog.OMap (rget rset)

/-! ### AnonymousEnumToExplicitType -/

namespace AEnum
open Cog.Passes.AnonymousEnumToExplicitType Cog.Closed.Anon

section
variable {pkg : String} {R : Use → Prop}

mutual
theorem pt (objName : String) : ∀ (sug : String) (t : Ty) (acc : List Obj), (∀ u ∈ Ty.uses pkg t, R u) → AccOK pkg R acc →
    Post (pkg := pkg) (R := R) acc (processType pkg pkg objName sug t acc).2 (Ty.uses pkg (processType pkg pkg objName sug t acc).1)
  | sug, .scalar .., acc, hq, ha => by
    simp only [processType]; exact ⟨fun _ h => h, ha, fun u hu => Or.inl (hq u hu)⟩
  | sug, .ref .., acc, hq, ha => by
    simp only [processType]; exact ⟨fun _ h => h, ha, fun u hu => Or.inl (hq u hu)⟩
  | sug, .cref .., acc, hq, ha => by
    simp only [processType]; exact ⟨fun _ h => h, ha, fun u hu => Or.inl (hq u hu)⟩
  | sug, .array e m, acc, hq, ha => by
    simp only [processType, Ty.uses]
    exact pt objName sug e acc (fun u hu => hq u (by simpa [Ty.uses] using hu)) ha
  | sug, .map i v m, acc, hq, ha => by
    simp only [processType, Ty.uses]
    have h1 := pt objName sug i acc (fun u hu => hq u (by simp [Ty.uses, hu])) ha
    have h2 := pt objName sug v (processType pkg pkg objName sug i acc).2 (fun u hu => hq u (by simp [Ty.uses, hu])) h1.ok
    refine ⟨fun o ho => h2.sub o (h1.sub o ho), h2.ok, ?_⟩
    intro u hu
    rcases List.mem_append.mp hu with hu | hu
    · exact (h1.out u hu).mono h2.sub
    · exact h2.out u hu
  | sug, .struct fs g gi m, acc, hq, ha => by
    simp only [processType, Ty.uses]
    have h1 := pfs objName fs acc (fun u hu => hq u (by simp [Ty.uses, hu])) ha
    refine ⟨h1.sub, h1.ok, ?_⟩
    intro u hu
    rcases List.mem_append.mp hu with hu | hu
    · exact h1.out u hu
    · exact Or.inl (hq u (by simp only [Ty.uses, List.mem_append]; exact Or.inr (List.mem_append.mp hu)))
  | sug, .enum vs m, acc, hq, ha => by
    simp only [processType]
    have hsub : ∀ o ∈ acc, o ∈ acc ++ [newObject pkg (ucc sug) (.enum (renameMembers vs) {})] :=
      fun o ho => List.mem_append.mpr (Or.inl ho)
    refine ⟨hsub, ?_, ?_⟩
    · intro o ho
      rcases List.mem_append.mp ho with ho | ho
      · exact ha.mono_uses hsub o ho
      · simp only [List.mem_singleton] at ho
        subst ho
        exact ⟨rfl, rfl, fun u hu => by simp [newObject, Ty.uses] at hu⟩
    · intro u hu
      simp only [Ty.uses, List.mem_singleton] at hu
      subst hu
      exact Or.inr ⟨newObject pkg (ucc sug) _, List.mem_append.mpr (Or.inr (List.mem_singleton.mpr rfl)), rfl⟩
  | sug, .disj bs info m, acc, hq, ha => by
    simp only [processType, Ty.uses]
    have h1 := pl objName sug bs acc (fun u hu => hq u (by simp [Ty.uses, hu])) ha
    refine ⟨h1.sub, h1.ok, ?_⟩
    intro u hu
    rcases List.mem_append.mp hu with hu | hu
    · exact h1.out u hu
    · exact Or.inl (hq u (by simp [Ty.uses, hu]))
  | sug, .inter bs m, acc, hq, ha => by
    simp only [processType, Ty.uses]
    exact pl objName sug bs acc (fun u hu => hq u (by simpa [Ty.uses] using hu)) ha
  | sug, .slot .., acc, hq, ha => by
    simp only [processType]; exact ⟨fun _ h => h, ha, fun u hu => Or.inl (hq u hu)⟩
  | sug, .bad .., acc, hq, ha => by
    simp only [processType]; exact ⟨fun _ h => h, ha, fun u hu => Or.inl (hq u hu)⟩
theorem pl (objName : String) : ∀ (sug : String) (ts : List Ty) (acc : List Obj), (∀ u ∈ Ty.usesList pkg ts, R u) → AccOK pkg R acc →
    Post (pkg := pkg) (R := R) acc (processList pkg pkg objName sug ts acc).2 (Ty.usesList pkg (processList pkg pkg objName sug ts acc).1)
  | sug, [], acc, _, ha => by
    simp only [processList, Ty.usesList]; exact ⟨fun _ h => h, ha, fun u hu => by simp at hu⟩
  | sug, t :: ts, acc, hq, ha => by
    simp only [processList, Ty.usesList]
    have h1 := pt objName sug t acc (fun u hu => hq u (by simp [Ty.usesList, hu])) ha
    have h2 := pl objName sug ts (processType pkg pkg objName sug t acc).2 (fun u hu => hq u (by simp [Ty.usesList, hu])) h1.ok
    refine ⟨fun o ho => h2.sub o (h1.sub o ho), h2.ok, ?_⟩
    intro u hu
    rcases List.mem_append.mp hu with hu | hu
    · exact (h1.out u hu).mono h2.sub
    · exact h2.out u hu
theorem pfs (objName : String) : ∀ (fs : List Field) (acc : List Obj), (∀ u ∈ Ty.usesFields pkg fs, R u) → AccOK pkg R acc →
    Post (pkg := pkg) (R := R) acc (processFields pkg pkg objName fs acc).2 (Ty.usesFields pkg (processFields pkg pkg objName fs acc).1)
  | [], acc, _, ha => by
    simp only [processFields, Ty.usesFields]; exact ⟨fun _ h => h, ha, fun u hu => by simp at hu⟩
  | f :: fs, acc, hq, ha => by
    simp only [processFields, Ty.usesFields]
    have h1 := pt objName (ucc objName ++ ucc f.name) f.ty acc (fun u hu => hq u (by simp [Ty.usesFields, hu])) ha
    have h2 := pfs objName fs (processType pkg pkg objName (ucc objName ++ ucc f.name) f.ty acc).2
      (fun u hu => hq u (by simp [Ty.usesFields, hu])) h1.ok
    refine ⟨fun o ho => h2.sub o (h1.sub o ho), h2.ok, ?_⟩
    intro u hu
    rcases List.mem_append.mp hu with hu | hu
    · exact (h1.out u hu).mono h2.sub
    · exact h2.out u hu
end

theorem pobjs : ∀ (l : Objects) (acc : List Obj), (∀ kv ∈ l, kv.2.selfPkg = pkg ∧ ∀ u ∈ Ty.uses pkg kv.2.ty, R u) →
    AccOK pkg R acc →
    (∀ o ∈ acc, o ∈ (processObjects pkg l acc).2) ∧ AccOK pkg R (processObjects pkg l acc).2 ∧
    All2 (fun e e' => e'.1 = e.1 ∧ e'.2.name = e.2.name ∧ e'.2.selfPkg = e.2.selfPkg ∧ e'.2.selfName = e.2.selfName ∧
      ∀ u ∈ Ty.uses pkg e'.2.ty, Good pkg R (processObjects pkg l acc).2 u) l (processObjects pkg l acc).1
  | [], acc, _, ha => by simp only [processObjects]; exact ⟨fun _ h => h, ha, .nil⟩
  | (k, o) :: rest, acc, hl, ha => by
    simp only [processObjects]
    have ho := hl (k, o) (by simp)
    have hpost : Post (pkg := pkg) (R := R) acc (processObject pkg o acc).2 (Ty.uses pkg (processObject pkg o acc).1.ty) ∧
        (processObject pkg o acc).1.name = o.name ∧ (processObject pkg o acc).1.selfPkg = o.selfPkg ∧
        (processObject pkg o acc).1.selfName = o.selfName := by
      simp only [processObject]
      split
      · exact ⟨⟨fun _ h => h, ha, fun u hu => Or.inl (ho.2 u hu)⟩, rfl, rfl, rfl⟩
      · refine ⟨?_, rfl, rfl, rfl⟩
        have := pt (pkg := pkg) (R := R) o.name (ucc o.name ++ "Enum") o.ty acc ho.2 ha
        rw [ho.1]
        exact this
    obtain ⟨hsub, hok, hall⟩ := pobjs rest (processObject pkg o acc).2 (fun kv hkv => hl kv (List.mem_cons_of_mem _ hkv)) hpost.1.ok
    refine ⟨fun x hx => hsub x (hpost.1.sub x hx), hok, .cons ⟨rfl, hpost.2.1, hpost.2.2.1, hpost.2.2.2, ?_⟩ hall⟩
    intro u hu
    exact (hpost.1.out u hu).mono hsub

end
end AEnum

theorem C_anonymousEnumToExplicitType (S S' : Schemas) (hc : Closed S) (hup : (S.map (·.pkg)).Nodup)
    (h : AnonymousEnumToExplicitType.run S = .ok S') : Closed S' ∧ KeysMono S S' := by
  simp only [AnonymousEnumToExplicitType.run, Outcome.ok.injEq] at h
  subst h
  have hcl := (closed_iff S).mp hc
  apply closed_of_spec (fun s => AnonymousEnumToExplicitType.processObjects s.pkg s.objects []) S hc hup
  intro s hs
  have := AEnum.pobjs (pkg := s.pkg) (R := fun u => resolves S u = true) s.objects []
      (fun kv hkv => by
        have hself := hcl.1 s hs kv hkv
        rw [selfOK_iff] at hself
        exact ⟨hself.2.1, (uses_of_closed hc hs).2.2 kv hkv⟩)
      (fun o ho => by simp at ho)
  exact ⟨this.2.1, this.2.2⟩

/-! ### DisjunctionOfAnonymousStructsToExplicit -/

namespace DAnon
open Cog.Passes.DisjunctionOfAnonymousStructsToExplicit

section
variable {pkg : String} {R : Use → Prop}

mutual
theorem vt : ∀ (t : Ty) (n : NewObjs), (∀ u ∈ Ty.uses pkg t, R u) → Reg pkg R n →
    PostN pkg R n (vTy pkg t n).2 (Ty.uses pkg (vTy pkg t n).1)
  | .scalar .., n, hq, hr => by simp only [vTy]; exact ⟨NamesMono.refl n, hr, fun u hu => Or.inl (hq u hu)⟩
  | .ref .., n, hq, hr => by simp only [vTy]; exact ⟨NamesMono.refl n, hr, fun u hu => Or.inl (hq u hu)⟩
  | .cref .., n, hq, hr => by simp only [vTy]; exact ⟨NamesMono.refl n, hr, fun u hu => Or.inl (hq u hu)⟩
  | .array e m, n, hq, hr => by
    simp only [vTy, Ty.uses]
    exact vt e n (fun u hu => hq u (by simpa [Ty.uses] using hu)) hr
  | .map i v m, n, hq, hr => by
    simp only [vTy, Ty.uses]
    have h1 := vt v n (fun u hu => hq u (by simp [Ty.uses, hu])) hr
    refine ⟨h1.mono, h1.reg, ?_⟩
    intro u hu
    rcases List.mem_append.mp hu with hu | hu
    · exact Or.inl (hq u (by simp [Ty.uses, hu]))
    · exact h1.out u hu
  | .struct fs g gi m, n, hq, hr => by
    simp only [vTy, Ty.uses]
    have h1 := vfs fs n (fun u hu => hq u (by simp [Ty.uses, hu])) hr
    refine ⟨h1.mono, h1.reg, ?_⟩
    intro u hu
    rcases List.mem_append.mp hu with hu | hu
    · exact h1.out u hu
    · exact Or.inl (hq u (by simp only [Ty.uses, List.mem_append]; exact Or.inr (List.mem_append.mp hu)))
  | .enum .., n, hq, hr => by simp only [vTy]; exact ⟨NamesMono.refl n, hr, fun u hu => Or.inl (hq u hu)⟩
  | .disj bs info m, n, hq, hr => by
    simp only [vTy]
    split
    · exact ⟨NamesMono.refl n, hr, fun u hu => Or.inl (hq u hu)⟩
    · simp only [Ty.uses]
      have h1 := hb bs 0 n (fun u hu => hq u (by simp [Ty.uses, hu])) hr
      refine ⟨h1.mono, h1.reg, ?_⟩
      intro u hu
      rcases List.mem_append.mp hu with hu | hu
      · exact h1.out u hu
      · exact Or.inl (hq u (by simp [Ty.uses, hu]))
  | .inter bs m, n, hq, hr => by
    simp only [vTy, Ty.uses]
    exact vl bs n (fun u hu => hq u (by simpa [Ty.uses] using hu)) hr
  | .slot .., n, hq, hr => by simp only [vTy]; exact ⟨NamesMono.refl n, hr, fun u hu => Or.inl (hq u hu)⟩
  | .bad .., n, hq, hr => by simp only [vTy]; exact ⟨NamesMono.refl n, hr, fun u hu => Or.inl (hq u hu)⟩
theorem vl : ∀ (ts : List Ty) (n : NewObjs), (∀ u ∈ Ty.usesList pkg ts, R u) → Reg pkg R n →
    PostN pkg R n (vList pkg ts n).2 (Ty.usesList pkg (vList pkg ts n).1)
  | [], n, _, hr => by simp only [vList, Ty.usesList]; exact ⟨NamesMono.refl n, hr, fun u hu => by simp at hu⟩
  | t :: ts, n, hq, hr => by
    simp only [vList, Ty.usesList]
    have h1 := vt t n (fun u hu => hq u (by simp [Ty.usesList, hu])) hr
    have h2 := vl ts (vTy pkg t n).2 (fun u hu => hq u (by simp [Ty.usesList, hu])) h1.reg
    refine ⟨h1.mono.trans h2.mono, h2.reg, ?_⟩
    intro u hu
    rcases List.mem_append.mp hu with hu | hu
    · exact (h1.out u hu).mono h2.mono
    · exact h2.out u hu
theorem vfs : ∀ (fs : List Field) (n : NewObjs), (∀ u ∈ Ty.usesFields pkg fs, R u) → Reg pkg R n →
    PostN pkg R n (vFields pkg fs n).2 (Ty.usesFields pkg (vFields pkg fs n).1)
  | [], n, _, hr => by simp only [vFields, Ty.usesFields]; exact ⟨NamesMono.refl n, hr, fun u hu => by simp at hu⟩
  | f :: fs, n, hq, hr => by
    simp only [vFields, Ty.usesFields]
    have h1 := vt f.ty n (fun u hu => hq u (by simp [Ty.usesFields, hu])) hr
    have h2 := vfs fs (vTy pkg f.ty n).2 (fun u hu => hq u (by simp [Ty.usesFields, hu])) h1.reg
    refine ⟨h1.mono.trans h2.mono, h2.reg, ?_⟩
    intro u hu
    rcases List.mem_append.mp hu with hu | hu
    · exact (h1.out u hu).mono h2.mono
    · exact h2.out u hu
theorem hb : ∀ (bs : List Ty) (i : Nat) (n : NewObjs), (∀ u ∈ Ty.usesList pkg bs, R u) → Reg pkg R n →
    PostN pkg R n (hookBranches pkg bs i n).2 (Ty.usesList pkg (hookBranches pkg bs i n).1)
  | [], i, n, _, hr => by simp only [hookBranches, Ty.usesList]; exact ⟨NamesMono.refl n, hr, fun u hu => by simp at hu⟩
  | b :: bs, i, n, hq, hr => by
    cases b with
    | struct fs g gi m =>
      simp only [hookBranches, Ty.usesList]
      have hqb : ∀ u ∈ Ty.uses pkg (.struct fs g gi m), R u := fun u hu => hq u (by simp [Ty.usesList, hu])
      have h1 := vfs fs n (fun u hu => hqb u (by simp [Ty.uses, hu])) hr
      have hreg := register_ok (pkg := pkg) (R := R) (vFields pkg fs n).2
        (newObject pkg (generateBranchName fs i) (.struct (vFields pkg fs n).1 g gi m)) h1.reg rfl rfl (by
          intro u hu
          simp only [newObject, Ty.uses, List.mem_append] at hu
          rcases hu with hu | hu
          · exact Or.inl (h1.out u hu)
          · exact Or.inl (Or.inl (hqb u (by simp only [Ty.uses, List.mem_append]; exact Or.inr hu))))
      have h2 := hb bs (i + 1) _ (fun u hu => hq u (by simp [Ty.usesList, hu])) hreg.2.1
      refine ⟨(h1.mono.trans hreg.1).trans h2.mono, h2.reg, ?_⟩
      intro u hu
      rcases List.mem_append.mp hu with hu | hu
      · simp only [Ty.uses, List.mem_singleton] at hu
        subst hu
        obtain ⟨e, he, hn⟩ := hreg.2.2
        have : GoodN pkg R (registerNew (newObject pkg (generateBranchName fs i) (.struct (vFields pkg fs n).1 g gi m)) (vFields pkg fs n).2)
            ⟨.ref, pkg, generateBranchName fs i⟩ := Or.inr ⟨e, he, by rw [hn]; rfl⟩
        exact this.mono h2.mono
      · exact h2.out u hu
    | _ =>
      simp only [hookBranches, Ty.usesList]
      have h2 := hb bs (i + 1) n (fun u hu => hq u (by simp [Ty.usesList, hu])) hr
      refine ⟨h2.mono, h2.reg, ?_⟩
      intro u hu
      rcases List.mem_append.mp hu with hu | hu
      · exact Or.inl (hq u (by simp [Ty.usesList, hu]))
      · exact h2.out u hu
end

end
end DAnon

theorem C_disjunctionOfAnonymousStructsToExplicit (S S' : Schemas) (hc : Closed S) (hup : (S.map (·.pkg)).Nodup)
    (h : DisjunctionOfAnonymousStructsToExplicit.run S = .ok S') : Closed S' ∧ KeysMono S S' := by
  apply closed_visitSt (fun _ s t n => .ok (DisjunctionOfAnonymousStructsToExplicit.vTy s.pkg t n)) S S' hc hup ?_ h
  intro cur s _ t n t' n' hq hr hv
  simp only [Outcome.ok.injEq] at hv
  have e1 : t' = (DisjunctionOfAnonymousStructsToExplicit.vTy s.pkg t n).1 := by rw [hv]
  have e2 : n' = (DisjunctionOfAnonymousStructsToExplicit.vTy s.pkg t n).2 := by rw [hv]
  rw [e1, e2]
  exact DAnon.vt t n hq hr

/-! ### DisjunctionToType -/

section dvst
variable (pkg : String) (R : Use → Prop) (hook : DisjHookSt)
  (hh : ∀ bs i m n t' n', (∀ u ∈ Ty.uses pkg (.disj bs i m), R u) → Reg pkg R n → hook bs i m n = .ok (t', n') →
    PostN pkg R n n' (Ty.uses pkg t'))
include hh

mutual
theorem dvSt_post : ∀ (t : Ty) (n : NewObjs) (t' : Ty) (n' : NewObjs), (∀ u ∈ Ty.uses pkg t, R u) → Reg pkg R n →
    dvStTy hook t n = .ok (t', n') → PostN pkg R n n' (Ty.uses pkg t')
  | .scalar .., n, t', n', hq, hr, h => by
    simp only [dvStTy, Outcome.ok.injEq, Prod.mk.injEq] at h; obtain ⟨rfl, rfl⟩ := h
    exact ⟨NamesMono.refl _, hr, fun u hu => Or.inl (hq u hu)⟩
  | .ref .., n, t', n', hq, hr, h => by
    simp only [dvStTy, Outcome.ok.injEq, Prod.mk.injEq] at h; obtain ⟨rfl, rfl⟩ := h
    exact ⟨NamesMono.refl _, hr, fun u hu => Or.inl (hq u hu)⟩
  | .cref .., n, t', n', hq, hr, h => by
    simp only [dvStTy, Outcome.ok.injEq, Prod.mk.injEq] at h; obtain ⟨rfl, rfl⟩ := h
    exact ⟨NamesMono.refl _, hr, fun u hu => Or.inl (hq u hu)⟩
  | .array e m, n, t', n', hq, hr, h => by
    simp only [dvStTy] at h
    cases he : dvStTy hook e n with
    | ok r =>
      obtain ⟨e', n1⟩ := r
      simp only [he, Outcome.ok.injEq, Prod.mk.injEq] at h; obtain ⟨rfl, rfl⟩ := h
      simp only [Ty.uses]
      exact dvSt_post e n e' n1 (fun u hu => hq u (by simpa [Ty.uses] using hu)) hr he
    | err x => simp [he] at h
    | panic x => simp [he] at h
  | .map i v m, n, t', n', hq, hr, h => by
    simp only [dvStTy] at h
    cases he : dvStTy hook v n with
    | ok r =>
      obtain ⟨v', n1⟩ := r
      simp only [he, Outcome.ok.injEq, Prod.mk.injEq] at h; obtain ⟨rfl, rfl⟩ := h
      have h1 := dvSt_post v n v' n1 (fun u hu => hq u (by simp [Ty.uses, hu])) hr he
      refine ⟨h1.mono, h1.reg, ?_⟩
      intro u hu
      simp only [Ty.uses, List.mem_append] at hu
      rcases hu with hu | hu
      · exact Or.inl (hq u (by simp [Ty.uses, hu]))
      · exact h1.out u hu
    | err x => simp [he] at h
    | panic x => simp [he] at h
  | .struct fs g gi m, n, t', n', hq, hr, h => by
    simp only [dvStTy] at h
    cases he : dvStFields hook fs n with
    | ok r =>
      obtain ⟨fs', n1⟩ := r
      simp only [he, Outcome.ok.injEq, Prod.mk.injEq] at h; obtain ⟨rfl, rfl⟩ := h
      have h1 := dvStFields_post fs n fs' n1 (fun u hu => hq u (by simp [Ty.uses, hu])) hr he
      refine ⟨h1.mono, h1.reg, ?_⟩
      intro u hu
      simp only [Ty.uses, List.mem_append] at hu
      rcases hu with hu | hu
      · exact h1.out u hu
      · exact Or.inl (hq u (by simp only [Ty.uses, List.mem_append]; exact Or.inr hu))
    | err x => simp [he] at h
    | panic x => simp [he] at h
  | .enum .., n, t', n', hq, hr, h => by
    simp only [dvStTy, Outcome.ok.injEq, Prod.mk.injEq] at h; obtain ⟨rfl, rfl⟩ := h
    exact ⟨NamesMono.refl _, hr, fun u hu => Or.inl (hq u hu)⟩
  | .disj bs i m, n, t', n', hq, hr, h => by
    simp only [dvStTy] at h
    exact hh bs i m n t' n' hq hr h
  | .inter bs m, n, t', n', hq, hr, h => by
    simp only [dvStTy] at h
    cases he : dvStList hook bs n with
    | ok r =>
      obtain ⟨bs', n1⟩ := r
      simp only [he, Outcome.ok.injEq, Prod.mk.injEq] at h; obtain ⟨rfl, rfl⟩ := h
      simp only [Ty.uses]
      exact dvStList_post bs n bs' n1 (fun u hu => hq u (by simpa [Ty.uses] using hu)) hr he
    | err x => simp [he] at h
    | panic x => simp [he] at h
  | .slot .., n, t', n', hq, hr, h => by
    simp only [dvStTy, Outcome.ok.injEq, Prod.mk.injEq] at h; obtain ⟨rfl, rfl⟩ := h
    exact ⟨NamesMono.refl _, hr, fun u hu => Or.inl (hq u hu)⟩
  | .bad .., n, t', n', hq, hr, h => by
    simp only [dvStTy, Outcome.ok.injEq, Prod.mk.injEq] at h; obtain ⟨rfl, rfl⟩ := h
    exact ⟨NamesMono.refl _, hr, fun u hu => Or.inl (hq u hu)⟩
theorem dvStList_post : ∀ (ts : List Ty) (n : NewObjs) (ts' : List Ty) (n' : NewObjs), (∀ u ∈ Ty.usesList pkg ts, R u) →
    Reg pkg R n → dvStList hook ts n = .ok (ts', n') → PostN pkg R n n' (Ty.usesList pkg ts')
  | [], n, ts', n', _, hr, h => by
    simp only [dvStList, Outcome.ok.injEq, Prod.mk.injEq] at h; obtain ⟨rfl, rfl⟩ := h
    exact ⟨NamesMono.refl _, hr, fun u hu => by simp [Ty.usesList] at hu⟩
  | t :: ts, n, ts', n', hq, hr, h => by
    simp only [dvStList] at h
    cases he : dvStTy hook t n with
    | ok r =>
      obtain ⟨t1, n1⟩ := r
      simp only [he] at h
      have h1 := dvSt_post t n t1 n1 (fun u hu => hq u (by simp [Ty.usesList, hu])) hr he
      cases hl : dvStList hook ts n1 with
      | ok r2 =>
        obtain ⟨ts1, n2⟩ := r2
        simp only [hl, Outcome.ok.injEq, Prod.mk.injEq] at h; obtain ⟨rfl, rfl⟩ := h
        have h2 := dvStList_post ts n1 ts1 n2 (fun u hu => hq u (by simp [Ty.usesList, hu])) h1.reg hl
        refine ⟨h1.mono.trans h2.mono, h2.reg, ?_⟩
        intro u hu
        simp only [Ty.usesList, List.mem_append] at hu
        rcases hu with hu | hu
        · exact (h1.out u hu).mono h2.mono
        · exact h2.out u hu
      | err x => simp [hl] at h
      | panic x => simp [hl] at h
    | err x => simp [he] at h
    | panic x => simp [he] at h
theorem dvStFields_post : ∀ (fs : List Field) (n : NewObjs) (fs' : List Field) (n' : NewObjs), (∀ u ∈ Ty.usesFields pkg fs, R u) →
    Reg pkg R n → dvStFields hook fs n = .ok (fs', n') → PostN pkg R n n' (Ty.usesFields pkg fs')
  | [], n, fs', n', _, hr, h => by
    simp only [dvStFields, Outcome.ok.injEq, Prod.mk.injEq] at h; obtain ⟨rfl, rfl⟩ := h
    exact ⟨NamesMono.refl _, hr, fun u hu => by simp [Ty.usesFields] at hu⟩
  | f :: fs, n, fs', n', hq, hr, h => by
    simp only [dvStFields] at h
    cases he : dvStTy hook f.ty n with
    | ok r =>
      obtain ⟨t1, n1⟩ := r
      simp only [he] at h
      have h1 := dvSt_post f.ty n t1 n1 (fun u hu => hq u (by simp [Ty.usesFields, hu])) hr he
      cases hl : dvStFields hook fs n1 with
      | ok r2 =>
        obtain ⟨fs1, n2⟩ := r2
        simp only [hl, Outcome.ok.injEq, Prod.mk.injEq] at h; obtain ⟨rfl, rfl⟩ := h
        have h2 := dvStFields_post fs n1 fs1 n2 (fun u hu => hq u (by simp [Ty.usesFields, hu])) h1.reg hl
        refine ⟨h1.mono.trans h2.mono, h2.reg, ?_⟩
        intro u hu
        simp only [Ty.usesFields, List.mem_append] at hu
        rcases hu with hu | hu
        · exact (h1.out u hu).mono h2.mono
        · exact h2.out u hu
      | err x => simp [hl] at h
      | panic x => simp [hl] at h
    | err x => simp [he] at h
    | panic x => simp [he] at h
end
end dvst

/-- registering an object and handing out a reference to it -/
theorem post_register {pkg : String} {R : Use → Prop} {n : NewObjs} (o : Obj) (nm : String) (m : Meta)
    (hr : Reg pkg R n) (hname : o.name = nm) (hp : o.selfPkg = pkg) (hn : o.selfName = o.name)
    (hu : ∀ u ∈ Ty.uses pkg o.ty, GoodN pkg R n u ∨ u = ⟨.ref, pkg, o.name⟩) :
    PostN pkg R n (registerNew o n) (Ty.uses pkg (.ref pkg nm m)) := by
  have hreg := register_ok (pkg := pkg) (R := R) n o hr hp hn hu
  refine ⟨hreg.1, hreg.2.1, ?_⟩
  intro u hu'
  simp only [Ty.uses, List.mem_singleton] at hu'
  subst hu'
  obtain ⟨e, he, hn'⟩ := hreg.2.2
  exact Or.inr ⟨e, he, by rw [hn', hname]⟩

namespace DToType
open Cog.Passes.DisjunctionToType

theorem branchFields_uses (home : String) : ∀ (bs : List Ty), ∀ u ∈ Ty.usesFields home (branchFields bs), u ∈ Ty.usesList home bs
  | [], u, hu => by simp [branchFields, Ty.usesFields] at hu
  | b :: bs, u, hu => by
    simp only [branchFields] at hu
    simp only [Ty.usesList, List.mem_append]
    split at hu
    · exact Or.inr (branchFields_uses home bs u hu)
    · simp only [Ty.usesFields, List.mem_append, uses_setNullable] at hu
      rcases hu with hu | hu
      · exact Or.inl hu
      · exact Or.inr (branchFields_uses home bs u hu)

end DToType

theorem C_disjunctionToType (S S' : Schemas) (hc : Closed S) (hup : (S.map (·.pkg)).Nodup)
    (h : DisjunctionToType.run S = .ok S') : Closed S' ∧ KeysMono S S' := by
  apply closed_visitSt (fun cur s => dvStTy (DisjunctionToType.hook cur s)) S S' hc hup ?_ h
  intro cur s _
  apply dvSt_post s.pkg (fun u => resolves S u = true) (DisjunctionToType.hook cur s)
  intro bs i m n t' n' hq hr hk
  simp only [DisjunctionToType.hook] at hk
  split at hk
  · cases hk
  · cases hk
  · simp only [Outcome.ok.injEq, Prod.mk.injEq] at hk; obtain ⟨rfl, rfl⟩ := hk
    exact ⟨NamesMono.refl _, hr, fun u hu => by simp [Ty.uses] at hu⟩
  · split at hk
    · rename_i hnew
      simp only [Outcome.ok.injEq, Prod.mk.injEq] at hk; obtain ⟨rfl, rfl⟩ := hk
      refine ⟨NamesMono.refl _, hr, ?_⟩
      intro u hu
      simp only [Ty.uses, List.mem_singleton] at hu
      subst hu
      simp only [hasNew] at hnew
      obtain ⟨e, he, hkey⟩ := (rget_isSome_iff _ _).mp hnew
      have := (hr e he).1
      rw [hkey] at this
      exact Or.inr ⟨e, he, by rw [← refKey_cancel this]⟩
    · split at hk
      · cases hk
      · split at hk
        · cases hk
        · simp only [Outcome.ok.injEq, Prod.mk.injEq] at hk; obtain ⟨rfl, rfl⟩ := hk
          -- the generated struct only names what the union named
          have hbs : ∀ u ∈ Ty.usesList s.pkg bs, resolves S u = true :=
            fun u hu => hq u (by simp only [Ty.uses, List.mem_append]; exact Or.inl hu)
          have hmap : ∀ k, ∀ u ∈ mappingUses k s.pkg i, resolves S u = true := by
            intro k u hu
            simp only [mappingUses, List.mem_map] at hu
            obtain ⟨kv, hkv, rfl⟩ := hu
            have := hq ⟨.mapping, s.pkg, kv.2⟩ (by
              simp only [Ty.uses, List.mem_append, mappingUses, List.mem_map]
              exact Or.inr ⟨kv, hkv, rfl⟩)
            exact this
          apply post_register (hr := hr)
          · rfl
          · rfl
          · rfl
          · intro u hu
            left; left
            simp only [newObject, Ty.uses, List.mem_append] at hu
            rcases hu with hu | hu | hu
            · exact hbs u (DToType.branchFields_uses s.pkg bs u hu)
            · (repeat' split at hu) <;> first | exact hbs u hu | (simp [Ty.usesList] at hu)
            · revert hu
              split
              · intro hu; simp only [giUses] at hu; exact hmap _ u hu
              · split
                · intro hu; simp only [giUses] at hu; exact hmap _ u hu
                · intro hu; simp [giUses] at hu

end Cog.Closed
