/-
  C05 — "every reference in the IR resolves": the naming positions of the IR and the predicate
  `Closed`.  Core Lean only (the driver evaluates `closed`, the Go harness has an independent
  implementation of the same predicate, `harness/c05_oracle.go`).

  A *use* is a place where the IR names an object.  `Ty.uses` lists them for one type, in
  traversal order, deliberately MORE than cog's Visitor walks:

    ref       `ref` node at any depth: array element, map INDEX and value, struct fields,
              union / intersection branches, and the branches of the disjunction a generated
              struct keeps in its hints (`gen`);
    cref      `constant_ref` node, same positions;
    mapping   a value of a disjunction's `DiscriminatorMapping`, and of the mapping kept in the
              `disjunction_of_refs` hint payload: a BARE object name, looked up in the package of
              the schema that holds the type (that is how every jenny prints it);
    gmapping  a mapping value in the payload of any other struct hint (`disjunction_of_scalars`);
    entry     `Schema.EntryPoint` (a bare object name of the schema's package).

  Besides uses, `Closed` asks every object to be stored consistently: map key = `Name`,
  `SelfRef = (schema.Package, Name)`.

  References into packages that are not loaded are outside the claim (`resolves` is vacuous there).
-/
import Cog.IR.Basic
namespace Cog.Closed
open Cog.IR
open Cog.OMap (rget rset)

inductive UseKind where
  | ref | cref | mapping | gmapping | entry
  deriving DecidableEq, Repr, Inhabited

def UseKind.toString : UseKind → String
  | .ref => "ref" | .cref => "cref" | .mapping => "mapping" | .gmapping => "gmapping" | .entry => "entrypoint"

structure Use where
  kind : UseKind
  pkg : String
  name : String
  deriving DecidableEq, Repr, Inhabited

def hintRefs : String := "disjunction_of_refs"

/-- mapping values as uses of bare names in package `home` -/
def mappingUses (k : UseKind) (home : String) (di : DisjInfo) : List Use :=
  di.mapping.map fun kv => ⟨k, home, kv.2⟩

/-- uses of the payload header a generated struct keeps in its hints -/
def giUses (home : String) : Option (String × DisjInfo) → List Use
  | none => []
  | some (h, di) => mappingUses (if h == hintRefs then .mapping else .gmapping) home di

mutual
def Ty.uses (home : String) : Ty → List Use
  | .scalar .. => []
  | .ref p n _ => [⟨.ref, p, n⟩]
  | .cref p n _ _ => [⟨.cref, p, n⟩]
  | .array e _ => Ty.uses home e
  | .map i v _ => Ty.uses home i ++ Ty.uses home v
  | .struct fs g gi _ => Ty.usesFields home fs ++ (Ty.usesList home g ++ giUses home gi)
  | .enum .. => []
  | .disj bs di _ => Ty.usesList home bs ++ mappingUses .mapping home di
  | .inter bs _ => Ty.usesList home bs
  | .slot .. => []
  | .bad .. => []
def Ty.usesList (home : String) : List Ty → List Use
  | [] => []
  | t :: ts => Ty.uses home t ++ Ty.usesList home ts
def Ty.usesFields (home : String) : List Field → List Use
  | [] => []
  | f :: fs => Ty.uses home f.ty ++ Ty.usesFields home fs
end

/-- a position: where (schema package + object key or `#entrypoint…`) and what is named -/
structure RefUse where
  site : String
  use : Use
  deriving Repr, Inhabited

def objSite (s : Schema) (key : String) : String := s.pkg ++ "." ++ key

def objUses (s : Schema) (kv : String × Obj) : List RefUse :=
  (Ty.uses s.pkg kv.2.ty).map fun u => ⟨objSite s kv.1, u⟩

def entryUses (s : Schema) : List RefUse :=
  (if s.entryPoint == "" then [] else [⟨s.pkg ++ "#entrypoint", ⟨.entry, s.pkg, s.entryPoint⟩⟩]) ++
  (Ty.uses s.pkg s.entryPointType).map fun u => ⟨s.pkg ++ "#entrypointtype", u⟩

def schemaUses (s : Schema) : List RefUse := entryUses s ++ s.objects.flatMap (objUses s)

/-- every naming position of the schemas, in order -/
def refPositions (S : Schemas) : List RefUse := S.flatMap schemaUses

def loaded (S : Schemas) (pkg : String) : Bool := (Schemas.locate S pkg).isSome

/-- the use names an object that exists (or points into a package that was not loaded) -/
def resolves (S : Schemas) (u : Use) : Bool :=
  !loaded S u.pkg || (Schemas.locateObject S u.pkg u.name).isSome

/-- an object is stored under its name and carries its own address -/
def selfOK (s : Schema) (kv : String × Obj) : Bool :=
  kv.1 == kv.2.name && kv.2.selfPkg == s.pkg && kv.2.selfName == kv.2.name

def schemaSelfOK (s : Schema) : Bool := s.objects.all (selfOK s)

def closed (S : Schemas) : Bool :=
  S.all schemaSelfOK && (refPositions S).all fun r => resolves S r.use

def Closed (S : Schemas) : Prop := closed S = true

instance (S : Schemas) : Decidable (Closed S) := inferInstanceAs (Decidable (closed S = true))

/-! ### the first dangling position (driver output; the Go oracle prints the same text) -/

def firstBadSelf : Schemas → Option String
  | [] => none
  | s :: rest =>
    match s.objects.find? (fun kv => !selfOK s kv) with
    | some kv => some (objSite s kv.1 ++ " self " ++ kv.2.selfPkg ++ "." ++ kv.2.selfName)
    | none => firstBadSelf rest

def firstDangling (S : Schemas) : Option String :=
  match firstBadSelf S with
  | some x => some x
  | none =>
    match (refPositions S).find? (fun r => !resolves S r.use) with
    | some r => some (r.site ++ " " ++ r.use.kind.toString ++ " " ++ r.use.pkg ++ "." ++ r.use.name)
    | none => none

/-! ### unfolding lemmas -/

theorem closed_iff (S : Schemas) :
    Closed S ↔ (∀ s ∈ S, ∀ kv ∈ s.objects, selfOK s kv = true) ∧
      (∀ s ∈ S, (∀ r ∈ entryUses s, resolves S r.use = true) ∧
        ∀ kv ∈ s.objects, ∀ u ∈ Ty.uses s.pkg kv.2.ty, resolves S u = true) := by
  simp only [Closed, closed, schemaSelfOK, refPositions, schemaUses, objUses, Bool.and_eq_true,
    List.all_eq_true, List.mem_flatMap, List.mem_append, List.mem_map]
  constructor
  · rintro ⟨h1, h2⟩
    refine ⟨h1, fun s hs => ⟨fun r hr => h2 r ⟨s, hs, Or.inl hr⟩, fun kv hkv u hu => ?_⟩⟩
    exact h2 ⟨objSite s kv.1, u⟩ ⟨s, hs, Or.inr ⟨kv, hkv, u, hu, rfl⟩⟩
  · rintro ⟨h1, h2⟩
    refine ⟨h1, ?_⟩
    rintro r ⟨s, hs, hr | ⟨kv, hkv, u, hu, rfl⟩⟩
    · exact (h2 s hs).1 r hr
    · exact (h2 s hs).2 kv hkv u hu

theorem entryUses_iff (S : Schemas) (s : Schema) :
    (∀ r ∈ entryUses s, resolves S r.use = true) ↔
      (s.entryPoint ≠ "" → resolves S ⟨.entry, s.pkg, s.entryPoint⟩ = true) ∧
      ∀ u ∈ Ty.uses s.pkg s.entryPointType, resolves S u = true := by
  simp only [entryUses, List.mem_append, List.mem_map]
  constructor
  · intro h
    refine ⟨fun hne => h ⟨s.pkg ++ "#entrypoint", ⟨.entry, s.pkg, s.entryPoint⟩⟩ (Or.inl ?_),
      fun u hu => h ⟨_, u⟩ (Or.inr ⟨u, hu, rfl⟩)⟩
    simp [hne]
  · rintro ⟨h1, h2⟩ r (hr | ⟨u, hu, rfl⟩)
    · by_cases hne : s.entryPoint = ""
      · simp [hne] at hr
      · simp [hne] at hr; subst hr; exact h1 hne
    · exact h2 u hu

end Cog.Closed
