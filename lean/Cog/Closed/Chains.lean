/-
  Composition of the per-pass lemmas along a chain (`compiler.Passes.Process`), by induction over
  the list of passes.  The invariant carried along is `Closed` together with "package names are
  pairwise distinct" (several passes look objects up by package).
-/
import Cog.Closed.CreatingPasses
import Cog.Gen.Chains
namespace Cog.Closed
open Cog Cog.IR Cog.Passes

def ChainInv (S : Schemas) : Prop := Closed S ∧ (S.map (·.pkg)).Nodup

def passKeeps (run : Schemas → Outcome Schemas) : Prop := ∀ S S', ChainInv S → run S = .ok S' → ChainInv S'

theorem keeps_of_mono {S S' : Schemas} (hi : ChainInv S) (h : Closed S' ∧ KeysMono S S') : ChainInv S' :=
  ⟨h.1, by rw [pkgs_of_mono h.2]; exact hi.2⟩

/-- the passes of the chains for which preservation of `Closed` is proved -/
def provenPass : PassId → Bool
  | .anonymousStructsToNamed | .notRequiredFieldAsNullableType | .disjunctionWithNullToOptional
  | .disjunctionOfConstantsToEnum | .prefixEnumValues | .flattenDisjunctions | .disjunctionInferMapping
  | .undiscriminatedDisjunctionToAny | .sanitizeEnumMemberNames | .renameNumericEnumValues
  | .anonymousEnumToExplicitType | .disjunctionOfAnonymousStructsToExplicit | .disjunctionToType => true
  | _ => false

theorem proven_keeps (p : PassId) (h : provenPass p = true) : passKeeps p.run := by
  intro S S' hi hr
  cases p with
  | anonymousStructsToNamed => exact keeps_of_mono hi (C_anonymousStructsToNamed S S' hi.1 hi.2 hr)
  | notRequiredFieldAsNullableType => exact keeps_of_mono hi (C_notRequiredFieldAsNullableType S S' hi.1 hr)
  | disjunctionWithNullToOptional => exact keeps_of_mono hi (C_disjunctionWithNullToOptional S S' hi.1 hr)
  | disjunctionOfConstantsToEnum => exact keeps_of_mono hi (C_disjunctionOfConstantsToEnum S S' hi.1 hr)
  | prefixEnumValues => exact keeps_of_mono hi (C_prefixEnumValues S S' hi.1 hr)
  | flattenDisjunctions => exact keeps_of_mono hi (C_flattenDisjunctions S S' hi.1 hr)
  | disjunctionInferMapping => exact keeps_of_mono hi (C_disjunctionInferMapping S S' hi.1 hi.2 hr)
  | undiscriminatedDisjunctionToAny => exact keeps_of_mono hi (C_undiscriminatedDisjunctionToAny S S' hi.1 hr)
  | sanitizeEnumMemberNames => exact keeps_of_mono hi (C_sanitizeEnumMemberNames S S' hi.1 hr)
  | renameNumericEnumValues => exact keeps_of_mono hi (C_renameNumericEnumValues S S' hi.1 hr)
  | anonymousEnumToExplicitType => exact keeps_of_mono hi (C_anonymousEnumToExplicitType S S' hi.1 hi.2 hr)
  | disjunctionOfAnonymousStructsToExplicit =>
    exact keeps_of_mono hi (C_disjunctionOfAnonymousStructsToExplicit S S' hi.1 hi.2 hr)
  | disjunctionToType => exact keeps_of_mono hi (C_disjunctionToType S S' hi.1 hi.2 hr)
  | removeIntersections => simp [provenPass] at h
  | inlineObjectsWithTypes k => simp [provenPass] at h

/-- a chain keeps the invariant when each of its passes does (induction over the chain) -/
theorem chain_keeps : ∀ (ps : List PassId), (∀ p ∈ ps, passKeeps p.run) → passKeeps (runChain ps)
  | [], _, S, S', hi, hr => by
    simp only [runChain, Outcome.ok.injEq] at hr; subst hr; exact hi
  | p :: ps, h, S, S', hi, hr => by
    simp only [runChain] at hr
    cases hp : p.run S with
    | ok S1 =>
      simp only [hp] at hr
      exact chain_keeps ps (fun q hq => h q (List.mem_cons_of_mem _ hq)) S1 S' (h p (by simp) S S1 hi hp) hr
    | err e => simp [hp] at hr
    | panic e => simp [hp] at hr

/-- the chains of the jsonschema and openapi output languages (cross-checked against the runtime
    `CompilerPasses()` by the check: `c05-chainnames`) -/
def schemaLangChain (S : Schemas) : Outcome Schemas :=
  match DisjunctionWithNullToOptional.run S with
  | .ok S1 => InferEntrypoint.run S1
  | .err e => .err e
  | .panic p => .panic p

theorem schemaLangChain_keeps : passKeeps schemaLangChain := by
  intro S S' hi hr
  simp only [schemaLangChain] at hr
  cases h1 : DisjunctionWithNullToOptional.run S with
  | ok S1 =>
    simp only [h1] at hr
    have i1 := keeps_of_mono hi (C_disjunctionWithNullToOptional S S1 hi.1 h1)
    exact keeps_of_mono i1 (C_inferEntrypoint S1 S' i1.1 i1.2 hr)
  | err e => simp [h1] at hr
  | panic e => simp [h1] at hr

end Cog.Closed
