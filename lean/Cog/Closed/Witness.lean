/-
  Small concrete IRs on which the full statements of C05 fail.  Each one is (1) evaluated by the
  kernel in the `…_counterexample` theorems of Cog/Props/C05.lean and (2) printed by the driver
  (`c05witness <name>`) and replayed on the real code by the harness on every run of the check
  (`c05-witness` stream): the pinned inputs of the known findings.
-/
import Cog.Closed.NameOps
namespace Cog.Closed
open Cog.IR Cog.Xform

inductive Req where
  | closed (S : Schemas)
  | nameops (ts : List NameOp) (S : Schemas)
  | filter (A : List (String × String)) (S : Schemas)
  | chain (lang : String) (S : Schemas)

structure Witness where
  name : String
  req : Req

namespace W

def str : Ty := .scalar "string" .nil [] {}
def ref (n : String) : Ty := .ref "p" n {}
def st (fs : List (String × Ty)) : Ty := .struct (fs.map fun f => { name := f.1, ty := f.2, required := true }) [] none {}
def obj (n : String) (t : Ty) : Obj := { name := n, ty := t, selfPkg := "p", selfName := n }
def sch (os : List Obj) : Schema := { pkg := "p", objects := os.map fun o => (o.name, o) }
def schE (ep : String) (os : List Obj) : Schema := { sch os with entryPoint := ep, entryPointType := ref ep }

/-- `Bar` uses `Foo` through `use` -/
def two (use : Ty) : Schemas := [sch [obj "Foo" (st [("x", str)]), obj "Bar" (st [("a", use)])]]

def renameFoo (from_ : String) : NameOp := .rename { from_ := ⟨"p", from_⟩, to := "Zed" }

def enumFoo : Obj := obj "Foo" (.enum [{ name := "A", value := .str "x", kind := "string" }] {})

/-- a union of two references with a discriminator mapping -/
def unionS : Schemas :=
  [sch [obj "Foo" (st [("kind", str)]), obj "Baz" (st [("kind", str)]),
        obj "Bar" (.disj [ref "Foo", ref "Baz"] { discriminator := "kind", mapping := [("baz", "Baz"), ("foo", "Foo")] } {})]]

/-- what `DisjunctionToType` leaves: a struct keeping the union in its `disjunction_of_refs` hint -/
def genS : Schemas :=
  [sch [obj "Foo" (st [("kind", str)]), obj "Baz" (st [("kind", str)]),
        obj "Bar" (.struct [{ name := "Foo", ty := ref "Foo", required := false }, { name := "Baz", ty := ref "Baz", required := false }]
          [ref "Foo", ref "Baz"] (some ("disjunction_of_refs", { discriminator := "kind", mapping := [("baz", "Baz"), ("foo", "Foo")] })) {})]]

def entryS : Schemas := [schE "Foo" [obj "Foo" (st [("x", str)]), obj "Bar" (st [("a", str)])]]

def specS (n : String) : Schemas := [sch [obj n (st [("x", str)]), obj "Bar" (st [("a", ref n)])]]

def twoPkg : Schemas :=
  [sch [obj "Foo" (st [("kind", str)]), obj "Baz" (st [("kind", str)]),
        obj "Bar" (.disj [ref "Foo", ref "Baz"] { discriminator := "kind", mapping := [("baz", "Baz"), ("foo", "Foo")] } {})],
   { pkg := "q", objects := [("Q", { name := "Q", ty := str, selfPkg := "q", selfName := "Q" })] }]

/-- PHP chain: `S{a: ref A}; A = []ref B; B = string`, `S` declared first -/
def phpOrder (sFirst : Bool) : Schemas :=
  let s := obj "S" (st [("a", ref "A")])
  let a := obj "A" (.array (ref "B") {})
  let b := obj "B" str
  [sch (if sFirst then [s, a, b] else [a, b, s])]

end W

open W in
def witnesses : List Witness := [
  ⟨"rename-case", .nameops [renameFoo "foo"] (two (ref "Foo"))⟩,
  ⟨"rename-cref", .nameops [renameFoo "Foo"] [sch [enumFoo, obj "Bar" (st [("a", .cref "p" "Foo" (.str "x") {})])]]⟩,
  ⟨"rename-mapindex", .nameops [renameFoo "Foo"] (two (.map (ref "Foo") str {}))⟩,
  ⟨"rename-mapping", .nameops [renameFoo "Foo"] unionS⟩,
  ⟨"rename-gen", .nameops [renameFoo "Foo"] genS⟩,
  ⟨"rename-entrypoint", .nameops [renameFoo "Foo"] entryS⟩,
  ⟨"unspec-spec", .nameops [.unspec] (specS "spec")⟩,
  ⟨"unspec-metadata", .nameops [.unspec] (specS "metadata")⟩,
  ⟨"prefix-entrypoint", .nameops [.pfx { pfx := "X" }] entryS⟩,
  ⟨"prefix-mapindex", .nameops [.pfx { pfx := "X" }] (two (.map (ref "Foo") str {}))⟩,
  ⟨"prefix-gen", .nameops [.pfx { pfx := "X" }] genS⟩,
  ⟨"duplicate-mapping-crosspkg", .nameops [.duplicate { object := ⟨"p", "Bar"⟩, as_ := ⟨"q", "Bar2"⟩, omitFields := [] }] twoPkg⟩,
  ⟨"filter-mapindex", .filter [("p", "Bar")] (two (.map (ref "Foo") str {}))⟩,
  ⟨"filter-cref", .filter [("p", "Bar")] [sch [enumFoo, obj "Bar" (st [("a", .cref "p" "Foo" (.str "x") {})])]]⟩,
  ⟨"filter-mapping", .filter [("p", "Bar")]
    [sch [obj "Foo" (st [("kind", str)]), obj "Bar" (.disj [st [("kind", str)], str] { discriminator := "kind", mapping := [("foo", "Foo")] } {})]]⟩,
  ⟨"filter-gen", .filter [("p", "Bar")]
    [sch [obj "Foo" (st [("kind", str)]), obj "Bar" (.struct [] [ref "Foo"] (some ("disjunction_of_refs", {})) {})]]⟩,
  ⟨"filter-entrypoint", .filter [("p", "Bar")] entryS⟩,
  ⟨"php-inline-order", .chain "php" (phpOrder true)⟩
]

def witness (n : String) : Option Witness := witnesses.find? (·.name == n)

end Cog.Closed
