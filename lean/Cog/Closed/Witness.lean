/-
  Small concrete IRs on which the full statements of C05 fail.  Each one is (1) evaluated by the
  kernel in the `…_counterexample` theorems of Cog/Props/C05.lean and (2) printed by the driver
  (`c05witness <name>`) and replayed on the real code by the harness on every run of the check
  (`c05-witness` stream): the pinned inputs of the known findings.
-/
import Cog.Closed.NameOps
namespace Cog.Closed
open Cog.IR Cog.Xform

inductive Req where
  | closed (S : Schemas)
  | nameops (ts : List NameOp) (S : Schemas)
  | filter (A : List (String × String)) (S : Schemas)
  | chain (lang : String) (S : Schemas)

structure Witness where
  name : String
  req : Req

namespace W

def str : Ty := .scalar "string" .nil [] {}
def ref (n : String) : Ty := .ref "p" n {}
def st (fs : List (String × Ty)) : Ty := .struct (fs.map fun f => { name := f.1, ty := f.2, required := true }) [] none {}
def obj (n : String) (t : Ty) : Obj := { name := n, ty := t, selfPkg := "p", selfName := n }
def sch (os : List Obj) : Schema := { pkg := "p", objects := os.map fun o => (o.name, o) }
def schE (ep : String) (os : List Obj) : Schema := { sch os with entryPoint := ep, entryPointType := ref ep }

/-- `Bar` uses `Foo` through `use` -/
def two (use : Ty) : Schemas := [sch [obj "Foo" (st [("x", str)]), obj "Bar" (st [("a", use)])]]

def renameFoo (from_ : String) : NameOp := .rename { from_ := ⟨"p", from_⟩, to := "Zed" }

def enumFoo : Obj := obj "Foo" (.enum [{ name := "A", value := .str "x", kind := "string" }] {})

/-- a union of two references with a discriminator mapping -/
def unionS : Schemas :=
  [sch [obj "Foo" (st [("kind", str)]), obj "Baz" (st [("kind", str)]),
        obj "Bar" (.disj [ref "Foo", ref "Baz"] { discriminator := "kind", mapping := [("baz", "Baz"), ("foo", "Foo")] } {})]]

/-- what `DisjunctionToType` leaves: a struct keeping the union in its `disjunction_of_refs` hint -/
def genS : Schemas :=
  [sch [obj "Foo" (st [("kind", str)]), obj "Baz" (st [("kind", str)]),
        obj "Bar" (.struct [{ name := "Foo", ty := ref "Foo", required := false }, { name := "Baz", ty := ref "Baz", required := false }]
          [ref "Foo", ref "Baz"] (some ("disjunction_of_refs", { discriminator := "kind", mapping := [("baz", "Baz"), ("foo", "Foo")] })) {})]]

def entryS : Schemas := [schE "Foo" [obj "Foo" (st [("x", str)]), obj "Bar" (st [("a", str)])]]

def specS (n : String) : Schemas := [sch [obj n (st [("x", str)]), obj "Bar" (st [("a", ref n)])]]

def twoPkg : Schemas :=
  [sch [obj "Foo" (st [("kind", str)]), obj "Baz" (st [("kind", str)]),
        obj "Bar" (.disj [ref "Foo", ref "Baz"] { discriminator := "kind", mapping := [("baz", "Baz"), ("foo", "Foo")] } {})],
   { pkg := "q", objects := [("Q", { name := "Q", ty := str, selfPkg := "q", selfName := "Q" })] }]

/-- PHP chain: `S{a: ref A}; A = []ref B; B = string`, `S` declared first -/
def phpOrder (sFirst : Bool) : Schemas :=
  let s := obj "S" (st [("a", ref "A")])
  let a := obj "A" (.array (ref "B") {})
  let b := obj "B" str
  [sch (if sFirst then [s, a, b] else [a, b, s])]

end W

namespace W
abbrev OpsCase := List NameOp × Schemas
abbrev FilterCase := List (String × String) × Schemas

def renameCase : OpsCase := ([renameFoo "foo"], two (ref "Foo"))
def renameCref : OpsCase := ([renameFoo "Foo"], [sch [enumFoo, obj "Bar" (st [("a", .cref "p" "Foo" (.str "x") {})])]])
def renameMapIndex : OpsCase := ([renameFoo "Foo"], two (.map (ref "Foo") str {}))
def renameMapping : OpsCase := ([renameFoo "Foo"], unionS)
def renameGen : OpsCase := ([renameFoo "Foo"], genS)
def renameEntry : OpsCase := ([renameFoo "Foo"], entryS)
def unspecSpec : OpsCase := ([.unspec], specS "spec")
def unspecMetadata : OpsCase := ([.unspec], specS "metadata")
def prefixEntry : OpsCase := ([.pfx { pfx := "X" }], entryS)
def prefixMapIndex : OpsCase := ([.pfx { pfx := "X" }], two (.map (ref "Foo") str {}))
def prefixGen : OpsCase := ([.pfx { pfx := "X" }], genS)
def duplicateCross : OpsCase :=
  ([.duplicate { object := ⟨"p", "Bar"⟩, as_ := ⟨"q", "Bar2"⟩, omitFields := [] }], twoPkg)

def filterMapIndex : FilterCase := ([("p", "Bar")], two (.map (ref "Foo") str {}))
def filterCref : FilterCase :=
  ([("p", "Bar")], [sch [enumFoo, obj "Bar" (st [("a", .cref "p" "Foo" (.str "x") {})])]])
def filterMapping : FilterCase :=
  ([("p", "Bar")], [sch [obj "Foo" (st [("kind", str)]),
    obj "Bar" (.disj [st [("kind", str)], str] { discriminator := "kind", mapping := [("foo", "Foo")] } {})]])
def filterGen : FilterCase :=
  ([("p", "Bar")], [sch [obj "Foo" (st [("kind", str)]), obj "Bar" (.struct [] [ref "Foo"] (some ("disjunction_of_refs", {})) {})]])
def filterEntry : FilterCase := ([("p", "Bar")], entryS)
/-- Java chain: `Kind` is a bare reference to the struct `Spec`; `Baz` uses `Spec` in an array -/
def javaAlias : Schemas :=
  [sch [obj "Kind" (ref "Spec"), obj "Spec" (st [("x", str)]), obj "Baz" (st [("a", .array (ref "Spec") {})])]]
/-- builders: `q.Bar` is a bare reference to the struct `p.Foo`, one of whose fields is a union with a mapping -/
def builderAlias : Schemas :=
  [sch [obj "Foo" (st [("oneOf", .disj [ref "Foo", ref "Foo"] { discriminator := "kind", mapping := [("b", "Foo")] } {})])],
   { pkg := "q", objects := [("Bar", { name := "Bar", ty := ref "Foo", selfPkg := "q", selfName := "Bar" })] }]
end W

open W in
def witnesses : List Witness := [
  ⟨"rename-case", .nameops renameCase.1 renameCase.2⟩,
  ⟨"rename-cref", .nameops renameCref.1 renameCref.2⟩,
  ⟨"rename-mapindex", .nameops renameMapIndex.1 renameMapIndex.2⟩,
  ⟨"rename-mapping", .nameops renameMapping.1 renameMapping.2⟩,
  ⟨"rename-gen", .nameops renameGen.1 renameGen.2⟩,
  ⟨"rename-entrypoint", .nameops renameEntry.1 renameEntry.2⟩,
  ⟨"unspec-spec", .nameops unspecSpec.1 unspecSpec.2⟩,
  ⟨"unspec-metadata", .nameops unspecMetadata.1 unspecMetadata.2⟩,
  ⟨"prefix-entrypoint", .nameops prefixEntry.1 prefixEntry.2⟩,
  ⟨"prefix-mapindex", .nameops prefixMapIndex.1 prefixMapIndex.2⟩,
  ⟨"prefix-gen", .nameops prefixGen.1 prefixGen.2⟩,
  ⟨"duplicate-mapping-crosspkg", .nameops duplicateCross.1 duplicateCross.2⟩,
  ⟨"filter-mapindex", .filter filterMapIndex.1 filterMapIndex.2⟩,
  ⟨"filter-cref", .filter filterCref.1 filterCref.2⟩,
  ⟨"filter-mapping", .filter filterMapping.1 filterMapping.2⟩,
  ⟨"filter-gen", .filter filterGen.1 filterGen.2⟩,
  ⟨"filter-entrypoint", .filter filterEntry.1 filterEntry.2⟩,
  ⟨"php-inline-order", .chain "php" (phpOrder true)⟩,
  ⟨"java-alias-removed", .chain "java" javaAlias⟩,
  ⟨"builders-mapping-crosspkg", .chain "typescript" builderAlias⟩
]

def witness (n : String) : Option Witness := witnesses.find? (·.name == n)

end Cog.Closed
