/-
  `Closed` through a Visitor-shaped pass (`visitSchema`: entry point type rewritten, objects
  rewritten and re-inserted under their new names): what remains to be shown per pass.
-/
import Cog.Closed.Rename
namespace Cog.Closed
open Cog.IR Cog.Xform
open Cog.OMap (rget rset)

def vg (onTy : Ty → Ty) (onObj : Obj → Obj) : Schema → Schema := visitSchema onTy (fun _ => onObj)

theorem vg_pkg (onTy : Ty → Ty) (onObj : Obj → Obj) (s : Schema) : (vg onTy onObj s).pkg = s.pkg := rfl

/-- an object that exists under the name a use gives: the use resolves afterwards under the
    object's new name -/
theorem resolves_visit (onTy : Ty → Ty) (onObj : Obj → Obj) (S : Schemas) (u : Use) (n' : String)
    (hr : resolves S u = true)
    (hname : ∀ s ∈ S, s.pkg = u.pkg → ∀ kv ∈ s.objects, kv.1 = u.name → (onObj kv.2).name = n') :
    resolves (S.map (vg onTy onObj)) ⟨u.kind, u.pkg, n'⟩ = true := by
  rw [resolves_iff] at hr ⊢
  simp only [locate_map (vg onTy onObj) (vg_pkg onTy onObj)]
  rcases hr with hr | ⟨s, hs, e, he, hen⟩
  · exact Or.inl (by simp [hr])
  · refine Or.inr ⟨vg onTy onObj s, by simp [hs], ?_⟩
    obtain ⟨hsm, hsp⟩ := locate_mem hs
    have := hname s hsm hsp e he hen
    simp only [vg, visitSchema]
    exact (keys_rebuild onObj s.objects [] n').mpr (Or.inr ⟨e, he, this⟩)

theorem closed_visit (onTy : Ty → Ty) (onObj : Obj → Obj) (S : Schemas) (hc : Closed S)
    (hself : ∀ s ∈ S, ∀ kv ∈ s.objects, selfOK s kv = true → selfOK s ((onObj kv.2).name, onObj kv.2) = true)
    (hobjty : ∀ o, (onObj o).ty = onTy o.ty)
    (hentry : ∀ s ∈ S, s.entryPoint ≠ "" → resolves S ⟨.entry, s.pkg, s.entryPoint⟩ = true →
      resolves (S.map (vg onTy onObj)) ⟨.entry, s.pkg, s.entryPoint⟩ = true)
    (hept : ∀ s ∈ S, (∀ u ∈ Ty.uses s.pkg s.entryPointType, resolves S u = true) →
      ∀ u ∈ Ty.uses s.pkg (onTy s.entryPointType), resolves (S.map (vg onTy onObj)) u = true)
    (hty : ∀ s ∈ S, ∀ kv ∈ s.objects, (∀ u ∈ Ty.uses s.pkg kv.2.ty, resolves S u = true) →
      ∀ u ∈ Ty.uses s.pkg (onTy kv.2.ty), resolves (S.map (vg onTy onObj)) u = true) :
    Closed (S.map (vg onTy onObj)) := by
  have hcl := (closed_iff S).mp hc
  rw [closed_iff]
  refine ⟨?_, ?_⟩
  · intro s' hs' e he
    obtain ⟨s, hs, rfl⟩ := List.mem_map.mp hs'
    simp only [vg, visitSchema] at he
    rcases mem_rebuild onObj s.objects [] e he with h0 | ⟨kv, hkv, rfl⟩
    · simp at h0
    · have := hself s hs kv hkv (hcl.1 s hs kv hkv)
      simpa [selfOK, vg, visitSchema] using this
  · intro s' hs'
    obtain ⟨s, hs, rfl⟩ := List.mem_map.mp hs'
    have hS := hcl.2 s hs
    rw [entryUses_iff] at hS ⊢
    refine ⟨⟨?_, ?_⟩, ?_⟩
    · intro hne
      exact hentry s hs hne (hS.1.1 hne)
    · exact hept s hs hS.1.2
    · intro e he u hu
      simp only [vg, visitSchema] at he
      rcases mem_rebuild onObj s.objects [] e he with h0 | ⟨kv, hkv, rfl⟩
      · simp at h0
      · simp only [hobjty] at hu
        exact hty s hs kv hkv (hS.2 kv hkv) u hu

end Cog.Closed
