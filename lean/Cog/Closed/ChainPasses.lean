/-
  Per-pass preservation of `Closed` for the compiler passes of the language chains, over the pass
  models of lean/Cog/Passes (written for C06, tied to the code by C06's per-pass differential
  stream).  Passes that neither rename nor add nor remove objects are handled through
  `closed_visitPure` (Frame.lean): it is enough that the type rewriting only produces uses that
  resolved before.
-/
import Cog.Closed.Frame
import Cog.Closed.FilterProofs
import Cog.Passes.Chain
import Cog.Closed.InferEntrypoint
namespace Cog.Closed
open Cog Cog.IR Cog.Passes
open Cog.OMap (rget rset)

/-! ### the `OnDisjunction`-only traversal -/

section dv
variable (home : String) (hook : DisjHook) (Good : Use → Prop)
  (hh : ∀ bs i m t', (∀ u ∈ Ty.uses home (.disj bs i m), Good u) → hook bs i m = .ok t' →
    ∀ u ∈ Ty.uses home t', Good u)
include hh

mutual
theorem dv_good : ∀ (t t' : Ty), (∀ u ∈ Ty.uses home t, Good u) → dvTy hook t = .ok t' →
    ∀ u ∈ Ty.uses home t', Good u
  | .scalar .., t', hq, h => by simp only [dvTy, Outcome.ok.injEq] at h; subst h; exact hq
  | .ref .., t', hq, h => by simp only [dvTy, Outcome.ok.injEq] at h; subst h; exact hq
  | .cref .., t', hq, h => by simp only [dvTy, Outcome.ok.injEq] at h; subst h; exact hq
  | .array e m, t', hq, h => by
    simp only [dvTy] at h
    cases he : dvTy hook e with
    | ok e' =>
      simp only [he, Outcome.ok.injEq] at h; subst h
      simp only [Ty.uses]
      exact dv_good e e' (fun u hu => hq u (by simpa [Ty.uses] using hu)) he
    | err x => simp [he] at h
    | panic x => simp [he] at h
  | .map i v m, t', hq, h => by
    simp only [dvTy] at h
    cases he : dvTy hook v with
    | ok v' =>
      simp only [he, Outcome.ok.injEq] at h; subst h
      intro u hu
      simp only [Ty.uses, List.mem_append] at hu
      rcases hu with hu | hu
      · exact hq u (by simp [Ty.uses, hu])
      · exact dv_good v v' (fun u hu => hq u (by simp [Ty.uses, hu])) he u hu
    | err x => simp [he] at h
    | panic x => simp [he] at h
  | .struct fs g gi m, t', hq, h => by
    simp only [dvTy] at h
    cases he : dvFields hook fs with
    | ok fs' =>
      simp only [he, Outcome.ok.injEq] at h; subst h
      intro u hu
      simp only [Ty.uses, List.mem_append] at hu
      rcases hu with hu | hu
      · exact dvFields_good fs fs' (fun u hu => hq u (by simp [Ty.uses, hu])) he u hu
      · exact hq u (by simp only [Ty.uses, List.mem_append]; exact Or.inr hu)
    | err x => simp [he] at h
    | panic x => simp [he] at h
  | .enum .., t', hq, h => by simp only [dvTy, Outcome.ok.injEq] at h; subst h; exact hq
  | .disj bs i m, t', hq, h => by
    simp only [dvTy] at h
    exact hh bs i m t' hq h
  | .inter bs m, t', hq, h => by
    simp only [dvTy] at h
    cases he : dvList hook bs with
    | ok bs' =>
      simp only [he, Outcome.ok.injEq] at h; subst h
      simp only [Ty.uses]
      exact dvList_good bs bs' (fun u hu => hq u (by simpa [Ty.uses] using hu)) he
    | err x => simp [he] at h
    | panic x => simp [he] at h
  | .slot .., t', hq, h => by simp only [dvTy, Outcome.ok.injEq] at h; subst h; exact hq
  | .bad .., t', hq, h => by simp only [dvTy, Outcome.ok.injEq] at h; subst h; exact hq
theorem dvList_good : ∀ (ts ts' : List Ty), (∀ u ∈ Ty.usesList home ts, Good u) → dvList hook ts = .ok ts' →
    ∀ u ∈ Ty.usesList home ts', Good u
  | [], ts', hq, h => by simp only [dvList, Outcome.ok.injEq] at h; subst h; exact hq
  | t :: ts, ts', hq, h => by
    simp only [dvList] at h
    cases he : dvTy hook t with
    | ok t1 =>
      simp only [he] at h
      cases hl : dvList hook ts with
      | ok ts1 =>
        simp only [hl, Outcome.ok.injEq] at h; subst h
        intro u hu
        simp only [Ty.usesList, List.mem_append] at hu
        rcases hu with hu | hu
        · exact dv_good t t1 (fun u hu => hq u (by simp [Ty.usesList, hu])) he u hu
        · exact dvList_good ts ts1 (fun u hu => hq u (by simp [Ty.usesList, hu])) hl u hu
      | err x => simp [hl] at h
      | panic x => simp [hl] at h
    | err x => simp [he] at h
    | panic x => simp [he] at h
theorem dvFields_good : ∀ (fs fs' : List Field), (∀ u ∈ Ty.usesFields home fs, Good u) → dvFields hook fs = .ok fs' →
    ∀ u ∈ Ty.usesFields home fs', Good u
  | [], fs', hq, h => by simp only [dvFields, Outcome.ok.injEq] at h; subst h; exact hq
  | f :: fs, fs', hq, h => by
    simp only [dvFields] at h
    cases he : dvTy hook f.ty with
    | ok t1 =>
      simp only [he] at h
      cases hl : dvFields hook fs with
      | ok fs1 =>
        simp only [hl, Outcome.ok.injEq] at h; subst h
        intro u hu
        simp only [Ty.usesFields, List.mem_append] at hu
        rcases hu with hu | hu
        · exact dv_good f.ty t1 (fun u hu => hq u (by simp [Ty.usesFields, hu])) he u hu
        · exact dvFields_good fs fs1 (fun u hu => hq u (by simp [Ty.usesFields, hu])) hl u hu
      | err x => simp [hl] at h
      | panic x => simp [hl] at h
    | err x => simp [he] at h
    | panic x => simp [he] at h
end
end dv

/-- a pass made of one `OnDisjunction` hook keeps `Closed` when the hook only produces uses that
    resolved before -/
theorem closed_runDisjPass (hook : Schemas → Schema → DisjHook) (S S' : Schemas) (hc : Closed S)
    (hh : ∀ cur, ∀ s ∈ S, ∀ bs i m t', (∀ u ∈ Ty.uses s.pkg (.disj bs i m), resolves S u = true) →
      hook cur s bs i m = .ok t' → ∀ u ∈ Ty.uses s.pkg t', resolves S u = true)
    (h : runDisjPass hook S = .ok S') : Closed S' ∧ KeysMono S S' := by
  apply closed_visitPure (fun cur s => dvTy (hook cur s)) S S' hc ?_ h
  intro cur s hs t t' hq ht
  exact dv_good s.pkg (hook cur s) (fun u => resolves S u = true) (hh cur s hs) t t' hq ht

theorem uses_setMeta (home : String) (m : Meta) (t : Ty) : Ty.uses home (t.setMeta m) = Ty.uses home t := by
  cases t <;> simp [Ty.setMeta, Ty.uses]

theorem uses_setNullable (home : String) (b : Bool) (t : Ty) : Ty.uses home (setNullable b t) = Ty.uses home t :=
  uses_setMeta home _ t

/-! ### DisjunctionWithNullToOptional -/

theorem mem_nonNullTypes : ∀ (bs : List Ty) (t : Ty), t ∈ nonNullTypes bs → t ∈ bs
  | [], _, h => by simp [nonNullTypes] at h
  | b :: bs, t, h => by
    simp only [nonNullTypes] at h
    split at h
    · exact List.mem_cons_of_mem _ (mem_nonNullTypes bs t h)
    · rcases List.mem_cons.mp h with rfl | h
      · simp
      · exact List.mem_cons_of_mem _ (mem_nonNullTypes bs t h)

theorem usesList_mem (home : String) : ∀ (bs : List Ty) (t : Ty), t ∈ bs → ∀ u ∈ Ty.uses home t, u ∈ Ty.usesList home bs
  | [], _, h, _, _ => by simp at h
  | b :: bs, t, h, u, hu => by
    simp only [Ty.usesList, List.mem_append]
    rcases List.mem_cons.mp h with rfl | h
    · exact Or.inl hu
    · exact Or.inr (usesList_mem home bs t h u hu)

theorem C_disjunctionWithNullToOptional (S S' : Schemas) (hc : Closed S)
    (h : DisjunctionWithNullToOptional.run S = .ok S') : Closed S' ∧ KeysMono S S' := by
  apply closed_runDisjPass _ S S' hc ?_ h
  intro cur s _ bs i m t' hq ht
  simp only [DisjunctionWithNullToOptional.hook] at ht
  split at ht
  · simp only [Outcome.ok.injEq] at ht; subst ht; exact hq
  · split at ht
    · -- `null | null` is returned unchanged since /repo fix 30da046 (a panic before)
      simp only [Outcome.ok.injEq] at ht; subst ht; exact hq
    · rename_i t rest hnn
      simp only [Outcome.ok.injEq] at ht; subst ht
      intro u hu
      rw [uses_setNullable] at hu
      apply hq
      simp only [Ty.uses, List.mem_append]
      exact Or.inl (usesList_mem s.pkg bs t (mem_nonNullTypes bs t (by rw [hnn]; simp)) u hu)

/-! ### DisjunctionOfConstantsToEnum, UndiscriminatedDisjunctionToAny -/

theorem C_disjunctionOfConstantsToEnum (S S' : Schemas) (hc : Closed S)
    (h : DisjunctionOfConstantsToEnum.run S = .ok S') : Closed S' ∧ KeysMono S S' := by
  apply closed_runDisjPass _ S S' hc ?_ h
  intro cur s _ bs i m t' hq ht
  simp only [DisjunctionOfConstantsToEnum.hook] at ht
  split at ht
  · simp only [Outcome.ok.injEq] at ht; subst ht; exact hq
  · split at ht
    · simp only [Outcome.ok.injEq] at ht; subst ht
      intro u hu; simp [Ty.uses] at hu
    · simp only [Outcome.ok.injEq] at ht; subst ht; exact hq
    · cases ht
    · cases ht

theorem C_undiscriminatedDisjunctionToAny (S S' : Schemas) (hc : Closed S)
    (h : UndiscriminatedDisjunctionToAny.run S = .ok S') : Closed S' ∧ KeysMono S S' := by
  apply closed_runDisjPass _ S S' hc ?_ h
  intro cur s _ bs i m t' hq ht
  simp only [UndiscriminatedDisjunctionToAny.hook] at ht
  split at ht
  · cases ht
  · cases ht
  · simp only [Outcome.ok.injEq] at ht; subst ht; exact hq
  · split at ht
    · simp only [Outcome.ok.injEq] at ht; subst ht; exact hq
    · split at ht
      · simp only [Outcome.ok.injEq] at ht; subst ht
        intro u hu; simp [Ty.uses] at hu
      · simp only [Outcome.ok.injEq] at ht; subst ht; exact hq

/-! ### NotRequiredFieldAsNullableType -/

mutual
theorem nr_uses (home : String) : ∀ t : Ty, Ty.uses home (NotRequiredFieldAsNullableType.vTy t) = Ty.uses home t
  | .scalar .. => by simp [NotRequiredFieldAsNullableType.vTy]
  | .ref .. => by simp [NotRequiredFieldAsNullableType.vTy]
  | .cref .. => by simp [NotRequiredFieldAsNullableType.vTy]
  | .array e _ => by simp [NotRequiredFieldAsNullableType.vTy, Ty.uses, nr_uses home e]
  | .map i v _ => by simp [NotRequiredFieldAsNullableType.vTy, Ty.uses, nr_uses home v]
  | .struct fs g gi _ => by simp [NotRequiredFieldAsNullableType.vTy, Ty.uses, nr_usesFields home fs]
  | .enum .. => by simp [NotRequiredFieldAsNullableType.vTy]
  | .disj bs _ _ => by simp [NotRequiredFieldAsNullableType.vTy, Ty.uses, nr_usesList home bs]
  | .inter bs _ => by simp [NotRequiredFieldAsNullableType.vTy, Ty.uses, nr_usesList home bs]
  | .slot .. => by simp [NotRequiredFieldAsNullableType.vTy]
  | .bad .. => by simp [NotRequiredFieldAsNullableType.vTy]
theorem nr_usesList (home : String) : ∀ ts : List Ty,
    Ty.usesList home (NotRequiredFieldAsNullableType.vList ts) = Ty.usesList home ts
  | [] => by simp [NotRequiredFieldAsNullableType.vList]
  | t :: ts => by simp [NotRequiredFieldAsNullableType.vList, Ty.usesList, nr_uses home t, nr_usesList home ts]
theorem nr_usesFields (home : String) : ∀ fs : List Field,
    Ty.usesFields home (NotRequiredFieldAsNullableType.vFields fs) = Ty.usesFields home fs
  | [] => by simp [NotRequiredFieldAsNullableType.vFields]
  | f :: fs => by
    have : Ty.uses home (NotRequiredFieldAsNullableType.fixField f (NotRequiredFieldAsNullableType.vTy f.ty)).ty
        = Ty.uses home f.ty := by
      simp only [NotRequiredFieldAsNullableType.fixField]
      split <;> simp [uses_setNullable, nr_uses home f.ty]
    simp [NotRequiredFieldAsNullableType.vFields, Ty.usesFields, this, nr_usesFields home fs]
end

theorem C_notRequiredFieldAsNullableType (S S' : Schemas) (hc : Closed S)
    (h : NotRequiredFieldAsNullableType.run S = .ok S') : Closed S' ∧ KeysMono S S' := by
  apply closed_visitPure (fun _ _ t => .ok (NotRequiredFieldAsNullableType.vTy t)) S S' hc ?_ h
  intro cur s _ t t' hq ht
  simp only [Outcome.ok.injEq] at ht; subst ht
  rw [nr_uses]; exact hq

/-! ### FlattenDisjunctions -/

theorem resolve_obj (s : Schema) : ∀ (fuel : Nat) (t r : Ty), Schema.resolve s fuel t = .ok (some r) →
    (r = t ∧ t.isRef = false) ∨ ∃ kv ∈ s.objects, r = kv.2.ty
  | 0, _, _, h => by simp [Schema.resolve] at h
  | fuel + 1, t, r, h => by
    cases t with
    | ref p n m =>
      simp only [Schema.resolve] at h
      cases ho : s.locateObject n with
      | none => simp [ho] at h
      | some o =>
        simp only [ho] at h
        rcases resolve_obj s fuel o.ty r h with h1 | h1
        · exact Or.inr ⟨(n, o), rget_some_mem _ _ _ ho, h1.1⟩
        · exact Or.inr h1
    | _ => simp only [Schema.resolve, Outcome.ok.injEq, Option.some.injEq] at h; subst h; exact Or.inl ⟨rfl, rfl⟩

theorem resolve_ref_key (s : Schema) (fuel : Nat) (p n : String) (m : Meta) (r : Ty)
    (h : Schema.resolve s fuel (.ref p n m) = .ok (some r)) : keyIn s.objects n := by
  cases fuel with
  | zero => simp [Schema.resolve] at h
  | succ fuel =>
    simp only [Schema.resolve] at h
    cases ho : s.locateObject n with
    | none => simp [ho] at h
    | some o => exact ⟨(n, o), rget_some_mem _ _ _ ho, rfl⟩

namespace Flat
open FlattenDisjunctions

theorem addBranch_mem (name : String) (t : Ty) (acc : List String × List Ty) :
    ∀ x ∈ (addBranch name t acc).2, x ∈ acc.2 ∨ x = t := by
  intro x hx
  simp only [addBranch] at hx
  split at hx
  · exact Or.inl hx
  · simp only [List.mem_append, List.mem_singleton] at hx; exact hx

theorem addInner_mem : ∀ (rbs : List Ty) (acc : List String × List Ty),
    ∀ x ∈ (addInner rbs acc).2, x ∈ acc.2 ∨ x ∈ rbs
  | [], acc, x, hx => Or.inl (by simpa [addInner] using hx)
  | rb :: rbs, acc, x, hx => by
    simp only [addInner] at hx
    rcases addInner_mem rbs _ x hx with h | h
    · rcases addBranch_mem _ _ _ x h with h | h
      · exact Or.inl h
      · exact Or.inr (by simp [h])
    · exact Or.inr (List.mem_cons_of_mem _ h)

theorem flatten_mem (s : Schema) (fuel : Nat) : ∀ (bs : List Ty) (i : Nat) (acc : List String × List Ty) (out : List Ty),
    flatten s fuel bs i acc = .ok out →
    ∀ x ∈ out, x ∈ acc.2 ∨ x ∈ bs ∨ ∃ kv ∈ s.objects, ∃ rbs info m, kv.2.ty = .disj rbs info m ∧ x ∈ rbs
  | [], i, acc, out, h, x, hx => by
    simp only [flatten, Outcome.ok.injEq] at h; subst h; exact Or.inl hx
  | b :: bs, i, acc, out, h, x, hx => by
    simp only [flatten] at h
    split at h
    · rcases flatten_mem s fuel bs _ _ out h x hx with h1 | h1 | h1
      · rcases addBranch_mem _ _ _ x h1 with h2 | h2
        · exact Or.inl h2
        · exact Or.inr (Or.inl (by simp [h2]))
      · exact Or.inr (Or.inl (List.mem_cons_of_mem _ h1))
      · exact Or.inr (Or.inr h1)
    · rename_i hnr
      split at h
      · cases h
      · cases h
      · rcases flatten_mem s fuel bs _ _ out h x hx with h1 | h1 | h1
        · exact Or.inl h1
        · exact Or.inr (Or.inl (List.mem_cons_of_mem _ h1))
        · exact Or.inr (Or.inr h1)
      · rename_i rbs info m hres
        rcases flatten_mem s fuel bs _ _ out h x hx with h1 | h1 | h1
        · rcases addInner_mem rbs acc x h1 with h2 | h2
          · exact Or.inl h2
          · rcases resolve_obj s fuel b _ hres with ⟨hb, hnot⟩ | ⟨kv, hkv, hty⟩
            · simp [hnot] at hnr
            · exact Or.inr (Or.inr ⟨kv, hkv, rbs, info, m, hty.symm, h2⟩)
        · exact Or.inr (Or.inl (List.mem_cons_of_mem _ h1))
        · exact Or.inr (Or.inr h1)
      · rcases flatten_mem s fuel bs _ _ out h x hx with h1 | h1 | h1
        · rcases addBranch_mem _ _ _ x h1 with h2 | h2
          · exact Or.inl h2
          · exact Or.inr (Or.inl (by simp [h2]))
        · exact Or.inr (Or.inl (List.mem_cons_of_mem _ h1))
        · exact Or.inr (Or.inr h1)

end Flat

theorem usesList_of_mem (home : String) (P : Use → Prop) : ∀ (ts : List Ty),
    (∀ t ∈ ts, ∀ u ∈ Ty.uses home t, P u) → ∀ u ∈ Ty.usesList home ts, P u
  | [], _, u, hu => by simp [Ty.usesList] at hu
  | t :: ts, h, u, hu => by
    simp only [Ty.usesList, List.mem_append] at hu
    rcases hu with hu | hu
    · exact h t (by simp) u hu
    · exact usesList_of_mem home P ts (fun t' ht' => h t' (List.mem_cons_of_mem _ ht')) u hu

theorem C_flattenDisjunctions (S S' : Schemas) (hc : Closed S)
    (h : FlattenDisjunctions.run S = .ok S') : Closed S' ∧ KeysMono S S' := by
  apply closed_runDisjPass _ S S' hc ?_ h
  intro cur s hs bs i m t' hq ht
  simp only [FlattenDisjunctions.hook] at ht
  split at ht
  · rename_i bs' hfl
    simp only [Outcome.ok.injEq] at ht; subst ht
    intro u hu
    simp only [Ty.uses, List.mem_append] at hu
    rcases hu with hu | hu
    · revert u
      apply usesList_of_mem
      intro t htm u hu
      rcases Flat.flatten_mem s _ bs 0 ([], []) bs' hfl t htm with h0 | h0 | ⟨kv, hkv, rbs, info, m', hty, hin⟩
      · simp at h0
      · exact hq u (by simp only [Ty.uses, List.mem_append]; exact Or.inl (usesList_mem s.pkg bs t h0 u hu))
      · apply (uses_of_closed hc hs).2.2 kv hkv u
        rw [hty]
        simp only [Ty.uses, List.mem_append]
        exact Or.inl (usesList_mem s.pkg rbs t hin u hu)
    · exact hq u (by simp only [Ty.uses, List.mem_append]; exact Or.inr hu)
  · cases ht
  · cases ht

/-! ### DisjunctionInferMapping -/

theorem mem_mapSet {V : Type} (k : String) (v : V) : ∀ (l : List (String × V)), ∀ e ∈ mapSet k v l, e = (k, v) ∨ e ∈ l
  | [], e, he => by simp only [mapSet, List.mem_singleton] at he; exact Or.inl he
  | (k', v') :: rest, e, he => by
    simp only [mapSet] at he
    split at he
    · rcases List.mem_cons.mp he with h | h
      · exact Or.inl h
      · exact Or.inr (List.mem_cons_of_mem _ h)
    · split at he
      · rcases List.mem_cons.mp he with h | h
        · exact Or.inl h
        · exact Or.inr h
      · rcases List.mem_cons.mp he with h | h
        · exact Or.inr (by simp [h])
        · rcases mem_mapSet k v rest e h with h | h
          · exact Or.inl h
          · exact Or.inr (List.mem_cons_of_mem _ h)

namespace Infer
open DisjunctionInferMapping

theorem build_mem (s : Schema) (fuel : Nat) (disc : String) : ∀ (bs : List Ty) (acc mp : List (String × String)),
    build s fuel disc bs acc = .ok (.mapping mp) → ∀ e ∈ mp, e ∈ acc ∨ keyIn s.objects e.2
  | [], acc, mp, h, e, he => by
    simp only [build, Outcome.ok.injEq, Built.mapping.injEq] at h; subst h; exact Or.inl he
  | b :: bs, acc, mp, h, e, he => by
    cases b with
    | ref p tname m =>
      simp only [build] at h
      split at h
      · cases h
      · cases h
      · cases h
      · rename_i fs g gi ms hres
        have hk := resolve_ref_key s fuel p tname m _ hres
        split at h
        · cases h
        · split at h
          · split at h
            · cases h
            · split at h
              · rcases build_mem s fuel disc bs _ mp h e he with h1 | h1
                · rcases mem_mapSet _ _ _ e h1 with h2 | h2
                  · exact Or.inr (by rw [h2]; exact hk)
                  · exact Or.inl h2
                · exact Or.inr h1
              · cases h
          · split at h
            · rcases build_mem s fuel disc bs _ mp h e he with h1 | h1
              · rcases mem_mapSet _ _ _ e h1 with h2 | h2
                · exact Or.inr (by rw [h2]; exact hk)
                · exact Or.inl h2
              · exact Or.inr h1
            · cases h
          · cases h
      · cases h
    | _ => simp [build] at h

end Infer

theorem C_disjunctionInferMapping (S S' : Schemas) (hc : Closed S) (hup : (S.map (·.pkg)).Nodup)
    (h : DisjunctionInferMapping.run S = .ok S') : Closed S' ∧ KeysMono S S' := by
  apply closed_runDisjPass _ S S' hc ?_ h
  intro cur s hs bs i m t' hq ht
  simp only [DisjunctionInferMapping.hookWith] at ht
  split at ht
  · simp only [Outcome.ok.injEq] at ht; subst ht; exact hq
  · split at ht
    · simp only [Outcome.ok.injEq] at ht; subst ht; exact hq
    · split at ht
      · cases ht
      · cases ht
      · rename_i disc _
        have same : ∀ u ∈ Ty.uses s.pkg (.disj bs { i with discriminator := disc } m), resolves S u = true := by
          intro u hu; exact hq u (by simpa [Ty.uses, mappingUses] using hu)
        split at ht
        · simp only [Outcome.ok.injEq] at ht; subst ht; exact same
        · split at ht
          · simp only [Outcome.ok.injEq] at ht; subst ht; exact same
          · split at ht
            · cases ht
            · cases ht
            · simp only [Outcome.ok.injEq] at ht; subst ht; exact same
            · rename_i mp hb
              simp only [Outcome.ok.injEq] at ht; subst ht
              intro u hu
              simp only [Ty.uses, List.mem_append, mappingUses, List.mem_map] at hu
              rcases hu with hu | ⟨kv, hkv, rfl⟩
              · exact hq u (by simp only [Ty.uses, List.mem_append]; exact Or.inl hu)
              · rcases Infer.build_mem s _ disc bs [] mp hb kv hkv with h0 | ⟨e, he, hek⟩
                · simp at h0
                · rw [resolves_iff]
                  exact Or.inr ⟨s, FilterSchemas.locate_unique S hup s hs, e, he, hek⟩

/-! ### passes that only touch enum member names -/

theorem all2_map {α β : Type} (f : α → β) (l : List α) : All2 (fun a b => b = f a) l (l.map f) := by
  induction l with
  | nil => exact .nil
  | cons a as ih => exact .cons rfl ih

/-- objects rewritten one by one, keys kept: enough that names, addresses and uses are kept -/
def ObjSame (o o' : Obj) : Prop :=
  o'.name = o.name ∧ o'.selfPkg = o.selfPkg ∧ o'.selfName = o.selfName ∧ ∀ home, Ty.uses home o'.ty = Ty.uses home o.ty

def SSame (s s' : Schema) : Prop :=
  s'.pkg = s.pkg ∧ s'.entryPoint = s.entryPoint ∧ s'.entryPointType = s.entryPointType ∧
  All2 (fun e e' => e'.1 = e.1 ∧ ObjSame e.2 e'.2) s.objects s'.objects

theorem closed_same (S S' : Schemas) (hc : Closed S) (hall : All2 SSame S S') : Closed S' ∧ KeysMono S S' := by
  have hcl := (closed_iff S).mp hc
  have hm : KeysMono S S' := by
    apply forall2_imp hall
    rintro s s' _ ⟨hp, _, _, ho⟩
    refine ⟨hp, ?_⟩
    rintro k ⟨e, he, rfl⟩
    obtain ⟨e', he', hr⟩ := ho.mem_left he
    exact ⟨e', he', hr.1⟩
  refine ⟨?_, hm⟩
  apply closed_of_mono hc hm
  · intro s' hs' e' he'
    obtain ⟨s, hs, hp, _, _, ho⟩ := hall.mem_right hs'
    obtain ⟨e, he, hk, hn, h1, h2, _⟩ := ho.mem_right he'
    have hself := hcl.1 s hs e he
    rw [selfOK_iff] at hself ⊢
    exact ⟨by rw [hk, hn]; exact hself.1, by rw [h1, hp]; exact hself.2.1, by rw [h2, hn]; exact hself.2.2⟩
  · apply refPositions_forall2 hall (fun u => resolves S u = true ∨ resolves S' u = true)
    rintro s s' hs ⟨hp, hep, hept, ho⟩ r hr
    obtain ⟨hc1, hc2, hc3⟩ := uses_of_closed hc hs
    left
    simp only [schemaUses, entryUses, List.mem_append, List.mem_flatMap, objUses, List.mem_map, hp, hep, hept] at hr
    rcases hr with (hr | ⟨u, hu, rfl⟩) | ⟨e', he', u, hu, rfl⟩
    · by_cases hne : s.entryPoint = ""
      · simp [hne] at hr
      · simp only [hne, if_false, List.mem_singleton, beq_iff_eq] at hr
        subst hr
        exact hc1 hne
    · exact hc2 u hu
    · obtain ⟨e, he, _, _, _, _, huse⟩ := ho.mem_right he'
      rw [huse] at hu
      exact hc3 e he u hu

theorem C_renameNumericEnumValues (S S' : Schemas) (hc : Closed S)
    (h : RenameNumericEnumValues.run S = .ok S') : Closed S' ∧ KeysMono S S' := by
  simp only [RenameNumericEnumValues.run, Outcome.ok.injEq] at h
  subst h
  apply closed_same S _ hc
  apply forall2_imp (all2_map RenameNumericEnumValues.processSchema S)
  rintro s s' _ rfl
  refine ⟨rfl, rfl, rfl, ?_⟩
  simp only [RenameNumericEnumValues.processSchema, mapObjects]
  apply forall2_imp (all2_map _ s.objects)
  rintro e e' _ rfl
  refine ⟨rfl, ?_⟩
  simp only [RenameNumericEnumValues.processObject]
  split
  · exact ⟨rfl, rfl, rfl, fun home => by simp [Ty.uses, *]⟩
  · exact ⟨rfl, rfl, rfl, fun _ => rfl⟩

theorem mapM_all2 {α β : Type} (f : α → Outcome β) : ∀ (l : List α) (r : List β), Outcome.mapM f l = .ok r →
    All2 (fun a b => f a = .ok b) l r
  | [], r, h => by simp only [Outcome.mapM, Outcome.ok.injEq] at h; subst h; exact .nil
  | a :: as, r, h => by
    simp only [Outcome.mapM] at h
    cases hf : f a with
    | ok b =>
      simp only [hf, Outcome.bind_ok] at h
      cases hr : Outcome.mapM f as with
      | ok bs =>
        simp only [hr, Outcome.bind_ok, Outcome.pure_eq, Outcome.ok.injEq] at h; subst h
        exact .cons hf (mapM_all2 f as bs hr)
      | err e => simp [hr] at h
      | panic e => simp [hr] at h
    | err e => simp [hf] at h
    | panic e => simp [hf] at h

namespace PEV
open PrefixEnumValues

theorem processObject_same (o o' : Obj) (h : processObject o = .ok o') : ObjSame o o' := by
  simp only [processObject] at h
  split at h
  · rename_i vs m hty
    split at h
    · simp only [Outcome.ok.injEq] at h; subst h
      exact ⟨rfl, rfl, rfl, fun home => by simp [Ty.uses, hty]⟩
    · cases h
    · cases h
  · simp only [Outcome.ok.injEq] at h; subst h
    exact ⟨rfl, rfl, rfl, fun _ => rfl⟩

theorem processObjects_all2 : ∀ (l r : Objects), processObjects l = .ok r →
    All2 (fun e e' => e'.1 = e.1 ∧ ObjSame e.2 e'.2) l r
  | [], r, h => by simp only [processObjects, Outcome.ok.injEq] at h; subst h; exact .nil
  | (k, o) :: rest, r, h => by
    simp only [processObjects] at h
    cases ho : processObject o with
    | ok o' =>
      simp only [ho] at h
      cases hr : processObjects rest with
      | ok rest' =>
        simp only [hr, Outcome.ok.injEq] at h; subst h
        exact .cons ⟨rfl, processObject_same o o' ho⟩ (processObjects_all2 rest rest' hr)
      | err e => simp [hr] at h
      | panic e => simp [hr] at h
    | err e => simp [ho] at h
    | panic e => simp [ho] at h

end PEV

theorem C_prefixEnumValues (S S' : Schemas) (hc : Closed S)
    (h : PrefixEnumValues.run S = .ok S') : Closed S' ∧ KeysMono S S' := by
  apply closed_same S S' hc
  apply forall2_imp (mapM_all2 _ S S' h)
  intro s s' _ hs
  simp only [PrefixEnumValues.processSchema] at hs
  cases ho : PrefixEnumValues.processObjects s.objects with
  | ok os =>
    simp only [ho, Outcome.ok.injEq] at hs; subst hs
    exact ⟨rfl, rfl, rfl, PEV.processObjects_all2 _ _ ho⟩
  | err e => simp [ho] at hs
  | panic e => simp [ho] at hs

/-! ### SanitizeEnumMemberNames -/

mutual
theorem san_uses (home : String) : ∀ (t t' : Ty), SanitizeEnumMemberNames.vTy t = .ok t' → Ty.uses home t' = Ty.uses home t
  | .scalar .., t', h => by simp only [SanitizeEnumMemberNames.vTy, Outcome.ok.injEq] at h; subst h; rfl
  | .ref .., t', h => by simp only [SanitizeEnumMemberNames.vTy, Outcome.ok.injEq] at h; subst h; rfl
  | .cref .., t', h => by simp only [SanitizeEnumMemberNames.vTy, Outcome.ok.injEq] at h; subst h; rfl
  | .array e m, t', h => by
    simp only [SanitizeEnumMemberNames.vTy] at h
    cases he : SanitizeEnumMemberNames.vTy e with
    | ok e' => simp only [he, Outcome.ok.injEq] at h; subst h; simp [Ty.uses, san_uses home e e' he]
    | err x => simp [he] at h
    | panic x => simp [he] at h
  | .map i v m, t', h => by
    simp only [SanitizeEnumMemberNames.vTy] at h
    cases he : SanitizeEnumMemberNames.vTy v with
    | ok v' => simp only [he, Outcome.ok.injEq] at h; subst h; simp [Ty.uses, san_uses home v v' he]
    | err x => simp [he] at h
    | panic x => simp [he] at h
  | .struct fs g gi m, t', h => by
    simp only [SanitizeEnumMemberNames.vTy] at h
    cases he : SanitizeEnumMemberNames.vFields fs with
    | ok fs' => simp only [he, Outcome.ok.injEq] at h; subst h; simp [Ty.uses, san_usesFields home fs fs' he]
    | err x => simp [he] at h
    | panic x => simp [he] at h
  | .enum vs m, t', h => by
    simp only [SanitizeEnumMemberNames.vTy] at h
    cases he : SanitizeEnumMemberNames.sanitizeMembers vs with
    | ok vs' => simp only [he, Outcome.ok.injEq] at h; subst h; simp [Ty.uses]
    | err x => simp [he] at h
    | panic x => simp [he] at h
  | .disj bs i m, t', h => by
    simp only [SanitizeEnumMemberNames.vTy] at h
    cases he : SanitizeEnumMemberNames.vList bs with
    | ok bs' => simp only [he, Outcome.ok.injEq] at h; subst h; simp [Ty.uses, san_usesList home bs bs' he]
    | err x => simp [he] at h
    | panic x => simp [he] at h
  | .inter bs m, t', h => by
    simp only [SanitizeEnumMemberNames.vTy] at h
    cases he : SanitizeEnumMemberNames.vList bs with
    | ok bs' => simp only [he, Outcome.ok.injEq] at h; subst h; simp [Ty.uses, san_usesList home bs bs' he]
    | err x => simp [he] at h
    | panic x => simp [he] at h
  | .slot .., t', h => by simp only [SanitizeEnumMemberNames.vTy, Outcome.ok.injEq] at h; subst h; rfl
  | .bad .., t', h => by simp only [SanitizeEnumMemberNames.vTy, Outcome.ok.injEq] at h; subst h; rfl
theorem san_usesList (home : String) : ∀ (ts ts' : List Ty), SanitizeEnumMemberNames.vList ts = .ok ts' →
    Ty.usesList home ts' = Ty.usesList home ts
  | [], ts', h => by simp only [SanitizeEnumMemberNames.vList, Outcome.ok.injEq] at h; subst h; rfl
  | t :: ts, ts', h => by
    simp only [SanitizeEnumMemberNames.vList] at h
    cases he : SanitizeEnumMemberNames.vTy t with
    | ok t1 =>
      simp only [he] at h
      cases hl : SanitizeEnumMemberNames.vList ts with
      | ok ts1 =>
        simp only [hl, Outcome.ok.injEq] at h; subst h
        simp [Ty.usesList, san_uses home t t1 he, san_usesList home ts ts1 hl]
      | err x => simp [hl] at h
      | panic x => simp [hl] at h
    | err x => simp [he] at h
    | panic x => simp [he] at h
theorem san_usesFields (home : String) : ∀ (fs fs' : List Field), SanitizeEnumMemberNames.vFields fs = .ok fs' →
    Ty.usesFields home fs' = Ty.usesFields home fs
  | [], fs', h => by simp only [SanitizeEnumMemberNames.vFields, Outcome.ok.injEq] at h; subst h; rfl
  | f :: fs, fs', h => by
    simp only [SanitizeEnumMemberNames.vFields] at h
    cases he : SanitizeEnumMemberNames.vTy f.ty with
    | ok t1 =>
      simp only [he] at h
      cases hl : SanitizeEnumMemberNames.vFields fs with
      | ok fs1 =>
        simp only [hl, Outcome.ok.injEq] at h; subst h
        simp [Ty.usesFields, san_uses home f.ty t1 he, san_usesFields home fs fs1 hl]
      | err x => simp [hl] at h
      | panic x => simp [hl] at h
    | err x => simp [he] at h
    | panic x => simp [he] at h
end

theorem C_sanitizeEnumMemberNames (S S' : Schemas) (hc : Closed S)
    (h : SanitizeEnumMemberNames.run S = .ok S') : Closed S' ∧ KeysMono S S' := by
  apply closed_visitPure (fun _ _ t => SanitizeEnumMemberNames.vTy t) S S' hc ?_ h
  intro cur s _ t t' hq ht
  rw [san_uses s.pkg t t' ht]; exact hq

/-! ### InferEntrypoint (chains of the jsonschema / openapi output languages) -/

theorem infer_mem (s : Schema) : InferEntrypoint.infer s = "" ∨ ∃ kv ∈ s.objects, kv.2.name = InferEntrypoint.infer s := by
  simp only [InferEntrypoint.infer]
  suffices h : ∀ (l : List (String × Obj)) (acc : String), (acc = "" ∨ ∃ kv ∈ s.objects, kv.2.name = acc) →
      (∀ kv ∈ l, kv ∈ s.objects) →
      (l.foldl (fun acc kv => if Cog.Xform.eqFold s.pkg kv.2.name then kv.2.name else acc) acc = "" ∨
       ∃ kv ∈ s.objects, kv.2.name = l.foldl (fun acc kv => if Cog.Xform.eqFold s.pkg kv.2.name then kv.2.name else acc) acc) by
    exact h s.objects "" (Or.inl rfl) (fun _ h => h)
  intro l
  induction l with
  | nil => intro acc h _; simpa using h
  | cons x rest ih =>
    intro acc h hm
    simp only [List.foldl_cons]
    apply ih
    · split
      · exact Or.inr ⟨x, hm x (by simp), rfl⟩
      · exact h
    · intro kv hkv; exact hm kv (List.mem_cons_of_mem _ hkv)

theorem C_inferEntrypoint (S S' : Schemas) (hc : Closed S) (hup : (S.map (·.pkg)).Nodup)
    (h : InferEntrypoint.run S = .ok S') : Closed S' ∧ KeysMono S S' := by
  simp only [InferEntrypoint.run, Outcome.ok.injEq] at h
  subst h
  have hcl := (closed_iff S).mp hc
  have hall := all2_map InferEntrypoint.processSchema S
  have hobj : ∀ s, (InferEntrypoint.processSchema s).objects = s.objects ∧ (InferEntrypoint.processSchema s).pkg = s.pkg := by
    intro s
    simp only [InferEntrypoint.processSchema]
    split
    · exact ⟨rfl, rfl⟩
    · split
      · exact ⟨rfl, rfl⟩
      · split <;> exact ⟨rfl, rfl⟩
  have hm : KeysMono S (S.map InferEntrypoint.processSchema) := by
    apply forall2_imp hall
    rintro s s' _ rfl
    exact ⟨(hobj s).2, fun k hk => by rw [(hobj s).1]; exact hk⟩
  refine ⟨?_, hm⟩
  apply closed_of_mono hc hm
  · intro s' hs' e he
    obtain ⟨s, hs, rfl⟩ := List.mem_map.mp hs'
    rw [(hobj s).1] at he
    have := hcl.1 s hs e he
    simpa [selfOK, (hobj s).2] using this
  · apply refPositions_forall2 hall (fun u => resolves S u = true ∨ resolves (S.map InferEntrypoint.processSchema) u = true)
    rintro s s' hs rfl r hr
    obtain ⟨hc1, hc2, hc3⟩ := uses_of_closed hc hs
    left
    simp only [schemaUses, List.mem_append, List.mem_flatMap, objUses, List.mem_map, (hobj s).1, (hobj s).2] at hr
    rcases hr with hr | ⟨e, he, u, hu, rfl⟩
    · -- entry point: kept as it was, or set to an existing object of this schema
      have old : ∀ r ∈ entryUses s, resolves S r.use = true := by
        intro r hr
        exact ((closed_iff S).mp hc).2 s hs |>.1 r hr
      simp only [InferEntrypoint.processSchema] at hr
      split at hr
      · exact old r hr
      · split at hr
        · exact old r hr
        · rename_i hne1 hne2
          have hloc := FilterSchemas.locate_unique S hup s hs
          rcases infer_mem s with h0 | ⟨kv, hkv, hname⟩
          · simp [h0] at hne2
          · have hself := hcl.1 s hs kv hkv
            rw [selfOK_iff] at hself
            have hkey : kv.1 = InferEntrypoint.infer s := by rw [hself.1, hname]
            have hres : ∀ k, resolves S ⟨k, s.pkg, InferEntrypoint.infer s⟩ = true := by
              intro k
              rw [resolves_iff]
              exact Or.inr ⟨s, hloc, kv, hkv, hkey⟩
            split at hr
            · rename_i o ho
              have hm := rget_some_mem _ _ _ ho
              have hso := hcl.1 s hs _ hm
              rw [selfOK_iff] at hso
              simp only [entryUses, List.mem_append, List.mem_map, Ty.uses, List.mem_singleton] at hr
              rcases hr with hr | ⟨u, hu, rfl⟩
              · split at hr
                · simp at hr
                · simp only [List.mem_singleton] at hr; subst hr; exact hres _
              · subst hu
                simp only
                have : o.selfName = InferEntrypoint.infer s := by rw [hso.2.2, ← hso.1]
                rw [hso.2.1, this]
                exact hres _
            · rename_i hnone
              exfalso
              have : (rget (InferEntrypoint.infer s) s.objects).isSome = true :=
                (rget_isSome_iff _ _).mpr ⟨kv, hkv, hkey⟩
              simp [hnone] at this
    · exact hc3 e he u hu

end Cog.Closed
