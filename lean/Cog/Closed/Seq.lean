/-
  Requirements along a sequence of name-changing transformations: the side condition the property
  grants (`side`), the decidable hypotheses of the partial theorems (`opOK`), and "holds before
  every step" (`seqOK`).  Model-side file so that the driver can evaluate them (`namesok` verb).
-/
import Cog.Closed.PrefixReplace
import Cog.Closed.UnspecDup
import Cog.Closed.Witness
namespace Cog.Closed
open Cog.IR Cog.Xform

/-- the side condition the property grants, per operation -/
def side : NameOp → Schemas → Bool
  | .replace p, S => Replace.side p S
  | _, _ => true

/-- the decidable hypotheses of the partial theorems, per operation -/
def opOK : NameOp → Schemas → Bool
  | .rename p, S => Rename.ok p S
  | .pfx p, S => p.pfx == "" || Prefix.ok S
  | .duplicate p, S => Duplicate.ok p S
  | .unspec, S => Unspec.ok S
  | .replace _, _ => true

/-- a requirement holds before every step of the sequence -/
def seqOK (req : NameOp → Schemas → Bool) : List NameOp → Schemas → Bool
  | [], _ => true
  | t :: ts, S => req t S && match t.run S with
    | .ok S1 => seqOK req ts S1
    | _ => true

end Cog.Closed
